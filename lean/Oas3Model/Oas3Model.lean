-- root of the library: everything `bin/setup` pre-builds
import Oas3Model.Props.C03
import Oas3Model.Props.C04
import Oas3Model.Props.C05
import Oas3Model.Props.C06
import Oas3Model.Props.C07
import Oas3Model.Props.C08
import Oas3Model.Props.C09
import Oas3Model.Props.C10
import Oas3Model.Props.C11
import Oas3Model.Props.C20
import Oas3Model.Props.C12
import Oas3Model.Props.C17
import Oas3Model.Props.C15
import Oas3Model.Props.C13
import Oas3Model.Props.C14
import Oas3Model.Props.C16
import Oas3Model.Props.C18
