import Oas3Model.Model.Naming
import Oas3Model.Model.EventStream
