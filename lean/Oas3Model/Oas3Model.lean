import Oas3Model.Model.Naming
