import Oas3Model.Driver.Util
import Oas3Model.Driver.Naming
import Oas3Model.Driver.Sse
import Oas3Model.Driver.Resp
import Oas3Model.Driver.Path
import Oas3Model.Driver.Client
import Oas3Model.Driver.Server
import Oas3Model.Driver.Interop
import Oas3Model.Driver.Graph
import Oas3Model.Driver.Registry
import Oas3Model.Driver.Cli
import Oas3Model.Driver.Defaults
import Oas3Model.Driver.Enum
import Oas3Model.Driver.Cache
import Oas3Model.Driver.Codec
import Oas3Model.Driver.Compile
import Oas3Model.Driver.DefaultsDoc
import Oas3Model.Driver.Discr
import Oas3Model.Driver.Flags
import Oas3Model.Driver.Inject
import Oas3Model.Driver.ReqInterop
import Oas3Model.Driver.Valid
import Oas3Model.Driver.ValidSites
import Oas3Model.Driver.Lex
import Oas3Model.Driver.NameIndex
import Oas3Model.Driver.Router
open Lean Oas3.Driver

def allOps : List (String × Handler) := List.flatten [
  Oas3.Driver.Naming.ops,
  Oas3.Driver.Sse.ops,
  Oas3.Driver.Resp.ops,
  Oas3.Driver.Path.ops,
  Oas3.Driver.Client.ops,
  Oas3.Driver.Server.ops,
  Oas3.Driver.Interop.ops,
  Oas3.Driver.Graph.ops,
  Oas3.Driver.Registry.ops,
  Oas3.Driver.Cli.ops,
  Oas3.Driver.Defaults.ops,
  Oas3.Driver.Enum.ops,
  Oas3.Driver.Cache.ops,
  Oas3.Driver.Codec.ops,
  Oas3.Driver.Compile.ops,
  Oas3.Driver.DefaultsDoc.ops,
  Oas3.Driver.Discr.ops,
  Oas3.Driver.Flags.ops,
  Oas3.Driver.Inject.ops,
  Oas3.Driver.ReqInterop.ops,
  Oas3.Driver.Valid.ops,
  Oas3.Driver.ValidSites.ops,
  Oas3.Driver.Lex.ops,
  Oas3.Driver.NameIndex.ops,
  Oas3.Driver.Router.ops,
  []]

def handleLine (line : String) : String :=
  match Json.parse line with
  | .error e => (Json.mkObj [("err", Json.str s!"bad-json: {e}")]).compress
  | .ok req =>
    match req.getObjValAs? String "op" with
    | .error _ => (Json.mkObj [("err", "no-op")]).compress
    | .ok op =>
      match allOps.lookup op with
      | none => (Json.mkObj [("err", Json.str s!"bad-op: {op}")]).compress
      | some h =>
        match h req with
        | .ok j => j.compress
        | .error e => (Json.mkObj [("err", Json.str e)]).compress

partial def loop (hin hout : IO.FS.Stream) : IO Unit := do
  let line ← hin.getLine
  if line.isEmpty then return ()
  let t := line.trimAscii.toString
  if !t.isEmpty then hout.putStrLn (handleLine t)
  loop hin hout

def main : IO Unit := do
  let hin ← IO.getStdin
  let hout ← IO.getStdout
  loop hin hout
  hout.flush
