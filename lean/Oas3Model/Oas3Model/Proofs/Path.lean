import Oas3Model.Model.Path
import Oas3Model.Sem.Url
import Oas3Model.Model.Client
/-
Helper lemmas for property C03 (URL path construction).
-/
namespace Oas3.Path

/-! ## Tokenizer -/

/-- recursive form of the concatenation of the parts -/
def renderR : List Part → List Char
  | [] => []
  | .lit l :: r => l ++ renderR r
  | .param n :: r => '{' :: n ++ '}' :: renderR r

/-- a string without braces -/
def BraceFree (l : List Char) : Prop := '{' ∉ l ∧ '}' ∉ l

def WfPart : Part → Prop
  | .lit l => l ≠ [] ∧ '{' ∉ l ∧ '}' ∉ l
  | .param n => n ≠ [] ∧ '{' ∉ n ∧ '}' ∉ n

def isLit : Part → Bool
  | .lit _ => true
  | .param _ => false

/-- no two consecutive literal parts -/
def NoAdjLits : List Part → Prop
  | [] => True
  | [_] => True
  | a :: b :: r => ¬ (isLit a = true ∧ isLit b = true) ∧ NoAdjLits (b :: r)

def headNotLit : List Part → Prop
  | [] => True
  | a :: _ => isLit a = false

theorem tok_render_aux (s : List Char) :
    ∀ acc,
      (∀ ps, tokLit acc s = .ok ps → renderR ps = acc.reverse ++ s) ∧
      (∀ ps, tokParam acc s = .ok ps → renderR ps = '{' :: acc.reverse ++ s) := by
  induction s with
  | nil =>
    intro acc
    refine ⟨?_, ?_⟩
    · intro ps h
      rw [tokLit.eq_1] at h
      cases acc with
      | nil => simp at h; subst h; simp [renderR]
      | cons a t => simp at h; subst h; simp [renderR]
    · intro ps h; simp [tokParam] at h
  | cons c r ih =>
    intro acc
    refine ⟨?_, ?_⟩
    · intro ps h
      rw [tokLit.eq_2] at h
      split at h
      · cases h
      · split at h
        · rename_i hc
          have hc' : c = '{' := by simpa using hc
          subst hc'
          split at h
          · rename_i ps' hp
            have := (ih []).2 ps' hp
            cases h
            cases acc with
            | nil => simpa [renderR] using this
            | cons a t => simp [renderR, this]
          · cases h
        · have := (ih (c :: acc)).1 ps h
          simpa using this
    · intro ps h
      rw [tokParam.eq_2] at h
      split at h
      · rename_i hc
        have hc' : c = '}' := by simpa using hc
        subst hc'
        split at h
        · cases h
        · split at h
          · rename_i ps' hp
            have := (ih []).1 ps' hp
            cases h
            simp [renderR, this]
          · cases h
      · split at h
        · split at h <;> cases h
        · have := (ih (c :: acc)).2 ps h
          simpa using this

theorem tokenize_renderR {s ps} (h : tokenize s = .ok ps) : renderR ps = s := by
  have := (tok_render_aux s []).1 ps h
  simpa using this

theorem noAdj_cons_of_headNotLit {a : Part} {ps : List Part} (h1 : headNotLit ps) (h2 : NoAdjLits ps) :
    NoAdjLits (a :: ps) := by
  cases ps with
  | nil => trivial
  | cons b r =>
    refine ⟨?_, h2⟩
    intro h
    simp [headNotLit] at h1
    simp [h1] at h

theorem noAdj_param_cons {n : List Char} {ps : List Part} (h2 : NoAdjLits ps) :
    NoAdjLits (.param n :: ps) := by
  cases ps with
  | nil => trivial
  | cons b r => exact ⟨by simp [isLit], h2⟩

theorem BraceFree.nil : BraceFree [] := by simp [BraceFree]

theorem BraceFree.cons {c : Char} {l : List Char} (h1 : c ≠ '{') (h2 : c ≠ '}') (h : BraceFree l) :
    BraceFree (c :: l) := by
  simp only [BraceFree, List.mem_cons, not_or] at *
  exact ⟨⟨fun e => h1 e.symm, h.1⟩, ⟨fun e => h2 e.symm, h.2⟩⟩

theorem BraceFree.reverse {l : List Char} (h : BraceFree l) : BraceFree l.reverse := by
  simpa [BraceFree] using h

theorem tok_wf_aux (s : List Char) :
    ∀ acc, BraceFree acc →
      (∀ ps, tokLit acc s = .ok ps → (∀ p ∈ ps, WfPart p) ∧ NoAdjLits ps) ∧
      (∀ ps, tokParam acc s = .ok ps → (∀ p ∈ ps, WfPart p) ∧ NoAdjLits ps ∧ headNotLit ps) := by
  induction s with
  | nil =>
    intro acc hacc
    refine ⟨?_, ?_⟩
    · intro ps h
      rw [tokLit.eq_1] at h
      cases acc with
      | nil => simp at h; subst h; simp [NoAdjLits]
      | cons a t =>
        simp at h; subst h
        refine ⟨?_, trivial⟩
        intro p hp
        simp at hp; subst hp
        have := hacc.reverse
        simp only [BraceFree] at this
        simp only [WfPart]
        exact ⟨by simp, by simpa using this.1, by simpa using this.2⟩
    · intro ps h; simp [tokParam] at h
  | cons c r ih =>
    intro acc hacc
    refine ⟨?_, ?_⟩
    · intro ps h
      rw [tokLit.eq_2] at h
      split at h
      · cases h
      · rename_i hc1
        split at h
        · split at h
          · rename_i ps' hp
            have ⟨w, na, hn⟩ := (ih [] BraceFree.nil).2 ps' hp
            cases h
            cases acc with
            | nil => simpa using ⟨w, na⟩
            | cons a t =>
              simp only [List.isEmpty_cons, Bool.false_eq_true, if_false, List.singleton_append]
              refine ⟨?_, noAdj_cons_of_headNotLit hn na⟩
              intro p hp
              rcases List.mem_cons.1 hp with hp | hp
              · subst hp
                have := hacc.reverse
                simp only [BraceFree] at this
                simp only [WfPart]
                exact ⟨by simp, by simpa using this.1, by simpa using this.2⟩
              · exact w p hp
          · cases h
        · rename_i hc2
          exact (ih (c :: acc) (BraceFree.cons (by simpa using hc2) (by simpa using hc1) hacc)).1 ps h
    · intro ps h
      rw [tokParam.eq_2] at h
      split at h
      · split at h
        · cases h
        · rename_i hne
          split at h
          · rename_i ps' hp
            have ⟨w, na⟩ := (ih [] BraceFree.nil).1 ps' hp
            cases h
            refine ⟨?_, noAdj_param_cons na, by simp [headNotLit, isLit]⟩
            intro p hp
            rcases List.mem_cons.1 hp with hp | hp
            · subst hp
              have := hacc.reverse
              simp only [BraceFree] at this
              simp only [WfPart]
              refine ⟨?_, by simpa using this.1, by simpa using this.2⟩
              intro e
              simp at e
              simp [e] at hne
            · exact w p hp
          · cases h
      · rename_i hc1
        split at h
        · split at h <;> cases h
        · rename_i hc2
          exact (ih (c :: acc) (BraceFree.cons (by simpa using hc2) (by simpa using hc1) hacc)).2 ps h

theorem tokenize_wf {s ps} (h : tokenize s = .ok ps) : (∀ p ∈ ps, WfPart p) ∧ NoAdjLits ps :=
  (tok_wf_aux s [] BraceFree.nil).1 ps h

theorem BraceFree.of_cons {c : Char} {l : List Char} (h : BraceFree (c :: l)) :
    c ≠ '{' ∧ c ≠ '}' ∧ BraceFree l := by
  simp only [BraceFree, List.mem_cons, not_or] at h
  exact ⟨fun e => h.1.1 e.symm, fun e => h.2.1 e.symm, h.1.2, h.2.2⟩

theorem tokLit_append (l : List Char) (h : BraceFree l) (acc s : List Char) :
    tokLit acc (l ++ s) = tokLit (l.reverse ++ acc) s := by
  induction l generalizing acc with
  | nil => rfl
  | cons c t ih =>
    obtain ⟨h1, h2, h3⟩ := h.of_cons
    rw [List.cons_append, tokLit.eq_2]
    simp only [beq_iff_eq, h1, h2, if_false]
    rw [ih h3]
    simp

theorem tokParam_append (l : List Char) (h : BraceFree l) (acc s : List Char) :
    tokParam acc (l ++ s) = tokParam (l.reverse ++ acc) s := by
  induction l generalizing acc with
  | nil => rfl
  | cons c t ih =>
    obtain ⟨h1, h2, h3⟩ := h.of_cons
    rw [List.cons_append, tokParam.eq_2]
    simp only [beq_iff_eq, h1, h2, if_false]
    rw [ih h3]
    simp

theorem tok_complete_aux (ps : List Part) :
    (∀ p ∈ ps, WfPart p) → NoAdjLits ps → ∀ acc, BraceFree acc → (acc ≠ [] → headNotLit ps) →
      tokLit acc (renderR ps) = .ok ((if acc.isEmpty then [] else [.lit acc.reverse]) ++ ps) := by
  induction ps with
  | nil =>
    intro _ _ acc _ _
    simp [renderR, tokLit]
  | cons p rest ih =>
    intro wf na acc hacc hhead
    have wfr : ∀ p ∈ rest, WfPart p := fun q hq => wf q (List.mem_cons_of_mem _ hq)
    have nar : NoAdjLits rest := by
      cases rest with
      | nil => trivial
      | cons b r => exact na.2
    cases p with
    | lit l =>
      have hacc' : acc = [] := by
        apply Classical.byContradiction
        intro hne
        have := hhead hne
        simp [headNotLit, isLit] at this
      subst hacc'
      have wl := wf (.lit l) (List.mem_cons_self)
      simp only [WfPart] at wl
      have bl : BraceFree l := ⟨wl.2.1, wl.2.2⟩
      simp only [renderR]
      rw [tokLit_append l bl]
      have hr : headNotLit rest := by
        cases rest with
        | nil => trivial
        | cons b r =>
          have := na.1
          cases b with
          | lit _ => simp [isLit] at this
          | param _ => simp [headNotLit, isLit]
      rw [ih wfr nar _ (by simpa using bl.reverse) (fun _ => hr)]
      have : l ≠ [] := wl.1
      simp [this]
    | param n =>
      have wn := wf (.param n) (List.mem_cons_self)
      simp only [WfPart] at wn
      have bn : BraceFree n := ⟨wn.2.1, wn.2.2⟩
      simp only [renderR]
      rw [List.cons_append, tokLit.eq_2]
      have e1 : ('{' == '}') = false := by decide
      simp only [e1, Bool.false_eq_true, if_false, beq_self_eq_true, if_true]
      rw [tokParam_append n bn, tokParam.eq_2]
      simp only [beq_self_eq_true, if_true]
      rw [ih wfr nar [] BraceFree.nil (fun h => absurd rfl h)]
      have : n ≠ [] := wn.1
      simp [this]

theorem tokenize_renderR_complete {ps : List Part} (wf : ∀ p ∈ ps, WfPart p) (na : NoAdjLits ps) :
    tokenize (renderR ps) = .ok ps := by
  have := tok_complete_aux ps wf na [] BraceFree.nil (fun h => absurd rfl h)
  simpa [tokenize] using this

/-! ## Format template of a mixed segment -/

theorem formatSafe_append_bf (l : List Char) (h : BraceFree l) (r : List Char) :
    formatSafe (l ++ r) = formatSafe r := by
  induction l with
  | nil => rfl
  | cons c t ih =>
    obtain ⟨h1, h2, h3⟩ := h.of_cons
    rw [List.cons_append, formatSafe.eq_2 _ _ (fun _ e _ => h1 e), ih h3]
    simp [h1, h2]

theorem countPlaceholders_append_bf (l : List Char) (h : BraceFree l) (r : List Char) :
    countPlaceholders (l ++ r) = countPlaceholders r := by
  induction l with
  | nil => rfl
  | cons c t ih =>
    obtain ⟨h1, h2, h3⟩ := h.of_cons
    rw [List.cons_append, countPlaceholders.eq_2 _ _ (fun _ e _ => h1 e), ih h3]

theorem fillFormat_append_bf (l : List Char) (h : BraceFree l) (r : List Char) (ps : List (List Char)) :
    fillFormat (l ++ r) ps = l ++ fillFormat r ps := by
  induction l with
  | nil => rfl
  | cons c t ih =>
    obtain ⟨h1, h2, h3⟩ := h.of_cons
    rw [List.cons_append, fillFormat.eq_3 _ _ _ (fun _ _ _ _ e _ => h1 e), ih h3]
    rfl

theorem WfPart.lit_bf {l : List Char} (h : WfPart (.lit l)) : BraceFree l := ⟨h.2.1, h.2.2⟩

theorem formatOf_safe (decl : List (List Char × List Char)) (ps : List Part)
    (wf : ∀ p ∈ ps, WfPart p) :
    formatSafe (formatOf ps) = true ∧ countPlaceholders (formatOf ps) = (paramsOf decl ps).length := by
  induction ps with
  | nil => exact ⟨rfl, rfl⟩
  | cons p rest ih =>
    have ⟨i1, i2⟩ := ih (fun q hq => wf q (List.mem_cons_of_mem _ hq))
    cases p with
    | lit l =>
      have bl := (wf _ List.mem_cons_self).lit_bf
      simp only [formatOf, paramsOf]
      rw [formatSafe_append_bf l bl, countPlaceholders_append_bf l bl]
      exact ⟨i1, i2⟩
    | param n =>
      simp only [formatOf, paramsOf, formatSafe.eq_1, countPlaceholders.eq_1, List.length_cons]
      exact ⟨i1, by rw [i2]⟩

/-- the axum pattern of the parts: every parameter renamed to its Rust field -/
def axumR (decl : List (List Char × List Char)) : List Part → List Char
  | [] => []
  | .lit l :: r => l ++ axumR decl r
  | .param n :: r => '{' :: fieldOf decl n ++ '}' :: axumR decl r

theorem fillFormat_formatOf (decl : List (List Char × List Char)) (ps : List Part)
    (wf : ∀ p ∈ ps, WfPart p) :
    fillFormat (formatOf ps) (paramsOf decl ps) = axumR decl ps := by
  induction ps with
  | nil => rfl
  | cons p rest ih =>
    have i := ih (fun q hq => wf q (List.mem_cons_of_mem _ hq))
    cases p with
    | lit l =>
      have bl := (wf _ List.mem_cons_self).lit_bf
      simp only [formatOf, paramsOf, axumR]
      rw [fillFormat_append_bf l bl, i]
    | param n =>
      simp only [formatOf, paramsOf, axumR, fillFormat.eq_2, i]

theorem NoAdjLits.tail {a : Part} {ps : List Part} (h : NoAdjLits (a :: ps)) : NoAdjLits ps := by
  cases ps with
  | nil => trivial
  | cons b r => exact h.2

theorem noAdj_iff (ps : List Part) :
    NoAdjLits ps ↔ ∀ pre l1 l2 post, ps ≠ pre ++ .lit l1 :: .lit l2 :: post := by
  constructor
  · intro h pre
    induction pre generalizing ps with
    | nil =>
      intro l1 l2 post e
      subst e
      exact h.1 ⟨rfl, rfl⟩
    | cons x pre' ih =>
      intro l1 l2 post e
      subst e
      exact ih _ h.tail l1 l2 post rfl
  · intro h
    induction ps with
    | nil => trivial
    | cons a t ih =>
      have ht : NoAdjLits t := ih (fun pre l1 l2 post e => h (a :: pre) l1 l2 post (by rw [e]; rfl))
      cases t with
      | nil => trivial
      | cons b r =>
        refine ⟨?_, ht⟩
        rintro ⟨ha, hb⟩
        cases a with
        | param _ => simp [isLit] at ha
        | lit l1 =>
          cases b with
          | param _ => simp [isLit] at hb
          | lit l2 => exact h [] l1 l2 r rfl

theorem paramsOf_ne_nil_of_two (decl : List (List Char × List Char)) {a b : Part} {r : List Part}
    (h : NoAdjLits (a :: b :: r)) : paramsOf decl (a :: b :: r) ≠ [] := by
  cases a with
  | param n => simp [paramsOf]
  | lit l1 =>
    cases b with
    | param n => simp [paramsOf]
    | lit l2 => exact absurd ⟨rfl, rfl⟩ h.1

theorem segmentOfParts_two (decl : List (List Char × List Char)) (seg : List Char) {a b : Part}
    {r : List Part} (h : NoAdjLits (a :: b :: r)) :
    segmentOfParts decl seg (a :: b :: r)
      = .mixed (formatOf (a :: b :: r)) (paramsOf decl (a :: b :: r)) := by
  have hne := paramsOf_ne_nil_of_two decl h
  unfold segmentOfParts
  cases hp : paramsOf decl (a :: b :: r) with
  | nil => exact absurd hp hne
  | cons x xs => simp

theorem axumSegment_segmentOfParts (decl : List (List Char × List Char)) (seg : List Char)
    (ps : List Part) (wf : ∀ p ∈ ps, WfPart p) (na : NoAdjLits ps) :
    axumSegment (segmentOfParts decl seg ps) = axumR decl ps := by
  match ps, wf, na with
  | [], _, _ => rfl
  | [.lit l], _, _ => simp [segmentOfParts, axumSegment, axumR]
  | [.param n], _, _ => simp [segmentOfParts, axumSegment, axumR]
  | a :: b :: r, wf, na =>
    rw [segmentOfParts_two decl seg na]
    simp only [axumSegment]
    exact fillFormat_formatOf decl _ wf

end Oas3.Path

namespace Oas3.Url

/-! ## Percent-encoding layer -/

theorem raw_fact : ∀ n, n < 256 → mustEncode (UInt8.ofNat n) = false →
    (Char.ofNat (UInt8.ofNat n).toNat ≠ '%' ∧
     UInt8.ofNat (Char.ofNat (UInt8.ofNat n).toNat).toNat = UInt8.ofNat n) := by
  decide +kernel

theorem hex_fact : ∀ n, n < 256 →
    hexVal (hexDigit ((UInt8.ofNat n).toNat / 16)) = some ((UInt8.ofNat n).toNat / 16) ∧
    hexVal (hexDigit ((UInt8.ofNat n).toNat % 16)) = some ((UInt8.ofNat n).toNat % 16) ∧
    UInt8.ofNat ((UInt8.ofNat n).toNat / 16 * 16 + (UInt8.ofNat n).toNat % 16) = UInt8.ofNat n := by
  decide +kernel

theorem enc_chars_fact : ∀ n, n < 256 → ∀ c ∈ encodeByte (UInt8.ofNat n),
    c ≠ '/' ∧ c ≠ '?' ∧ c ≠ '#' ∧ c ≠ '\\' ∧ c.toNat < 128 := by
  decide +kernel

theorem byte_cases (P : UInt8 → Prop) (h : ∀ n, n < 256 → P (UInt8.ofNat n)) (b : UInt8) : P b := by
  have := h b.toNat (UInt8.toNat_lt b)
  rwa [UInt8.ofNat_toNat] at this

theorem raw_byte (b : UInt8) (h : mustEncode b = false) :
    Char.ofNat b.toNat ≠ '%' ∧ UInt8.ofNat (Char.ofNat b.toNat).toNat = b :=
  byte_cases (fun b => mustEncode b = false →
    (Char.ofNat b.toNat ≠ '%' ∧ UInt8.ofNat (Char.ofNat b.toNat).toNat = b)) raw_fact b h

theorem hex_byte (b : UInt8) :
    hexVal (hexDigit (b.toNat / 16)) = some (b.toNat / 16) ∧
    hexVal (hexDigit (b.toNat % 16)) = some (b.toNat % 16) ∧
    UInt8.ofNat (b.toNat / 16 * 16 + b.toNat % 16) = b :=
  byte_cases (fun b => hexVal (hexDigit (b.toNat / 16)) = some (b.toNat / 16) ∧
    hexVal (hexDigit (b.toNat % 16)) = some (b.toNat % 16) ∧
    UInt8.ofNat (b.toNat / 16 * 16 + b.toNat % 16) = b) hex_fact b

theorem hexVal_hexDigit : ∀ n, n < 16 → hexVal (hexDigit n) = some n := by
  decide +kernel

theorem encodeByte_chars (b : UInt8) : ∀ c ∈ encodeByte b,
    c ≠ '/' ∧ c ≠ '?' ∧ c ≠ '#' ∧ c ≠ '\\' ∧ c.toNat < 128 :=
  byte_cases (fun b => ∀ c ∈ encodeByte b,
    c ≠ '/' ∧ c ≠ '?' ∧ c ≠ '#' ∧ c ≠ '\\' ∧ c.toNat < 128) enc_chars_fact b

/-- decoding consumes exactly the encoding of one byte -/
theorem pctDecode_encodeByte (b : UInt8) (r : List Char) :
    pctDecode (encodeByte b ++ r) = b :: pctDecode r := by
  unfold encodeByte
  cases hm : mustEncode b with
  | true =>
    obtain ⟨h1, h2, h3⟩ := hex_byte b
    simp only [if_true, List.cons_append, List.nil_append]
    rw [pctDecode.eq_1, h1, h2]
    simp only [h3]
  | false =>
    obtain ⟨h1, h2⟩ := raw_byte b hm
    simp only [Bool.false_eq_true, if_false, List.cons_append, List.nil_append]
    rw [pctDecode.eq_2 _ _ (fun _ _ _ e _ => h1 e), h2]

theorem encodeBytes_cons (b : UInt8) (bs : List UInt8) :
    encodeBytes (b :: bs) = encodeByte b ++ encodeBytes bs := by
  simp [encodeBytes]

theorem pctDecode_encodeBytes (bs : List UInt8) : pctDecode (encodeBytes bs) = bs := by
  induction bs with
  | nil => rfl
  | cons b t ih => rw [encodeBytes_cons, pctDecode_encodeByte, ih]

theorem encodeBytes_chars (bs : List UInt8) : ∀ c ∈ encodeBytes bs,
    c ≠ '/' ∧ c ≠ '?' ∧ c ≠ '#' ∧ c ≠ '\\' ∧ c.toNat < 128 := by
  intro c hc
  obtain ⟨b, _, hb⟩ := List.mem_flatMap.1 hc
  exact encodeByte_chars b c hb

theorem encodeBytes_injective {a b : List UInt8} (h : encodeBytes a = encodeBytes b) : a = b := by
  rw [← pctDecode_encodeBytes a, ← pctDecode_encodeBytes b, h]

theorem encodeBytes_eq_dot {seg : List UInt8} (h : encodeBytes seg = ['.']) : seg = [0x2E] :=
  encodeBytes_injective (b := [0x2E]) (h.trans (by decide +kernel))

theorem encodeBytes_eq_dotdot {seg : List UInt8} (h : encodeBytes seg = ['.', '.']) :
    seg = [0x2E, 0x2E] :=
  encodeBytes_injective (b := [0x2E, 0x2E]) (h.trans (by decide +kernel))

theorem push_appends (path : List Char) (seg : List UInt8)
    (h1 : seg ≠ [0x2E]) (h2 : seg ≠ [0x2E, 0x2E]) (h3 : ∀ b ∈ seg, isTabNl b = false) :
    push path seg = (if path.length > 1 then path ++ ['/'] else path) ++ encodeBytes seg := by
  have hf : seg.filter (fun b => !isTabNl b) = seg :=
    List.filter_eq_self.2 (fun b hb => by simp [h3 b hb])
  have e1 : encodeBytes seg ≠ ['.'] := fun e => h1 (encodeBytes_eq_dot e)
  have e2 : encodeBytes seg ≠ ['.', '.'] := fun e => h2 (encodeBytes_eq_dotdot e)
  unfold push
  simp only [hf]
  simp [h1, h2, e1, e2]

theorem encodeBytes_ne_nil {seg : List UInt8} (h : seg ≠ []) : encodeBytes seg ≠ [] := by
  cases seg with
  | nil => exact absurd rfl h
  | cons b t =>
    rw [encodeBytes_cons]
    unfold encodeByte
    split <;> simp

/-- a value on which `push` behaves as a plain append -/
def Good (seg : List UInt8) : Prop :=
  seg ≠ [] ∧ seg ≠ [0x2E] ∧ seg ≠ [0x2E, 0x2E] ∧ ∀ b ∈ seg, isTabNl b = false

theorem foldl_push_long (segs : List (List UInt8)) (hg : ∀ s ∈ segs, Good s) :
    ∀ path : List Char, path.length > 1 →
      segs.foldl push path = path ++ segs.flatMap (fun s => '/' :: encodeBytes s) := by
  induction segs with
  | nil => intro path _; simp
  | cons s t ih =>
    intro path hl
    obtain ⟨_, g2, g3, g4⟩ := hg s List.mem_cons_self
    rw [List.foldl_cons, push_appends path s g2 g3 g4, if_pos hl,
      ih (fun x hx => hg x (List.mem_cons_of_mem _ hx)) _ (by simp; omega)]
    simp

theorem foldl_push_root (segs : List (List UInt8)) (hg : ∀ s ∈ segs, Good s) :
    segs.foldl push ['/'] =
      if segs = [] then ['/'] else segs.flatMap (fun s => '/' :: encodeBytes s) := by
  cases segs with
  | nil => rfl
  | cons s t =>
    obtain ⟨g1, g2, g3, g4⟩ := hg s List.mem_cons_self
    have hne := encodeBytes_ne_nil g1
    rw [List.foldl_cons, push_appends ['/'] s g2 g3 g4,
      foldl_push_long t (fun x hx => hg x (List.mem_cons_of_mem _ hx))]
    · simp
    · cases he : encodeBytes s with
      | nil => exact absurd he hne
      | cons c r => simp

end Oas3.Url

namespace Oas3.Client

/-! ## `collect_parameters` merge -/

/-- the identity of a parameter: (location, name) -/
def key (p : Param) : Loc × List Char := (p.loc, p.name)

/-- one step of the merge: `p` removes every earlier parameter with its key, then is appended -/
def step (acc : List Param) (p : Param) : List Param :=
  acc.filter (fun q => q.loc != p.loc || q.name != p.name) ++ [p]

theorem collectParams_eq (ps : List Param) :
    collectParams ps = (ps.filter (!·.pathLevel)).foldl step (ps.filter (·.pathLevel)) := rfl

theorem keep_iff (q p : Param) : (q.loc != p.loc || q.name != p.name) = true ↔ key q ≠ key p := by
  simp only [key, ne_eq, Prod.mk.injEq, Bool.or_eq_true, bne_iff_ne]
  constructor
  · rintro (h | h) ⟨a, b⟩
    · exact h a
    · exact h b
  · intro h
    by_cases a : q.loc = p.loc
    · exact Or.inr (fun b => h ⟨a, b⟩)
    · exact Or.inl a

theorem mem_step {acc : List Param} {p q : Param} :
    q ∈ step acc p ↔ (q ∈ acc ∧ key q ≠ key p) ∨ q = p := by
  simp only [step, List.mem_append, List.mem_filter, keep_iff, List.mem_singleton]

/-- membership in the result of the merge fold -/
theorem mem_foldl_step (ops : List Param) : ∀ (init : List Param) (q : Param),
    q ∈ ops.foldl step init ↔
      (q ∈ init ∧ ∀ p ∈ ops, key p ≠ key q) ∨
      (∃ pre post, ops = pre ++ q :: post ∧ ∀ p ∈ post, key p ≠ key q) := by
  induction ops with
  | nil =>
    intro init q
    simp
  | cons a t ih =>
    intro init q
    rw [List.foldl_cons, ih, mem_step]
    constructor
    · rintro (⟨(⟨h1, h2⟩ | h1), h3⟩ | ⟨pre, post, h1, h2⟩)
      · left
        refine ⟨h1, ?_⟩
        intro p hp
        rcases List.mem_cons.1 hp with hp | hp
        · subst hp; exact fun e => h2 e.symm
        · exact h3 p hp
      · right
        subst h1
        exact ⟨[], t, rfl, h3⟩
      · right
        subst h1
        exact ⟨a :: pre, post, rfl, h2⟩
    · rintro (⟨h1, h2⟩ | ⟨pre, post, h1, h2⟩)
      · left
        exact ⟨Or.inl ⟨h1, fun e => h2 a List.mem_cons_self e.symm⟩,
          fun p hp => h2 p (List.mem_cons_of_mem _ hp)⟩
      · cases pre with
        | nil =>
          simp only [List.nil_append, List.cons.injEq] at h1
          obtain ⟨h1a, h1b⟩ := h1
          subst h1a; subst h1b
          left
          exact ⟨Or.inr rfl, h2⟩
        | cons x pre' =>
          simp only [List.cons_append, List.cons.injEq] at h1
          obtain ⟨h1a, h1b⟩ := h1
          right
          exact ⟨pre', post, h1b, h2⟩

theorem nodup_keys_step {acc : List Param} (p : Param) (h : (acc.map key).Nodup) :
    ((step acc p).map key).Nodup := by
  unfold step
  rw [List.map_append, List.nodup_append]
  refine ⟨(List.filter_sublist.map key).nodup h, by simp, ?_⟩
  intro a ha b hb
  simp only [List.map_cons, List.map_nil, List.mem_singleton] at hb
  subst hb
  obtain ⟨q, hq, rfl⟩ := List.mem_map.1 ha
  exact (keep_iff q p).1 (List.mem_filter.1 hq).2

theorem nodup_keys_foldl (ops : List Param) : ∀ init : List Param, (init.map key).Nodup →
    ((ops.foldl step init).map key).Nodup := by
  induction ops with
  | nil => intro init h; exact h
  | cons a t ih => intro init h; exact ih _ (nodup_keys_step a h)

end Oas3.Client
