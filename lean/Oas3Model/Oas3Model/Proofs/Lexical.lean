import Oas3Model.Model.Lexical
/-! Lemmas about the lexical carriers (C19). Core Lean only. -/
namespace Oas3.Lex
set_option linter.unusedSimpArgs false
set_option linter.unusedVariables false

/-! ### `escape_string_literal` is one pass -/

theorem replaceChar_nil (c w) : replaceChar c w [] = [] := rfl

theorem replaceChar_cons (c w x s) : replaceChar c w (x :: s) = (if x = c then w else [x]) ++ replaceChar c w s := by
  simp [replaceChar]

theorem replaceChar_append (c w a b) : replaceChar c w (a ++ b) = replaceChar c w a ++ replaceChar c w b := by
  simp [replaceChar]

theorem escape_one_pass (s : List Char) : escapeStringLiteral s = s.flatMap escOne := by
  induction s with
  | nil => rfl
  | cons x s ih =>
    unfold escapeStringLiteral at ih ⊢
    rw [List.flatMap_cons, ← ih]
    by_cases h1 : x = '\\'
    · subst h1; simp [replaceChar_cons, replaceChar_append, escOne, replaceChar_nil]
    · by_cases h2 : x = '"'
      · subst h2; simp [replaceChar_cons, replaceChar_append, escOne, replaceChar_nil]
      · by_cases h3 : x = '\n'
        · subst h3; simp [replaceChar_cons, replaceChar_append, escOne, replaceChar_nil]
        · by_cases h4 : x = '\r'
          · subst h4; simp [replaceChar_cons, replaceChar_append, escOne, replaceChar_nil]
          · by_cases h5 : x = '\t'
            · subst h5; simp [replaceChar_cons, replaceChar_append, escOne, replaceChar_nil]
            · simp [replaceChar_cons, replaceChar_append, escOne, replaceChar_nil, h1, h2, h3, h4, h5]

/-! ### the lexer reads an escaped text back -/

theorem lex_escOne (c : Char) (acc t : List Char) :
    lexS .norm acc (escOne c ++ t) = lexS .norm (c :: acc) t := by
  unfold escOne
  by_cases h1 : c = '\\'
  · subst h1; simp [lexS]
  · by_cases h2 : c = '"'
    · subst h2; simp [lexS]
    · by_cases h3 : c = '\n'
      · subst h3; simp [lexS]
      · by_cases h4 : c = '\r'
        · subst h4; simp [lexS]
        · by_cases h5 : c = '\t'
          · subst h5; simp [lexS]
          · simp [h1, h2, h3, h4, h5, lexS]

theorem lex_flatMap_escOne (s acc rest : List Char) :
    lexS .norm acc (s.flatMap escOne ++ '"' :: rest) = some (acc.reverse ++ s, rest) := by
  induction s generalizing acc with
  | nil => simp [lexS]
  | cons c s ih =>
    rw [List.flatMap_cons, List.append_assoc, lex_escOne, ih]
    simp

/-! ### lines -/

theorem finishLine_no_nl (cur : List Char) (h : '\n' ∉ cur) : '\n' ∉ finishLine cur := by
  unfold finishLine
  split
  · intro hm; apply h; simp at hm ⊢; exact hm
  · simpa using h

theorem linesAux_no_nl (cur s : List Char) (h : '\n' ∉ cur) : ∀ l ∈ linesAux cur s, '\n' ∉ l := by
  induction s generalizing cur with
  | nil =>
    intro l hl
    unfold linesAux at hl
    split at hl
    · simp at hl
    · simp at hl; subst hl; simpa using h
  | cons c r ih =>
    intro l hl
    unfold linesAux at hl
    split at hl
    · rcases List.mem_cons.mp hl with rfl | hl'
      · exact finishLine_no_nl cur h
      · exact ih [] (by simp) l hl'
    · rename_i hc
      exact ih (c :: cur) (by simp [List.mem_cons]; exact ⟨fun e => hc e.symm, h⟩) l hl

theorem lines_no_nl (s : List Char) : ∀ l ∈ lines s, '\n' ∉ l := linesAux_no_nl [] s (by simp)

/-! ### split at carriage returns -/

theorem splitCrAux_clean (cur s : List Char) (hc : '\r' ∉ cur) :
    ∀ l ∈ splitCrAux cur s, '\r' ∉ l := by
  induction s generalizing cur with
  | nil => intro l hl; simp [splitCrAux] at hl; subst hl; simpa using hc
  | cons c r ih =>
    intro l hl
    unfold splitCrAux at hl
    split at hl
    · rcases List.mem_cons.mp hl with rfl | hl'
      · simpa using hc
      · exact ih [] (by simp) l hl'
    · rename_i hne
      exact ih (c :: cur) (by simp [List.mem_cons]; exact ⟨fun e => hne e.symm, hc⟩) l hl

theorem splitCr_no_cr (s : List Char) : ∀ l ∈ splitCr s, '\r' ∉ l := splitCrAux_clean [] s (by simp)

theorem splitCrAux_sub (x : Char) (cur s : List Char) (hc : x ∉ cur) (hs : x ∉ s) :
    ∀ l ∈ splitCrAux cur s, x ∉ l := by
  induction s generalizing cur with
  | nil => intro l hl; simp [splitCrAux] at hl; subst hl; simpa using hc
  | cons c r ih =>
    have hx : x ≠ c := fun e => hs (by simp [e])
    have hr : x ∉ r := fun e => hs (by simp [e])
    intro l hl
    unfold splitCrAux at hl
    split at hl
    · rcases List.mem_cons.mp hl with rfl | hl'
      · simpa using hc
      · exact ih [] (by simp) hr l hl'
    · exact ih (c :: cur) (by simp [List.mem_cons]; exact ⟨hx, hc⟩) hr l hl

/-- splitting removes nothing else: a character absent from the line is absent from every part -/
theorem splitCr_sub (x : Char) (s : List Char) (hs : x ∉ s) : ∀ l ∈ splitCr s, x ∉ l :=
  splitCrAux_sub x [] s (by simp) hs

/-- joining the parts with the carriage returns gives the line back: nothing is lost or reordered -/
def joinCr : List (List Char) → List Char
  | [] => []
  | [l] => l
  | l :: ls => l ++ '\r' :: joinCr ls

theorem splitCrAux_ne_nil (cur s) : splitCrAux cur s ≠ [] := by
  induction s generalizing cur with
  | nil => simp [splitCrAux]
  | cons c r ih => unfold splitCrAux; split <;> simp [ih]

theorem joinCr_cons (l : List Char) (ls : List (List Char)) (h : ls ≠ []) : joinCr (l :: ls) = l ++ '\r' :: joinCr ls := by
  cases ls with
  | nil => exact absurd rfl h
  | cons a b => rfl

theorem joinCr_splitCrAux (cur s : List Char) : joinCr (splitCrAux cur s) = cur.reverse ++ s := by
  induction s generalizing cur with
  | nil => simp [splitCrAux, joinCr]
  | cons c r ih =>
    unfold splitCrAux
    split
    · rename_i h; subst h
      rw [joinCr_cons _ _ (splitCrAux_ne_nil _ _), ih]; simp
    · rw [ih]; simp

theorem joinCr_splitCr (s : List Char) : joinCr (splitCr s) = s := by
  simpa [splitCr] using joinCr_splitCrAux [] s

/-- a CR-free line is one part -/
theorem splitCrAux_of_clean (cur s : List Char) (h : '\r' ∉ s) : splitCrAux cur s = [cur.reverse ++ s] := by
  induction s generalizing cur with
  | nil => simp [splitCrAux]
  | cons c r ih =>
    have hc : c ≠ '\r' := fun e => h (by simp [e])
    have hr : '\r' ∉ r := fun e => h (by simp [e])
    unfold splitCrAux
    simp [hc, ih _ hr]

theorem splitCr_of_clean (s : List Char) (h : '\r' ∉ s) : splitCr s = [s] := by
  simpa [splitCr] using splitCrAux_of_clean [] s h

/-! ### `lines` loses nothing of a CR-free text but the line ends -/

theorem finishLine_of_clean (cur : List Char) (h : '\r' ∉ cur) : finishLine cur = cur.reverse := by
  unfold finishLine
  split
  · exact absurd (by simp) h
  · rfl

/-- the text has an unfinished last line: it is non-empty (or `b`: something is pending) and does not end in `\n` -/
def openEnd : Bool → List Char → Bool
  | b, [] => b
  | _, c :: r => if c = '\n' then openEnd false r else openEnd true r

theorem unlines_linesAux (cur s : List Char) (hc : '\r' ∉ cur) (hs : '\r' ∉ s) :
    unlines (linesAux cur s) = cur.reverse ++ s ++ (if openEnd (!cur.isEmpty) s then ['\n'] else []) := by
  induction s generalizing cur with
  | nil =>
    unfold linesAux
    cases cur with
    | nil => simp [unlines, openEnd]
    | cons a t => simp [unlines, openEnd]
  | cons c r ih =>
    have hcr : c ≠ '\r' := fun e => hs (by simp [e])
    have hr : '\r' ∉ r := fun e => hs (by simp [e])
    unfold linesAux
    split
    · rename_i hnl; subst hnl
      rw [show unlines (finishLine cur :: linesAux [] r) = finishLine cur ++ ['\n'] ++ unlines (linesAux [] r) by simp [unlines]]
      rw [finishLine_of_clean cur hc, ih [] (by simp) hr]
      simp [openEnd]
    · rename_i hne
      have := ih (c :: cur) (by simp [List.mem_cons]; exact ⟨fun e => hcr e.symm, hc⟩) hr
      simp [openEnd, hne] at this ⊢
      exact this

/-! ### hexadecimal digits -/

theorem hexVal_hexDigit : ∀ d : Fin 16, hexVal (hexDigit d.val) = some d.val := by decide

theorem hexDigit_ne_close : ∀ d : Fin 16, hexDigit d.val ≠ '}' := by decide

theorem hexVal_hexDigit' (d : Nat) (h : d < 16) : hexVal (hexDigit d) = some d := hexVal_hexDigit ⟨d, h⟩
theorem hexDigit_ne_close' (d : Nat) (h : d < 16) : hexDigit d ≠ '}' := hexDigit_ne_close ⟨d, h⟩

/-- every character of a hex rendering is a digit, and not `}` -/
def allHex (ds : List Char) : Prop := ∀ c ∈ ds, (∃ d, d < 16 ∧ hexVal c = some d) ∧ c ≠ '}'

theorem hexL_allHex (f n : Nat) : allHex (hexL f n) := by
  induction f generalizing n with
  | zero =>
    intro c hc; simp [hexL] at hc; subst hc
    exact ⟨⟨n % 16, Nat.mod_lt _ (by decide), hexVal_hexDigit' _ (Nat.mod_lt _ (by decide))⟩, hexDigit_ne_close' _ (Nat.mod_lt _ (by decide))⟩
  | succ f ih =>
    intro c hc
    unfold hexL at hc
    split at hc
    · simp at hc; subst hc
      exact ⟨⟨n % 16, Nat.mod_lt _ (by decide), hexVal_hexDigit' _ (Nat.mod_lt _ (by decide))⟩, hexDigit_ne_close' _ (Nat.mod_lt _ (by decide))⟩
    · rcases List.mem_append.mp hc with h | h
      · exact ih _ c h
      · simp at h; subst h
        exact ⟨⟨n % 16, Nat.mod_lt _ (by decide), hexVal_hexDigit' _ (Nat.mod_lt _ (by decide))⟩, hexDigit_ne_close' _ (Nat.mod_lt _ (by decide))⟩

/-- Horner value of a digit list -/
def hornerStep (v : Nat) (c : Char) : Nat := v * 16 + (hexVal c).getD 0

theorem horner_hexL (f n : Nat) (h : n < 16 ^ (f + 1)) : (hexL f n).foldl hornerStep 0 = n := by
  induction f generalizing n with
  | zero =>
    have : n < 16 := by simpa using h
    simp [hexL, hornerStep, Nat.mod_eq_of_lt this, hexVal_hexDigit' n this]
  | succ f ih =>
    unfold hexL
    split
    · rename_i h0
      have : n < 16 := by
        rcases Nat.lt_or_ge n 16 with h' | h'
        · exact h'
        · have := Nat.div_pos h' (by decide : 0 < 16); omega
      simp [hornerStep, Nat.mod_eq_of_lt this, hexVal_hexDigit' n this]
    · have hlt : n / 16 < 16 ^ (f + 1) := by
        rw [Nat.div_lt_iff_lt_mul (by decide)]
        calc n < 16 ^ (f + 1 + 1) := h
          _ = 16 ^ (f + 1) * 16 := by rw [Nat.pow_succ]
      rw [List.foldl_append, ih _ hlt]
      simp [hornerStep, hexVal_hexDigit' (n % 16) (Nat.mod_lt _ (by decide))]
      omega

theorem hexL_length (f n k : Nat) (hk : 1 ≤ k) (h : n < 16 ^ k) : (hexL f n).length ≤ k := by
  induction f generalizing n k with
  | zero => simpa [hexL] using hk
  | succ f ih =>
    unfold hexL
    split
    · simpa using hk
    · rename_i hne
      have h16 : 16 ≤ n := by
        rcases Nat.lt_or_ge n 16 with h' | h'
        · exact absurd (Nat.div_eq_of_lt h') hne
        · exact h'
      have hk2 : 2 ≤ k := by
        rcases Nat.lt_or_ge k 2 with h' | h'
        · have : k = 1 := by omega
          subst this; simp at h; omega
        · exact h'
      have hlt : n / 16 < 16 ^ (k - 1) := by
        rw [Nat.div_lt_iff_lt_mul (by decide)]
        calc n < 16 ^ k := h
          _ = 16 ^ (k - 1 + 1) := by rw [Nat.sub_add_cancel (by omega)]
          _ = 16 ^ (k - 1) * 16 := by rw [Nat.pow_succ]
      have := ih (n / 16) (k - 1) (by omega) hlt
      simp; omega

theorem lex_uh_digit (v k d : Nat) (c : Char) (hv : hexVal c = some d) (hne : c ≠ '}') (hk : k < 6) (acc t : List Char) :
    lexS (.uh v k) acc (c :: t) = lexS (.uh (v * 16 + d) (k + 1)) acc t := by
  simp [lexS, hne, hv, hk]

/-- the lexer consumes a run of hex digits -/
theorem lex_uh_run (ds : List Char) (hd : allHex ds) (v k : Nat) (acc t : List Char) (hk : k + ds.length ≤ 6) :
    lexS (.uh v k) acc (ds ++ t) = lexS (.uh (ds.foldl hornerStep v) (k + ds.length)) acc t := by
  induction ds generalizing v k with
  | nil => simp
  | cons c r ih =>
    obtain ⟨⟨d, hd16, hv⟩, hne⟩ := hd c (by simp)
    have hr : allHex r := fun x hx => hd x (by simp [hx])
    have hk' : k < 6 := by simp at hk; omega
    rw [List.cons_append, lex_uh_digit v k d c hv hne hk']
    rw [ih hr (v * 16 + d) (k + 1) (by simp at hk ⊢; omega)]
    have e : k + 1 + r.length = k + (c :: r).length := by simp; omega
    simp [hornerStep, hv, e]

theorem char_lt_16_6 (c : Char) : c.toNat < 16 ^ 6 := by
  have h := c.valid
  have e : c.toNat = c.val.toNat := rfl
  rw [e]
  rcases h with h | ⟨_, h⟩ <;> omega

theorem hex_length_char (c : Char) : (hex c.toNat).length ≤ 6 := hexL_length 7 _ 6 (by decide) (char_lt_16_6 c)

theorem hex_ne_nil (n : Nat) : 1 ≤ (hex n).length := by
  unfold hex hexL; split <;> simp

theorem lex_uh_close (v k : Nat) (acc t : List Char) :
    lexS (.uh v k) acc ('}' :: t) = if k = 0 then none else if v.isValidChar then lexS .norm (Char.ofNat v :: acc) t else none := by
  simp [lexS]

/-- `\u{…}` with the code point of any character is read back as that character -/
theorem lex_unicode_escape (c : Char) (acc t : List Char) :
    lexS .norm acc ('\\' :: 'u' :: '{' :: (hex c.toNat ++ '}' :: t)) = lexS .norm (c :: acc) t := by
  have h1 : lexS .norm acc ('\\' :: 'u' :: '{' :: (hex c.toNat ++ '}' :: t)) = lexS (.uh 0 0) acc (hex c.toNat ++ '}' :: t) := by
    simp [lexS]
  rw [h1, lex_uh_run (hex c.toNat) (hexL_allHex 7 _) 0 0 acc ('}' :: t) (by have := hex_length_char c; omega)]
  have hv : (hex c.toNat).foldl hornerStep 0 = c.toNat :=
    horner_hexL 7 c.toNat (Nat.lt_trans (char_lt_16_6 c) (by decide))
  rw [hv]
  have hk : 0 + (hex c.toNat).length ≠ 0 := by have := hex_ne_nil c.toNat; omega
  have : c.toNat.isValidChar := c.valid
  rw [lex_uh_close]
  have hk2 : ¬ (0 + (hex c.toNat).length = 0) := hk
  simp only [hk2, if_false, this, if_true, Char.ofNat_toNat]

/-! ### `Literal::string` is read back by the lexer -/

theorem lex_escDebug (pr : Char → Bool) (c : Char) (hq : c ≠ '\'') (acc t : List Char) :
    lexS .norm acc (escDebug pr c ++ t) = lexS .norm (c :: acc) t := by
  unfold escDebug
  by_cases h1 : c = '\t'
  · subst h1; simp [lexS]
  · by_cases h2 : c = '\r'
    · subst h2; simp [lexS]
    · by_cases h3 : c = '\n'
      · subst h3; simp [lexS]
      · by_cases h4 : c = '\\'
        · subst h4; simp [lexS]
        · by_cases h5 : c = '"'
          · subst h5; simp [lexS]
          · simp only [h1, h2, h3, h4, h5, hq, if_false]
            by_cases hp : pr c = true
            · simp [hp, lexS, h2, h4, h5]
            · simp only [hp]
              simpa using lex_unicode_escape c acc t

theorem lex_litBody (pr : Char → Bool) (s acc rest : List Char) :
    lexS .norm acc (litBody pr s ++ '"' :: rest) = some (acc.reverse ++ s, rest) := by
  induction s generalizing acc with
  | nil => simp [litBody, lexS]
  | cons c r ih =>
    unfold litBody
    rw [List.append_assoc]
    by_cases h0 : c = Char.ofNat 0
    · subst h0
      simp only [if_true]
      have e1 : ∀ t, lexS .norm acc (['\\', 'x', '0', '0'] ++ t) = lexS .norm (Char.ofNat 0 :: acc) t := by
        intro t; simp [lexS, hexVal]
      have e2 : ∀ t, lexS .norm acc (['\\', '0'] ++ t) = lexS .norm (Char.ofNat 0 :: acc) t := by
        intro t; simp [lexS]
      cases r with
      | nil => rw [e2, ih]; simp
      | cons d r' =>
        simp only
        split
        · rw [e1, ih]; simp
        · rw [e2, ih]; simp
    · simp only [h0, if_false]
      by_cases hq : c = '\''
      · subst hq
        simp only [if_true]
        simp [lexS, ih]
      · simp only [hq, if_false]
        rw [lex_escDebug pr c hq, ih]; simp

/-! ### doc lines -/

theorem dropTrailingSpacesRev_sub (x : Char) (l : List Char) (h : x ∉ l) : x ∉ dropTrailingSpacesRev l := by
  induction l with
  | nil => simpa [dropTrailingSpacesRev] using h
  | cons c r ih =>
    unfold dropTrailingSpacesRev
    split
    · rename_i heq
      injection heq with h1 h2; subst h2
      exact ih (fun e => h (by simp [e]))
    · exact h

theorem trimTrailingSpaces_sub (x : Char) (l : List Char) (h : x ∉ l) : x ∉ trimTrailingSpaces l := by
  unfold trimTrailingSpaces
  have := dropTrailingSpacesRev_sub x l.reverse (by simpa using h)
  simpa using this

/-- a text without line feed and carriage return, followed by a line end, is one doc line with exactly that text -/
theorem lexDocLine_clean (l rest : List Char) (hn : '\n' ∉ l) (hc : '\r' ∉ l) :
    lexDocLine (l ++ '\n' :: rest) = some (l, rest) := by
  induction l with
  | nil => simp [lexDocLine]
  | cons c r ih =>
    have h1 : c ≠ '\n' := fun e => hn (by simp [e])
    have h2 : c ≠ '\r' := fun e => hc (by simp [e])
    have := ih (fun e => hn (by simp [e])) (fun e => hc (by simp [e]))
    simp [lexDocLine, h1, h2, this]

/-- a carriage return that is not the last character of the line is fatal -/
theorem lexDocLine_bare_cr (a b rest : List Char) (hn : '\n' ∉ a) (hc : '\r' ∉ a) (hb : b ≠ []) (hbn : '\n' ∉ b) :
    lexDocLine (a ++ '\r' :: (b ++ '\n' :: rest)) = none := by
  induction a with
  | nil =>
    cases b with
    | nil => exact absurd rfl hb
    | cons x y =>
      have : x ≠ '\n' := fun e => hbn (by simp [e])
      simp only [List.nil_append, lexDocLine, List.cons_append]
      simp only [show ('\r' = '\n') = False by decide, if_false, if_true]
      split
      · rename_i heq; injection heq with h1 _; exact absurd h1 this
      · rfl
  | cons c r ih =>
    have h1 : c ≠ '\n' := fun e => hn (by simp [e])
    have h2 : c ≠ '\r' := fun e => hc (by simp [e])
    have := ih (fun e => hn (by simp [e])) (fun e => hc (by simp [e]))
    simp [lexDocLine, h1, h2, this]

theorem finishLine_sub (x : Char) (cur : List Char) (h : x ∉ cur) : x ∉ finishLine cur := by
  unfold finishLine
  split
  · intro hm; apply h; simp at hm ⊢; exact Or.inr hm
  · simpa using h

theorem linesAux_sub (x : Char) (cur s : List Char) (hc : x ∉ cur) (hs : x ∉ s) : ∀ l ∈ linesAux cur s, x ∉ l := by
  induction s generalizing cur with
  | nil =>
    intro l hl
    unfold linesAux at hl
    split at hl
    · simp at hl
    · simp at hl; subst hl; simpa using hc
  | cons c r ih =>
    have hx : x ≠ c := fun e => hs (by simp [e])
    have hr : x ∉ r := fun e => hs (by simp [e])
    intro l hl
    unfold linesAux at hl
    split at hl
    · rcases List.mem_cons.mp hl with rfl | hl'
      · exact finishLine_sub x cur hc
      · exact ih [] (by simp) hr l hl'
    · exact ih (c :: cur) (by simp [List.mem_cons]; exact ⟨hx, hc⟩) hr l hl

/-- the lines of a text without carriage return have none -/
theorem lines_sub (x : Char) (s : List Char) (hs : x ∉ s) : ∀ l ∈ lines s, x ∉ l := linesAux_sub x [] s (by simp) hs

theorem flatMap_splitCr_clean (ls : List (List Char)) (h : ∀ l ∈ ls, '\r' ∉ l) : ls.flatMap splitCr = ls := by
  induction ls with
  | nil => rfl
  | cons a t ih =>
    rw [List.flatMap_cons, splitCr_of_clean a (h a (by simp)), ih (fun l hl => h l (by simp [hl]))]; rfl

/-! ### what survives of a doc text: its segments between line breaks -/

def ne (l : List Char) : Bool := !l.isEmpty

theorem segAux_cons_break (cur : List Char) (c : Char) (r : List Char) (h : c = '\n' ∨ c = '\r') :
    segAux cur (c :: r) = if cur.isEmpty then segAux [] r else cur.reverse :: segAux [] r := by
  have : (c = '\n' || c = '\r') = true := by rcases h with h | h <;> simp [h]
  simp [segAux, this]

theorem segAux_cons_other (cur : List Char) (c : Char) (r : List Char) (h1 : c ≠ '\n') (h2 : c ≠ '\r') :
    segAux cur (c :: r) = segAux (c :: cur) r := by
  simp [segAux, h1, h2]

theorem segAux_break (x : Char) (hx : x = '\n' ∨ x = '\r') (cur a r : List Char) :
    segAux cur (a ++ x :: r) = segAux cur a ++ segAux [] r := by
  induction a generalizing cur with
  | nil =>
    rw [List.nil_append, segAux_cons_break cur x r hx]
    cases cur <;> simp [segAux]
  | cons c a ih =>
    rw [List.cons_append]
    by_cases h : c = '\n' ∨ c = '\r'
    · rw [segAux_cons_break _ _ _ h, segAux_cons_break _ _ _ h]
      split <;> simp [ih]
    · have h1 : c ≠ '\n' := fun e => h (Or.inl e)
      have h2 : c ≠ '\r' := fun e => h (Or.inr e)
      rw [segAux_cons_other _ _ _ h1 h2, segAux_cons_other _ _ _ h1 h2]
      exact ih _

theorem filter_splitCrAux (cur l : List Char) (hn : '\n' ∉ l) : (splitCrAux cur l).filter ne = segAux cur l := by
  induction l generalizing cur with
  | nil => cases cur <;> simp [splitCrAux, segAux, ne]
  | cons c r ih =>
    have hc : c ≠ '\n' := fun e => hn (by simp [e])
    have hr : '\n' ∉ r := fun e => hn (by simp [e])
    unfold splitCrAux segAux
    by_cases h : c = '\r'
    · subst h
      cases cur <;> simp [ne, ih _ hr, List.filter_cons]
    · simp [h, hc, ih _ hr]

theorem segAux_finishLine (cur : List Char) : segAux [] (finishLine cur) = segAux [] cur.reverse := by
  unfold finishLine
  split
  · rename_i t
    have := segAux_break '\r' (Or.inr rfl) [] t.reverse []
    simp [segAux] at this
    simp [this]
  · rfl

theorem finishLine_no_nl' (cur : List Char) (h : '\n' ∉ cur) : '\n' ∉ finishLine cur := finishLine_no_nl cur h

theorem filter_lines_split (cur s : List Char) (hn : '\n' ∉ cur) :
    ((linesAux cur s).flatMap splitCr).filter ne = segAux [] (cur.reverse ++ s) := by
  induction s generalizing cur with
  | nil =>
    unfold linesAux
    cases cur with
    | nil => simp [segAux]
    | cons a t =>
      simp only [List.isEmpty_cons, Bool.false_eq_true, if_false, List.flatMap_cons, List.flatMap_nil, List.append_nil]
      have := filter_splitCrAux [] (a :: t).reverse (by simp at hn ⊢; exact ⟨hn.2, hn.1⟩)
      simpa [splitCr] using this
  | cons c r ih =>
    unfold linesAux
    split
    · rename_i hc; subst hc
      rw [List.flatMap_cons, List.filter_append, ih [] (by simp)]
      have h1 : (splitCr (finishLine cur)).filter ne = segAux [] (finishLine cur) := by
        have := filter_splitCrAux [] (finishLine cur) (finishLine_no_nl cur hn)
        simpa [splitCr] using this
      rw [h1, segAux_finishLine, segAux_break '\n' (Or.inl rfl)]
      simp
    · rename_i hc
      have := ih (c :: cur) (by simp [List.mem_cons]; exact ⟨fun e => hc e.symm, hn⟩)
      simpa using this

end Oas3.Lex
