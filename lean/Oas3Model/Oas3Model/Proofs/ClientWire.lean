import Oas3Model.Model.ClientWire
/-! Lemmas for the query / header clauses of C03 (statements of record are in Props/C03.lean). -/
namespace Oas3.Client
open Oas3.Path

/-! ### joining and splitting -/

theorem splitOn_noSep (sep : Char) (x : List Char) (h : sep ∉ x) : splitOn sep x = [x] := by
  induction x with
  | nil => rfl
  | cons c r ih =>
    have hc : c ≠ sep := fun e => h (by simp [e])
    have hr : sep ∉ r := fun m => h (List.mem_cons_of_mem _ m)
    simp [splitOn, hc, ih hr]

theorem splitOn_append_sep (sep : Char) (x rest : List Char) (h : sep ∉ x) :
    splitOn sep (x ++ sep :: rest) = x :: splitOn sep rest := by
  induction x with
  | nil => simp [splitOn]
  | cons c r ih =>
    have hc : c ≠ sep := fun e => h (by simp [e])
    have hr : sep ∉ r := fun m => h (List.mem_cons_of_mem _ m)
    simp [splitOn, hc, ih hr]

/-- splitting the joined text at the separator returns the items, as long as there is at least one item and
no item contains the separator (empty items included, at any position) -/
theorem splitOn_joinWith (sep : Char) (items : List (List Char)) (hne : items ≠ [])
    (h : ∀ i ∈ items, sep ∉ i) : splitOn sep (joinWith sep items) = items := by
  induction items with
  | nil => exact absurd rfl hne
  | cons x r ih =>
    cases r with
    | nil => simpa [joinWith] using splitOn_noSep sep x (h x (by simp))
    | cons y r' =>
      have hx : sep ∉ x := h x (by simp)
      have hr : ∀ i ∈ y :: r', sep ∉ i := fun i hi => h i (List.mem_cons_of_mem _ hi)
      simp only [joinWith]
      rw [splitOn_append_sep sep x _ hx, ih (by simp) hr]

/-! ### `collectW` is `collectParams` -/

private theorem step_map (acc : List WParam) (p : WParam) :
    (acc.filter (fun q => q.loc != p.loc || q.name != p.name) ++ [p]).map WParam.toParam =
      (acc.map WParam.toParam).filter (fun q => q.loc != p.toParam.loc || q.name != p.toParam.name) ++ [p.toParam] := by
  simp [List.filter_map, WParam.toParam, Function.comp_def]

private theorem foldl_map (ops acc : List WParam) :
    (ops.foldl (fun acc p => acc.filter (fun q => q.loc != p.loc || q.name != p.name) ++ [p]) acc).map WParam.toParam =
      (ops.map WParam.toParam).foldl (fun acc p => acc.filter (fun q => q.loc != p.loc || q.name != p.name) ++ [p]) (acc.map WParam.toParam) := by
  induction ops generalizing acc with
  | nil => rfl
  | cons p r ih =>
    simp only [List.foldl_cons, List.map_cons]
    rw [ih, step_map]

theorem collectW_toParam (ps : List WParam) :
    (collectW ps).map WParam.toParam = collectParams (ps.map WParam.toParam) := by
  unfold collectW collectParams
  simp only []
  rw [foldl_map]
  simp [List.filter_map, WParam.toParam, Function.comp_def]

/-! ### the judge clauses are sound for the modelled serializers -/

/-- a value of the shape the parameter's schema allows -/
def PVal.fits (p : WParam) : PVal → Bool
  | .absent => !p.required
  | .scalar _ => !p.isArray
  | .list _ => p.isArray

theorem queryOk_sound (p : WParam) (m : QMember) (h : queryOk p m = true) (v : PVal) (hv : v.fits p = true) :
    memberPairs m v = some (wantPairs p v) := by
  simp only [queryOk, Bool.and_eq_true, beq_iff_eq] at h
  obtain ⟨⟨⟨hk, _⟩, _⟩, ha⟩ := h
  cases v with
  | absent => rfl
  | scalar s => simp [memberPairs, wantPairs, hk]
  | list vs =>
    have harr : p.isArray = true := by simpa [PVal.fits] using hv
    simp only [harr, if_true, Bool.and_eq_true, beq_iff_eq, Bool.not_eq_true'] at ha
    obtain ⟨had, hex⟩ := ha
    simp [memberPairs, wantPairs, had, hex, hk]

/-- the value a header parameter must carry -/
def wantHeader : PVal → Option (List Char)
  | .absent => none
  | .scalar v => some v
  | .list vs => some (joinHeader vs)

theorem headerOk_sound (p : WParam) (hi : HInsert) (s : Bool) (h : headerOk p hi s = true) (v : PVal)
    (hv : v.fits p = true) : headerValue hi v = wantHeader v := by
  simp only [headerOk, Bool.and_eq_true] at h
  obtain ⟨⟨⟨_, hf⟩, _⟩, _⟩ := h
  cases v with
  | absent => rfl
  | scalar x =>
    have harr : p.isArray = false := by simpa [PVal.fits] using hv
    simp only [harr, Bool.false_eq_true, if_false, Bool.or_eq_true, Bool.and_eq_true, beq_iff_eq] at hf
    rcases hf with hf | ⟨hf, _⟩ <;> simp [headerValue, wantHeader, hf]
  | list vs =>
    have harr : p.isArray = true := by simpa [PVal.fits] using hv
    simp only [harr, if_true, beq_iff_eq] at hf
    simp [headerValue, wantHeader, hf]

end Oas3.Client
