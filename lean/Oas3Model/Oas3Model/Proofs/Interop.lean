/-
C05/C06: server arms (`armsOf`) and the composition "status sent by the server" ∘ "chain of the client".
-/
import Oas3Model.Model.Server
import Oas3Model.Proofs.StatusDispatch

namespace Oas3.Proofs.Interop
open Oas3.Status Oas3.Resp Oas3.Server Oas3.Gen.Status Oas3.Proofs.Status

/-! ### `statusOkFor` -/

theorem statusOkFor_exact {k : List Char} {c : Nat} (h : exactKey k = some c) (n : Nat) :
    statusOkFor k n = (n == c) := by
  unfold statusOkFor; rw [h]

theorem exactKey_rangeKey_none {k : List Char} {j : Nat} (h : rangeKey k = some j) : exactKey k = none := by
  obtain ⟨_, _, x, y, hx, hy, rfl⟩ := rangeKey_shape h
  have hnd : x.isDigit = false := by
    simp only [List.mem_cons, List.not_mem_nil, or_false] at hx
    rcases hx with rfl | rfl <;> decide
  simp [exactKey, hnd]

theorem statusOkFor_range {k : List Char} {j : Nat} (h : rangeKey k = some j) (n : Nat) :
    statusOkFor k n = (decide (j * 100 ≤ n) && decide (n < (j + 1) * 100)) := by
  unfold statusOkFor; rw [exactKey_rangeKey_none h, h]

theorem statusOkFor_default (n : Nat) :
    statusOkFor "default".toList n = (decide (100 ≤ n) && decide (n ≤ 599)) := by
  have h1 : exactKey "default".toList = none := by decide +kernel
  have h2 : rangeKey "default".toList = none := by decide +kernel
  unfold statusOkFor; rw [h1, h2]

/-! ### arms -/

theorem arms_spec (rs : List (List Char × List MediaDecl)) :
    ∀ a ∈ armsOf rs, ∃ v ∈ variantsOf rs,
      a.variant = v.name ∧ a.status = httpStatus v.tok ∧ a.json = v.schemaType.isSome := by
  intro a ha
  obtain ⟨v, hv, rfl⟩ := List.mem_map.mp ha
  exact ⟨v, hv, rfl, rfl, rfl⟩

theorem arms_of_variant (rs : List (List Char × List MediaDecl)) :
    ∀ v ∈ variantsOf rs, ({ variant := v.name, status := httpStatus v.tok, json := v.schemaType.isSome } : Arm) ∈ armsOf rs :=
  fun v hv => List.mem_map.mpr ⟨v, hv, rfl⟩

/-! ### client side facts used by the composition -/

theorem extractOf_payload (c : Cat) (v : Variant) : (extractOf c v).payload = v.schemaType.isSome := by
  unfold extractOf
  cases v.schemaType with
  | none => rfl
  | some ty =>
    dsimp only
    cases c <;> dsimp only <;> (repeat' split) <;> rfl

/-- single-media responses: every variant is named after its token -/
theorem variant_name_of_tok (rs : List (List Char × List MediaDecl)) (hlen : ∀ p ∈ rs, p.2.length ≤ 1) :
    ∀ v ∈ variantsOf rs, v.name = variantName v.tok := by
  intro v hv
  rw [variantsOf_eq rs hlen] at hv
  have h1 : ∀ v ∈ (sortKeys rs).map oneVariant, v.name = variantName v.tok := by
    intro v hv
    obtain ⟨p, _, rfl⟩ := List.mem_map.mp hv
    rw [oneVariant_name, oneVariant_tok]
  split at hv
  · exact h1 v hv
  · rcases List.mem_append.mp hv with hv | hv
    · exact h1 v hv
    · simp only [List.mem_cons, List.not_mem_nil, or_false] at hv
      subst hv
      exact variantName_default.symm

/-- an exact key for `c` among the declared keys is THE key that answers `c` -/
theorem specKey_exact {keys : List (List Char)} {k : List Char} {c : Nat} (hk : k ∈ keys)
    (he : exactKey k = some c) : specKey keys c = k := by
  unfold specKey
  cases hf : keys.find? (fun k => exactKey k == some c) with
  | some k' =>
    have : exactKey k' = some c := by simpa using List.find?_some hf
    exact exactKey_inj this he
  | none =>
    rw [List.find?_eq_none] at hf
    exact absurd (by simpa using he) (hf k hk)

/-- the `NXX` key answers `n` when no exact key for `n` is declared -/
theorem specKey_range {keys : List (List Char)} {k : List Char} {n : Nat} (hk : k ∈ keys)
    (hr : rangeKey k = some (n / 100)) (hne : ∀ k' ∈ keys, exactKey k' ≠ some n) :
    ∃ k' ∈ keys, specKey keys n = k' ∧ fromStr k' = fromStr k := by
  unfold specKey
  have hf : keys.find? (fun k => exactKey k == some n) = none := by
    rw [List.find?_eq_none]
    intro x hx; simpa using hne x hx
  rw [hf]
  dsimp only
  cases hf2 : keys.find? (fun k => rangeKey k == some (n / 100)) with
  | some k' =>
    have h' : rangeKey k' = some (n / 100) := by simpa using List.find?_some hf2
    exact ⟨k', List.mem_of_find?_eq_some hf2, rfl, rangeKey_tok_eq h' hr⟩
  | none =>
    rw [List.find?_eq_none] at hf2
    exact absurd (by simpa using hr) (hf2 k hk)

/-- general composition lemma: if the key answering `n` is declared and its token is the token of the
variant `v`, the client's chain answers `n` with exactly the case built for `v`. -/
theorem chain_of_key (rs : List (List Char × List MediaDecl))
    (hcan : ∀ p ∈ rs, canonicalKey p.1 = true)
    (hnd : (rs.map (fun p => fromStr p.1)).Nodup)
    (hlen : ∀ p ∈ rs, p.2.length ≤ 1)
    (ch : Chain) (hch : chainOf rs = some ch) (v : Variant) (hv : v ∈ variantsOf rs) (n : Nat)
    (hk : specKey (rs.map (·.1)) n ∈ rs.map (·.1)) (ht : fromStr (specKey (rs.map (·.1)) n) = v.tok)
    (ct : List Char) : evalChain ch n ct = extractOf (primaryCat v.medias) v := by
  obtain ⟨w, hw, he, hwt⟩ := dispatch_core rs hcan hnd hlen ch hch n ct
  rw [if_pos (by simpa using hk), ht] at hwt
  have hname : w.name = v.name := by
    rw [variant_name_of_tok rs hlen w hw, variant_name_of_tok rs hlen v hv, hwt]
  have : w = v := nodup_map_inj (variant_names_nodup_core rs hcan hnd hlen) hw hv hname
  rw [he, this]

/-- a variant declared under an exact status code is sent with that code and read back as the same
variant, with a payload iff the server sends one. -/
theorem interop_exact_core (rs : List (List Char × List MediaDecl))
    (hcan : ∀ p ∈ rs, canonicalKey p.1 = true)
    (hnd : (rs.map (fun p => fromStr p.1)).Nodup)
    (hlen : ∀ p ∈ rs, p.2.length ≤ 1)
    (ch : Chain) (hch : chainOf rs = some ch) (v : Variant) (hv : v ∈ variantsOf rs)
    (t : List Char) (c : Nat) (ht : v.tok = .named t) (htt : t ∈ tokens) (hc : code (.named t) = some c)
    (hkey : ∃ k ∈ rs.map (·.1), fromStr k = v.tok ∧ exactKey k = some c) (ct : List Char) :
    httpStatus v.tok = c ∧ evalChain ch (httpStatus v.tok) ct = extractOf (primaryCat v.medias) v := by
  have hs : httpStatus v.tok = c := by rw [ht]; exact exact_status t htt c hc
  obtain ⟨k, hk, hkt, hke⟩ := hkey
  have hsk : specKey (rs.map (·.1)) c = k := specKey_exact hk hke
  refine ⟨hs, ?_⟩
  rw [hs]
  exact chain_of_key rs hcan hnd hlen ch hch v hv c (by rw [hsk]; exact hk) (by rw [hsk]; exact hkt) ct

/-- the key under which a non-synthetic variant was declared: for canonical exact keys the token is a
named table token or `Unknown(c)`, and in both cases the status sent is `c`. -/
theorem httpStatus_of_exactKey {k : List Char} {c : Nat} (h : exactKey k = some c) :
    httpStatus (fromStr k) = c := by
  obtain ⟨rfl, h1, h2⟩ := exactKey_natChars h
  have hr := exactRow_all c h1 h2
  simp only [exactRow, Bool.and_eq_true, beq_iff_eq] at hr
  exact hr.1.1.1.2

end Oas3.Proofs.Interop
