/-
C16 — lemmas about the checked closure, the nested fix point and the usage propagation.
-/
import Oas3Model.Model.ValidStruct
namespace Oas3.Valid

/-- paths of the relation `b ∈ succ a` -/
inductive Path (succ : Name → List Name) : Name → Name → Prop
  | refl (a) : Path succ a a
  | step {a b c} : b ∈ succ a → Path succ b c → Path succ a c

theorem subset_stepSet (succ : Name → List Name) (R : List Name) : ∀ a ∈ R, a ∈ stepSet succ R := by
  intro a ha
  unfold stepSet
  exact List.mem_append_left _ ha

theorem subset_iter (succ : Name → List Name) : ∀ (n : Nat) (R : List Name), ∀ a ∈ R, a ∈ iter succ n R := by
  intro n
  induction n with
  | zero => intro R a ha; simpa [iter] using ha
  | succ k ih =>
    intro R a ha
    simp only [iter]
    exact ih _ a (subset_stepSet succ R a ha)

theorem closedB_spec {succ : Name → List Name} {R : List Name} (h : closedB succ R = true) :
    ∀ a ∈ R, ∀ b ∈ succ a, b ∈ R := by
  intro a ha b hb
  unfold closedB at h
  rw [List.all_eq_true] at h
  have h1 := h a ha
  rw [List.all_eq_true] at h1
  have h2 := h1 b hb
  simpa using h2

/-- a set returned by `reach` contains the seeds and is closed under `succ` -/
theorem reach_sound {succ : Name → List Name} {fuel : Nat} {seeds R : List Name}
    (h : reach succ fuel seeds = some R) :
    (∀ a ∈ seeds, a ∈ R) ∧ (∀ a ∈ R, ∀ b ∈ succ a, b ∈ R) := by
  unfold reach at h
  simp only at h
  split at h
  · rename_i hc
    injection h with h
    subst h
    exact ⟨subset_iter succ fuel seeds, closedB_spec hc⟩
  · cases h

/-- … hence it contains everything reachable from a seed -/
theorem reach_path {succ : Name → List Name} {fuel : Nat} {seeds R : List Name}
    (h : reach succ fuel seeds = some R) {a b : Name} (ha : a ∈ R) (p : Path succ a b) : b ∈ R := by
  induction p with
  | refl _ => exact ha
  | step hb _ ih => exact ih ((reach_sound h).2 _ ha _ hb)

/-! ### nested fix point -/

/-- `s` has a member whose type mentions `t` -/
def HasEdge (ss : List EStruct) (s t : Name) : Prop :=
  ∃ st ∈ ss, st.name = s ∧ ∃ f ∈ st.fields, f.target = some t

theorem mem_preds {ss : List EStruct} {s t : Name} (h : HasEdge ss s t) : s ∈ preds ss t := by
  obtain ⟨st, hst, hn, f, hf, ht⟩ := h
  unfold preds
  rw [List.mem_map]
  refine ⟨st, ?_, hn⟩
  rw [List.mem_filter]
  refine ⟨hst, ?_⟩
  rw [List.any_eq_true]
  exact ⟨f, hf, by simp [ht]⟩

/-- chains of members `s₀ —f₀→ s₁ —f₁→ … → sₖ` -/
inductive Chain (ss : List EStruct) : Name → Name → Prop
  | refl (a) : Chain ss a a
  | step {a b c} : HasEdge ss a b → Chain ss b c → Chain ss a c

/-- the validated set is closed BACKWARDS along member edges -/
theorem validated_backward {ss : List EStruct} {R : List Name} (h : validatedSet ss = some R)
    {a c : Name} (p : Chain ss a c) (hc : c ∈ R) : a ∈ R := by
  induction p with
  | refl _ => exact hc
  | step he _ ih =>
    have hb := ih hc
    exact (reach_sound h).2 _ hb _ (mem_preds he)

theorem seeds_validated {ss : List EStruct} {R : List Name} (h : validatedSet ss = some R)
    {st : EStruct} (hst : st ∈ ss) (ha : st.hasAttrs = true) : st.name ∈ R := by
  apply (reach_sound h).1
  rw [List.mem_map]
  exact ⟨st, by rw [List.mem_filter]; exact ⟨hst, ha⟩, rfl⟩

theorem markNested_has (R : List Name) (f : EField) (t : Name) (ht : f.target = some t) (hR : t ∈ R) :
    VAttr.nested ∈ (markNested R f).attrs := by
  unfold markNested
  rw [ht]
  simp only
  split
  · simp
  · rename_i hcond
    simp at hcond
    exact hcond hR

theorem markNested_target (R : List Name) (f : EField) : (markNested R f).target = f.target := by
  unfold markNested
  split
  · split <;> rfl
  · rfl

theorem markNested_name (R : List Name) (f : EField) : (markNested R f).name = f.name := by
  unfold markNested
  split
  · split <;> rfl
  · rfl

/-- **nested reaches**: in the output of the fix point, along every chain of members that ends in a struct
with own validation attributes, every member on the chain carries `nested`.  Stated for one step: if `a`
has a member `f` of type `b` and from `b` a chain of members leads to a struct `c` with attributes, then the
emitted `f` carries `nested` (apply it to every step of a path). -/
theorem nested_reaches {ss out : List EStruct} (h : nestedFix ss = some out)
    {st : EStruct} (hst : st ∈ ss) {f : EField} (hf : f ∈ st.fields) {b c : Name} (hb : f.target = some b)
    (p : Chain ss b c) {sc : EStruct} (hsc : sc ∈ ss) (hcn : sc.name = c) (hca : sc.hasAttrs = true) :
    ∃ st' ∈ out, st'.name = st.name ∧ ∃ f' ∈ st'.fields, f'.name = f.name ∧ f'.target = some b ∧ VAttr.nested ∈ f'.attrs := by
  unfold nestedFix at h
  cases hv : validatedSet ss with
  | none => rw [hv] at h; cases h
  | some R =>
    rw [hv] at h
    simp only [Option.map_some] at h
    injection h with h
    subst h
    have hcR : c ∈ R := hcn ▸ seeds_validated hv hsc hca
    have hbR : b ∈ R := validated_backward hv p hcR
    refine ⟨{ st with fields := st.fields.map (markNested R) }, ?_, rfl, markNested R f, ?_, markNested_name R f, ?_, markNested_has R f b hb hbR⟩
    · rw [List.mem_map]; exact ⟨st, hst, rfl⟩
    · simp only; rw [List.mem_map]; exact ⟨f, hf, rfl⟩
    · rw [markNested_target]; exact hb

/-- the fix point never removes or changes an attribute: it only appends `nested` -/
theorem markNested_keeps (R : List Name) (f : EField) : ∀ a ∈ f.attrs, a ∈ (markNested R f).attrs := by
  intro a ha
  unfold markNested
  split
  · split
    · simp only; exact List.mem_append_left _ ha
    · exact ha
  · exact ha

/-! ### usage: request-side structs keep their attributes -/

theorem clear_keeps_request_side (inReq inResp : List Name) (s : EStruct) (h : s.name ∈ inReq) :
    clearResponseOnly inReq inResp s = s := by
  unfold clearResponseOnly
  simp [h]

theorem clear_keeps_non_schema (inReq inResp : List Name) (s : EStruct) (h : s.kind ≠ .schema) :
    clearResponseOnly inReq inResp s = s := by
  unfold clearResponseOnly
  have : (s.kind == SKind.schema) = false := by simpa using h
  simp [this]

/-- every type reachable from a request seed through the dependency edges is in the request set, so
`clearResponseOnly` leaves it untouched -/
theorem request_side_kept (d : Deps) {seeds inReq : List Name} (inResp : List Name)
    (h : reach d.succ d.size seeds = some inReq) {r : Name} (hr : r ∈ seeds) {s : EStruct}
    (p : Path d.succ r s.name) : clearResponseOnly inReq inResp s = s :=
  clear_keeps_request_side inReq inResp s (reach_path h ((reach_sound h).1 r hr) p)

end Oas3.Valid
