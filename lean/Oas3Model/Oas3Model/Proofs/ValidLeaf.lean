/-
C16 — leaf-level soundness and completeness of the extracted attributes on the clean fragment.
-/
import Oas3Model.Model.Validation
namespace Oas3.Valid

theorem accepts_absent (rx : Rx) (fp : Prim) (a : VAttr) : a.accepts rx fp .absent = true := by
  cases a <;> rfl

theorem acceptsAll_absent (rx : Rx) (fp : Prim) (as : List VAttr) : acceptsAll rx fp as .absent = true := by
  unfold acceptsAll
  rw [List.all_eq_true]
  intro a _
  exact accepts_absent rx fp a

theorem acceptsAll_append (rx : Rx) (fp : Prim) (a b : List VAttr) (v : LV) :
    acceptsAll rx fp (a ++ b) v = (acceptsAll rx fp a v && acceptsAll rx fp b v) := by
  unfold acceptsAll
  rw [List.all_append]

theorem acceptsAll_nil (rx : Rx) (fp : Prim) (v : LV) : acceptsAll rx fp [] v = true := rfl

theorem acceptsAll_single (rx : Rx) (fp : Prim) (a : VAttr) (v : LV) : acceptsAll rx fp [a] v = a.accepts rx fp v := by
  simp [acceptsAll]

theorem typed_append (fp : Prim) (a b : List VAttr) :
    (a ++ b).all (VAttr.typed fp) = (a.all (VAttr.typed fp) && b.all (VAttr.typed fp)) := by
  rw [List.all_append]

/-! ### format arm -/

theorem email_not_url (c : Cons) (h : c.isEmailFmt = true) : c.isUrlFmt = false := by
  unfold Cons.isEmailFmt at h
  unfold Cons.isUrlFmt
  have : c.format = some "email".toList := by simpa using h
  rw [this]
  decide

theorem fmtAttrs_typed (fp : Prim) (c : Cons) : (fmtAttrs c).all (VAttr.typed fp) = true := by
  unfold fmtAttrs
  split
  · rfl
  · split <;> rfl

theorem fmt_accepts_str (rx : Rx) (fp : Prim) (c : Cons) (s : List Char) :
    acceptsAll rx fp (fmtAttrs c) (.sc (.str s)) =
      ((if c.isEmailFmt then rx.email s else true) && (if c.isUrlFmt then rx.url s else true)) := by
  unfold fmtAttrs
  by_cases he : c.isEmailFmt = true
  · have hu := email_not_url c he
    simp [he, hu, acceptsAll, VAttr.accepts]
  · have he' : c.isEmailFmt = false := by simpa using he
    by_cases hu : c.isUrlFmt = true
    · simp [he', hu, acceptsAll, VAttr.accepts]
    · have hu' : c.isUrlFmt = false := by simpa using hu
      simp [he', hu', acceptsAll]

theorem fmt_accepts_num (rx : Rx) (fp : Prim) (c : Cons) (n : Num) : acceptsAll rx fp (fmtAttrs c) (.sc (.num n)) = true := by
  unfold fmtAttrs
  split
  · rfl
  · split <;> rfl

theorem fmt_accepts_list (rx : Rx) (fp : Prim) (c : Cons) (vs : List SV) : acceptsAll rx fp (fmtAttrs c) (.list vs) = true := by
  unfold fmtAttrs
  split
  · rfl
  · split <;> rfl

/-! ### length arm -/

theorem lengthAttr_typed (fp : Prim) (a b : Option Nat) (r : Bool) : (lengthAttr a b r).toList.all (VAttr.typed fp) = true := by
  unfold lengthAttr
  cases a <;> cases b <;> cases r <;> rfl

/-- explicit bounds: exactly the declared length check -/
theorem length_accepts_str (rx : Rx) (fp : Prim) (a b : Option Nat) (r : Bool) (s : List Char) :
    acceptsAll rx fp (lengthAttr a b r).toList (.sc (.str s)) =
      (lenOk a b s.length && (!(r && a.isNone && b.isNone) || decide (1 ≤ s.length))) := by
  cases a <;> cases b <;> cases r <;> simp [lengthAttr, acceptsAll, VAttr.accepts, lenOk]

theorem length_accepts_list (rx : Rx) (fp : Prim) (a b : Option Nat) (vs : List SV) :
    acceptsAll rx fp (lengthAttr a b false).toList (.list vs) = lenOk a b vs.length := by
  cases a <;> cases b <;> simp [lengthAttr, acceptsAll, VAttr.accepts, lenOk]

/-! ### regex arm -/

theorem regexAttrs_typed (cmp : List Char → Bool) (fp : Prim) (c : Cons) (tr : TRef) : (regexAttrs cmp c tr).all (VAttr.typed fp) = true := by
  unfold regexAttrs
  split
  · split
    · split <;> rfl
    · rfl
  · rfl

theorem regex_accepts_str (rx : Rx) (fp : Prim) (c : Cons) (tr : TRef) (s : List Char)
    (hcomp : ∀ p, c.pattern = some p → rx.compiles p = true) (hskip : skipRegexBase tr.base = false ∨ c.pattern = none) :
    acceptsAll rx fp (regexAttrs rx.compiles c tr) (.sc (.str s)) =
      (match c.pattern with | some p => rx.isMatch p s | none => true) := by
  unfold regexAttrs
  cases hp : c.pattern with
  | none => rfl
  | some p =>
    have h1 := hcomp p hp
    have h2 : skipRegexBase tr.base = false := by
      cases hskip with
      | inl h => exact h
      | inr h => rw [hp] at h; cases h
    simp [h1, h2, acceptsAll, VAttr.accepts]

/-! ### range arm -/

theorem litVal_exact (fp : Prim) (b : Option Num) (h : ∀ x, b = some x → (renderNum fp x).val fp = some x) :
    litVal fp (b.map (renderNum fp)) = b := by
  cases b with
  | none => rfl
  | some x => simp [litVal, h x rfl]

theorem litOk_exact (fp : Prim) (b : Option Num) (h : ∀ x, b = some x → (renderNum fp x).val fp = some x) :
    litOk fp (b.map (renderNum fp)) = true := by
  cases b with
  | none => rfl
  | some x => simp [litOk, h x rfl]

theorem litExact_spec {c : Cons} (h : litExact c = true) :
    (∀ x, c.minimum = some x → (renderNum (primOf c) x).val (primOf c) = some x) ∧
    (∀ x, c.maximum = some x → (renderNum (primOf c) x).val (primOf c) = some x) ∧
    (∀ x, c.exMin = some x → (renderNum (primOf c) x).val (primOf c) = some x) ∧
    (∀ x, c.exMax = some x → (renderNum (primOf c) x).val (primOf c) = some x) := by
  unfold litExact boundsOf at h
  rw [List.all_eq_true] at h
  refine ⟨?_, ?_, ?_, ?_⟩ <;> intro x hx <;> have := h x (by simp [hx]) <;> simpa using this

theorem range_typed {c : Cons} (nl : Bool) (h : litExact c = true) :
    (rangeAttr c ⟨primOf c, nl⟩).toList.all (VAttr.typed (primOf c)) = true := by
  obtain ⟨h1, h2, h3, h4⟩ := litExact_spec h
  unfold rangeAttr
  split
  · rfl
  · simp [VAttr.typed, litOk_exact _ _ h1, litOk_exact _ _ h2, litOk_exact _ _ h3, litOk_exact _ _ h4]

theorem range_accepts_num (rx : Rx) {c : Cons} (nl : Bool) (h : litExact c = true) (n : Num) :
    acceptsAll rx (primOf c) (rangeAttr c ⟨primOf c, nl⟩).toList (.sc (.num n)) =
      rangeOk c.minimum c.maximum c.exMin c.exMax n := by
  obtain ⟨h1, h2, h3, h4⟩ := litExact_spec h
  unfold rangeAttr
  split
  · rename_i hn
    simp only [Bool.and_eq_true, Option.isNone_iff_eq_none] at hn
    obtain ⟨⟨⟨a, b⟩, c'⟩, d⟩ := hn
    simp [acceptsAll, rangeOk, a, b, c', d]
  · simp [acceptsAll, VAttr.accepts, litVal_exact _ _ h1, litVal_exact _ _ h2, litVal_exact _ _ h3, litVal_exact _ _ h4]

theorem range_accepts_other (rx : Rx) (fp : Prim) (c : Cons) (tr : TRef) (s : List Char) :
    acceptsAll rx fp (rangeAttr c tr).toList (.sc (.str s)) = true := by
  unfold rangeAttr
  split <;> rfl

/-! ### unconstrained schemas accept everything -/

theorem rangeOk_none (n : Num) : rangeOk none none none none n = true := rfl

theorem satScalar_unconstrained (rx : Rx) (i : Cons)
    (h : (i.hasNumericKw || i.hasStringKw || i.isEmailFmt || i.isUrlFmt) = false) (v : SV) : satScalar rx i v = true := by
  simp only [Bool.or_eq_false_iff] at h
  obtain ⟨⟨⟨hn, hs⟩, he⟩, hu⟩ := h
  unfold Cons.hasNumericKw at hn
  unfold Cons.hasStringKw at hs
  simp only [Bool.or_eq_false_iff, Option.isSome_eq_false_iff, Option.isNone_iff_eq_none] at hn hs
  obtain ⟨⟨⟨a, b⟩, c⟩, d⟩ := hn
  obtain ⟨⟨e, f⟩, g⟩ := hs
  cases v with
  | num n => simp [satScalar, a, b, c, d, rangeOk]
  | str s => simp [satScalar, e, f, g, he, hu, lenOk]

end Oas3.Valid

namespace Oas3.Valid

/-- the parts of `Clean` as propositions -/
theorem clean_parts {rx : Rx} {l : Leaf} (h : Clean rx l = true) :
    l.c.wellKinded = true ∧ l.c.hasEnum = false ∧ KnownNullableNumeric l.c = false ∧ KnownNullableArray l.c = false ∧
    KnownItemConstraintsLost l = false ∧ KnownSpecialFormatSkipsLength l.c = false ∧ KnownUncompilableRegex rx l.c = false ∧
    (l.c.isNumeric = true → litExact l.c = true) ∧
    (l.c.jt = some .string → skipRegexBase (primOf l.c) = false ∨ l.c.pattern = none) := by
  unfold Clean at h
  simp only [Bool.and_eq_true, Bool.not_eq_true', Bool.or_eq_true] at h
  obtain ⟨⟨⟨⟨⟨⟨⟨⟨⟨h1, h2⟩, h3⟩, h4⟩, h5⟩, h6⟩, h7⟩, _⟩, h8⟩, h9⟩ := h
  refine ⟨h1, h2, h3, h4, h5, h6, h7, ?_, ?_⟩
  · intro hn
    cases h8 with
    | inl h => rw [hn] at h; cases h
    | inr h => exact h
  · intro hj
    rw [hj] at h9
    simp only [Bool.or_eq_true, Bool.not_eq_true', Option.isNone_iff_eq_none] at h9
    exact h9

theorem clean_not_wrapped {rx : Rx} {l : Leaf} (h : Clean rx l = true) : l.c.isWrapped = false := by
  unfold Clean at h
  simp only [Bool.and_eq_true, Bool.not_eq_true', Bool.or_eq_true] at h
  exact h.1.1.2

theorem leafJ_of (rx : Rx) (req : Bool) (l : Leaf) (fp : Prim) (as : List VAttr) (v : LV)
    (ht : as.all (VAttr.typed fp) = true)
    (hs : acceptsAll rx fp as v = true → satisfies rx l.c l.items v = true)
    (hcpl : satisfies rx l.c l.items v = true → nonEmptyReq req v = true → acceptsAll rx fp as v = true) :
    leafJ rx req l fp as v = true := by
  unfold leafJ
  rw [ht]
  cases ha : acceptsAll rx fp as v <;> cases hsat : satisfies rx l.c l.items v <;> cases hne : nonEmptyReq req v <;> simp
  all_goals first
    | (have := hs ha; rw [hsat] at this; cases this)
    | (have := hcpl hsat hne; rw [ha] at this; cases this)

end Oas3.Valid

namespace Oas3.Valid

theorem extract_typed (rx : Rx) (req nl : Bool) (c : Cons) (fp : Prim)
    (hfp : c.isNumeric = true → fp = primOf c) (hl : c.isNumeric = true → litExact c = true) :
    (extract rx.compiles req c ⟨fp, nl⟩).all (VAttr.typed fp) = true := by
  unfold extract
  split
  · rename_i hn
    rw [hfp hn, typed_append, fmtAttrs_typed, range_typed nl (hl hn)]; rfl
  · split
    · split
      · exact fmtAttrs_typed fp c
      · rw [typed_append, typed_append, fmtAttrs_typed, lengthAttr_typed, regexAttrs_typed]; rfl
    · split
      · rw [typed_append, fmtAttrs_typed, lengthAttr_typed]; rfl
      · exact fmtAttrs_typed fp c

theorem nonEmpty_len (req : Bool) (s : List Char) (h : nonEmptyReq req (.sc (.str s)) = true) (hr : req = true) : 1 ≤ s.length := by
  unfold nonEmptyReq at h
  subst hr
  cases s with
  | nil => simp at h
  | cons a t => simp

/-- numbers -/
theorem leaf_num (rx : Rx) (req nl : Bool) (l : Leaf) (n : Num) (hc : Clean rx l = true) (ht : lvTyped l (.sc (.num n)) = true) :
    leafJ rx req l (primOf l.c) (extract rx.compiles req l.c ⟨primOf l.c, nl⟩) (.sc (.num n)) = true := by
  obtain ⟨_, _, hnn, _, _, _, _, hlit, _⟩ := clean_parts hc
  have hty := extract_typed rx req nl l.c (primOf l.c) (fun _ => rfl) hlit
  by_cases hnum : l.c.isNumeric = true
  · have hacc : acceptsAll rx (primOf l.c) (extract rx.compiles req l.c ⟨primOf l.c, nl⟩) (.sc (.num n)) =
        rangeOk l.c.minimum l.c.maximum l.c.exMin l.c.exMax n := by
      unfold extract
      rw [if_pos hnum, acceptsAll_append, fmt_accepts_num, range_accepts_num rx nl (hlit hnum)]; rfl
    apply leafJ_of _ _ _ _ _ _ hty
    · intro h; rw [hacc] at h; simpa [satisfies, satScalar] using h
    · intro h _; rw [hacc]; simpa [satisfies, satScalar] using h
  · have hnum' : l.c.isNumeric = false := by simpa using hnum
    -- a number can only inhabit a nullable numeric schema here; it carries no numeric keyword
    have hkw : l.c.hasNumericKw = false := by
      unfold lvTyped svTyped at ht
      unfold KnownNullableNumeric at hnn
      unfold Cons.isNumeric at hnum'
      unfold Cons.jt at ht
      cases hty' : l.c.ty with
      | single t => cases t <;> simp [hty'] at ht hnum'
      | nullable t => cases t <;> simp [hty'] at ht hnn ⊢ <;> exact hnn
      | other => simp [hty'] at ht
      | wrapped t => have hw := clean_not_wrapped hc; simp [Cons.isWrapped, hty'] at hw
    have hsat : satisfies rx l.c l.items (.sc (.num n)) = true := by
      unfold Cons.hasNumericKw at hkw
      simp only [Bool.or_eq_false_iff, Option.isSome_eq_false_iff, Option.isNone_iff_eq_none] at hkw
      obtain ⟨⟨⟨a, b⟩, c⟩, d⟩ := hkw
      simp [satisfies, satScalar, a, b, c, d, rangeOk]
    have hacc : acceptsAll rx (primOf l.c) (extract rx.compiles req l.c ⟨primOf l.c, nl⟩) (.sc (.num n)) = true := by
      unfold extract
      rw [if_neg hnum]
      split
      · split
        · exact fmt_accepts_num ..
        · rename_i hfs _
          -- a freeform string schema cannot hold a number
          unfold lvTyped svTyped Cons.jt at ht
          unfold Cons.isFreeformString at hfs
          cases hty' : l.c.ty with
          | single t => cases t <;> simp [hty'] at ht hfs
          | nullable t => cases t <;> simp [hty'] at ht hfs
          | other => simp [hty'] at ht
          | wrapped t => first | rfl | (have hw := clean_not_wrapped hc; simp [Cons.isWrapped, hty'] at hw) | (simp [hty'] at *)
      · split
        · rename_i harr
          unfold lvTyped svTyped Cons.jt at ht
          unfold Cons.isArray at harr
          cases hty' : l.c.ty with
          | single t => cases t <;> simp [hty'] at ht harr
          | nullable t => cases t <;> simp [hty'] at ht harr
          | other => simp [hty'] at ht
          | wrapped t => first | rfl | (have hw := clean_not_wrapped hc; simp [Cons.isWrapped, hty'] at hw) | (simp [hty'] at *)
        · exact fmt_accepts_num ..
    exact leafJ_of _ _ _ _ _ _ hty (fun _ => hsat) (fun _ _ => hacc)

end Oas3.Valid

namespace Oas3.Valid

theorem leaf_absent (rx : Rx) (req nl : Bool) (l : Leaf) (fp : Prim) (hfp : l.c.isNumeric = true → fp = primOf l.c)
    (hc : Clean rx l = true) :
    leafJ rx req l fp (extract rx.compiles req l.c ⟨fp, nl⟩) .absent = true := by
  obtain ⟨_, _, _, _, _, _, _, hlit, _⟩ := clean_parts hc
  exact leafJ_of _ _ _ _ _ _ (extract_typed rx req nl l.c fp hfp hlit) (fun _ => rfl) (fun _ _ => acceptsAll_absent ..)

/-- strings -/
theorem leaf_str (rx : Rx) (req nl : Bool) (l : Leaf) (s : List Char) (hc : Clean rx l = true) (ht : lvTyped l (.sc (.str s)) = true) :
    leafJ rx req l (primOf l.c) (extract rx.compiles req l.c ⟨primOf l.c, nl⟩) (.sc (.str s)) = true := by
  obtain ⟨_, henum, _, _, _, hspec, hunc, hlit, hskip⟩ := clean_parts hc
  have hty := extract_typed rx req nl l.c (primOf l.c) (fun _ => rfl) hlit
  -- the schema is a (possibly nullable) string
  have hjt : l.c.jt = some .string := by
    unfold lvTyped svTyped at ht
    simp only [Bool.and_eq_true, beq_iff_eq] at ht
    exact ht.2
  have hfs : l.c.isFreeformString = true := by
    unfold Cons.isFreeformString
    unfold Cons.jt at hjt
    cases hty' : l.c.ty with
    | single t => cases t <;> simp [hty'] at hjt ⊢ <;> exact henum
    | nullable t => cases t <;> simp [hty'] at hjt ⊢ <;> exact henum
    | other => simp [hty'] at hjt
    | wrapped t => have hw := clean_not_wrapped hc; simp [Cons.isWrapped, hty'] at hw
  have hnum : l.c.isNumeric = false := by
    unfold Cons.isNumeric
    unfold Cons.jt at hjt
    cases hty' : l.c.ty with
    | single t => cases t <;> simp [hty'] at hjt ⊢
    | nullable t => rfl
    | other => rfl
    | wrapped t => rfl
  have hcomp : ∀ p, l.c.pattern = some p → rx.compiles p = true := by
    intro p hp
    unfold KnownUncompilableRegex at hunc
    rw [hfs, hp] at hunc
    simpa using hunc
  by_cases hsp : l.c.notStringTyped = true
  · -- special format: no string keyword is declared on the clean fragment
    have hkw : l.c.hasStringKw = false := by
      unfold KnownSpecialFormatSkipsLength at hspec
      rw [hfs, hsp] at hspec
      simpa using hspec
    unfold Cons.hasStringKw at hkw
    simp only [Bool.or_eq_false_iff, Option.isSome_eq_false_iff, Option.isNone_iff_eq_none] at hkw
    obtain ⟨⟨e, f⟩, g⟩ := hkw
    have hacc : acceptsAll rx (primOf l.c) (extract rx.compiles req l.c ⟨primOf l.c, nl⟩) (.sc (.str s)) =
        ((if l.c.isEmailFmt then rx.email s else true) && (if l.c.isUrlFmt then rx.url s else true)) := by
      unfold extract
      have hsp2 : (l.c.specialFormat || (primOf l.c != Prim.string)) = true := hsp
      simp only [hnum, hfs, hsp2, if_true, Bool.false_eq_true, if_false]
      exact fmt_accepts_str ..
    have hsat : satisfies rx l.c l.items (.sc (.str s)) =
        ((if l.c.isEmailFmt then rx.email s else true) && (if l.c.isUrlFmt then rx.url s else true)) := by
      simp [satisfies, satScalar, e, f, g, lenOk]
    apply leafJ_of _ _ _ _ _ _ hty
    · intro h; rw [hsat, ← hacc]; exact h
    · intro h _; rw [hacc, ← hsat]; exact h
  · have hsp' : l.c.notStringTyped = false := by simpa using hsp
    have hacc : acceptsAll rx (primOf l.c) (extract rx.compiles req l.c ⟨primOf l.c, nl⟩) (.sc (.str s)) =
        (((if l.c.isEmailFmt then rx.email s else true) && (if l.c.isUrlFmt then rx.url s else true)) &&
          (lenOk l.c.minLength l.c.maxLength s.length &&
            (!((req && !nl) && l.c.minLength.isNone && l.c.maxLength.isNone) || decide (1 ≤ s.length))) &&
          (match l.c.pattern with | some p => rx.isMatch p s | none => true)) := by
      unfold extract
      have hsp2 : (l.c.specialFormat || (primOf l.c != Prim.string)) = false := hsp'
      simp only [hnum, hfs, hsp2, if_true, Bool.false_eq_true, if_false]
      rw [acceptsAll_append, acceptsAll_append, fmt_accepts_str, length_accepts_str,
        regex_accepts_str rx _ l.c ⟨primOf l.c, nl⟩ s hcomp (hskip hjt)]
    have hsat : satisfies rx l.c l.items (.sc (.str s)) =
        (lenOk l.c.minLength l.c.maxLength s.length && (match l.c.pattern with | some p => rx.isMatch p s | none => true) &&
          (if l.c.isEmailFmt then rx.email s else true) && (if l.c.isUrlFmt then rx.url s else true)) := rfl
    apply leafJ_of _ _ _ _ _ _ hty
    · intro h
      rw [hacc] at h
      rw [hsat]
      simp only [Bool.and_eq_true] at h ⊢
      obtain ⟨⟨⟨h1, h2⟩, ⟨h3, _⟩⟩, h5⟩ := h
      exact ⟨⟨⟨h3, h5⟩, h1⟩, h2⟩
    · intro h hne
      rw [hsat] at h
      rw [hacc]
      simp only [Bool.and_eq_true] at h ⊢
      obtain ⟨⟨⟨h1, h2⟩, h3⟩, h4⟩ := h
      refine ⟨⟨⟨h3, h4⟩, ⟨h1, ?_⟩⟩, h2⟩
      by_cases hr : req = true
      · have := nonEmpty_len req s hne hr
        simp [this]
      · have hr' : req = false := by simpa using hr
        simp [hr']

/-- lists -/
theorem leaf_list (rx : Rx) (req nl : Bool) (l : Leaf) (fp : Prim) (vs : List SV) (hc : Clean rx l = true) (ht : lvTyped l (.list vs) = true) :
    leafJ rx req l fp (extract rx.compiles req l.c ⟨fp, nl⟩) (.list vs) = true := by
  obtain ⟨_, _, _, hna, hitems, _, _, hlit, _⟩ := clean_parts hc
  have hjt : l.c.jt = some .array := by
    unfold lvTyped at ht
    simp only [Bool.and_eq_true, beq_iff_eq] at ht
    exact ht.1
  have hnum : l.c.isNumeric = false := by
    unfold Cons.isNumeric
    unfold Cons.jt at hjt
    cases hty' : l.c.ty with
    | single t => cases t <;> simp [hty'] at hjt ⊢
    | nullable t => rfl
    | other => rfl
    | wrapped t => first | rfl | (have hw := clean_not_wrapped hc; simp [Cons.isWrapped, hty'] at hw) | (simp [hty'] at *)
  have hfs : l.c.isFreeformString = false := by
    unfold Cons.isFreeformString
    unfold Cons.jt at hjt
    cases hty' : l.c.ty with
    | single t => cases t <;> simp [hty'] at hjt ⊢
    | nullable t => cases t <;> simp [hty'] at hjt ⊢
    | other => simp [hty'] at hjt
    | wrapped t => first | rfl | (have hw := clean_not_wrapped hc; simp [Cons.isWrapped, hty'] at hw) | (simp [hty'] at *)
  have hty := extract_typed rx req nl l.c fp (fun h => by rw [hnum] at h; cases h) hlit
  -- item part of the specification is vacuous on the clean fragment
  have hit : (match l.items with | some i => vs.all (satScalar rx i) | none => true) = true := by
    unfold KnownItemConstraintsLost at hitems
    cases hi : l.items with
    | none => rfl
    | some i =>
      rw [hi] at hitems
      simp only
      rw [List.all_eq_true]
      intro v _
      exact satScalar_unconstrained rx i hitems v
  have hsat : satisfies rx l.c l.items (.list vs) = lenOk l.c.minItems l.c.maxItems vs.length := by
    have h0 : satisfies rx l.c l.items (.list vs) =
        (lenOk l.c.minItems l.c.maxItems vs.length && (match l.items with | some i => vs.all (satScalar rx i) | none => true)) := rfl
    rw [h0, hit, Bool.and_true]
  by_cases harr : l.c.isArray = true
  · have hacc : acceptsAll rx fp (extract rx.compiles req l.c ⟨fp, nl⟩) (.list vs) = lenOk l.c.minItems l.c.maxItems vs.length := by
      unfold extract
      simp only [hnum, hfs, harr, if_true, Bool.false_eq_true, if_false]
      rw [acceptsAll_append, fmt_accepts_list, length_accepts_list]; rfl
    apply leafJ_of _ _ _ _ _ _ hty
    · intro h; rw [hsat, ← hacc]; exact h
    · intro h _; rw [hacc, ← hsat]; exact h
  · have harr' : l.c.isArray = false := by simpa using harr
    -- nullable array: no array keyword on the clean fragment
    have hkw : l.c.hasArrayKw = false := by
      unfold KnownNullableArray at hna
      unfold Cons.isArray at harr'
      unfold Cons.jt at hjt
      cases hty' : l.c.ty with
      | single t => cases t <;> simp [hty'] at hjt harr'
      | nullable t => cases t <;> simp [hty'] at hjt hna ⊢ <;> exact hna
      | other => simp [hty'] at hjt
      | wrapped t => first | rfl | (have hw := clean_not_wrapped hc; simp [Cons.isWrapped, hty'] at hw) | (simp [hty'] at *)
    unfold Cons.hasArrayKw at hkw
    simp only [Bool.or_eq_false_iff, Option.isSome_eq_false_iff, Option.isNone_iff_eq_none] at hkw
    have hacc : acceptsAll rx fp (extract rx.compiles req l.c ⟨fp, nl⟩) (.list vs) = true := by
      unfold extract
      simp only [hnum, hfs, harr', Bool.false_eq_true, if_false]
      exact fmt_accepts_list ..
    have hsat' : satisfies rx l.c l.items (.list vs) = true := by
      rw [hsat, hkw.1, hkw.2]; rfl
    exact leafJ_of _ _ _ _ _ _ hty (fun _ => hsat') (fun _ _ => hacc)

end Oas3.Valid
