import Oas3Model.Model.Graph
/-
Helper lemmas for properties C07 (closure under references / reachability) and
C10 (by-value cycles are broken) about the graph kernel `Oas3Model/Model/Graph.lean`.
-/
namespace Oas3.Graph

/-! ## `dedup` -/

theorem mem_dedup {x : Name} {l : List Name} : x ∈ dedup l ↔ x ∈ l := by
  simp [dedup]

theorem nodup_eraseDups {α : Type} [BEq α] [LawfulBEq α] : ∀ (l : List α), l.eraseDups.Nodup
  | [] => by simp
  | a :: as => by
    rw [List.eraseDups_cons, List.nodup_cons]
    have : (as.filter fun b => !b == a).length < as.length + 1 :=
      Nat.lt_add_one_of_le (List.length_filter_le _ as)
    refine ⟨?_, nodup_eraseDups _⟩
    simp [List.mem_eraseDups]
termination_by l => l.length

theorem nodup_dedup (l : List Name) : (dedup l).Nodup := nodup_eraseDups l

/-! ## transitive closure -/

section TC
variable {α : Type} {r : α → α → Prop}

theorem TC.trans {a b c : α} (h₁ : TC r a b) (h₂ : TC r b c) : TC r a c := by
  induction h₁ with
  | base h => exact .step h h₂
  | step h _ ih => exact .step h (ih h₂)

theorem TC.snoc {a b c : α} (h₁ : TC r a b) (h₂ : r b c) : TC r a c := h₁.trans (.base h₂)

theorem TC.mono {B E : α → α → Prop} (sub : ∀ a b, B a b → E a b) {a b : α} (h : TC B a b) :
    TC E a b := by
  induction h with
  | base h => exact .base (sub _ _ h)
  | step h _ ih => exact .step (sub _ _ h) ih

/-- a path decomposes into its first edge and the rest -/
theorem TC.head_iff {a c : α} : TC r a c ↔ r a c ∨ ∃ b, r a b ∧ TC r b c := by
  constructor
  · intro h
    cases h with
    | base h => exact .inl h
    | step h t => exact .inr ⟨_, h, t⟩
  · rintro (h | ⟨b, h, t⟩)
    · exact .base h
    · exact .step h t

/-- a cycle through `v` passes through the target of its first edge -/
theorem TC.cycle_first_edge {v : α} (h : TC r v v) : ∃ w, r v w ∧ (w = v ∨ TC r w v) := by
  cases h with
  | base h => exact ⟨v, h, .inl rfl⟩
  | step h t => exact ⟨_, h, .inr t⟩

theorem OnCycle.first_target {v : α} (h : OnCycle r v) : ∃ w, r v w ∧ OnCycle r w := by
  obtain ⟨w, hvw, hw | hw⟩ := TC.cycle_first_edge h
  · subst hw; exact ⟨w, hvw, h⟩
  · exact ⟨w, hvw, hw.snoc hvw⟩

/-- a set closed under `r` is closed under `TC r` -/
theorem TC.closed {P : α → Prop} (hP : ∀ a b, P a → r a b → P b) {a b : α} (h : TC r a b) (ha : P a) :
    P b := by
  induction h with
  | base h => exact hP _ _ ha h
  | step h _ ih => exact ih (hP _ _ ha h)

end TC

/-! ## `step` / `close` -/

theorem mem_step {deps : List (Name × List Name)} {R : List Name} {y : Name} :
    y ∈ step deps R ↔ ∃ a ∈ R, y ∈ succ deps a := by
  simp [step, List.mem_flatMap]

/-- the frontier computed by one round of `close` -/
def frontier (deps : List (Name × List Name)) (R : List Name) : List Name :=
  (step deps R).filter (fun x => !R.contains x)

theorem mem_frontier {deps : List (Name × List Name)} {R : List Name} {y : Name} :
    y ∈ frontier deps R ↔ (∃ a ∈ R, y ∈ succ deps a) ∧ y ∉ R := by
  simp [frontier, List.mem_filter, mem_step]

theorem close_succ (deps : List (Name × List Name)) (f : Nat) (R : List Name) :
    close deps (f + 1) R =
      if (frontier deps R).isEmpty then some R else close deps f (R ++ dedup (frontier deps R)) := rfl

theorem close_sound (deps : List (Name × List Name)) (f : Nat) (R₀ R : List Name)
    (h : close deps f R₀ = some R) :
    (∀ x ∈ R₀, x ∈ R) ∧ (∀ a ∈ R, ∀ b ∈ succ deps a, b ∈ R) := by
  induction f generalizing R₀ with
  | zero => simp [close] at h
  | succ f ih =>
    rw [close_succ] at h
    split at h
    · rename_i hemp
      have hR : R₀ = R := by simpa using h
      subst hR
      refine ⟨fun _ hx => hx, fun a ha b hb => ?_⟩
      by_cases hbR : b ∈ R₀
      · exact hbR
      · have hm : b ∈ frontier deps R₀ := mem_frontier.2 ⟨⟨a, ha, hb⟩, hbR⟩
        rw [List.isEmpty_iff] at hemp
        rw [hemp] at hm
        cases hm
    · obtain ⟨h1, h2⟩ := ih _ h
      exact ⟨fun x hx => h1 x (List.mem_append_left _ hx), h2⟩

theorem close_minimal (deps : List (Name × List Name)) (f : Nat) (R₀ R : List Name)
    (h : close deps f R₀ = some R) :
    ∀ x ∈ R, x ∈ R₀ ∨ ∃ s ∈ R₀, TC (Edge deps) s x := by
  induction f generalizing R₀ with
  | zero => simp [close] at h
  | succ f ih =>
    rw [close_succ] at h
    split at h
    · have hR : R₀ = R := by simpa using h
      subst hR
      exact fun x hx => .inl hx
    · intro x hx
      -- every element of the extended seed list is a seed or one edge away from a seed
      have hext : ∀ y ∈ R₀ ++ dedup (frontier deps R₀), y ∈ R₀ ∨ ∃ s ∈ R₀, TC (Edge deps) s y := by
        intro y hy
        rcases List.mem_append.1 hy with hy | hy
        · exact .inl hy
        · obtain ⟨⟨a, ha, hay⟩, _⟩ := mem_frontier.1 (mem_dedup.1 hy)
          exact .inr ⟨a, ha, .base hay⟩
      rcases ih _ h x hx with hx' | ⟨s, hs, hsx⟩
      · exact hext x hx'
      · rcases hext s hs with hs' | ⟨s', hs', hs's⟩
        · exact .inr ⟨s, hs', hsx⟩
        · exact .inr ⟨s', hs', hs's.trans hsx⟩

/-- exact characterisation of a successful closure -/
theorem close_spec (deps : List (Name × List Name)) (f : Nat) (R₀ R : List Name)
    (h : close deps f R₀ = some R) :
    ∀ x, x ∈ R ↔ (x ∈ R₀ ∨ ∃ s ∈ R₀, TC (Edge deps) s x) := by
  intro x
  obtain ⟨hseed, hclosed⟩ := close_sound deps f R₀ R h
  constructor
  · exact close_minimal deps f R₀ R h x
  · rintro (hx | ⟨s, hs, hsx⟩)
    · exact hseed x hx
    · exact TC.closed (P := (· ∈ R)) (fun a b ha hab => hclosed a ha b hab) hsx (hseed s hs)

/-! ## fuel bound -/

/-- if `R` is duplicate-free inside a `succ`-closed universe `U` and the fuel exceeds the number of
elements of `U` that are still missing, the closure terminates -/
theorem close_total (deps : List (Name × List Name)) (U : List Name)
    (hU : ∀ x ∈ U, ∀ y ∈ succ deps x, y ∈ U) (f : Nat) (R : List Name)
    (hnd : R.Nodup) (hsub : ∀ x ∈ R, x ∈ U) (hf : U.length < f + R.length) :
    (close deps f R).isSome = true := by
  induction f generalizing R with
  | zero =>
    have := List.Nodup.length_le_of_subset hnd (fun x hx => hsub x hx)
    omega
  | succ f ih =>
    rw [close_succ]
    split
    · rfl
    · rename_i hne
      have hfr : ∀ y ∈ dedup (frontier deps R), y ∈ U ∧ y ∉ R := by
        intro y hy
        obtain ⟨⟨a, ha, hay⟩, hyR⟩ := mem_frontier.1 (mem_dedup.1 hy)
        exact ⟨hU a (hsub a ha) y hay, hyR⟩
      have hlen : 0 < (dedup (frontier deps R)).length := by
        have hne' : frontier deps R ≠ [] := by simpa [List.isEmpty_iff] using hne
        obtain ⟨y, hy⟩ := List.exists_mem_of_ne_nil _ hne'
        exact List.length_pos_of_mem (mem_dedup.2 hy)
      apply ih
      · rw [List.nodup_append]
        refine ⟨hnd, nodup_dedup _, ?_⟩
        intro a ha b hb hab
        subst hab
        exact (hfr a hb).2 ha
      · intro x hx
        rcases List.mem_append.1 hx with hx | hx
        · exact hsub x hx
        · exact (hfr x hx).1
      · rw [List.length_append]; omega

theorem succ_subset_nodes (deps : List (Name × List Name)) (x y : Name) (h : y ∈ succ deps x) :
    y ∈ nodes deps := by
  unfold succ at h
  split at h
  · rename_i p hp
    have hp' : p ∈ deps := List.mem_of_find?_eq_some hp
    apply mem_dedup.2
    apply List.mem_append_right
    exact List.mem_flatMap.2 ⟨p, hp', h⟩
  · cases h

theorem reachable_total (deps : List (Name × List Name)) (seeds : List Name) :
    (reachable deps seeds).isSome = true := by
  unfold reachable
  apply close_total deps (seeds ++ nodes deps)
  · intro x _ y hy
    exact List.mem_append_right _ (succ_subset_nodes deps x y hy)
  · exact nodup_dedup _
  · intro x hx
    exact List.mem_append_left _ (mem_dedup.1 hx)
  · rw [List.length_append]; omega

theorem cyclic_close_total (deps : List (Name × List Name)) (v : Name) :
    (close deps ((nodes deps).length + 2) (dedup (succ deps v))).isSome = true := by
  apply close_total deps (nodes deps)
  · intro x _ y hy
    exact succ_subset_nodes deps x y hy
  · exact nodup_dedup _
  · intro x hx
    exact succ_subset_nodes deps v x (mem_dedup.1 hx)
  · omega

/-! ## `collect` -/

theorem collect_obj (fps : Fps) (props oneOf anyOf allOf : List S) (items addl : Option S) :
    collect fps (.obj props oneOf anyOf allOf items addl) =
      collectRefs fps props ++ collectRefs fps oneOf ++ collectRefs fps anyOf ++ collectRefs fps allOf ++
      (if (fingerprint oneOf).isEmpty then [] else (fpLookup fps (fingerprint oneOf)).toList) ++
      (if (fingerprint anyOf).isEmpty then [] else (fpLookup fps (fingerprint anyOf)).toList) ++
      (match items with | some i => collectRef fps i | none => []) := by
  cases items <;> simp [collect]

theorem collectRef_obj (fps : Fps) (props oneOf anyOf allOf : List S) (items addl : Option S) :
    collectRef fps (.obj props oneOf anyOf allOf items addl) =
      collect fps (.obj props oneOf anyOf allOf items addl) := by
  cases items <;> simp [collect, collectRef]

theorem collect_subset_collectRef (fps : Fps) (t : S) : ∀ n ∈ collect fps t, n ∈ collectRef fps t := by
  intro n hn
  cases t with
  | ref m => simp [collect] at hn
  | extRef => simp [collect] at hn
  | obj props oneOf anyOf allOf items addl => rw [collectRef_obj]; exact hn

theorem mem_collectRefs {fps : Fps} {l : List S} {n : Name} :
    n ∈ collectRefs fps l ↔ ∃ s ∈ l, n ∈ collectRef fps s := by
  induction l with
  | nil => simp [collectRefs]
  | cons s r ih =>
    rw [collectRefs, List.mem_append, ih]
    simp

theorem collectRef_ref (fps : Fps) (n : Name) : collectRef fps (.ref n) = [n] := by
  simp [collectRef]

end Oas3.Graph
