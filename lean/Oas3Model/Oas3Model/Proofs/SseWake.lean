import Oas3Model.Proofs.Sse
/-
Proofs for the wake accounting of `EventStream::poll_next` (`Model/EventStream.lean`, second half):
the executor-driven consumer sees what the busy-polling consumer sees, and never stalls.
-/
namespace Oas3.EventStream
open Oas3.Sse

variable {R : Type}

theorem innerRunW_erase (script : List Step) : ∀ st : St,
    (innerRunW st script).map InnerW.erase = innerRun st (script.map Step.toIn) := by
  induction script with
  | nil => intro st; simp only [innerRunW, innerRun, List.map_nil]; split <;> rfl
  | cons s t ih =>
    intro st
    cases s with
    | pendLater => simp [innerRunW, innerRun, Step.toIn, InnerW.erase, ih]
    | pendWake => simp [innerRunW, innerRun, Step.toIn, InnerW.erase, ih]
    | chunk bs =>
      simp only [innerRunW, innerRun, Step.toIn, List.map_cons]
      cases h : feedBytes st bs with
      | none => rfl
      | some p =>
        obtain ⟨st', evs⟩ := p
        simp only [List.map_append, List.map_map, ih]
        congr 1

/-- a call of `poll_next` that answers `Pending` has just seen the inner stream answer `Pending`,
after skipping empty-data events only; the inner stream holds the waker -/
theorem pollStep_pending (dec : List Char → R) (is : List InnerW)
    (h : (pollStep dec is).out = .pending) :
    (pollStep dec is).innerPending = true ∧
      ∃ pre w rest, is = pre ++ .pending w :: rest ∧ (∀ i ∈ pre, i = .ev []) ∧
        (pollStep dec is).rest = rest ∧ (pollStep dec is).transportWoke = w := by
  induction is with
  | nil => simp [pollStep] at h
  | cons i t ih =>
    cases i with
    | pending w => exact ⟨rfl, [], w, t, rfl, by simp, rfl, rfl⟩
    | ev d =>
      simp only [pollStep] at h ⊢
      split at h
      · next hd =>
        rw [if_pos hd]
        obtain ⟨hp, pre, w, rest, e, hpre, hr, hw⟩ := ih h
        have : d = [] := by simpa using hd
        subst this
        exact ⟨hp, .ev [] :: pre, w, rest, by rw [e]; rfl, by simpa using hpre, hr, hw⟩
      · simp at h
    | utf8Err => simp [pollStep] at h
    | done => simp [pollStep] at h
    | panic => simp [pollStep] at h

/-- today's loop never wakes the waker itself -/
theorem pollStep_wokeSelf (dec : List Char → R) (is : List InnerW) : (pollStep dec is).wokeSelf = false := by
  induction is with
  | nil => rfl
  | cons i t ih =>
    cases i <;> simp only [pollStep]
    split
    · exact ih
    · rfl

theorem pollStep_rest_length (dec : List Char → R) (is : List InnerW) :
    (pollStep dec is).rest.length ≤ is.length - 1 := by
  induction is with
  | nil => simp [pollStep]
  | cons i t ih =>
    cases i <;> simp [pollStep]
    split
    · omega
    · simp

/-- the executor only looks at the result of the poll -/
theorem execWith_congr (poll : List InnerW → Poll R) (f : Nat) (a b : List InnerW) (h : poll a = poll b) :
    execWith poll (f + 1) a = execWith poll (f + 1) b := by
  simp only [execWith, h]

/-- executor-driven consumer = busy-polling consumer, poll by poll; in particular no `stalled` and
no `fuel` entry, and the run ends with `done` (or the crate's panic). -/
theorem execWith_outer (dec : List Char → R) : ∀ (is : List InnerW) (f : Nat), is.length < f →
    (execWith (pollStep dec) f is).map Seen.toOuter = (outerTrace dec (is.map InnerW.erase)).map some := by
  intro is
  induction is with
  | nil =>
    intro f hf
    cases f with
    | zero => simp at hf
    | succ f => simp [execWith, pollStep, outerTrace_nil, Seen.toOuter]
  | cons i t ih =>
    intro f hf
    cases f with
    | zero => simp at hf
    | succ f =>
      have hf' : t.length < f := by simpa using hf
      cases i with
      | pending w =>
        simp [execWith, pollStep, InnerW.erase, outerTrace_pending, Seen.toOuter, ih f hf']
      | utf8Err =>
        simp [execWith, pollStep, InnerW.erase, outerTrace_utf8Err, Seen.toOuter, ih f hf']
      | done => simp [execWith, pollStep, InnerW.erase, outerTrace_done, Seen.toOuter]
      | panic => simp [execWith, pollStep, InnerW.erase, outerTrace_panic, Seen.toOuter]
      | ev d =>
        cases hd : d.isEmpty
        · simp [execWith, pollStep, hd, InnerW.erase, outerTrace_ev_nonempty dec d _ hd, Seen.toOuter, ih f hf']
        · have hp : pollStep dec (.ev d :: t) = pollStep dec t := by simp [pollStep, hd]
          rw [execWith_congr (pollStep dec) f _ _ hp]
          simp only [List.map_cons, InnerW.erase]
          rw [outerTrace_ev_empty dec d _ hd]
          exact ih (f + 1) (by omega)

theorem execTrace_outer (dec : List Char → R) (is : List InnerW) :
    (execTrace dec is).map Seen.toOuter = (outerTrace dec (is.map InnerW.erase)).map some :=
  execWith_outer dec is (is.length + 1) (by omega)

theorem execTrace_no_stall (dec : List Char → R) (is : List InnerW) :
    Seen.stalled ∉ execTrace dec is ∧ Seen.fuel ∉ execTrace dec is := by
  have h := execTrace_outer dec is
  constructor
  · intro hm
    have : (Seen.toOuter (Seen.stalled : Seen R)) ∈ (execTrace dec is).map Seen.toOuter := List.mem_map_of_mem hm
    rw [h] at this
    simp [Seen.toOuter] at this
  · intro hm
    have : (Seen.toOuter (Seen.fuel : Seen R)) ∈ (execTrace dec is).map Seen.toOuter := List.mem_map_of_mem hm
    rw [h] at this
    simp [Seen.toOuter] at this

/-- every `Pending` the executor-driven consumer receives was answered with the inner stream
holding the waker -/
theorem execWith_pending_inner (dec : List Char → R) : ∀ (f : Nat) (is : List InnerW) (ip w : Bool),
    Seen.out .pending ip w ∈ execWith (pollStep dec) f is → ip = true := by
  intro f
  induction f with
  | zero => intro is ip w h; simp [execWith] at h
  | succ f ih =>
    intro is ip w h
    simp only [execWith] at h
    have hp := pollStep_pending dec is
    split at h
    · next ho => simp [ho] at h
    · next ho => simp [ho] at h
    · next ho =>
      have hip := (hp ho).1
      simp only [hip, Bool.true_or, if_true, List.mem_cons] at h
      rcases h with h | h
      · simp only [Seen.out.injEq] at h; rw [← h.2.1]
      · exact ih _ ip w h
    · next h1 h2 h3 =>
      simp only [List.mem_cons] at h
      rcases h with h | h
      · simp only [Seen.out.injEq] at h; exact absurd h.1.symm (by simpa using h3)
      · exact ih _ ip w h

end Oas3.EventStream

/-! ### a skip budget WITH self-wake keeps the property (the extra `Pending`s are all woken) -/
namespace Oas3.EventStream
open Oas3.Sse

variable {R : Type}

/-- what the consumer keeps: everything but `Pending` -/
def keptOuter : Option (OuterOut R) → Bool
  | some .pending => false
  | _ => true

/-- the executor's step once the result of the poll is known -/
def execStep (poll : List InnerW → Poll R) (f : Nat) (p : Poll R) : List (Seen R) :=
  let seen := Seen.out p.out p.innerPending (p.transportWoke || p.wokeSelf)
  match p.out with
  | .done => [seen]
  | .panic => [seen]
  | .pending => if p.innerPending || p.wokeSelf then seen :: execWith poll f p.rest else [.stalled]
  | _ => seen :: execWith poll f p.rest

theorem execWith_succ (poll : List InnerW → Poll R) (f : Nat) (is : List InnerW) :
    execWith poll (f + 1) is = execStep poll f (poll is) := rfl

theorem execBudget_kept (n : Nat) (dec : List Char → R) : ∀ (is : List InnerW) (k f : Nat),
    k < n → is.length < f →
    ((execStep (pollBudget n true dec 0) f (pollBudget n true dec k is)).map Seen.toOuter).filter keptOuter =
      ((outerTrace dec (is.map InnerW.erase)).map some).filter keptOuter := by
  intro is
  induction is with
  | nil =>
    intro k f _ _
    simp [pollBudget, execStep, outerTrace_nil, Seen.toOuter, keptOuter]
  | cons i t ih =>
    intro k f hk hf
    cases f with
    | zero => simp at hf
    | succ f =>
      have hf' : t.length < f := by simpa using hf
      have h0 : 0 < n := by omega
      cases i with
      | pending w =>
        simp only [pollBudget, execStep, Bool.true_or, if_true, List.map_cons, Seen.toOuter, InnerW.erase,
          outerTrace_pending, keptOuter, List.filter_cons_of_neg, Bool.false_eq_true, not_false_eq_true]
        rw [execWith_succ]
        exact ih 0 f h0 hf'
      | utf8Err =>
        simp only [pollBudget, execStep, List.map_cons, Seen.toOuter, InnerW.erase, outerTrace_utf8Err]
        rw [execWith_succ, List.filter_cons_of_pos (by rfl), List.filter_cons_of_pos (by rfl), ih 0 f h0 hf']
      | done => simp [pollBudget, execStep, InnerW.erase, outerTrace_done, Seen.toOuter, keptOuter]
      | panic => simp [pollBudget, execStep, InnerW.erase, outerTrace_panic, Seen.toOuter, keptOuter]
      | ev d =>
        cases hd : d.isEmpty
        · simp only [pollBudget, hd, Bool.false_eq_true, if_false, execStep, List.map_cons, Seen.toOuter, InnerW.erase]
          rw [outerTrace_ev_nonempty dec d _ hd, execWith_succ, List.map_cons,
            List.filter_cons_of_pos (by rfl), List.filter_cons_of_pos (by rfl), ih 0 f h0 hf']
        · simp only [List.map_cons, InnerW.erase]
          rw [outerTrace_ev_empty dec d _ hd]
          by_cases hn : (k + 1 == n) = true
          · simp only [pollBudget, hd, if_true, hn, execStep, Bool.or_true, List.map_cons, Seen.toOuter,
              keptOuter, List.filter_cons_of_neg, Bool.false_eq_true, not_false_eq_true]
            rw [execWith_succ]
            exact ih 0 f h0 hf'
          · have hk' : k + 1 < n := by
              have : k + 1 ≠ n := by simpa using hn
              omega
            have hp : pollBudget n true dec k (.ev d :: t) = pollBudget n true dec (k + 1) t := by
              simp [pollBudget, hd, hn]
            rw [hp]
            exact ih (k + 1) (f + 1) hk' (by omega)

end Oas3.EventStream
