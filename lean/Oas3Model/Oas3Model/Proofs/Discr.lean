import Oas3Model.Sem.Discr
/-! Lemmas for property C14: association-list `BTreeMap` operations, grouping of tags by target,
the flattened arm table, the tag cache written by one mapping. -/
namespace Oas3.Discr

-- ------------------------------------------------------------------------------------------
-- look / ins

theorem look_ins {β : Type} (k k' : Str) (v : β) (m : List (Str × β)) :
    look k (ins k' v m) = if k' = k then some v else look k m := by
  induction m with
  | nil => simp [ins, look]
  | cons hd tl ih =>
    obtain ⟨a, b⟩ := hd
    unfold ins
    by_cases h1 : a = k'
    · subst h1
      by_cases h2 : a = k <;> simp [look, h2]
    · simp only [h1, if_false]
      by_cases h3 : ltS k' a = true
      · simp only [h3, if_true]
        by_cases h2 : k' = k
        · simp [look, h2]
        · simp [look, h2]
      · simp only [h3]
        by_cases h2 : k' = k
        · subst h2
          have : ¬ a = k' := h1
          simp [look, this, ih]
        · by_cases h4 : a = k <;> simp [look, h4, ih, h2]

theorem look_some_mem {β : Type} (k : Str) (v : β) (l : List (Str × β)) : look k l = some v → (k, v) ∈ l := by
  induction l with
  | nil => simp [look]
  | cons hd tl ih =>
    obtain ⟨a, b⟩ := hd
    unfold look
    by_cases h : a = k
    · subst h; simp; intro hb; left; exact hb.symm
    · simp only [h, if_false]; intro hl; exact List.mem_cons_of_mem _ (ih hl)

theorem look_none_of_not_key {β : Type} (k : Str) (l : List (Str × β)) : (∀ v, (k, v) ∉ l) → look k l = none := by
  intro h
  cases hl : look k l with
  | none => rfl
  | some v => exact absurd (look_some_mem k v l hl) (h v)

/-- first-match lookup returns the unique value paired with the key -/
theorem look_of_mem_unique {β : Type} (k : Str) (v : β) (l : List (Str × β)) :
    (k, v) ∈ l → (∀ v', (k, v') ∈ l → v' = v) → look k l = some v := by
  intro hm hu
  cases hl : look k l with
  | none =>
    exfalso
    induction l with
    | nil => cases hm
    | cons hd tl ih =>
      obtain ⟨a, b⟩ := hd
      unfold look at hl
      by_cases h : a = k
      · simp [h] at hl
      · simp only [h, if_false] at hl
        rcases List.mem_cons.mp hm with h1 | h1
        · exact h (by cases h1; rfl)
        · exact ih h1 (fun v' hv' => hu v' (List.mem_cons_of_mem _ hv')) hl
  | some v' => rw [hu v' (look_some_mem k v' l hl)]

theorem keys_nodup_unique {β : Type} (m : List (Str × β)) (h : (m.map Prod.fst).Nodup) (k : Str) (v v' : β) :
    (k, v) ∈ m → (k, v') ∈ m → v = v' := by
  induction m with
  | nil => intro h1; cases h1
  | cons hd tl ih =>
    obtain ⟨a, b⟩ := hd
    simp only [List.map_cons, List.nodup_cons] at h
    intro h1 h2
    rcases List.mem_cons.mp h1 with e1 | e1 <;> rcases List.mem_cons.mp h2 with e2 | e2
    · cases e1; cases e2; rfl
    · cases e1; exact absurd (List.mem_map.mpr ⟨(k, v'), e2, rfl⟩) h.1
    · cases e2; exact absurd (List.mem_map.mpr ⟨(k, v), e1, rfl⟩) h.1
    · exact ih h.2 e1 e2

-- ------------------------------------------------------------------------------------------
-- grouping tags by target and the flattened arm table

/-- tag `t` is listed for target `c` in the grouped table -/
def Rel (g : List (Str × List Str)) (t c : Str) : Prop := ∃ ts, (c, ts) ∈ g ∧ t ∈ ts

theorem rel_pushAt (g : List (Str × List Str)) (c' t' t c : Str) :
    Rel (pushAt c' t' g) t c ↔ Rel g t c ∨ (t = t' ∧ c = c') := by
  induction g with
  | nil =>
    simp only [pushAt, Rel]
    constructor
    · rintro ⟨ts, hm, ht⟩
      simp at hm
      obtain ⟨rfl, rfl⟩ := hm
      simp at ht
      exact Or.inr ⟨ht, rfl⟩
    · rintro (⟨ts, hm, _⟩ | ⟨rfl, rfl⟩)
      · cases hm
      · exact ⟨[t], by simp, by simp⟩
  | cons hd tl ih =>
    obtain ⟨a, as⟩ := hd
    unfold pushAt
    by_cases h1 : a = c'
    · subst h1
      simp only [if_true, Rel]
      constructor
      · rintro ⟨ts, hm, ht⟩
        rcases List.mem_cons.mp hm with e | e
        · cases e
          rcases List.mem_append.mp ht with h | h
          · exact Or.inl ⟨as, by simp, h⟩
          · simp at h; exact Or.inr ⟨h, rfl⟩
        · exact Or.inl ⟨ts, List.mem_cons_of_mem _ e, ht⟩
      · rintro (⟨ts, hm, ht⟩ | ⟨rfl, rfl⟩)
        · rcases List.mem_cons.mp hm with e | e
          · cases e; exact ⟨as ++ [t'], by simp, by simp [ht]⟩
          · exact ⟨ts, List.mem_cons_of_mem _ e, ht⟩
        · exact ⟨as ++ [t], by simp, by simp⟩
    · simp only [h1, if_false]
      by_cases h2 : ltS c' a = true
      · simp only [h2, if_true, Rel]
        constructor
        · rintro ⟨ts, hm, ht⟩
          rcases List.mem_cons.mp hm with e | e
          · cases e; simp at ht; exact Or.inr ⟨ht, rfl⟩
          · exact Or.inl ⟨ts, e, ht⟩
        · rintro (⟨ts, hm, ht⟩ | ⟨rfl, rfl⟩)
          · exact ⟨ts, List.mem_cons_of_mem _ hm, ht⟩
          · exact ⟨[t], by simp, by simp⟩
      · simp only [h2]
        have ih' := ih
        simp only [Rel] at ih' ⊢
        constructor
        · rintro ⟨ts, hm, ht⟩
          rcases List.mem_cons.mp hm with e | e
          · cases e; exact Or.inl ⟨_, by simp, ht⟩
          · rcases ih'.mp ⟨ts, e, ht⟩ with ⟨ts', hm', ht'⟩ | h
            · exact Or.inl ⟨ts', List.mem_cons_of_mem _ hm', ht'⟩
            · exact Or.inr h
        · rintro (⟨ts, hm, ht⟩ | h)
          · rcases List.mem_cons.mp hm with e | e
            · cases e; exact ⟨_, by simp, ht⟩
            · obtain ⟨ts', hm', ht'⟩ := ih'.mpr (Or.inl ⟨ts, e, ht⟩)
              exact ⟨ts', List.mem_cons_of_mem _ hm', ht'⟩
          · obtain ⟨ts', hm', ht'⟩ := ih'.mpr (Or.inr h)
            exact ⟨ts', List.mem_cons_of_mem _ hm', ht'⟩

theorem rel_foldl (m : List (Str × Str)) (g : List (Str × List Str)) (t c : Str) :
    Rel (m.foldl (fun g (e : Str × Str) => pushAt e.2 e.1 g) g) t c ↔ Rel g t c ∨ (t, c) ∈ m := by
  induction m generalizing g with
  | nil => simp
  | cons hd tl ih =>
    obtain ⟨t', c'⟩ := hd
    simp only [List.foldl_cons]
    rw [ih, rel_pushAt]
    constructor
    · rintro ((h | ⟨rfl, rfl⟩) | h)
      · exact Or.inl h
      · exact Or.inr (by simp)
      · exact Or.inr (List.mem_cons_of_mem _ h)
    · rintro (h | h)
      · exact Or.inl (Or.inl h)
      · rcases List.mem_cons.mp h with e | e
        · cases e; exact Or.inl (Or.inr ⟨rfl, rfl⟩)
        · exact Or.inr e

/-- the grouped table lists exactly the pairs of the mapping -/
theorem rel_group (m : List (Str × Str)) (t c : Str) : Rel (group m) t c ↔ (t, c) ∈ m := by
  unfold group
  rw [rel_foldl]
  constructor
  · rintro (⟨ts, hm, _⟩ | h)
    · cases hm
    · exact h
  · exact Or.inr

theorem mem_armsOf (g : List (Str × List Str)) (t c : Str) : (t, c) ∈ armsOf g ↔ Rel g t c := by
  unfold armsOf Rel
  simp only [List.mem_flatMap, List.mem_map]
  constructor
  · rintro ⟨⟨c', ts⟩, hm, t', ht', e⟩
    cases e
    exact ⟨ts, hm, ht'⟩
  · rintro ⟨ts, hm, ht⟩
    exact ⟨(c, ts), hm, t, ht, rfl⟩

theorem mem_armsOf_filter (g : List (Str × List Str)) (P : Str → Bool) (t c : Str) :
    (t, c) ∈ armsOf (g.filter (fun e => P e.1)) ↔ (t, c) ∈ armsOf g ∧ P c = true := by
  rw [mem_armsOf, mem_armsOf]
  unfold Rel
  constructor
  · rintro ⟨ts, hm, ht⟩
    obtain ⟨hm', hp⟩ := List.mem_filter.mp hm
    exact ⟨⟨ts, hm', ht⟩, hp⟩
  · rintro ⟨⟨ts, hm, ht⟩, hp⟩
    exact ⟨ts, List.mem_filter.mpr ⟨hm, hp⟩, ht⟩

/-- arms of the (possibly filtered) mapping: exactly the retained pairs -/
theorem mem_arms_group (m : List (Str × Str)) (t c : Str) : (t, c) ∈ armsOf (group m) ↔ (t, c) ∈ m := by
  rw [mem_armsOf, rel_group]

-- ------------------------------------------------------------------------------------------
-- the tag cache written by one explicit mapping: the LAST tag (in map order) for a child wins

theorem tagsFor_cons (t x : Str) (m : List (Str × Str)) (c : Str) :
    tagsFor ((t, x) :: m) c = if x = c then t :: tagsFor m c else tagsFor m c := by
  unfold tagsFor
  by_cases h : x = c <;> simp [h]

theorem look_writeMapping (p : Str) (m : List (Str × Str)) (cache : List (Str × DM)) (c : Str) :
    look c (writeMapping p m cache) =
      match lastTagFor m c with
      | some t => some ⟨p, t⟩
      | none => look c cache := by
  induction m generalizing cache with
  | nil => simp [writeMapping, lastTagFor, tagsFor, lastOf]
  | cons hd tl ih =>
    obtain ⟨t, x⟩ := hd
    have hstep : writeMapping p ((t, x) :: tl) cache = writeMapping p tl (ins x ⟨p, t⟩ cache) := by
      simp [writeMapping]
    rw [hstep, ih]
    unfold lastTagFor
    rw [tagsFor_cons]
    by_cases hx : x = c
    · subst hx
      simp only [if_true, lastOf]
      cases hl : lastOf (tagsFor tl x) with
      | none => simp [look_ins]
      | some v => simp
    · simp only [hx, if_false]
      cases hl : lastOf (tagsFor tl c) with
      | none => simp [look_ins, hx]
      | some v => simp

-- ------------------------------------------------------------------------------------------
-- struct fields

theorem look_map_fields (cacheEntry : Option DM) (disc : Option Disc) (props : List (Str × PInfo)) (p : Str) :
    look p (props.map (fun e => (e.1, fieldMode cacheEntry disc e.1 e.2))) = (look p props).map (fieldMode cacheEntry disc p) := by
  induction props with
  | nil => simp [look]
  | cons hd tl ih =>
    obtain ⟨a, b⟩ := hd
    simp only [List.map_cons, look]
    by_cases h : a = p
    · subst h; simp
    · simp [h, ih]

end Oas3.Discr
