/-
C04: from the responses object to the emitted chain — sorting, one variant per response,
`groupByTok` on distinct tokens, and "first handler whose condition holds".
-/
import Oas3Model.Proofs.Status

namespace Oas3.Proofs.Status
open Oas3.Status Oas3.Resp Oas3.Gen.Status

/-! ### `strLt` is a strict total order -/

theorem strLt_irrefl (a : List Char) : strLt a a = false := by
  induction a with
  | nil => rfl
  | cons x r ih =>
    cases h : strLt (x :: r) (x :: r) with
    | false => rfl
    | true =>
      rw [strLt_cons] at h
      rcases h with h | h
      · omega
      · rw [ih] at h; simp at h

theorem strLt_trans : ∀ a b c : List Char, strLt a b = true → strLt b c = true → strLt a c = true
  | [], [], _, h, _ => by simp [strLt] at h
  | [], _ :: _, [], _, h => by simp [strLt] at h
  | [], _ :: _, _ :: _, _, _ => by simp [strLt]
  | _ :: _, [], _, h, _ => by simp [strLt] at h
  | _ :: _, _ :: _, [], _, h => by simp [strLt] at h
  | x :: r, y :: s, z :: t, h1, h2 => by
    rw [strLt_cons] at h1 h2 ⊢
    rcases h1 with h1 | ⟨e1, h1⟩ <;> rcases h2 with h2 | ⟨e2, h2⟩
    · left; omega
    · left; omega
    · left; omega
    · right; exact ⟨by omega, strLt_trans r s t h1 h2⟩

theorem strLt_asymm {a b : List Char} (h : strLt a b = true) : strLt b a = false := by
  cases h' : strLt b a with
  | false => rfl
  | true =>
    have := strLt_trans a b a h h'
    rw [strLt_irrefl] at this
    exact this.symm

theorem strLt_total : ∀ a b : List Char, strLt a b = false → a ≠ b → strLt b a = true
  | [], [], _, h => absurd rfl h
  | [], _ :: _, h, _ => by simp [strLt] at h
  | _ :: _, [], _, _ => by simp [strLt]
  | x :: r, y :: s, h, hne => by
    rw [strLt_cons]
    have h' : ¬ (x.toNat < y.toNat ∨ (x.toNat = y.toNat ∧ strLt r s = true)) := by
      rw [← strLt_cons, h]; simp
    rcases Nat.lt_trichotomy x.toNat y.toNat with hlt | heq | hgt
    · exact absurd (Or.inl hlt) h'
    · right
      have hxy : x = y := Char.toNat_inj.mp heq
      refine ⟨heq.symm, strLt_total r s ?_ ?_⟩
      · cases hrs : strLt r s with
        | false => rfl
        | true => exact absurd (Or.inr ⟨heq, hrs⟩) h'
      · intro e; exact hne (by rw [hxy, e])
    · left; exact hgt

/-! ### `sortKeys`: sorted, and (for distinct keys) a permutation -/

/-- keys strictly increasing in `strLt` -/
def KSorted {β} (l : List (List Char × β)) : Prop := l.Pairwise (fun p q => strLt p.1 q.1 = true)

theorem mem_insertSorted {β} {k : List Char} {v : β} {acc : List (List Char × β)} {p : List Char × β}
    (h : p ∈ insertSorted k v acc) : p = (k, v) ∨ p ∈ acc := by
  induction acc with
  | nil => simp [insertSorted] at h; exact Or.inl h
  | cons a r ih =>
    obtain ⟨k', v'⟩ := a
    simp only [insertSorted] at h
    split at h
    · rcases List.mem_cons.mp h with h | h
      · exact Or.inl h
      · exact Or.inr h
    · split at h
      · rcases List.mem_cons.mp h with h | h
        · exact Or.inl h
        · exact Or.inr (List.mem_cons_of_mem _ h)
      · rcases List.mem_cons.mp h with h | h
        · exact Or.inr (h ▸ List.mem_cons_self)
        · rcases ih h with h | h
          · exact Or.inl h
          · exact Or.inr (List.mem_cons_of_mem _ h)

theorem mem_insertSorted_self {β} (k : List Char) (v : β) (acc : List (List Char × β)) :
    (k, v) ∈ insertSorted k v acc := by
  induction acc with
  | nil => simp [insertSorted]
  | cons a r ih =>
    obtain ⟨k', v'⟩ := a
    simp only [insertSorted]
    split
    · exact List.mem_cons_self
    · split
      · exact List.mem_cons_self
      · exact List.mem_cons_of_mem _ ih

theorem mem_insertSorted_of_mem {β} {k : List Char} {v : β} {acc : List (List Char × β)} {p : List Char × β}
    (h : p ∈ acc) (hk : p.1 ≠ k) : p ∈ insertSorted k v acc := by
  induction acc with
  | nil => cases h
  | cons a r ih =>
    obtain ⟨k', v'⟩ := a
    simp only [insertSorted]
    split
    · exact List.mem_cons_of_mem _ h
    · split
      · rename_i hkk
        have hkk : k = k' := by simpa using hkk
        rcases List.mem_cons.mp h with h | h
        · subst h; exact absurd hkk.symm hk
        · exact List.mem_cons_of_mem _ h
      · rcases List.mem_cons.mp h with h | h
        · subst h; exact List.mem_cons_self
        · exact List.mem_cons_of_mem _ (ih h)

theorem insertSorted_sorted {β} (k : List Char) (v : β) (acc : List (List Char × β)) (hs : KSorted acc) :
    KSorted (insertSorted k v acc) := by
  induction acc with
  | nil => simp [insertSorted, KSorted]
  | cons a r ih =>
    obtain ⟨k', v'⟩ := a
    have hs' := List.pairwise_cons.mp hs
    simp only [insertSorted]
    split
    · rename_i hlt
      refine List.pairwise_cons.mpr ⟨fun q hq => ?_, hs⟩
      rcases List.mem_cons.mp hq with rfl | hq
      · exact hlt
      · exact strLt_trans _ _ _ hlt (hs'.1 q hq)
    · rename_i hnlt
      split
      · rename_i hkk
        have hkk : k = k' := by simpa using hkk
        subst hkk
        exact List.pairwise_cons.mpr ⟨hs'.1, hs'.2⟩
      · rename_i hne
        have hne : k ≠ k' := by simpa using hne
        have hgt : strLt k' k = true := strLt_total k k' (by simpa using hnlt) hne
        refine List.pairwise_cons.mpr ⟨fun q hq => ?_, ih hs'.2⟩
        rcases mem_insertSorted hq with rfl | hq
        · exact hgt
        · exact hs'.1 q hq

theorem sortKeys_eq {β} (l : List (List Char × β)) :
    sortKeys l = l.foldl (fun acc p => insertSorted p.1 p.2 acc) [] := by
  unfold sortKeys
  congr

theorem foldl_sorted {β} (l : List (List Char × β)) : ∀ acc, KSorted acc →
    KSorted (l.foldl (fun acc p => insertSorted p.1 p.2 acc) acc) := by
  induction l with
  | nil => intro acc h; exact h
  | cons a t ih => intro acc h; exact ih _ (insertSorted_sorted _ _ _ h)

theorem foldl_mem_sub {β} (l : List (List Char × β)) : ∀ acc p,
    p ∈ l.foldl (fun acc p => insertSorted p.1 p.2 acc) acc → p ∈ acc ∨ p ∈ l := by
  induction l with
  | nil => intro acc p h; exact Or.inl h
  | cons a t ih =>
    intro acc p h
    rcases ih _ p h with h | h
    · rcases mem_insertSorted h with h | h
      · exact Or.inr (h ▸ List.mem_cons_self)
      · exact Or.inl h
    · exact Or.inr (List.mem_cons_of_mem _ h)

theorem foldl_mem_sup {β} (l : List (List Char × β)) : ∀ acc p, (l.map (·.1)).Nodup →
    (p ∈ l ∨ (p ∈ acc ∧ p.1 ∉ l.map (·.1))) → p ∈ l.foldl (fun acc p => insertSorted p.1 p.2 acc) acc := by
  induction l with
  | nil =>
    intro acc p _ h
    rcases h with h | h
    · cases h
    · exact h.1
  | cons a t ih =>
    intro acc p hnd h
    rw [List.map_cons, List.nodup_cons] at hnd
    apply ih _ p hnd.2
    rcases h with h | h
    · rcases List.mem_cons.mp h with rfl | h
      · exact Or.inr ⟨mem_insertSorted_self _ _ _, hnd.1⟩
      · exact Or.inl h
    · have h2 : p.1 ≠ a.1 ∧ p.1 ∉ t.map (·.1) := by
        simpa [List.mem_cons, not_or] using h.2
      exact Or.inr ⟨mem_insertSorted_of_mem h.1 h2.1, h2.2⟩

theorem sortKeys_sorted {β} (l : List (List Char × β)) : KSorted (sortKeys l) := by
  rw [sortKeys_eq]; exact foldl_sorted l [] List.Pairwise.nil

theorem mem_of_mem_sortKeys {β} {l : List (List Char × β)} {p} (h : p ∈ sortKeys l) : p ∈ l := by
  rw [sortKeys_eq] at h
  rcases foldl_mem_sub l [] p h with h | h
  · cases h
  · exact h

theorem mem_sortKeys_of_mem {β} {l : List (List Char × β)} (hnd : (l.map (·.1)).Nodup) {p} (h : p ∈ l) :
    p ∈ sortKeys l := by
  rw [sortKeys_eq]; exact foldl_mem_sup l [] p hnd (Or.inl h)

theorem sortKeys_nodup {β} (l : List (List Char × β)) : (sortKeys l).Nodup := by
  refine List.Pairwise.imp ?_ (sortKeys_sorted l)
  intro a b h e
  rw [e, strLt_irrefl] at h
  exact absurd h (by simp)

/-- in a list sorted by `R`, `find?` returns `x` as soon as no other `P`-element can precede it -/
theorem find?_of_pairwise {α} {R : α → α → Prop} {P : α → Bool} {x : α} : ∀ {l : List α},
    l.Pairwise R → x ∈ l → P x = true → (∀ y ∈ l, P y = true → y ≠ x → ¬ R y x) → l.find? P = some x
  | [], _, hx, _, _ => by cases hx
  | a :: t, hs, hx, hP, hmin => by
    have hs' := List.pairwise_cons.mp hs
    by_cases hax : a = x
    · subst hax; simp [hP]
    · have hxt : x ∈ t := by
        rcases List.mem_cons.mp hx with h | h
        · exact absurd h.symm hax
        · exact h
      have hPa : P a = false := by
        cases hpa : P a with
        | false => rfl
        | true => exact absurd (hs'.1 x hxt) (hmin a List.mem_cons_self hpa hax)
      rw [List.find?_cons, hPa]
      exact find?_of_pairwise hs'.2 hxt hP (fun y hy => hmin y (List.mem_cons_of_mem _ hy))

/-! ### one variant per response when every status declares at most one media type -/

/-- the single variant `build_enum` produces for a response with ≤ 1 media type -/
def oneVariant (p : List Char × List MediaDecl) : Variant :=
  let tok := fromStr p.1
  let m := match p.2 with | [] => jsonMedia | d :: _ => resolveMedia tok d
  match groupKey m with
  | none => { tok, name := variantName tok, medias := [m], schemaType := none }
  | some key => { tok, name := variantName tok, medias := [m], schemaType := some key,
                  stringLike := m.stringLike, custom := m.custom }

/-- the synthetic `Unknown` variant of `with_default_variant` -/
def unknownVariant : Variant :=
  { tok := defaultTok, name := "Unknown".toList, medias := [jsonMedia], schemaType := none }

@[simp] theorem oneVariant_tok (p) : (oneVariant p).tok = fromStr p.1 := by
  unfold oneVariant; dsimp only; split <;> rfl

@[simp] theorem oneVariant_name (p) : (oneVariant p).name = variantName (fromStr p.1) := by
  unfold oneVariant; dsimp only; split <;> rfl

theorem oneVariant_medias (p) : ∃ m, (oneVariant p).medias = [m] := by
  unfold oneVariant; dsimp only; split <;> exact ⟨_, rfl⟩

theorem splitVariants_single_none (tok : Tok) (m : Media) (h : groupKey m = none) :
    splitVariants tok [m] = [{ tok, name := variantName tok, medias := [m], schemaType := none }] := by
  unfold splitVariants groupBySchema
  simp [List.foldl, h]

theorem splitVariants_single_some (tok : Tok) (m : Media) (key : List Char) (h : groupKey m = some key) :
    splitVariants tok [m] = [{ tok, name := variantName tok, medias := [m], schemaType := some key,
                               stringLike := m.stringLike, custom := m.custom }] := by
  unfold splitVariants groupBySchema
  simp [List.foldl, h, groupInsert]

theorem splitVariants_single (tok : Tok) (m : Media) :
    splitVariants tok [m] = [match groupKey m with
      | none => { tok, name := variantName tok, medias := [m], schemaType := none }
      | some key => { tok, name := variantName tok, medias := [m], schemaType := some key,
                      stringLike := m.stringLike, custom := m.custom }] := by
  split
  · rename_i h; exact splitVariants_single_none tok m h
  · rename_i key h; exact splitVariants_single_some tok m key h

theorem flatMap_single {α β} {f : α → List β} {g : α → β} {l : List α} (h : ∀ x ∈ l, f x = [g x]) :
    l.flatMap f = l.map g := by
  induction l with
  | nil => rfl
  | cons a t ih =>
    rw [List.flatMap_cons, h a List.mem_cons_self, ih (fun x hx => h x (List.mem_cons_of_mem _ hx))]
    rfl

theorem variantsOf_eq (rs : List (List Char × List MediaDecl)) (hlen : ∀ p ∈ rs, p.2.length ≤ 1) :
    variantsOf rs =
      if ((sortKeys rs).map oneVariant).isEmpty || ((sortKeys rs).map oneVariant).any (fun v => isDefault v.tok)
      then (sortKeys rs).map oneVariant else (sortKeys rs).map oneVariant ++ [unknownVariant] := by
  unfold variantsOf
  rw [flatMap_single (g := oneVariant)]
  · rfl
  · rintro ⟨key, decls⟩ hx
    have hl := hlen _ (mem_of_mem_sortKeys hx)
    match decls, hl with
    | [], _ => simp [sortKeys, oneVariant, splitVariants_single]
    | [d], _ => simp [sortKeys, insertSorted, oneVariant, splitVariants_single]

/-! ### the emitted chain -/

theorem isDefault_iff (t : Tok) : isDefault t = true ↔ t = defaultTok := by
  cases t with
  | named n =>
    simp only [isDefault, defaultToks_eq, List.contains_iff_mem, List.mem_cons, List.not_mem_nil, or_false,
      defaultTok, Tok.named.injEq]
  | unknown c => simp [isDefault, defaultTok]

theorem evalCond_condOf (tok : Tok) (n : Nat) : evalCond n (condOf tok) = Oas3.Status.cond tok n := by
  unfold condOf Oas3.Status.cond
  by_cases hd : isDefault tok = true
  · simp [hd, evalCond]
  · simp only [hd, if_false, Bool.false_eq_true]
    cases tok with
    | named nm =>
      dsimp only
      cases hc : lookup nm condTbl with
      | some p => simp [evalCond]
      | none =>
        dsimp only [httpStatus]
        cases hh : lookup nm httpConstTbl with
        | some c => simp [evalCond]
        | none => simp only [evalCond, ise_value]
    | unknown c => simp [evalCond, httpStatus]

theorem extractOf_variant (c : Cat) (v : Variant) : (extractOf c v).variant = v.name := by
  unfold extractOf
  cases v.schemaType with
  | none => rfl
  | some ty =>
    dsimp only
    cases c <;> dsimp only <;> (repeat' split) <;> rfl

/-- placeholder case for the (excluded) dispatch bodies in `evalChainAux_first` -/
def noCase : Case := { variant := [], payload := false, extract := [], ty := [] }

/-- for a handler list whose bodies are all `.single`, the chain returns the first handler whose
condition holds on the status. -/
theorem evalChainAux_first (n : Nat) (ct : List Char) (hs : List (CondE × Body))
    (hsingle : ∀ h ∈ hs, ∃ k, h.2 = .single k) :
    evalChainAux n ct hs = (hs.find? (fun h => evalCond n h.1)).map
      (fun h => match h.2 with | .single k => k | .dispatch _ => noCase) := by
  induction hs with
  | nil => rfl
  | cons a t ih =>
    obtain ⟨c, b⟩ := a
    obtain ⟨k, hk⟩ := hsingle (c, b) List.mem_cons_self
    dsimp only at hk
    subst hk
    have ih := ih (fun h hh => hsingle h (List.mem_cons_of_mem _ hh))
    simp only [evalChainAux, List.find?_cons]
    cases evalCond n c with
    | true => simp
    | false => simpa using ih

theorem groupByTok_nodup : ∀ (l : List Variant), (l.map (·.tok)).Nodup →
    groupByTok l = l.map (fun v => (v.tok, [v]))
  | [], _ => rfl
  | v :: r, h => by
    rw [List.map_cons, List.nodup_cons] at h
    have ih := groupByTok_nodup r h.2
    have hnone : (r.map (fun v => (v.tok, [v]))).find? (fun p => p.1 == v.tok) = none := by
      rw [List.find?_eq_none]
      intro p hp
      obtain ⟨w, hw, rfl⟩ := List.mem_map.mp hp
      simp only [beq_iff_eq]
      intro e
      exact h.1 (e ▸ List.mem_map_of_mem hw)
    simp only [groupByTok, ih, hnone, List.map_cons]

theorem bodyOf_single (v : Variant) (h : ∃ m, v.medias = [m]) :
    bodyOf [v] = .single (extractOf (primaryCat v.medias) v) := by
  obtain ⟨m, hm⟩ := h
  simp [bodyOf, uniqCats, hm, List.eraseDups_cons]

theorem chainOf_eq (rs : List (List Char × List MediaDecl)) :
    chainOf rs = if (variantsOf rs).isEmpty then none else
      some { handlers := (groupByTok ((variantsOf rs).filter (fun v => !isDefault v.tok))).map
                fun (tok, g) => (condOf tok, bodyOf g),
             fallback := match (variantsOf rs).filter (fun v => isDefault v.tok) with
                | v :: _ => extractOf (primaryCat v.medias) v
                | [] => { variant := "Unknown".toList, payload := false, extract := "none".toList, ty := [] } } := by
  unfold chainOf
  simp only [List.partition_eq_filter_filter]
  rfl

/-! ### assembling: handlers of a well-formed responses object -/

theorem isDefault_defaultTok : isDefault defaultTok = true := (isDefault_iff _).mpr rfl

theorem status_eq (rs : List (List Char × List MediaDecl)) (hlen : ∀ p ∈ rs, p.2.length ≤ 1) :
    (variantsOf rs).filter (fun v => !isDefault v.tok) =
      ((sortKeys rs).filter (fun p => !isDefault (fromStr p.1))).map oneVariant := by
  rw [variantsOf_eq rs hlen]
  have h1 : ((sortKeys rs).map oneVariant).filter (fun v => !isDefault v.tok) =
      ((sortKeys rs).filter (fun p => !isDefault (fromStr p.1))).map oneVariant := by
    rw [List.filter_map]
    congr 1
    apply List.filter_congr
    intro p _
    simp
  split
  · exact h1
  · rw [List.filter_append, h1]
    simp [unknownVariant, isDefault_defaultTok]

theorem handlers_eq (rs : List (List Char × List MediaDecl)) (hlen : ∀ p ∈ rs, p.2.length ≤ 1)
    (hnd : (rs.map (fun p => fromStr p.1)).Nodup) :
    ((groupByTok ((variantsOf rs).filter (fun v => !isDefault v.tok))).map
        fun (tok, g) => (condOf tok, bodyOf g)) =
      ((sortKeys rs).filter (fun p => !isDefault (fromStr p.1))).map
        (fun p => (condOf (fromStr p.1), Body.single (extractOf (primaryCat (oneVariant p).medias) (oneVariant p)))) := by
  rw [status_eq rs hlen, groupByTok_nodup, List.map_map, List.map_map]
  · apply List.map_congr_left
    intro p _
    simp [bodyOf_single _ (oneVariant_medias p)]
  · rw [List.map_map]
    have : ((fun v : Variant => v.tok) ∘ oneVariant) = fun p => fromStr p.1 := by funext p; simp
    rw [this]
    apply nodup_map_of_inj
    · exact List.Nodup.sublist List.filter_sublist (sortKeys_nodup rs)
    · intro x hx y hy e
      exact nodup_map_inj hnd (mem_of_mem_sortKeys ((List.mem_filter.mp hx).1))
        (mem_of_mem_sortKeys ((List.mem_filter.mp hy).1)) e

theorem handlers_eval (rs : List (List Char × List MediaDecl)) (hlen : ∀ p ∈ rs, p.2.length ≤ 1)
    (hnd : (rs.map (fun p => fromStr p.1)).Nodup) (n : Nat) (ct : List Char) :
    evalChainAux n ct ((groupByTok ((variantsOf rs).filter (fun v => !isDefault v.tok))).map
        fun (tok, g) => (condOf tok, bodyOf g)) =
      ((sortKeys rs).find? (fun p => !isDefault (fromStr p.1) && Oas3.Status.cond (fromStr p.1) n)).map
        (fun p => extractOf (primaryCat (oneVariant p).medias) (oneVariant p)) := by
  rw [handlers_eq rs hlen hnd, evalChainAux_first, List.find?_map, Option.map_map, List.find?_filter]
  · congr 1
    · congr 1
      funext p
      simp [evalCond_condOf]
  · intro h hh
    obtain ⟨p, _, rfl⟩ := List.mem_map.mp hh
    exact ⟨_, rfl⟩

theorem variantsOf_any_default (rs : List (List Char × List MediaDecl)) (h : (variantsOf rs).isEmpty = false) :
    ∃ v ∈ variantsOf rs, isDefault v.tok = true := by
  unfold variantsOf at h ⊢
  dsimp only at h ⊢
  generalize List.flatMap _ (sortKeys rs) = V at h ⊢
  by_cases hc : (V.isEmpty || V.any fun v => isDefault v.tok) = true
  · rw [if_pos hc] at h ⊢
    rw [h, Bool.false_or, List.any_eq_true] at hc
    exact hc
  · rw [if_neg hc]
    exact ⟨_, List.mem_append_right _ List.mem_cons_self, isDefault_defaultTok⟩

theorem fallback_spec (rs : List (List Char × List MediaDecl)) (ch : Chain) (hch : chainOf rs = some ch) :
    ∃ v ∈ variantsOf rs, v.tok = defaultTok ∧ ch.fallback = extractOf (primaryCat v.medias) v := by
  rw [chainOf_eq] at hch
  split at hch
  · cases hch
  · rename_i hne
    simp only [Option.some.injEq] at hch
    subst hch
    obtain ⟨v, hv, hvd⟩ := variantsOf_any_default rs (by simpa using hne)
    have hvf : v ∈ (variantsOf rs).filter (fun v => isDefault v.tok) := List.mem_filter.mpr ⟨hv, hvd⟩
    dsimp only
    cases hf : (variantsOf rs).filter (fun v => isDefault v.tok) with
    | nil => rw [hf] at hvf; cases hvf
    | cons w t =>
      have hw : w ∈ (variantsOf rs).filter (fun v => isDefault v.tok) := by rw [hf]; exact List.mem_cons_self
      rw [List.mem_filter] at hw
      exact ⟨w, hw.1, (isDefault_iff _).mp hw.2, rfl⟩

theorem handlers_of_chain (rs : List (List Char × List MediaDecl)) (ch : Chain) (hch : chainOf rs = some ch) :
    ch.handlers = (groupByTok ((variantsOf rs).filter (fun v => !isDefault v.tok))).map
        fun (tok, g) => (condOf tok, bodyOf g) := by
  rw [chainOf_eq] at hch
  split at hch
  · cases hch
  · simp only [Option.some.injEq] at hch
    subst hch
    rfl

theorem oneVariant_mem (rs : List (List Char × List MediaDecl)) (hlen : ∀ p ∈ rs, p.2.length ≤ 1)
    {p} (hp : p ∈ sortKeys rs) : oneVariant p ∈ variantsOf rs := by
  rw [variantsOf_eq rs hlen]
  split
  · exact List.mem_map_of_mem hp
  · exact List.mem_append_left _ (List.mem_map_of_mem hp)

/-! ### which canonical keys answer status `n` -/

theorem exactKey_head {k : List Char} {c : Nat} (h : exactKey k = some c) :
    k.head? = some (digitC (c / 100)) := by
  unfold exactKey at h
  split at h
  · rename_i a b d
    split at h
    · rename_i hc
      simp only [Bool.and_eq_true, isDigit_iff, decide_eq_true_eq, char_le_iff] at hc
      obtain ⟨⟨⟨⟨ha, hb⟩, hd⟩, _⟩, _⟩ := hc
      simp only [Option.some.injEq] at h
      have h0 : '0'.toNat = 48 := rfl
      simp only [digitsVal, List.foldl, h0] at h
      have : c / 100 = a.toNat - 48 := by omega
      rw [this, digitC, List.head?_cons]
      congr 1
      exact char_eq_ofNat a _ (by omega)
    · simp at h
  · simp at h

theorem rangeKey_head {k : List Char} {j : Nat} (h : rangeKey k = some j) : k.head? = some (digitC j) := by
  obtain ⟨_, _, x, y, _, _, rfl⟩ := rangeKey_shape h
  rfl

theorem canonical_cases {k : List Char} (h : canonicalKey k = true) :
    (∃ c, exactKey k = some c) ∨ (∃ j, rangeKey k = some j) ∨ k = "default".toList := by
  simp only [canonicalKey, Bool.or_eq_true, Option.isSome_iff_exists, beq_iff_eq] at h
  rcases h with (h | h) | h
  · exact Or.inl h
  · exact Or.inr (Or.inl h)
  · exact Or.inr (Or.inr h)

/-- a canonical key whose (non-default) condition holds on `n` is the exact key of `n` or the range key of
its hundred -/
theorem answers_cases {k : List Char} (hcan : canonicalKey k = true) {n : Nat}
    (hP : (!isDefault (fromStr k) && Oas3.Status.cond (fromStr k) n) = true) :
    exactKey k = some n ∨ rangeKey k = some (n / 100) := by
  simp only [Bool.and_eq_true, Bool.not_eq_true'] at hP
  rcases canonical_cases hcan with ⟨c, hc⟩ | ⟨j, hj⟩ | rfl
  · left
    rw [(exactKey_tok hc).2 n] at hP
    have : n = c := by simpa using hP.2
    rw [this]; exact hc
  · right
    rw [(rangeKey_tok hj).2.2 n] at hP
    have hb : j * 100 ≤ n ∧ n < (j + 1) * 100 := by simpa using hP.2
    have : n / 100 = j := by omega
    rw [this]; exact hj
  · rw [fromStr_default.1, fromStr_default.2] at hP
    exact absurd hP.1 (by simp)

theorem exact_answers {k : List Char} {n : Nat} (h : exactKey k = some n) :
    (!isDefault (fromStr k) && Oas3.Status.cond (fromStr k) n) = true := by
  rw [(exactKey_tok h).1, (exactKey_tok h).2 n]; simp

theorem range_answers {k : List Char} {n : Nat} (h : rangeKey k = some (n / 100)) :
    (!isDefault (fromStr k) && Oas3.Status.cond (fromStr k) n) = true := by
  rw [(rangeKey_tok h).1, (rangeKey_tok h).2.2 n]
  have : n / 100 * 100 ≤ n ∧ n < (n / 100 + 1) * 100 := by omega
  simp [this]

theorem nodup_of_nodup_map {α β} (f : α → β) {l : List α} (h : (l.map f).Nodup) : l.Nodup := by
  rw [List.Nodup, List.pairwise_map] at h
  exact h.imp (fun hab e => hab (congrArg f e))

/-- the core of `dispatch_spec`, with the well-formedness conditions unbundled -/
theorem dispatch_core (rs : List (List Char × List MediaDecl))
    (hcan : ∀ p ∈ rs, canonicalKey p.1 = true)
    (hnd : (rs.map (fun p => fromStr p.1)).Nodup)
    (hlen : ∀ p ∈ rs, p.2.length ≤ 1)
    (ch : Chain) (hch : chainOf rs = some ch) (n : Nat) (ct : List Char) :
    ∃ v ∈ variantsOf rs, evalChain ch n ct = extractOf (primaryCat v.medias) v ∧
      v.tok = (if (rs.map (·.1)).contains (specKey (rs.map (·.1)) n)
               then fromStr (specKey (rs.map (·.1)) n) else defaultTok) := by
  have hkeys : (rs.map (·.1)).Nodup := by
    have : rs.map (fun p => fromStr p.1) = (rs.map (·.1)).map fromStr := by rw [List.map_map]; rfl
    rw [this] at hnd
    exact nodup_of_nodup_map _ hnd
  have heval : evalChain ch n ct =
      (((sortKeys rs).find? (fun p => !isDefault (fromStr p.1) && Oas3.Status.cond (fromStr p.1) n)).map
        (fun p => extractOf (primaryCat (oneVariant p).medias) (oneVariant p))).getD ch.fallback := by
    unfold evalChain
    rw [handlers_of_chain rs ch hch, handlers_eval rs hlen hnd]
  -- the winner, once identified
  have win : ∀ p ∈ rs, (!isDefault (fromStr p.1) && Oas3.Status.cond (fromStr p.1) n) = true →
      (∀ y ∈ rs, (!isDefault (fromStr y.1) && Oas3.Status.cond (fromStr y.1) n) = true → y ≠ p →
        strLt p.1 y.1 = true) →
      ∃ v ∈ variantsOf rs, evalChain ch n ct = extractOf (primaryCat v.medias) v ∧ v.tok = fromStr p.1 := by
    intro p hp hP hmin
    have hpL : p ∈ sortKeys rs := mem_sortKeys_of_mem hkeys hp
    have hfind : (sortKeys rs).find? (fun p => !isDefault (fromStr p.1) && Oas3.Status.cond (fromStr p.1) n) = some p := by
      apply find?_of_pairwise (R := fun (p q : List Char × List MediaDecl) => strLt p.1 q.1 = true)
        (sortKeys_sorted rs) hpL hP
      intro y hy hPy hne hlt
      have := hmin y (mem_of_mem_sortKeys hy) hPy hne
      rw [strLt_asymm this] at hlt
      exact absurd hlt (by simp)
    refine ⟨oneVariant p, oneVariant_mem rs hlen hpL, ?_, oneVariant_tok p⟩
    rw [heval, hfind]
    rfl
  have inj : ∀ x ∈ rs, ∀ y ∈ rs, fromStr x.1 = fromStr y.1 → x = y :=
    fun x hx y hy e => nodup_map_inj hnd hx hy e
  unfold specKey
  cases hfe : (rs.map (·.1)).find? (fun k => exactKey k == some n) with
  | some k =>
    have hk : exactKey k = some n := by simpa using List.find?_some hfe
    have hkm : k ∈ rs.map (·.1) := List.mem_of_find?_eq_some hfe
    obtain ⟨p, hp, rfl⟩ := List.mem_map.mp hkm
    dsimp only
    rw [if_pos (by simpa using hkm)]
    apply win p hp (exact_answers hk)
    intro y hy hPy hne
    rcases answers_cases (hcan y hy) hPy with hy' | hy'
    · exact absurd (inj y hy p hp (by rw [exactKey_inj hy' hk])) hne
    · apply exact_before_range _ _ (by rw [hk]; rfl) (by rw [hy']; rfl)
      rw [exactKey_head hk, rangeKey_head hy']
  | none =>
    dsimp only
    cases hfr : (rs.map (·.1)).find? (fun k => rangeKey k == some (n / 100)) with
    | some k =>
      have hk : rangeKey k = some (n / 100) := by simpa using List.find?_some hfr
      have hkm : k ∈ rs.map (·.1) := List.mem_of_find?_eq_some hfr
      obtain ⟨p, hp, rfl⟩ := List.mem_map.mp hkm
      dsimp only
      rw [if_pos (by simpa using hkm)]
      apply win p hp (range_answers hk)
      intro y hy hPy hne
      rcases answers_cases (hcan y hy) hPy with hy' | hy'
      · rw [List.find?_eq_none] at hfe
        exact absurd (by simpa using hy') (hfe y.1 (List.mem_map_of_mem hy))
      · exact absurd (inj y hy p hp (rangeKey_tok_eq hy' hk)) hne
    | none =>
      dsimp only
      have htok : (if (rs.map (·.1)).contains "default".toList = true then fromStr "default".toList else defaultTok)
          = defaultTok := by
        split
        · exact fromStr_default.1
        · rfl
      rw [htok]
      have hnone : (sortKeys rs).find? (fun p => !isDefault (fromStr p.1) && Oas3.Status.cond (fromStr p.1) n) = none := by
        rw [List.find?_eq_none]
        intro y hy hPy
        have hy := mem_of_mem_sortKeys hy
        rw [List.find?_eq_none] at hfe hfr
        rcases answers_cases (hcan y hy) hPy with hy' | hy'
        · exact hfe y.1 (List.mem_map_of_mem hy) (by simpa using hy')
        · exact hfr y.1 (List.mem_map_of_mem hy) (by simpa using hy')
      obtain ⟨v, hv, hvt, hvn⟩ := fallback_spec rs ch hch
      refine ⟨v, hv, ?_, hvt⟩
      rw [heval, hnone]
      exact hvn

/-- a non-empty well-formed responses object always yields a chain -/
theorem chainOf_isSome_core (rs : List (List Char × List MediaDecl))
    (hnd : (rs.map (fun p => fromStr p.1)).Nodup) (hlen : ∀ p ∈ rs, p.2.length ≤ 1) (hne : rs ≠ []) :
    (chainOf rs).isSome = true := by
  have hkeys : (rs.map (·.1)).Nodup := by
    have : rs.map (fun p => fromStr p.1) = (rs.map (·.1)).map fromStr := by rw [List.map_map]; rfl
    rw [this] at hnd
    exact nodup_of_nodup_map _ hnd
  cases rs with
  | nil => exact absurd rfl hne
  | cons p t =>
    have hm := oneVariant_mem (p :: t) hlen (mem_sortKeys_of_mem hkeys (List.mem_cons_self (a := p)))
    rw [chainOf_eq]
    split
    · rename_i he
      rw [List.isEmpty_iff] at he
      rw [he] at hm
      cases hm
    · rfl

/-- the generated response enum has pairwise distinct variant names -/
theorem variant_names_nodup_core (rs : List (List Char × List MediaDecl))
    (hcan : ∀ p ∈ rs, canonicalKey p.1 = true)
    (hnd : (rs.map (fun p => fromStr p.1)).Nodup)
    (hlen : ∀ p ∈ rs, p.2.length ≤ 1) : ((variantsOf rs).map (·.name)).Nodup := by
  have hV : (((sortKeys rs).map oneVariant).map (·.name)).Nodup := by
    rw [List.map_map]
    apply nodup_map_of_inj (sortKeys_nodup rs)
    intro x hx y hy e
    have hx := mem_of_mem_sortKeys hx
    have hy := mem_of_mem_sortKeys hy
    simp only [Function.comp, oneVariant_name] at e
    exact nodup_map_inj hnd hx hy (variantName_inj_canonical (hcan x hx) (hcan y hy) e)
  rw [variantsOf_eq rs hlen]
  split
  · exact hV
  · rename_i hc
    rw [List.map_append, List.nodup_append]
    refine ⟨hV, by simp, ?_⟩
    intro a ha b hb
    simp only [List.map_cons, List.map_nil, List.mem_cons, List.not_mem_nil, or_false] at hb
    subst hb
    rw [List.map_map] at ha
    obtain ⟨p, hp, rfl⟩ := List.mem_map.mp ha
    simp only [Function.comp, oneVariant_name, unknownVariant]
    intro e
    apply hc
    rw [Bool.or_eq_true]
    right
    rw [List.any_eq_true]
    refine ⟨oneVariant p, List.mem_map_of_mem hp, ?_⟩
    have hdc : canonicalKey "default".toList = true := by decide +kernel
    have e' : variantName (fromStr p.1) = variantName (fromStr "default".toList) := by
      rw [e, fromStr_default.1, variantName_default]
    rw [oneVariant_tok, variantName_inj_canonical (hcan p (mem_of_mem_sortKeys hp)) hdc e', fromStr_default.1]
    exact fromStr_default.2

end Oas3.Proofs.Status
