import Oas3Model.Model.Cache
import Oas3Model.Proofs.Cache
/-! The canonical schema form (`CanonicalSchema::from_schema`: normalise, then RFC 8785 member order) does not depend on
the order in which the members of any object, at any depth, are written down (C11). Core Lean only. -/
set_option linter.unusedSimpArgs false
set_option linter.unusedVariables false
namespace Oas3.Cache

/-! ### `sLe` is a total order on strings -/

theorem sLe_total (a b : List Char) : sLe a b = true ∨ sLe b a = true := by
  induction a generalizing b with
  | nil => left; rfl
  | cons c r ih =>
    cases b with
    | nil => right; rfl
    | cons d s =>
      simp only [sLe]
      by_cases h1 : c.toNat < d.toNat
      · simp [h1]
      · by_cases h2 : d.toNat < c.toNat
        · simp [h1, h2]
        · simpa [h1, h2] using ih s

theorem sLe_antisymm (a b : List Char) (h1 : sLe a b = true) (h2 : sLe b a = true) : a = b := by
  induction a generalizing b with
  | nil => cases b with
    | nil => rfl
    | cons d s => simp [sLe] at h2
  | cons c r ih =>
    cases b with
    | nil => simp [sLe] at h1
    | cons d s =>
      simp only [sLe] at h1 h2
      by_cases h3 : c.toNat < d.toNat
      · have : ¬ d.toNat < c.toNat := by omega
        simp [h3, this] at h2
      · by_cases h4 : d.toNat < c.toNat
        · simp [h3, h4] at h1
        · simp [h3, h4] at h1 h2
          have e : c = d := by
            have h : c.toNat = d.toNat := by omega
            have := congrArg Char.ofNat h
            simpa [Char.ofNat_toNat] using this
          rw [e, ih s h1 h2]

theorem sLe_trans (a b c : List Char) (h1 : sLe a b = true) (h2 : sLe b c = true) : sLe a c = true := by
  induction a generalizing b c with
  | nil => rfl
  | cons x r ih =>
    cases b with
    | nil => simp [sLe] at h1
    | cons y s =>
      cases c with
      | nil => simp [sLe] at h2
      | cons z t =>
        simp only [sLe] at h1 h2 ⊢
        by_cases a1 : x.toNat < y.toNat
        · by_cases b1 : y.toNat < z.toNat
          · have : x.toNat < z.toNat := by omega
            simp [this]
          · by_cases b2 : z.toNat < y.toNat
            · simp [b1, b2] at h2
            · have : x.toNat < z.toNat := by omega
              simp [this]
        · by_cases a2 : y.toNat < x.toNat
          · simp [a1, a2] at h1
          · simp [a1, a2] at h1
            by_cases b1 : y.toNat < z.toNat
            · have : x.toNat < z.toNat := by omega
              simp [this]
            · by_cases b2 : z.toNat < y.toNat
              · simp [b1, b2] at h2
              · simp [b1, b2] at h2
                have n1 : ¬ x.toNat < z.toNat := by omega
                have n2 : ¬ z.toNat < x.toNat := by omega
                simp [n1, n2]
                exact ih s t h1 h2

/-! ### insertion sort by key: sorted, a permutation, hence canonical -/

def kLe (p q : List Char × J) : Prop := sLe p.1 q.1 = true

theorem insKV_perm (k : List Char) (v : J) (l : List (List Char × J)) : (insKV k v l).Perm ((k, v) :: l) := by
  induction l with
  | nil => simp [insKV]
  | cons p r ih =>
    obtain ⟨k', v'⟩ := p
    unfold insKV
    split
    · exact List.Perm.refl _
    · exact (List.Perm.cons _ ih).trans (List.Perm.swap _ _ _)

theorem sortKV_perm_self (l : List (List Char × J)) : (sortKV l).Perm l := by
  induction l with
  | nil => exact List.Perm.refl _
  | cons p r ih =>
    obtain ⟨k, v⟩ := p
    simp only [sortKV]
    exact (insKV_perm k v _).trans (List.Perm.cons _ ih)

theorem insKV_sorted (k : List Char) (v : J) (l : List (List Char × J)) (h : l.Pairwise kLe) :
    (insKV k v l).Pairwise kLe := by
  induction l with
  | nil => simp [insKV]
  | cons p r ih =>
    obtain ⟨k', v'⟩ := p
    unfold insKV
    split
    · rename_i hle
      refine List.Pairwise.cons ?_ h
      intro q hq
      rcases List.mem_cons.mp hq with rfl | hq
      · exact hle
      · exact sLe_trans _ _ _ hle (List.rel_of_pairwise_cons h hq)
    · rename_i hle
      have hk : sLe k' k = true := by
        rcases sLe_total k k' with h' | h'
        · exact absurd h' hle
        · exact h'
      refine List.Pairwise.cons ?_ (ih h.tail)
      intro q hq
      have := (insKV_perm k v r).subset hq
      rcases List.mem_cons.mp this with rfl | hq'
      · exact hk
      · exact List.rel_of_pairwise_cons h hq'

theorem sortKV_sorted (l : List (List Char × J)) : (sortKV l).Pairwise kLe := by
  induction l with
  | nil => simp [sortKV]
  | cons p r ih =>
    obtain ⟨k, v⟩ := p
    simp only [sortKV]
    exact insKV_sorted k v _ ih

theorem eq_of_key_eq {l : List (List Char × J)} (hk : (l.map (·.1)).Nodup) {a b : List Char × J}
    (ha : a ∈ l) (hb : b ∈ l) (h : a.1 = b.1) : a = b := by
  induction l with
  | nil => simp at ha
  | cons p r ih =>
    simp only [List.map_cons, List.nodup_cons] at hk
    rcases List.mem_cons.mp ha with rfl | ha'
    · rcases List.mem_cons.mp hb with rfl | hb'
      · rfl
      · exact absurd (List.mem_map.mpr ⟨b, hb', h.symm⟩) hk.1
    · rcases List.mem_cons.mp hb with rfl | hb'
      · exact absurd (List.mem_map.mpr ⟨a, ha', h⟩) hk.1
      · exact ih hk.2 ha' hb'

/-- the RFC 8785 member order of an object with distinct keys does not depend on the order the members were written in -/
theorem sortKV_perm (l₁ l₂ : List (List Char × J)) (hp : l₁.Perm l₂) (hk : (l₁.map (·.1)).Nodup) :
    sortKV l₁ = sortKV l₂ := by
  have p12 : (sortKV l₁).Perm (sortKV l₂) := (sortKV_perm_self l₁).trans (hp.trans (sortKV_perm_self l₂).symm)
  apply List.Perm.eq_of_pairwise (le := kLe) ?_ (sortKV_sorted l₁) (sortKV_sorted l₂) p12
  intro a b ha hb h1 h2
  have ha' : a ∈ l₁ := (sortKV_perm_self l₁).subset ha
  have hb' : b ∈ l₁ := hp.symm.subset ((sortKV_perm_self l₂).subset hb)
  exact eq_of_key_eq hk ha' hb' (sLe_antisymm _ _ h1 h2)

/-! ### documents that differ only in the order of object members, at any depth -/

mutual
/-- `PermJ a b`: `b` is `a` with the members of any of its objects (all with distinct keys) written in another order -/
inductive PermJ : J → J → Prop
  | leaf (j : J) : PermJ j j
  | arr {xs ys : List J} : PermL xs ys → PermJ (.arr xs) (.arr ys)
  | obj {kvs mid kvs' : List (List Char × J)} : PermKvs kvs mid → mid.Perm kvs' → (mid.map (·.1)).Nodup →
      PermJ (.obj kvs) (.obj kvs')
inductive PermL : List J → List J → Prop
  | nil : PermL [] []
  | cons {x y : J} {xs ys : List J} : PermJ x y → PermL xs ys → PermL (x :: xs) (y :: ys)
inductive PermKvs : List (List Char × J) → List (List Char × J) → Prop
  | nil : PermKvs [] []
  | cons {k : List Char} {v w : J} {r s : List (List Char × J)} : PermJ v w → PermKvs r s → PermKvs ((k, v) :: r) ((k, w) :: s)
end

theorem sortKeysKvs_eq_map (l : List (List Char × J)) : sortKeysKvs l = l.map fun p => (p.1, sortKeysJ p.2) := by
  induction l with
  | nil => rfl
  | cons p r ih => obtain ⟨k, v⟩ := p; simp [sortKeysKvs, ih]

theorem sortKeysKvs_keys (l : List (List Char × J)) : (sortKeysKvs l).map (·.1) = l.map (·.1) := by
  rw [sortKeysKvs_eq_map]; simp [List.map_map, Function.comp_def]

mutual
/-- the RFC 8785 stage: documents that differ in member order only have ONE sorted form -/
theorem sortKeysJ_permJ : ∀ {a b : J}, PermJ a b → sortKeysJ a = sortKeysJ b
  | _, _, .leaf j => rfl
  | _, _, .arr h => by simp [sortKeysJ, sortKeysList_permL h]
  | _, _, .obj (kvs := kvs) (mid := mid) (kvs' := kvs') h hp hn => by
    have e1 : sortKeysKvs kvs = sortKeysKvs mid := sortKeysKvs_permKvs h
    have p2 : (sortKeysKvs mid).Perm (sortKeysKvs kvs') := by
      rw [sortKeysKvs_eq_map, sortKeysKvs_eq_map]; exact hp.map _
    have hn' : ((sortKeysKvs mid).map (·.1)).Nodup := by rw [sortKeysKvs_keys]; exact hn
    simp only [sortKeysJ, e1]
    rw [sortKV_perm _ _ p2 hn']
theorem sortKeysList_permL : ∀ {xs ys : List J}, PermL xs ys → sortKeysList xs = sortKeysList ys
  | _, _, .nil => rfl
  | _, _, .cons h t => by simp [sortKeysList, sortKeysJ_permJ h, sortKeysList_permL t]
theorem sortKeysKvs_permKvs : ∀ {a b : List (List Char × J)}, PermKvs a b → sortKeysKvs a = sortKeysKvs b
  | _, _, .nil => rfl
  | _, _, .cons h t => by simp [sortKeysKvs, sortKeysJ_permJ h, sortKeysKvs_permKvs t]
end

/-! ### the normalisation stage keeps "differs in member order only" -/

theorem PermL.refl : ∀ xs : List J, PermL xs xs
  | [] => .nil
  | x :: r => .cons (.leaf x) (PermL.refl r)

theorem strOfJ_permJ {a b : J} (h : PermJ a b) : strOfJ a = strOfJ b := by
  cases h <;> rfl

theorem filterMap_strOf_permL : ∀ {xs ys : List J}, PermL xs ys →
    xs.filterMap strOfJ = ys.filterMap strOfJ ∧ xs.length = ys.length
  | _, _, .nil => ⟨rfl, rfl⟩
  | _, _, .cons h t => by
    obtain ⟨e1, e2⟩ := filterMap_strOf_permL t
    simp [List.filterMap_cons, strOfJ_permJ h, e1, e2]

theorem sortIfStrings_permL {xs ys : List J} (h : PermL xs ys) : PermL (sortIfStrings xs) (sortIfStrings ys) := by
  obtain ⟨e1, e2⟩ := filterMap_strOf_permL h
  unfold sortIfStrings
  simp only [e1, e2]
  split
  · exact PermL.refl _
  · exact h

theorem preSort_permJ (k : List Char) {v w : J} (h : PermJ v w) : PermJ (preSort k v) (preSort k w) := by
  cases h with
  | leaf j => exact .leaf _
  | arr hl =>
    unfold preSort
    simp only
    split
    · exact .arr (sortIfStrings_permL hl)
    · exact .arr hl
  | obj hk hp hn => exact .obj hk hp hn

theorem normKvs_eq_map (l : List (List Char × J)) : normKvs l = l.map fun p => (p.1, preSort p.1 (normalize p.2)) := by
  induction l with
  | nil => rfl
  | cons p r ih => obtain ⟨k, v⟩ := p; simp [normKvs, ih]

mutual
theorem normalize_permJ : ∀ {a b : J}, PermJ a b → PermJ (normalize a) (normalize b)
  | _, _, .leaf j => .leaf _
  | _, _, .arr h => by simpa [normalize] using PermJ.arr (normList_permL h)
  | _, _, .obj (kvs := kvs) (mid := mid) (kvs' := kvs') h hp hn => by
    have p2 : (normKvs mid).Perm (normKvs kvs') := by
      rw [normKvs_eq_map, normKvs_eq_map]; exact hp.map _
    have hn' : ((normKvs mid).map (·.1)).Nodup := by
      rw [normKvs_eq_map]; simpa [List.map_map, Function.comp_def] using hn
    simpa [normalize] using PermJ.obj (normKvs_permKvs h) p2 hn'
theorem normList_permL : ∀ {xs ys : List J}, PermL xs ys → PermL (normList xs) (normList ys)
  | _, _, .nil => .nil
  | _, _, .cons h t => by simpa [normList] using PermL.cons (normalize_permJ h) (normList_permL t)
theorem normKvs_permKvs : ∀ {a b : List (List Char × J)}, PermKvs a b → PermKvs (normKvs a) (normKvs b)
  | _, _, .nil => .nil
  | _, _, .cons (k := k) h t => by
    simpa [normKvs] using PermKvs.cons (k := k) (preSort_permJ k (normalize_permJ h)) (normKvs_permKvs t)
end

/-- **the canonical form ignores member order**: two documents that differ only in the order in which the members of
their objects (distinct keys) are written, at any depth, have the same canonical schema — hence the same cache key -/
theorem canon_permJ {a b : J} (h : PermJ a b) : canon a = canon b :=
  sortKeysJ_permJ (normalize_permJ h)

theorem canonString_permJ {a b : J} (h : PermJ a b) : canonString a = canonString b := by
  unfold canonString; rw [canon_permJ h]

end Oas3.Cache
