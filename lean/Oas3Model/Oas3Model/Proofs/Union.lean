import Oas3Model.Sem.Union
/-! Lemmas about untagged unions (C02): first-match decoding, unit variants, the lifting of an alternative's
round-trip through the union. -/
namespace Oas3.Codec

theorem unionTy_append (fname : Str → Str) (vname : J → Str) (a b : List Alt) :
    unionTy fname vname (a ++ b) = unionTy fname vname a ++ unionTy fname vname b := by
  induction a with
  | nil => rfl
  | cons x r ih => cases x <;> simp [unionTy, ih]

theorem rtU_none_iff (vs : List UVar) (d : J) : rtU vs d = none ↔ ∀ v ∈ vs, rtVar v d = none := by
  induction vs with
  | nil => simp [rtU]
  | cons v r ih =>
    cases h : rtVar v d with
    | none => simp [rtU, h, ih]
    | some o => simp [rtU, h]

theorem rtU_append_of_none (pre post : List UVar) (d : J) (h : ∀ v ∈ pre, rtVar v d = none) :
    rtU (pre ++ post) d = rtU post d := by
  induction pre with
  | nil => rfl
  | cons v r ih =>
    have hv : rtVar v d = none := h v (by simp)
    simp [rtU, hv]
    exact ih (fun u hu => h u (by simp [hu]))

/-- decoding picks the FIRST variant that accepts -/
theorem rtU_first (vs : List UVar) (d o : J) (h : rtU vs d = some o) :
    ∃ pre v post, vs = pre ++ v :: post ∧ (∀ u ∈ pre, rtVar u d = none) ∧ rtVar v d = some o := by
  induction vs with
  | nil => simp [rtU] at h
  | cons v r ih =>
    cases hv : rtVar v d with
    | some o' =>
      simp [rtU, hv] at h
      exact ⟨[], v, r, rfl, by simp, by rw [hv, h]⟩
    | none =>
      simp [rtU, hv] at h
      obtain ⟨pre, w, post, e, hp, hw⟩ := ih h
      refine ⟨v :: pre, w, post, by simp [e], ?_, hw⟩
      intro u hu
      rcases List.mem_cons.mp hu with rfl | hu
      · exact hv
      · exact hp u hu

/-- a unit variant of an untagged enum accepts `null` and nothing else, whatever its `rename` says -/
theorem unit_accepts_only_null (w : Str) (d o : J) (h : rtVar (.unit w) d = some o) : d.isNull = true ∧ o = .null := by
  simp only [rtVar] at h
  by_cases hn : d.isNull = true
  · simp [hn] at h; exact ⟨hn, h.symm⟩
  · simp [hn] at h

theorem unionTy_all_unit (fname : Str → Str) (vname : J → Str) (alts : List Alt)
    (h : ∀ a ∈ alts, a.isConst = true ∨ a.isNullAlt = true) :
    ∀ v ∈ unionTy fname vname alts, ∃ w, v = .unit w := by
  induction alts with
  | nil => simp [unionTy]
  | cons a r ih =>
    have hr := ih (fun x hx => h x (by simp [hx]))
    cases a with
    | const v => intro u hu; simp [unionTy] at hu; rcases hu with rfl | hu; exact ⟨v, rfl⟩; exact hr u hu
    | null => simpa [unionTy] using hr
    | sch s => have := h (.sch s) (by simp); simp [Alt.isConst, Alt.isNullAlt] at this
    | free k => have := h (.free k) (by simp); simp [Alt.isConst, Alt.isNullAlt] at this

/-- a union of `const` alternatives refuses EVERY string — its own declared values included -/
theorem const_union_refuses_strings (fname : Str → Str) (vname : J → Str) (alts : List Alt)
    (h : ∀ a ∈ alts, a.isConst = true ∨ a.isNullAlt = true) (s : Str) :
    rtU (unionTy fname vname alts) (.str s) = none := by
  rw [rtU_none_iff]
  intro v hv
  obtain ⟨w, rfl⟩ := unionTy_all_unit fname vname alts h v hv
  simp [rtVar, J.isNull]

/-- lifting: the round-trip of an alternative passes through the union when no earlier variant accepts the document -/
theorem union_lift (fname : Str → Str) (vname : J → Str) (pre post : List Alt) (s : S) (doc : J)
    (hpre : ∀ u ∈ unionTy fname vname pre, rtVar u doc = none) :
    rtU (unionTy fname vname (pre ++ .sch s :: post)) doc =
      (match rt (typeOf fname vname s) doc with
       | some o => some o
       | none => rtU (unionTy fname vname post) doc) := by
  rw [unionTy_append, rtU_append_of_none _ _ _ hpre]
  simp only [unionTy, rtU, rtVar]
  cases rt (typeOf fname vname s) doc <;> rfl

/-! strict validity implies lenient validity (the two halves of the judge never both apply) -/
mutual
theorem valid_mono : ∀ (s : S) (d : J), valid false s d = true → valid true s d = true
  | .str, d, h => by cases d <;> simp_all [valid]
  | .int _, d, h => by cases d <;> simp_all [valid]
  | .num _, d, h => by cases d <;> simp_all [valid]
  | .bool, d, h => by cases d <;> simp_all [valid]
  | .enum _, d, h => by simpa [valid] using h
  | .strNum _, d, h => by cases d <;> simp_all [valid]
  | .strFloat _, d, h => by cases d <;> simp_all [valid]
  | .strBytes, d, h => by cases d <;> simp_all [valid]
  | .single _, d, h => by simpa [valid] using h
  | .arr s, d, h => by
    cases d with
    | arr xs => simp only [valid, List.all_eq_true] at h ⊢; exact fun x hx => valid_mono s x (h x hx)
    | _ => simp [valid] at h
  | .map s, d, h => by
    cases d with
    | obj kvs => simp only [valid, List.all_eq_true] at h ⊢; exact fun x hx => valid_mono s x.2 (h x hx)
    | _ => simp [valid] at h
  | .nullable s, d, h => by
    simp only [valid, Bool.or_eq_true] at h ⊢
    rcases h with h | h
    · exact Or.inl h
    · exact Or.inr (valid_mono s d h)
  | .obj ps addl, d, h => by
    cases d with
    | obj kvs =>
      simp only [valid, Bool.and_eq_true] at h ⊢
      exact ⟨validProps_mono ps kvs h.1, validAddl_mono addl _ h.2⟩
    | _ => simp [valid] at h
theorem validProps_mono : ∀ (ps : Props) (kvs : List (Str × J)), validProps false ps kvs = true → validProps true ps kvs = true
  | .nil, _, _ => by simp [validProps]
  | .cons n s req d rest, kvs, h => by
    simp only [validProps, Bool.and_eq_true] at h ⊢
    refine ⟨?_, validProps_mono rest kvs h.2⟩
    have h1 := h.1
    cases hl : lookup n kvs with
    | none => simp [hl] at h1 ⊢; exact Or.inl h1
    | some v => simp [hl] at h1 ⊢; exact Or.inl (valid_mono s v h1)
theorem validAddl_mono : ∀ (a : Addl) (rest : List (Str × J)), validAddl false a rest = true → validAddl true a rest = true
  | .closed, _, h => by simpa [validAddl] using h
  | .absent, _, _ => by simp [validAddl]
  | .typed s, rest, h => by
    simp only [validAddl, List.all_eq_true] at h ⊢; exact fun x hx => valid_mono s x.2 (h x hx)
end

end Oas3.Codec

namespace Oas3.Codec

/-! the plain value enum of a union of constants (after the repair of F02-11) -/

theorem find_const (cs : List Str) (s : Str) (h : s ∈ cs) :
    ((cs.map fun c => (⟨[], c, []⟩ : Variant)).find? (fun v => holds v s)).map (fun v => J.str v.wire) = some (.str s) := by
  induction cs with
  | nil => simp at h
  | cons c r ih =>
    by_cases hc : c = s
    · subst hc; simp [List.find?, holds]
    · have hr : s ∈ r := by
        rcases List.mem_cons.mp h with e | e
        · exact absurd e.symm hc
        · exact e
      have hb : (c == s) = false := by simpa using hc
      simp only [List.map, List.find?, holds, hb, List.contains_nil, Bool.or_false]
      exact ih hr

theorem find_const_none (cs : List Str) (s : Str) (h : s ∉ cs) :
    (cs.map fun c => (⟨[], c, []⟩ : Variant)).find? (fun v => holds v s) = none := by
  induction cs with
  | nil => rfl
  | cons c r ih =>
    have hc : c ≠ s := fun e => h (by simp [e])
    have hb : (c == s) = false := by simpa using hc
    simp only [List.map, List.find?, holds, hb, List.contains_nil, Bool.or_false]
    exact ih (fun e => h (by simp [e]))

theorem const_root_accepts (fname : Str → Str) (vname : J → Str) (alts : List Alt) (hu : allUnit alts = true)
    (s : Str) (hs : s ∈ constsOf alts) : rtRoot (unionRoot fname vname alts) (.str s) = some (.str s) := by
  simp only [unionRoot, hu, if_true, rtRoot, rt]
  exact find_const _ s hs

theorem const_root_rejects (fname : Str → Str) (vname : J → Str) (alts : List Alt) (hu : allUnit alts = true)
    (d : J) (hd : ∀ s, d = .str s → s ∉ constsOf alts) : rtRoot (unionRoot fname vname alts) d = none := by
  simp only [unionRoot, hu, if_true, rtRoot]
  cases d with
  | str s => simp [rt, find_const_none _ s (hd s rfl)]
  | _ => simp [rt]

theorem mem_constsOf (alts : List Alt) (s : Str) : s ∈ constsOf alts ↔ Alt.const s ∈ alts := by
  induction alts with
  | nil => simp [constsOf]
  | cons a r ih => cases a <;> simp [constsOf, ih]

end Oas3.Codec

namespace Oas3.Codec
/-! lifting of the rejection half, and of the acceptance half through `oneOf` -/

theorem validAlt_mono (a : Alt) (d : J) (h : validAlt false a d = true) : validAlt true a d = true := by
  cases a with
  | const v => simpa [validAlt] using h
  | null => simpa [validAlt] using h
  | sch s => simpa [validAlt] using valid_mono s d (by simpa [validAlt] using h)
  | free k => cases k <;> simpa [validAlt] using h

/-- where a variant of the emitted enum comes from -/
theorem mem_unionTy (fname : Str → Str) (vname : J → Str) (alts : List Alt) (v : UVar) (h : v ∈ unionTy fname vname alts) :
    (∃ w, v = .unit w ∧ Alt.const w ∈ alts) ∨ (∃ s, v = .newtype (typeOf fname vname s) ∧ Alt.sch s ∈ alts) ∨
    (v = .value ∧ ∃ k, Alt.free k ∈ alts) := by
  induction alts with
  | nil => simp [unionTy] at h
  | cons a r ih =>
    cases a with
    | const w =>
      simp only [unionTy, List.mem_cons] at h
      rcases h with rfl | h
      · exact Or.inl ⟨w, rfl, by simp⟩
      · rcases ih h with ⟨w', e, m⟩ | ⟨s, e, m⟩ | ⟨e, k, m⟩
        · exact Or.inl ⟨w', e, by simp [m]⟩
        · exact Or.inr (Or.inl ⟨s, e, by simp [m]⟩)
        · exact Or.inr (Or.inr ⟨e, k, by simp [m]⟩)
    | null =>
      simp only [unionTy] at h
      rcases ih h with ⟨w', e, m⟩ | ⟨s, e, m⟩ | ⟨e, k, m⟩
      · exact Or.inl ⟨w', e, by simp [m]⟩
      · exact Or.inr (Or.inl ⟨s, e, by simp [m]⟩)
      · exact Or.inr (Or.inr ⟨e, k, by simp [m]⟩)
    | sch s0 =>
      simp only [unionTy, List.mem_cons] at h
      rcases h with rfl | h
      · exact Or.inr (Or.inl ⟨s0, rfl, by simp⟩)
      · rcases ih h with ⟨w', e, m⟩ | ⟨s, e, m⟩ | ⟨e, k, m⟩
        · exact Or.inl ⟨w', e, by simp [m]⟩
        · exact Or.inr (Or.inl ⟨s, e, by simp [m]⟩)
        · exact Or.inr (Or.inr ⟨e, k, by simp [m]⟩)
    | free k0 =>
      simp only [unionTy, List.mem_cons] at h
      rcases h with rfl | h
      · exact Or.inr (Or.inr ⟨rfl, k0, by simp⟩)
      · rcases ih h with ⟨w', e, m⟩ | ⟨s, e, m⟩ | ⟨e, k, m⟩
        · exact Or.inl ⟨w', e, by simp [m]⟩
        · exact Or.inr (Or.inl ⟨s, e, by simp [m]⟩)
        · exact Or.inr (Or.inr ⟨e, k, by simp [m]⟩)

/-- the REJECTION half lifts through a union (oneOf and anyOf) of schema and `null` alternatives: if the property holds for every
alternative on `doc` and `doc` is valid against none of them, not even leniently, the union refuses `doc` -/
theorem union_rejects_lift (fname : Str → Str) (vname : J → Str) (oneOf : Bool) (alts : List Alt) (doc : J)
    (hshape : ∀ a ∈ alts, a.isConst = false ∧ ∀ k, a ≠ .free k)
    (hgood : ∀ s, Alt.sch s ∈ alts → judge s (typeOf fname vname s) doc = true)
    (hinv : ∀ a ∈ alts, validAlt true a doc = false) :
    rtU (unionTy fname vname alts) doc = none ∧ judgeU oneOf alts (unionTy fname vname alts) doc = true := by
  have hnone : rtU (unionTy fname vname alts) doc = none := by
    rw [rtU_none_iff]
    intro v hv
    rcases mem_unionTy fname vname alts v hv with ⟨w, _, m⟩ | ⟨s, e, m⟩ | ⟨_, k, m⟩
    · have := (hshape _ m).1; simp [Alt.isConst] at this
    · subst e
      have hj := hgood s m
      have hi : valid true s doc = false := by simpa [validAlt] using hinv _ m
      simp only [judge, judgeRun, hi, Bool.false_eq_true, if_false, Bool.and_eq_true] at hj
      simpa [rtVar] using hj.2
    · exact absurd rfl ((hshape _ m).2 k)
  refine ⟨hnone, ?_⟩
  have hstrict : ∀ a ∈ alts, validAlt false a doc = false := by
    intro a ha
    cases h : validAlt false a doc with
    | false => rfl
    | true => have := validAlt_mono a doc h; rw [hinv a ha] at this; exact absurd this (by simp)
  have hcount : matchCount false alts doc = 0 := by
    simp only [matchCount, List.length_eq_zero_iff, List.filter_eq_nil_iff]
    intro a ha; simp [hstrict a ha]
  have hany : alts.any (fun a => validAlt true a doc) = false := by
    simp only [List.any_eq_false]
    intro a ha; simp [hinv a ha]
  cases oneOf <;> simp [judgeU, judgeRunU, hnone, validU, hcount, hany]


theorem matchCount_single (pre post : List Alt) (s : S) (d : J) (hv : valid false s d = true)
    (ho : ∀ a ∈ pre ++ post, validAlt false a d = false) : matchCount false (pre ++ .sch s :: post) d = 1 := by
  have h1 : pre.filter (fun a => validAlt false a d) = [] :=
    List.filter_eq_nil_iff.mpr (fun a ha => by simp [ho a (by simp [ha])])
  have h2 : post.filter (fun a => validAlt false a d) = [] :=
    List.filter_eq_nil_iff.mpr (fun a ha => by simp [ho a (by simp [ha])])
  have h3 : validAlt false (.sch s) d = true := by simpa [validAlt] using hv
  simp only [matchCount, List.filter_append, List.filter_cons, h3, if_true, h1, h2]
  simp

/-- lifting through `oneOf`: as for `anyOf`, and the re-encoded document must not have become valid against another alternative -/
theorem union_lift_oneOf (fname : Str → Str) (vname : J → Str) (pre post : List Alt) (s : S) (doc : J)
    (hv : valid false s doc = true) (hj : judge s (typeOf fname vname s) doc = true)
    (hpre : ∀ u ∈ unionTy fname vname pre, rtVar u doc = none)
    (hothers : ∀ a ∈ pre ++ post, validAlt false a doc = false)
    (hout : ∀ out, rt (typeOf fname vname s) doc = some out → ∀ a ∈ pre ++ post, validAlt false a out = false) :
    judgeU true (pre ++ .sch s :: post) (unionTy fname vname (pre ++ .sch s :: post)) doc = true := by
  have hl := union_lift fname vname pre post s doc hpre
  simp only [judge, judgeRun, hv, if_true] at hj
  cases hr : rt (typeOf fname vname s) doc with
  | none => simp [hr] at hj
  | some out =>
    simp only [hr, Bool.and_eq_true] at hj hl
    have hmem : Alt.sch s ∈ pre ++ .sch s :: post := by simp
    have hany : (pre ++ Alt.sch s :: post).any (fun a => validAlt true a doc) = true :=
      List.any_eq_true.mpr ⟨.sch s, hmem, by simpa [validAlt] using valid_mono s doc hv⟩
    have c1 := matchCount_single pre post s doc hv hothers
    have c2 := matchCount_single pre post s out hj.1.1 (hout out hr)
    simp only [judgeU, judgeRunU, hl, validU, if_true, c1, c2, beq_self_eq_true, hany, Bool.and_true, Bool.true_and, List.all_eq_true]
    intro a ha
    rcases List.mem_append.mp ha with ha | ha
    · simp [hothers a (by simp [ha])]
    · rcases List.mem_cons.mp ha with rfl | ha
      · simp [sameAlt, hj.1.2]
      · simp [hothers a (by simp [ha])]

end Oas3.Codec
