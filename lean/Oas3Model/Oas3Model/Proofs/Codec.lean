import Oas3Model.Sem.Codec
/-! Lemmas for property C02: leaf characterisation and the lifting of the judge through arrays. -/
set_option linter.unusedSimpArgs false
namespace Oas3.Codec

/-- "the property holds for schema `s` on every document outside the characterised defect classes" -/
def Good (fname : Str → Str) (vname : J → Str) (s : S) : Prop :=
  ∀ doc, classes fname vname s doc = [] → judge s (typeOf fname vname s) doc = true

theorem good_str (fname : Str → Str) (vname : J → Str) : Good fname vname .str := by
  intro doc _
  cases doc <;> simp [judge, judgeRun, valid, rt, same, typeOf, J.scalarEq]

theorem good_bool (fname : Str → Str) (vname : J → Str) : Good fname vname .bool := by
  intro doc _
  cases doc <;> simp [judge, judgeRun, valid, rt, same, typeOf, J.scalarEq]

theorem good_num (fname : Str → Str) (vname : J → Str) (f : Bool) : Good fname vname (.num f) := by
  intro doc _
  cases doc <;> simp [judge, judgeRun, valid, rt, same, typeOf, J.scalarEq]

theorem good_int (fname : Str → Str) (vname : J → Str) (f : Option IntFmt) : Good fname vname (.int f) := by
  intro doc h
  cases doc with
  | num m e =>
    cases e with
    | zero =>
      simp [classes] at h
      simp [judge, judgeRun, valid, rt, same, typeOf, J.scalarEq, h]
    | succ n => simp [judge, judgeRun, valid, rt, same, typeOf, J.scalarEq]
  | _ => simp [judge, judgeRun, valid, rt, same, typeOf, J.scalarEq]

/-! ### lists -/

theorem mapAll_good (f : J → Option J) (v : J → Bool) (g : J → J → Bool) :
    ∀ xs : List J, (∀ x ∈ xs, ∃ o, f x = some o ∧ v o = true ∧ g x o = true) →
      ∃ os, mapAll f xs = some os ∧ os.all v = true ∧ all2 g xs os = true := by
  intro xs
  induction xs with
  | nil => intro _; exact ⟨[], rfl, rfl, rfl⟩
  | cons x xs ih =>
    intro h
    obtain ⟨o, ho, hv, hg⟩ := h x (List.mem_cons_self ..)
    obtain ⟨os, hos, hvs, hgs⟩ := ih (fun y hy => h y (List.mem_cons_of_mem _ hy))
    refine ⟨o :: os, ?_, ?_, ?_⟩
    · simp [mapAll, ho, hos]
    · simp [hv, hvs]
    · simp [all2, hg, hgs]

theorem mapAll_none (f : J → Option J) :
    ∀ xs : List J, (∃ x ∈ xs, f x = none) → mapAll f xs = none := by
  intro xs
  induction xs with
  | nil => intro ⟨x, hx, _⟩; cases hx
  | cons y ys ih =>
    intro ⟨x, hx, hn⟩
    rcases List.mem_cons.mp hx with rfl | hx'
    · simp [mapAll, hn]
    · have := ih ⟨x, hx', hn⟩
      simp only [mapAll, this]
      cases f y <;> rfl

/-- the judge lifts through `type: array` / `Vec<T>`: whatever the item schema is -/
theorem good_arr (fname : Str → Str) (vname : J → Str) (s : S) (hs : Good fname vname s) :
    Good fname vname (.arr s) := by
  intro doc hc
  cases doc with
  | arr xs =>
    have hcl : ∀ x ∈ xs, classes fname vname s x = [] := by
      simp only [classes] at hc
      exact fun x hx => (List.flatMap_eq_nil_iff.mp hc) x hx
    have hj : ∀ x ∈ xs, judge s (typeOf fname vname s) x = true := fun x hx => hs x (hcl x hx)
    simp only [judge, judgeRun, typeOf, valid, rt, same, Bool.and_eq_true]
    constructor
    · by_cases hv : (xs.all fun x => valid false s x) = true
      · simp only [hv, if_true]
        have : ∀ x ∈ xs, ∃ o, rt (typeOf fname vname s) x = some o ∧ valid false s o = true ∧ same s x o = true := by
          intro x hx
          have hvx : valid false s x = true := (List.all_eq_true.mp hv) x hx
          have := hj x hx
          simp only [judge, judgeRun, hvx, if_true, Bool.and_eq_true] at this
          cases hr : rt (typeOf fname vname s) x with
          | none => simp [hr] at this
          | some o =>
            simp only [hr, Bool.and_eq_true] at this
            exact ⟨o, rfl, this.1.1, this.1.2⟩
        obtain ⟨os, hos, hvs, hgs⟩ := mapAll_good (fun x => rt (typeOf fname vname s) x) (fun x => valid false s x) (fun x y => same s x y) xs this
        simp [hos, valid, same, hvs, hgs]
      · simp [hv]
    · by_cases hl : (xs.all fun x => valid true s x) = true
      · simp [hl]
      · simp only [hl]
        have : ∃ x ∈ xs, rt (typeOf fname vname s) x = none := by
          have : ∃ x ∈ xs, valid true s x = false := by
            simpa [List.all_eq_true] using hl
          obtain ⟨x, hx, hvx⟩ := this
          refine ⟨x, hx, ?_⟩
          have := hj x hx
          simp only [judge, judgeRun, hvx, Bool.and_eq_true] at this
          simpa using this.2
        simp [mapAll_none _ xs this]
  | _ => simp [judge, judgeRun, valid, rt, typeOf]


/-- the judge lifts through a nullable wrapper (`type: [T, "null"]` / `oneOf[$ref, null]` -> `Option<T>`),
whatever the inner schema is, as long as the inner schema itself does not admit `null` and its type is
not already an `Option` -/
theorem good_nullable (fname : Str → Str) (vname : J → Str) (s : S) (hs : Good fname vname s)
    (hn : valid false s .null = false) (ht : (typeOf fname vname s).isOption = false) :
    Good fname vname (.nullable s) := by
  intro doc hc
  have hty : typeOf fname vname (.nullable s) = .option (typeOf fname vname s) := by
    simp [typeOf, Ty.withOption, ht]
  by_cases hnull : doc.isNull = true
  · cases doc <;> simp [J.isNull] at hnull
    simp [judge, judgeRun, hty, valid, rt, same, J.isNull]
  · have hnf : doc.isNull = false := by simpa using hnull
    have hc' : classes fname vname s doc = [] := by simpa [classes, hnf] using hc
    have hj := hs doc hc'
    simp only [judge, judgeRun, Bool.and_eq_true] at hj
    simp only [judge, judgeRun, hty, valid, rt, same, hnf, Bool.false_or, Bool.and_eq_true, if_false, Bool.false_eq_true]
    refine ⟨?_, hj.2⟩
    by_cases hv : valid false s doc = true
    · simp only [hv, if_true] at hj ⊢
      cases hr : rt (typeOf fname vname s) doc with
      | none => simp [hr] at hj
      | some o =>
        simp only [hr, Bool.and_eq_true] at hj ⊢
        have hon : o.isNull = false := by
          cases o <;> simp [J.isNull]
          simp [hn] at hj
        simp [hj.1.1, hj.1.2, hon]
    · simp [hv]

/-- the exact extent of the width class at an integer leaf: a document is in the class iff the judge fails -/
theorem int_class_exact (fname : Str → Str) (vname : J → Str) (f : Option IntFmt) (doc : J) :
    classes fname vname (.int f) doc ≠ [] ↔ judge (.int f) (typeOf fname vname (.int f)) doc = false := by
  cases doc with
  | num m e =>
    cases e with
    | zero =>
      by_cases h : (intRange f).1 ≤ m ∧ m ≤ (intRange f).2
      · simp [classes, judge, judgeRun, valid, rt, same, typeOf, J.scalarEq, h]
      · simp [classes, judge, judgeRun, valid, rt, same, typeOf, J.scalarEq, h]
    | succ n => simp [classes, judge, judgeRun, valid, rt, same, typeOf, J.scalarEq]
  | _ => simp [classes, judge, judgeRun, valid, rt, same, typeOf, J.scalarEq]

/-- the array fragment: scalars, arrays of the fragment, and one nullable wrapper over either -/
def frag : S → Bool
  | .str => true
  | .int _ => true
  | .num _ => true
  | .bool => true
  | .arr s => frag s
  | .nullable .str => true
  | .nullable (.int _) => true
  | .nullable (.num _) => true
  | .nullable .bool => true
  | .nullable (.arr s) => frag s
  | _ => false

theorem good_frag (fname : Str → Str) (vname : J → Str) : ∀ s : S, frag s = true → Good fname vname s
  | .str, _ => good_str fname vname
  | .int f, _ => good_int fname vname f
  | .num f, _ => good_num fname vname f
  | .bool, _ => good_bool fname vname
  | .arr s, h => good_arr fname vname s (good_frag fname vname s (by simpa [frag] using h))
  | .nullable .str, _ => good_nullable fname vname _ (good_str fname vname) (by simp [valid]) (by simp [typeOf, Ty.isOption])
  | .nullable (.int f), _ => good_nullable fname vname _ (good_int fname vname f) (by simp [valid]) (by simp [typeOf, Ty.isOption])
  | .nullable (.num f), _ => good_nullable fname vname _ (good_num fname vname f) (by simp [valid]) (by simp [typeOf, Ty.isOption])
  | .nullable .bool, _ => good_nullable fname vname _ (good_bool fname vname) (by simp [valid]) (by simp [typeOf, Ty.isOption])
  | .nullable (.arr s), h =>
    good_nullable fname vname _ (good_arr fname vname s (good_frag fname vname s (by simpa [frag] using h)))
      (by simp [valid]) (by simp [typeOf, Ty.isOption])
  | .enum _, h => by simp [frag] at h
  | .map _, h => by simp [frag] at h
  | .obj _ _, h => by simp [frag] at h
  | .nullable (.enum _), h => by simp [frag] at h
  | .nullable (.map _), h => by simp [frag] at h
  | .nullable (.obj _ _), h => by simp [frag] at h
  | .nullable (.nullable _), h => by simp [frag] at h

end Oas3.Codec
