import Oas3Model.Sem.Codec
/-! Lemmas for property C02: leaf characterisation and the lifting of the judge through arrays. -/
set_option linter.unusedSimpArgs false
namespace Oas3.Codec

/-- "the property holds for schema `s` on every document outside the characterised defect classes" -/
def Good (fname : Str → Str) (vname : J → Str) (s : S) : Prop :=
  ∀ doc, classes fname vname s doc = [] → judge s (typeOf fname vname s) doc = true

theorem good_str (fname : Str → Str) (vname : J → Str) : Good fname vname .str := by
  intro doc _
  cases doc <;> simp [judge, judgeRun, valid, rt, same, typeOf, J.scalarEq]

theorem good_bool (fname : Str → Str) (vname : J → Str) : Good fname vname .bool := by
  intro doc _
  cases doc <;> simp [judge, judgeRun, valid, rt, same, typeOf, J.scalarEq]

theorem good_num (fname : Str → Str) (vname : J → Str) (f : Bool) : Good fname vname (.num f) := by
  intro doc _
  cases doc <;> simp [judge, judgeRun, valid, rt, same, typeOf, J.scalarEq]

theorem good_int (fname : Str → Str) (vname : J → Str) (f : Option IntFmt) : Good fname vname (.int f) := by
  intro doc h
  cases doc with
  | num m e =>
    cases e with
    | zero =>
      simp [classes] at h
      simp [judge, judgeRun, valid, rt, same, typeOf, J.scalarEq, h]
    | succ n => simp [judge, judgeRun, valid, rt, same, typeOf, J.scalarEq]
  | _ => simp [judge, judgeRun, valid, rt, same, typeOf, J.scalarEq]

/-! ### lists -/

theorem mapAll_good (f : J → Option J) (v : J → Bool) (g : J → J → Bool) :
    ∀ xs : List J, (∀ x ∈ xs, ∃ o, f x = some o ∧ v o = true ∧ g x o = true) →
      ∃ os, mapAll f xs = some os ∧ os.all v = true ∧ all2 g xs os = true := by
  intro xs
  induction xs with
  | nil => intro _; exact ⟨[], rfl, rfl, rfl⟩
  | cons x xs ih =>
    intro h
    obtain ⟨o, ho, hv, hg⟩ := h x (List.mem_cons_self ..)
    obtain ⟨os, hos, hvs, hgs⟩ := ih (fun y hy => h y (List.mem_cons_of_mem _ hy))
    refine ⟨o :: os, ?_, ?_, ?_⟩
    · simp [mapAll, ho, hos]
    · simp [hv, hvs]
    · simp [all2, hg, hgs]

theorem mapAll_none (f : J → Option J) :
    ∀ xs : List J, (∃ x ∈ xs, f x = none) → mapAll f xs = none := by
  intro xs
  induction xs with
  | nil => intro ⟨x, hx, _⟩; cases hx
  | cons y ys ih =>
    intro ⟨x, hx, hn⟩
    rcases List.mem_cons.mp hx with rfl | hx'
    · simp [mapAll, hn]
    · have := ih ⟨x, hx', hn⟩
      simp only [mapAll, this]
      cases f y <;> rfl

/-- the judge lifts through `type: array` / `Vec<T>`: whatever the item schema is -/
theorem good_arr (fname : Str → Str) (vname : J → Str) (s : S) (hs : Good fname vname s) :
    Good fname vname (.arr s) := by
  intro doc hc
  cases doc with
  | arr xs =>
    have hcl : ∀ x ∈ xs, classes fname vname s x = [] := by
      simp only [classes] at hc
      exact fun x hx => (List.flatMap_eq_nil_iff.mp hc) x hx
    have hj : ∀ x ∈ xs, judge s (typeOf fname vname s) x = true := fun x hx => hs x (hcl x hx)
    simp only [judge, judgeRun, typeOf, valid, rt, same, Bool.and_eq_true]
    constructor
    · by_cases hv : (xs.all fun x => valid false s x) = true
      · simp only [hv, if_true]
        have : ∀ x ∈ xs, ∃ o, rt (typeOf fname vname s) x = some o ∧ valid false s o = true ∧ same s x o = true := by
          intro x hx
          have hvx : valid false s x = true := (List.all_eq_true.mp hv) x hx
          have := hj x hx
          simp only [judge, judgeRun, hvx, if_true, Bool.and_eq_true] at this
          cases hr : rt (typeOf fname vname s) x with
          | none => simp [hr] at this
          | some o =>
            simp only [hr, Bool.and_eq_true] at this
            exact ⟨o, rfl, this.1.1, this.1.2⟩
        obtain ⟨os, hos, hvs, hgs⟩ := mapAll_good (fun x => rt (typeOf fname vname s) x) (fun x => valid false s x) (fun x y => same s x y) xs this
        simp [hos, valid, same, hvs, hgs]
      · simp [hv]
    · by_cases hl : (xs.all fun x => valid true s x) = true
      · simp [hl]
      · simp only [hl]
        have : ∃ x ∈ xs, rt (typeOf fname vname s) x = none := by
          have : ∃ x ∈ xs, valid true s x = false := by
            simpa [List.all_eq_true] using hl
          obtain ⟨x, hx, hvx⟩ := this
          refine ⟨x, hx, ?_⟩
          have := hj x hx
          simp only [judge, judgeRun, hvx, Bool.and_eq_true] at this
          simpa using this.2
        simp [mapAll_none _ xs this]
  | _ => simp [judge, judgeRun, valid, rt, typeOf]


/-- the judge lifts through a nullable wrapper (`type: [T, "null"]` / `oneOf[$ref, null]` -> `Option<T>`),
whatever the inner schema is, as long as the inner schema itself does not admit `null` and its type is
not already an `Option` -/
theorem good_nullable (fname : Str → Str) (vname : J → Str) (s : S) (hs : Good fname vname s)
    (hn : valid false s .null = false) (ht : (typeOf fname vname s).isOption = false) :
    Good fname vname (.nullable s) := by
  intro doc hc
  have hty : typeOf fname vname (.nullable s) = .option (typeOf fname vname s) := by
    simp [typeOf, Ty.withOption, ht]
  by_cases hnull : doc.isNull = true
  · cases doc <;> simp [J.isNull] at hnull
    simp [judge, judgeRun, hty, valid, rt, same, J.isNull]
  · have hnf : doc.isNull = false := by simpa using hnull
    have hc' : classes fname vname s doc = [] := by simpa [classes, hnf] using hc
    have hj := hs doc hc'
    simp only [judge, judgeRun, Bool.and_eq_true] at hj
    simp only [judge, judgeRun, hty, valid, rt, same, hnf, Bool.false_or, Bool.and_eq_true, if_false, Bool.false_eq_true]
    refine ⟨?_, hj.2⟩
    by_cases hv : valid false s doc = true
    · simp only [hv, if_true] at hj ⊢
      cases hr : rt (typeOf fname vname s) doc with
      | none => simp [hr] at hj
      | some o =>
        simp only [hr, Bool.and_eq_true] at hj ⊢
        have hon : o.isNull = false := by
          cases o <;> simp [J.isNull]
          simp [hn] at hj
        simp [hj.1.1, hj.1.2, hon]
    · simp [hv]

/-- the exact extent of the width class at an integer leaf: a document is in the class iff the judge fails -/
theorem int_class_exact (fname : Str → Str) (vname : J → Str) (f : Option IntFmt) (doc : J) :
    classes fname vname (.int f) doc ≠ [] ↔ judge (.int f) (typeOf fname vname (.int f)) doc = false := by
  cases doc with
  | num m e =>
    cases e with
    | zero =>
      by_cases h : (intRange f).1 ≤ m ∧ m ≤ (intRange f).2
      · simp [classes, judge, judgeRun, valid, rt, same, typeOf, J.scalarEq, h]
      · simp [classes, judge, judgeRun, valid, rt, same, typeOf, J.scalarEq, h]
    | succ n => simp [classes, judge, judgeRun, valid, rt, same, typeOf, J.scalarEq]
  | _ => simp [classes, judge, judgeRun, valid, rt, same, typeOf, J.scalarEq]

/-- the array fragment: scalars, arrays of the fragment, and one nullable wrapper over either -/
def frag : S → Bool
  | .str => true
  | .int _ => true
  | .num _ => true
  | .bool => true
  | .arr s => frag s
  | .nullable .str => true
  | .nullable (.int _) => true
  | .nullable (.num _) => true
  | .nullable .bool => true
  | .nullable (.arr s) => frag s
  | _ => false

theorem good_frag (fname : Str → Str) (vname : J → Str) : ∀ s : S, frag s = true → Good fname vname s
  | .str, _ => good_str fname vname
  | .int f, _ => good_int fname vname f
  | .num f, _ => good_num fname vname f
  | .bool, _ => good_bool fname vname
  | .arr s, h => good_arr fname vname s (good_frag fname vname s (by simpa [frag] using h))
  | .nullable .str, _ => good_nullable fname vname _ (good_str fname vname) (by simp [valid]) (by simp [typeOf, Ty.isOption])
  | .nullable (.int f), _ => good_nullable fname vname _ (good_int fname vname f) (by simp [valid]) (by simp [typeOf, Ty.isOption])
  | .nullable (.num f), _ => good_nullable fname vname _ (good_num fname vname f) (by simp [valid]) (by simp [typeOf, Ty.isOption])
  | .nullable .bool, _ => good_nullable fname vname _ (good_bool fname vname) (by simp [valid]) (by simp [typeOf, Ty.isOption])
  | .nullable (.arr s), h =>
    good_nullable fname vname _ (good_arr fname vname s (good_frag fname vname s (by simpa [frag] using h)))
      (by simp [valid]) (by simp [typeOf, Ty.isOption])
  | .enum _, h => by simp [frag] at h
  | .map _, h => by simp [frag] at h
  | .obj _ _, h => by simp [frag] at h
  | .nullable (.enum _), h => by simp [frag] at h
  | .nullable (.map _), h => by simp [frag] at h
  | .nullable (.obj _ _), h => by simp [frag] at h
  | .nullable (.nullable _), h => by simp [frag] at h

end Oas3.Codec

/-! ### maps (`additionalProperties: S` / `HashMap<String, T>`): the judge lifts through them on documents whose objects
have distinct keys (what a JSON parser delivers) -/
namespace Oas3.Codec

mutual
/-- every object of the document, at any depth, has distinct keys -/
def J.wf : J → Bool
  | .arr xs => wfList xs
  | .obj kvs => nodupKeys (kvs.map (·.1)) && wfKvs kvs
  | _ => true
def wfList : List J → Bool
  | [] => true
  | x :: r => x.wf && wfList r
def wfKvs : List (Str × J) → Bool
  | [] => true
  | (_, v) :: r => v.wf && wfKvs r
def nodupKeys : List Str → Bool
  | [] => true
  | k :: r => !r.contains k && nodupKeys r
end

/-- "the property holds for `s` on every WELL-FORMED document outside the characterised classes" -/
def GoodWf (fname : Str → Str) (vname : J → Str) (s : S) : Prop :=
  ∀ doc, doc.wf = true → classes fname vname s doc = [] → judge s (typeOf fname vname s) doc = true

theorem goodWf_of_good (fname : Str → Str) (vname : J → Str) (s : S) (h : Good fname vname s) : GoodWf fname vname s :=
  fun doc _ hc => h doc hc

theorem wfKvs_mem : ∀ (kvs : List (Str × J)), wfKvs kvs = true → ∀ p ∈ kvs, p.2.wf = true
  | [], _, p, hp => by cases hp
  | (k, v) :: r, h, p, hp => by
    simp only [wfKvs, Bool.and_eq_true] at h
    rcases List.mem_cons.mp hp with rfl | hp'
    · exact h.1
    · exact wfKvs_mem r h.2 p hp'

theorem lookup_cons_self (k : Str) (v : J) (r : List (Str × J)) : lookup k ((k, v) :: r) = some v := by
  simp [lookup]

theorem lookup_cons_ne (k k' : Str) (v : J) (r : List (Str × J)) (h : k ≠ k') : lookup k' ((k, v) :: r) = lookup k' r := by
  simp [lookup, h]

/-- `mapVals` over an object with distinct keys: if every value is mapped to something related by `g` and satisfying `v`,
the result has the same keys, all values satisfy `v`, and the member-wise comparison holds -/
theorem mapVals_good (f : J → Option J) (v : J → Bool) (g : J → J → Bool) :
    ∀ kvs : List (Str × J), nodupKeys (kvs.map (·.1)) = true →
      (∀ p ∈ kvs, ∃ o, f p.2 = some o ∧ v o = true ∧ g p.2 o = true) →
      ∃ ys, mapVals f kvs = some ys ∧ ys.map (·.1) = kvs.map (·.1) ∧ (ys.all fun kv => v kv.2) = true ∧
        (kvs.all fun kv => match lookup kv.1 ys with | some w => g kv.2 w | none => false) = true := by
  intro kvs
  induction kvs with
  | nil => intro _ _; exact ⟨[], rfl, rfl, rfl, rfl⟩
  | cons p r ih =>
    obtain ⟨k, x⟩ := p
    intro hn h
    simp only [List.map_cons, nodupKeys, Bool.and_eq_true, Bool.not_eq_true'] at hn
    obtain ⟨o, ho, hv, hg⟩ := h (k, x) (List.mem_cons_self ..)
    obtain ⟨ys, hys, hk, hvs, hgs⟩ := ih hn.2 (fun q hq => h q (List.mem_cons_of_mem _ hq))
    refine ⟨(k, o) :: ys, ?_, ?_, ?_, ?_⟩
    · simp [mapVals, ho, hys]
    · simp [hk]
    · simp [hv, hvs]
    · simp only [List.all_cons, lookup_cons_self, hg, Bool.true_and]
      rw [List.all_eq_true] at hgs ⊢
      intro q hq
      have hne : k ≠ q.1 := by
        intro e
        have : q.1 ∈ r.map (·.1) := List.mem_map.mpr ⟨q, hq, rfl⟩
        rw [← e] at this
        have hc : (r.map (·.1)).contains k = true := by simpa using this
        rw [hn.1] at hc; cases hc
      rw [lookup_cons_ne k q.1 o ys hne]
      exact hgs q hq

theorem mapVals_none (f : J → Option J) : ∀ kvs : List (Str × J), (∃ p ∈ kvs, f p.2 = none) → mapVals f kvs = none := by
  intro kvs
  induction kvs with
  | nil => intro ⟨p, hp, _⟩; cases hp
  | cons q r ih =>
    obtain ⟨k, x⟩ := q
    intro ⟨p, hp, hn⟩
    rcases List.mem_cons.mp hp with rfl | hp'
    · simp [mapVals, hn]
    · have := ih ⟨p, hp', hn⟩
      simp only [mapVals, this]
      cases f x <;> rfl

theorem hasKey_of_keys (ys xs : List (Str × J)) (hk : ys.map (·.1) = xs.map (·.1)) :
    (ys.all fun kv => hasKey kv.1 xs) = true := by
  rw [List.all_eq_true]
  intro q hq
  have hm : q.1 ∈ xs.map (·.1) := by rw [← hk]; exact List.mem_map.mpr ⟨q, hq, rfl⟩
  obtain ⟨p, hp, hpe⟩ := List.mem_map.mp hm
  unfold hasKey
  clear hk hq hm
  induction xs with
  | nil => cases hp
  | cons a t ih =>
    obtain ⟨ka, va⟩ := a
    by_cases he : ka = q.1
    · simp [lookup, he]
    · rcases List.mem_cons.mp hp with rfl | hp'
      · exact absurd hpe he
      · simp only [lookup, beq_iff_eq, he, if_false]
        exact ih hp'

/-- the judge lifts through `additionalProperties: S` typed `HashMap<String, T>`, whatever the value schema is -/
theorem goodWf_map (fname : Str → Str) (vname : J → Str) (s : S) (hs : GoodWf fname vname s) :
    GoodWf fname vname (.map s) := by
  intro doc hwf hc
  cases doc with
  | obj kvs =>
    simp only [J.wf, Bool.and_eq_true] at hwf
    have hcl : ∀ p ∈ kvs, classes fname vname s p.2 = [] := by
      simp only [classes] at hc
      exact fun p hp => (List.flatMap_eq_nil_iff.mp hc) p hp
    have hj : ∀ p ∈ kvs, judge s (typeOf fname vname s) p.2 = true :=
      fun p hp => hs p.2 (wfKvs_mem kvs hwf.2 p hp) (hcl p hp)
    simp only [judge, judgeRun, typeOf, valid, rt, same, Bool.and_eq_true]
    constructor
    · by_cases hv : (kvs.all fun kv => valid false s kv.2) = true
      · simp only [hv, if_true]
        have : ∀ p ∈ kvs, ∃ o, rt (typeOf fname vname s) p.2 = some o ∧ valid false s o = true ∧ same s p.2 o = true := by
          intro p hp
          have hvx : valid false s p.2 = true := (List.all_eq_true.mp hv) p hp
          have := hj p hp
          simp only [judge, judgeRun, hvx, if_true, Bool.and_eq_true] at this
          cases hr : rt (typeOf fname vname s) p.2 with
          | none => simp [hr] at this
          | some o =>
            simp only [hr, Bool.and_eq_true] at this
            exact ⟨o, rfl, this.1.1, this.1.2⟩
        obtain ⟨ys, hys, hk, hvs, hgs⟩ := mapVals_good (fun x => rt (typeOf fname vname s) x) (fun x => valid false s x) (fun x y => same s x y) kvs hwf.1 this
        have hsame : sameKvs (fun x y => same s x y) kvs ys = true := by
          unfold sameKvs
          rw [Bool.and_eq_true]
          exact ⟨hgs, hasKey_of_keys ys kvs hk⟩
        rw [hys]
        simp only [Option.map_some, valid, same, Bool.and_eq_true]
        exact ⟨hvs, hsame⟩
      · simp [hv]
    · by_cases hl : (kvs.all fun kv => valid true s kv.2) = true
      · simp [hl]
      · simp only [hl]
        have : ∃ p ∈ kvs, rt (typeOf fname vname s) p.2 = none := by
          have : ∃ p ∈ kvs, valid true s p.2 = false := by
            simpa [List.all_eq_true] using hl
          obtain ⟨p, hp, hvx⟩ := this
          refine ⟨p, hp, ?_⟩
          have := hj p hp
          simp only [judge, judgeRun, hvx, Bool.and_eq_true] at this
          simpa using this.2
        simp [mapVals_none _ kvs this]
  | _ => simp [judge, judgeRun, valid, rt, typeOf]

theorem wfList_mem : ∀ (xs : List J), wfList xs = true → ∀ x ∈ xs, x.wf = true
  | [], _, x, hx => by cases hx
  | y :: r, h, x, hx => by
    simp only [wfList, Bool.and_eq_true] at h
    rcases List.mem_cons.mp hx with rfl | hx'
    · exact h.1
    · exact wfList_mem r h.2 x hx'

/-- arrays, for well-formed documents (same argument as `good_arr`) -/
theorem goodWf_arr (fname : Str → Str) (vname : J → Str) (s : S) (hs : GoodWf fname vname s) :
    GoodWf fname vname (.arr s) := by
  intro doc hwf hc
  cases doc with
  | arr xs =>
    simp only [J.wf] at hwf
    have hcl : ∀ x ∈ xs, classes fname vname s x = [] := by
      simp only [classes] at hc
      exact fun x hx => (List.flatMap_eq_nil_iff.mp hc) x hx
    have hj : ∀ x ∈ xs, judge s (typeOf fname vname s) x = true := fun x hx => hs x (wfList_mem xs hwf x hx) (hcl x hx)
    simp only [judge, judgeRun, typeOf, valid, rt, same, Bool.and_eq_true]
    constructor
    · by_cases hv : (xs.all fun x => valid false s x) = true
      · simp only [hv, if_true]
        have : ∀ x ∈ xs, ∃ o, rt (typeOf fname vname s) x = some o ∧ valid false s o = true ∧ same s x o = true := by
          intro x hx
          have hvx : valid false s x = true := (List.all_eq_true.mp hv) x hx
          have := hj x hx
          simp only [judge, judgeRun, hvx, if_true, Bool.and_eq_true] at this
          cases hr : rt (typeOf fname vname s) x with
          | none => simp [hr] at this
          | some o =>
            simp only [hr, Bool.and_eq_true] at this
            exact ⟨o, rfl, this.1.1, this.1.2⟩
        obtain ⟨os, hos, hvs, hgs⟩ := mapAll_good (fun x => rt (typeOf fname vname s) x) (fun x => valid false s x) (fun x y => same s x y) xs this
        simp [hos, valid, same, hvs, hgs]
      · simp [hv]
    · by_cases hl : (xs.all fun x => valid true s x) = true
      · simp [hl]
      · simp only [hl]
        have : ∃ x ∈ xs, rt (typeOf fname vname s) x = none := by
          have : ∃ x ∈ xs, valid true s x = false := by
            simpa [List.all_eq_true] using hl
          obtain ⟨x, hx, hvx⟩ := this
          refine ⟨x, hx, ?_⟩
          have := hj x hx
          simp only [judge, judgeRun, hvx, Bool.and_eq_true] at this
          simpa using this.2
        simp [mapAll_none _ xs this]
  | _ => simp [judge, judgeRun, valid, rt, typeOf]

/-- nullable wrapper, for well-formed documents (same argument as `good_nullable`) -/
theorem goodWf_nullable (fname : Str → Str) (vname : J → Str) (s : S) (hs : GoodWf fname vname s)
    (hn : valid false s .null = false) (ht : (typeOf fname vname s).isOption = false) :
    GoodWf fname vname (.nullable s) := by
  intro doc hwf hc
  have hty : typeOf fname vname (.nullable s) = .option (typeOf fname vname s) := by
    simp [typeOf, Ty.withOption, ht]
  by_cases hnull : doc.isNull = true
  · cases doc <;> simp [J.isNull] at hnull
    simp [judge, judgeRun, hty, valid, rt, same, J.isNull]
  · have hnf : doc.isNull = false := by simpa using hnull
    have hc' : classes fname vname s doc = [] := by simpa [classes, hnf] using hc
    have hj := hs doc hwf hc'
    simp only [judge, judgeRun, Bool.and_eq_true] at hj
    simp only [judge, judgeRun, hty, valid, rt, same, hnf, Bool.false_or, Bool.and_eq_true, if_false, Bool.false_eq_true]
    refine ⟨?_, hj.2⟩
    by_cases hv : valid false s doc = true
    · simp only [hv, if_true] at hj ⊢
      cases hr : rt (typeOf fname vname s) doc with
      | none => simp [hr] at hj
      | some o =>
        simp only [hr, Bool.and_eq_true] at hj ⊢
        have hon : o.isNull = false := by
          cases o <;> simp [J.isNull]
          simp [hn] at hj
        simp [hj.1.1, hj.1.2, hon]
    · simp [hv]

/-- the container fragment: scalars (every integer width), and arrays, string-keyed maps and nullable wrappers over it, nested
to any depth (a nullable wrapper not directly around another one) -/
def frag2 : S → Bool
  | .str => true
  | .int _ => true
  | .num _ => true
  | .bool => true
  | .arr s => frag2 s
  | .map s => frag2 s
  | .nullable s => frag2 s && !s.isNullable
  | _ => false

theorem frag2_null_invalid : ∀ s : S, frag2 s = true → s.isNullable = false → valid false s .null = false
  | .str, _, _ => by simp [valid]
  | .int _, _, _ => by simp [valid]
  | .num _, _, _ => by simp [valid]
  | .bool, _, _ => by simp [valid]
  | .arr _, _, _ => by simp [valid]
  | .map _, _, _ => by simp [valid]
  | .nullable _, _, h => by simp [S.isNullable] at h
  | .enum _, h, _ => by simp [frag2] at h
  | .obj _ _, h, _ => by simp [frag2] at h
  | .strNum _, h, _ => by simp [frag2] at h
  | .strFloat _, h, _ => by simp [frag2] at h
  | .strBytes, h, _ => by simp [frag2] at h
  | .single _, h, _ => by simp [frag2] at h

theorem frag2_not_option (fname : Str → Str) (vname : J → Str) : ∀ s : S, frag2 s = true → s.isNullable = false →
    (typeOf fname vname s).isOption = false
  | .str, _, _ => by simp [typeOf, Ty.isOption]
  | .int _, _, _ => by simp [typeOf, Ty.isOption]
  | .num _, _, _ => by simp [typeOf, Ty.isOption]
  | .bool, _, _ => by simp [typeOf, Ty.isOption]
  | .arr _, _, _ => by simp [typeOf, Ty.isOption]
  | .map _, _, _ => by simp [typeOf, Ty.isOption]
  | .nullable _, _, h => by simp [S.isNullable] at h
  | .enum _, h, _ => by simp [frag2] at h
  | .obj _ _, h, _ => by simp [frag2] at h
  | .strNum _, h, _ => by simp [frag2] at h
  | .strFloat _, h, _ => by simp [frag2] at h
  | .strBytes, h, _ => by simp [frag2] at h
  | .single _, h, _ => by simp [frag2] at h

theorem goodWf_frag2 (fname : Str → Str) (vname : J → Str) : ∀ s : S, frag2 s = true → GoodWf fname vname s
  | .str, _ => goodWf_of_good _ _ _ (good_str fname vname)
  | .int f, _ => goodWf_of_good _ _ _ (good_int fname vname f)
  | .num f, _ => goodWf_of_good _ _ _ (good_num fname vname f)
  | .bool, _ => goodWf_of_good _ _ _ (good_bool fname vname)
  | .arr s, h => goodWf_arr fname vname s (goodWf_frag2 fname vname s (by simpa [frag2] using h))
  | .map s, h => goodWf_map fname vname s (goodWf_frag2 fname vname s (by simpa [frag2] using h))
  | .nullable s, h => by
    simp only [frag2, Bool.and_eq_true, Bool.not_eq_true'] at h
    exact goodWf_nullable fname vname s (goodWf_frag2 fname vname s h.1) (frag2_null_invalid s h.1 h.2) (frag2_not_option fname vname s h.1 h.2)
  | .enum _, h => by simp [frag2] at h
  | .obj _ _, h => by simp [frag2] at h
  | .strNum _, h => by simp [frag2] at h
  | .strFloat _, h => by simp [frag2] at h
  | .strBytes, h => by simp [frag2] at h
  | .single _, h => by simp [frag2] at h

end Oas3.Codec
