import Oas3Model.Model.ReqInterop
import Oas3Model.Proofs.Path
/-! Lemmas for the request side of C06 (route round trip, enum codec characterisation, name lookup). -/
namespace Oas3.ReqInterop
open Oas3.Path Oas3.Url

theorem urlSafe_eq {l : Str} (h : urlSafe l = true) : rawLit l = l := by
  simpa [urlSafe] using h

theorem isPrefixOf_append_self (p x : Str) : p.isPrefixOf (p ++ x) = true := by
  induction p with
  | nil => simp
  | cons a t ih => simp [ih]

theorem drop_append_self (p x : Str) : (p ++ x).drop p.length = x := by
  simp

/-- one segment: the pattern segment derived from a chain segment matches what the client emits for it and
captures exactly the raw value -/
theorem matchSeg_toAxum (last : Bool) (key : Str → Str) (env : Str → List UInt8) (c : CSeg)
    (hs : c.safe = true) (hv : ∀ f ∈ c.fields, env f ≠ []) :
    matchSeg last (toAxum key c) (clientRaw env c) = some (c.fields.map fun f => (key f, encodeBytes (env f))) := by
  cases c with
  | lit l =>
    have : rawLit l = l := urlSafe_eq hs
    simp [toAxum, clientRaw, matchSeg, CSeg.fields, this]
  | param f =>
    have hne : encodeBytes (env f) ≠ [] := encodeBytes_ne_nil (hv f (by simp [CSeg.fields]))
    simp [toAxum, clientRaw, matchSeg, CSeg.fields, hne]
  | pre p f =>
    have hp : rawLit p = p := urlSafe_eq hs
    have hne : encodeBytes (env f) ≠ [] := encodeBytes_ne_nil (hv f (by simp [CSeg.fields]))
    simp only [toAxum, clientRaw, matchSeg, CSeg.fields, hp, isPrefixOf_append_self, drop_append_self]
    simp [hne]

/-- the captures of a whole chain -/
def capsOf (key : Str → Str) (env : Str → List UInt8) (chain : List CSeg) : Captures :=
  chain.flatMap fun c => c.fields.map fun f => (key f, encodeBytes (env f))

theorem routeMatch_toAxum (key : Str → Str) (env : Str → List UInt8) (chain : List CSeg)
    (hs : ∀ c ∈ chain, c.safe = true) (hv : ∀ c ∈ chain, ∀ f ∈ c.fields, env f ≠ []) :
    routeMatch (chain.map (toAxum key)) (chain.map (clientRaw env)) = some (capsOf key env chain) := by
  induction chain with
  | nil => simp [routeMatch, capsOf]
  | cons c t ih =>
    have h1 := matchSeg_toAxum (t.map (toAxum key)).isEmpty key env c (hs c List.mem_cons_self) (hv c List.mem_cons_self)
    have h2 := ih (fun x hx => hs x (List.mem_cons_of_mem _ hx)) (fun x hx => hv x (List.mem_cons_of_mem _ hx))
    simp only [List.map_cons, routeMatch, h1, h2]
    simp [capsOf]

theorem capsOf_decode (key : Str → Str) (env : Str → List UInt8) (chain : List CSeg) :
    (capsOf key env chain).map (fun c => (c.1, pctDecode c.2)) =
      (chain.flatMap CSeg.fields).map fun f => (key f, env f) := by
  induction chain with
  | nil => simp [capsOf]
  | cons c t ih =>
    simp only [capsOf, List.flatMap_cons, List.map_append] at ih ⊢
    rw [ih]
    simp [pctDecode_encodeBytes]

/-- the judge's path clause pins the pattern down to the one derived from the chain -/
theorem pathOk_sound (k : Str → Option Str) : ∀ (chain : List CSeg) (pat : List PSeg), pathOk k chain pat = true →
    pat = chain.map (toAxum fun f => (k f).getD []) ∧ ∀ c ∈ chain, c.safe = true := by
  intro chain
  induction chain with
  | nil =>
    intro pat h
    cases pat with
    | nil => simp
    | cons p ps => simp [pathOk] at h
  | cons c t ih =>
    intro pat h
    cases pat with
    | nil => simp [pathOk] at h
    | cons p ps =>
      simp only [pathOk, Bool.and_eq_true] at h
      obtain ⟨hseg, hrest⟩ := h
      obtain ⟨e, hsafe⟩ := ih ps hrest
      have : p = toAxum (fun f => (k f).getD []) c ∧ c.safe = true := by
        cases c with
        | lit l =>
          cases p with
          | lit m =>
            simp [segAgree] at hseg
            obtain ⟨rfl, h2⟩ := hseg
            exact ⟨rfl, h2⟩
          | cap q n => simp [segAgree] at hseg
        | param f =>
          cases p with
          | lit m => simp [segAgree] at hseg
          | cap q n =>
            simp [segAgree] at hseg
            obtain ⟨rfl, h2⟩ := hseg
            simp [toAxum, CSeg.safe, h2]
        | pre q f =>
          cases p with
          | lit m => simp [segAgree] at hseg
          | cap q' n =>
            simp [segAgree] at hseg
            obtain ⟨⟨rfl, h2⟩, h3⟩ := hseg
            simp [toAxum, CSeg.safe, h2, h3]
      refine ⟨by rw [this.1, e]; rfl, ?_⟩
      intro x hx
      cases hx with
      | head => exact this.2
      | tail _ hx => exact hsafe x hx

/-! ### enum codecs -/

theorem enumOk_iff (vars : List Str) (e : Encoder) (d : Decoder) :
    enumOk vars e d = true ↔ ∀ v ∈ vars, ∃ s, display e v = some s ∧ fromStr d s = some v := by
  unfold enumOk
  rw [List.all_eq_true]
  constructor
  · intro h v hv
    have := h v hv
    cases hd : display e v with
    | none => simp [hd] at this
    | some s => exact ⟨s, rfl, by simpa [hd] using this⟩
  · intro h v hv
    obtain ⟨s, h1, h2⟩ := h v hv
    simp [h1, h2]

/-! ### name lookup -/

theorem lookup_map_of_nodup (norm : Str → Str) : ∀ (ps : List (Str × Str × Str)),
    nodupStr (ps.map fun p => norm p.2.1) = true →
    (∀ p ∈ ps, norm p.1 = norm p.2.1) →
    ∀ p ∈ ps, getBy norm (insertAll norm (ps.map fun q => (q.1, q.2.2))) p.2.1 = some p.2.2 := by
  intro ps
  induction ps with
  | nil => intro _ _ p hp; cases hp
  | cons a t ih =>
    intro hnd hname p hp
    simp only [List.map_cons, nodupStr, Bool.and_eq_true, Bool.not_eq_true'] at hnd
    obtain ⟨hnot, hnd'⟩ := hnd
    have ha := hname a List.mem_cons_self
    cases hp with
    | head =>
      simp [getBy, insertAll, ha]
    | tail _ hp =>
      have hne : norm p.2.1 ≠ norm a.1 := by
        intro e
        have : (t.map fun p => norm p.2.1).contains (norm a.2.1) = true := by
          rw [List.contains_iff_mem]
          exact List.mem_map.2 ⟨p, hp, by rw [e, ha]⟩
        rw [this] at hnot; cases hnot
      have := ih hnd' (fun q hq => hname q (List.mem_cons_of_mem _ hq)) p hp
      simp only [getBy, insertAll, List.map_cons, List.lookup] at this ⊢
      have hb : (norm p.2.1 == norm a.1) = false := by simpa using hne
      simp only [hb]
      simpa [getBy, insertAll] using this

end Oas3.ReqInterop

namespace Oas3.ReqInterop
open Oas3.Path Oas3.Url

/-- names: what the server looks up is what the client wrote, for every parameter of one location -/
theorem lookups_agree (norm : Str → Str) (ps : List ParamFact) (val : Str → Str)
    (hnd : nodupStr (ps.map fun p => norm p.server.wire) = true)
    (hname : ∀ p ∈ ps, norm p.client.wire = norm p.server.wire) :
    ps.map (fun p => (p.field, getBy norm (insertAll norm (ps.map fun q => (q.client.wire, val q.field))) p.server.wire)) =
      ps.map fun p => (p.field, some (val p.field)) := by
  apply List.map_congr_left
  intro p hp
  have key := lookup_map_of_nodup norm (ps.map fun p => (p.client.wire, p.server.wire, val p.field))
    (by simpa [List.map_map, Function.comp_def] using hnd)
    (by intro q hq; obtain ⟨p', hp', rfl⟩ := List.mem_map.1 hq; exact hname p' hp')
    (p.client.wire, p.server.wire, val p.field) (List.mem_map.2 ⟨p, hp, rfl⟩)
  simp only [List.map_map, Function.comp_def] at key
  rw [key]

theorem paramOk_header_name {p : ParamFact} (h : paramOk true p = true) :
    lowerAscii p.client.wire = lowerAscii p.server.wire := by
  simp only [paramOk, Bool.and_eq_true, if_true] at h
  simpa [headerNameEq] using h.1.1.1.1.1

theorem paramOk_query_name {p : ParamFact} (h : paramOk false p = true) :
    id p.client.wire = id p.server.wire := by
  simp only [paramOk, Bool.and_eq_true] at h
  simpa using h.1.1.1.1.1

/-- soundness of the judge on the modelled parts of a request -/
theorem reqInteropOk_sound (f : OpFacts) (h : reqInteropOk f = true) (v : ReqVal)
    (hv : ∀ c ∈ f.chain, ∀ fld ∈ c.fields, v.path fld ≠ []) :
    serverExtract f (clientRequest f v) = some (expected f v) ∧
    (∀ u ∈ f.enums, ∀ x ∈ u.vars, ∃ s, display u.enc x = some s ∧ fromStr u.dec s = some x) := by
  simp only [reqInteropOk, Bool.and_eq_true] at h
  obtain ⟨⟨⟨⟨⟨⟨hroute, hhdr⟩, hqry⟩, hndh⟩, hndq⟩, henum⟩, hbody⟩ := h
  simp only [routeOk, Bool.and_eq_true] at hroute
  obtain ⟨⟨⟨⟨⟨hm, _⟩, _⟩, hpath⟩, _⟩, _⟩ := hroute
  have hm' : f.cMethod = f.sMethod := by simpa using hm
  have hb' : f.cBody = f.sBody := by
    simp only [bodyOk, Bool.and_eq_true] at hbody
    simpa using hbody.1
  obtain ⟨hpat, hsafe⟩ := pathOk_sound f.key f.chain f.pattern hpath
  refine ⟨?_, ?_⟩
  · have hr := routeMatch_toAxum (fun fld => (f.key fld).getD []) v.path f.chain hsafe hv
    rw [List.all_eq_true] at hhdr hqry
    have hH := lookups_agree lowerAscii f.headers v.hdr hndh (fun p hp => paramOk_header_name (hhdr p hp))
    have hQ := lookups_agree id f.query v.qry (by simpa using hndq) (fun p hp => paramOk_query_name (hqry p hp))
    unfold serverExtract clientRequest
    simp only [hm', hb', and_self, if_true]
    rw [hpat, hr]
    simp only [expected, Option.some.injEq]
    rw [capsOf_decode]
    congr 1
  · intro u hu
    rw [List.all_eq_true] at henum
    exact (enumOk_iff u.vars u.enc u.dec).1 (henum u hu)

end Oas3.ReqInterop
