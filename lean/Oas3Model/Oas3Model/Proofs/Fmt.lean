/-
Lemmas about the format-string semantics (`Model/Fmt.lean`): one-step unfoldings, escaping is a right inverse of
rendering, rendering never lengthens, and a raw text renders to itself only when it has no brace.
-/
import Oas3Model.Model.Fmt
namespace Oas3.Fmt

theorem fmtRender_other (c : Char) (r : List Char) (h1 : c ≠ '{') (h2 : c ≠ '}') :
    fmtRender (c :: r) = (fmtRender r).map (c :: ·) := by
  rw [fmtRender.eq_def]
  split
  · simp_all
  · simp_all
  · simp_all
  · simp_all
  · simp_all
  · rename_i heq; simp at heq; obtain ⟨rfl, rfl⟩ := heq; rfl

theorem escape_other (c : Char) (r : List Char) (h1 : c ≠ '{') (h2 : c ≠ '}') :
    escapeBraces (c :: r) = c :: escapeBraces r := by
  rw [escapeBraces.eq_def]
  split
  · simp_all
  · simp_all
  · simp_all
  · rename_i heq; simp at heq; obtain ⟨rfl, rfl⟩ := heq; rfl

theorem fmtRender_open_open (r) : fmtRender ('{' :: '{' :: r) = (fmtRender r).map ('{' :: ·) := by
  rw [fmtRender.eq_def]; rfl
theorem fmtRender_close_close (r) : fmtRender ('}' :: '}' :: r) = (fmtRender r).map ('}' :: ·) := by
  rw [fmtRender.eq_def]; rfl
theorem fmtRender_open_other (d : Char) (r) (h : d ≠ '{') : fmtRender ('{' :: d :: r) = none := by
  rw [fmtRender.eq_def]; split <;> first | rfl | (simp_all; done) | (rename_i a b heq; simp at heq; obtain ⟨rfl, rfl⟩ := heq; simp_all)
theorem fmtRender_close_other (d : Char) (r) (h : d ≠ '}') : fmtRender ('}' :: d :: r) = none := by
  rw [fmtRender.eq_def]; split <;> first | rfl | (simp_all; done) | (rename_i a b heq; simp at heq; obtain ⟨rfl, rfl⟩ := heq; simp_all)
theorem fmtRender_open_nil : fmtRender ['{'] = none := by rw [fmtRender.eq_def]; rfl
theorem fmtRender_close_nil : fmtRender ['}'] = none := by rw [fmtRender.eq_def]; rfl

theorem escape_open (r) : escapeBraces ('{' :: r) = '{' :: '{' :: escapeBraces r := by rw [escapeBraces.eq_def]; rfl
theorem escape_close (r) : escapeBraces ('}' :: r) = '}' :: '}' :: escapeBraces r := by rw [escapeBraces.eq_def]; rfl

theorem fmt_escape (s : List Char) : fmtRender (escapeBraces s) = some s := by
  induction s with
  | nil => rfl
  | cons c r ih =>
    by_cases h1 : c = '{'
    · subst h1; rw [escape_open, fmtRender_open_open, ih]; rfl
    · by_cases h2 : c = '}'
      · subst h2; rw [escape_close, fmtRender_close_close, ih]; rfl
      · rw [escape_other c r h1 h2, fmtRender_other c _ h1 h2, ih]; rfl

theorem fmtRender_length : ∀ (s x : List Char), fmtRender s = some x → x.length ≤ s.length
  | [], x, h => by rw [fmtRender.eq_def] at h; simp at h; subst h; simp
  | [c], x, h => by
    by_cases h1 : c = '{'
    · subst h1; rw [fmtRender_open_nil] at h; simp at h
    · by_cases h2 : c = '}'
      · subst h2; rw [fmtRender_close_nil] at h; simp at h
      · rw [fmtRender_other c _ h1 h2] at h
        have : fmtRender [] = some [] := by rw [fmtRender.eq_def]
        rw [this] at h; simp at h; subst h; simp
  | c :: d :: t, x, h => by
    by_cases h1 : c = '{'
    · subst h1
      by_cases hd : d = '{'
      · subst hd; rw [fmtRender_open_open] at h
        cases ht : fmtRender t with
        | none => simp [ht] at h
        | some y => simp [ht] at h; subst h; have := fmtRender_length t y ht; simp; omega
      · rw [fmtRender_open_other d t hd] at h; simp at h
    · by_cases h2 : c = '}'
      · subst h2
        by_cases hd : d = '}'
        · subst hd; rw [fmtRender_close_close] at h
          cases ht : fmtRender t with
          | none => simp [ht] at h
          | some y => simp [ht] at h; subst h; have := fmtRender_length t y ht; simp; omega
        · rw [fmtRender_close_other d t hd] at h; simp at h
      · rw [fmtRender_other c _ h1 h2] at h
        cases ht : fmtRender (d :: t) with
        | none => simp [ht] at h
        | some y => simp [ht] at h; subst h; have := fmtRender_length (d :: t) y ht; simp at this ⊢; omega

theorem fmt_raw_noBrace : ∀ (s : List Char), fmtRender s = some s → noBrace s = true
  | [], _ => rfl
  | c :: r, h => by
    by_cases h1 : c = '{'
    · subst h1
      cases r with
      | nil => rw [fmtRender_open_nil] at h; simp at h
      | cons d t =>
        by_cases hd : d = '{'
        · subst hd; rw [fmtRender_open_open] at h
          cases ht : fmtRender t with
          | none => simp [ht] at h
          | some y =>
            simp [ht] at h
            have := fmtRender_length t y ht
            have hl := congrArg List.length h
            simp at hl; omega
        · rw [fmtRender_open_other d t hd] at h; simp at h
    · by_cases h2 : c = '}'
      · subst h2
        cases r with
        | nil => rw [fmtRender_close_nil] at h; simp at h
        | cons d t =>
          by_cases hd : d = '}'
          · subst hd; rw [fmtRender_close_close] at h
            cases ht : fmtRender t with
            | none => simp [ht] at h
            | some y =>
              simp [ht] at h
              have := fmtRender_length t y ht
              have hl := congrArg List.length h
              simp at hl; omega
          · rw [fmtRender_close_other d t hd] at h; simp at h
      · rw [fmtRender_other c _ h1 h2] at h
        cases ht : fmtRender r with
        | none => simp [ht] at h
        | some y =>
          simp [ht] at h
          rw [h] at ht
          have := fmt_raw_noBrace r ht
          simp [noBrace, h1, h2] at this ⊢
          exact this

end Oas3.Fmt
