/-
C01 — lemmas about the usage worklist (`SerdeUsage::drain_worklist`): the invariant "the current flags of a node
whose out-edges are not yet satisfied are pending in the worklist", preserved by every pop, for every fuel.
-/
import Oas3Model.Model.Compile
namespace Oas3.Comp

theorem mem_dedup (x : Name) : ∀ l : List Name, x ∈ dedup l ↔ x ∈ l := by
  intro l
  induction l with
  | nil => simp [dedup]
  | cons a t ih =>
    unfold dedup
    by_cases h : t.contains a = true
    · simp only [h, if_true, ih, List.mem_cons]
      constructor
      · intro hx; exact Or.inr hx
      · intro hx
        rcases hx with rfl | hx
        · simpa using h
        · exact hx
    · have h' : t.contains a = false := by simpa using h
      simp only [h', Bool.false_eq_true, if_false, List.mem_cons]
      rw [ih]

theorem getU_cons (k : Name) (v : Flags) (t : Usage) (m : Name) :
    getU ((k, v) :: t) m = if m = k then v else getU t m := by
  unfold getU
  rw [List.lookup_cons]
  by_cases h : m = k
  · subst h; simp
  · have : (m == k) = false := by simpa using h
    simp [this, h]

theorem getU_nil (m : Name) : getU [] m = (false, false) := by
  unfold getU; simp [List.lookup]

theorem getU_setU (u : Usage) (n m : Name) (f : Flags) :
    getU (setU u n f) m = if m = n then f else getU u m := by
  induction u with
  | nil =>
    unfold setU
    rw [getU_cons, getU_nil]
  | cons e t ih =>
    obtain ⟨k, v⟩ := e
    unfold setU
    by_cases hk : k = n
    · subst hk
      simp only [beq_self_eq_true, if_true]
      rw [getU_cons, getU_cons]
      by_cases h : m = k <;> simp [h]
    · have hkn : (k == n) = false := by simpa using hk
      simp only [hkn, Bool.false_eq_true, if_false]
      rw [getU_cons, getU_cons, ih]
      by_cases h : m = k
      · subst h; simp [hk]
      · simp [h]

theorem leF_refl (a : Flags) : leF a a = true := by
  obtain ⟨x, y⟩ := a; cases x <;> cases y <;> rfl

theorem leF_trans {a b c : Flags} (h1 : leF a b = true) (h2 : leF b c = true) : leF a c = true := by
  obtain ⟨a1, a2⟩ := a; obtain ⟨b1, b2⟩ := b; obtain ⟨c1, c2⟩ := c
  revert h1 h2
  cases a1 <;> cases a2 <;> cases b1 <;> cases b2 <;> cases c1 <;> cases c2 <;> simp [leF]

theorem leF_orF_left (a b : Flags) : leF a (orF a b) = true := by
  obtain ⟨a1, a2⟩ := a; obtain ⟨b1, b2⟩ := b
  cases a1 <;> cases a2 <;> cases b1 <;> cases b2 <;> rfl

theorem leF_orF_right (a b : Flags) : leF b (orF a b) = true := by
  obtain ⟨a1, a2⟩ := a; obtain ⟨b1, b2⟩ := b
  cases a1 <;> cases a2 <;> cases b1 <;> cases b2 <;> rfl

/-- the worklist invariant -/
def Inv (g : Graph) (u : Usage) (w : Work) : Prop :=
  ∀ a b, b ∈ succ g a → leF (getU u a) (getU u b) = true ∨ (a, getU u a) ∈ w

/-- the invariant in the middle of processing the popped entry `(n, fl)`; `ps` = neighbours already relaxed -/
def Mid (g : Graph) (n : Name) (fl : Flags) (st : Usage × Work) (ps : List Name) : Prop :=
  (∀ a b, b ∈ succ g a → leF (getU st.1 a) (getU st.1 b) = true ∨ (a, getU st.1 a) ∈ st.2 ∨ (a = n ∧ getU st.1 a = fl)) ∧
  (∀ b ∈ ps, leF fl (getU st.1 b) = true)

theorem relax_mono (fl : Flags) (st : Usage × Work) (d x : Name) :
    leF (getU st.1 x) (getU (relax fl st d).1 x) = true := by
  unfold relax
  simp only [getU_setU]
  by_cases h : x = d
  · subst h; simp only [if_true]; exact leF_orF_left _ _
  · simp only [h, if_false]; exact leF_refl _

theorem relax_work_sub (fl : Flags) (st : Usage × Work) (d : Name) : ∀ e ∈ st.2, e ∈ (relax fl st d).2 := by
  intro e he
  unfold relax
  simp only
  split
  · exact List.mem_append_left _ he
  · exact he

theorem relax_mid {g : Graph} {n : Name} {fl : Flags} {st : Usage × Work} {ps : List Name} (d : Name)
    (h : Mid g n fl st ps) : Mid g n fl (relax fl st d) (ps ++ [d]) := by
  obtain ⟨hA, hB⟩ := h
  refine ⟨?_, ?_⟩
  · intro a b hb
    by_cases hchg : a = d ∧ orF (getU st.1 d) fl ≠ getU st.1 d
    · -- the flags of `a` changed: the new flags were pushed
      obtain ⟨had, hne⟩ := hchg
      subst had
      right; left
      have hval : getU (relax fl st a).1 a = orF (getU st.1 a) fl := by
        unfold relax; simp [getU_setU]
      rw [hval]
      unfold relax
      simp only
      have : (orF (getU st.1 a) fl != getU st.1 a) = true := by simpa using hne
      simp [this]
    · -- the flags of `a` are unchanged
      have hsame : getU (relax fl st d).1 a = getU st.1 a := by
        unfold relax
        simp only [getU_setU]
        by_cases had : a = d
        · subst had
          simp only [if_true]
          have : ¬ orF (getU st.1 a) fl ≠ getU st.1 a := fun hne => hchg ⟨rfl, hne⟩
          simpa using this
        · simp [had]
      rw [hsame]
      rcases hA a b hb with h1 | h2 | h3
      · left; exact leF_trans h1 (relax_mono fl st d b)
      · right; left; exact relax_work_sub fl st d _ h2
      · right; right; exact h3
  · intro b hb
    rcases List.mem_append.mp hb with hb | hb
    · exact leF_trans (hB b hb) (relax_mono fl st d b)
    · have : b = d := by simpa using hb
      subst this
      unfold relax
      simp only [getU_setU, if_true]
      exact leF_orF_right _ _

theorem fold_mid {g : Graph} {n : Name} {fl : Flags} : ∀ (ds : List Name) (st : Usage × Work) (ps : List Name),
    Mid g n fl st ps → Mid g n fl (ds.foldl (relax fl) st) (ps ++ ds) := by
  intro ds
  induction ds with
  | nil => intro st ps h; simpa using h
  | cons d t ih =>
    intro st ps h
    have := ih (relax fl st d) (ps ++ [d]) (relax_mid d h)
    simpa [List.foldl, List.append_assoc] using this

/-- one pop of `drain_worklist` preserves the invariant -/
theorem pop_inv {g : Graph} {u : Usage} {n : Name} {fl : Flags} {rest : Work}
    (h : Inv g u ((n, fl) :: rest)) :
    Inv g ((succ g n).foldl (relax fl) (u, rest)).1 ((succ g n).foldl (relax fl) (u, rest)).2 := by
  have h0 : Mid g n fl (u, rest) [] := by
    refine ⟨?_, by simp⟩
    intro a b hb
    rcases h a b hb with h1 | h2
    · exact Or.inl h1
    · rcases List.mem_cons.mp h2 with heq | hin
      · right; right
        have h1 : a = n := congrArg Prod.fst heq
        have h2 : getU u a = fl := congrArg Prod.snd heq
        exact ⟨h1, h2⟩
      · exact Or.inr (Or.inl hin)
  have hm := fold_mid (succ g n) (u, rest) [] h0
  obtain ⟨hA, hB⟩ := hm
  intro a b hb
  rcases hA a b hb with h1 | h2 | ⟨han, hfl⟩
  · exact Or.inl h1
  · exact Or.inr h2
  · left
    subst han
    rw [hfl]
    exact hB b (by simpa using hb)

theorem drain_inv (g : Graph) : ∀ (f : Nat) (u : Usage) (w : Work), Inv g u w → Inv g (drain g f u w).1 (drain g f u w).2 := by
  intro f
  induction f with
  | zero => intro u w h; simpa [drain] using h
  | succ k ih =>
    intro u w h
    cases w with
    | nil => simpa [drain] using h
    | cons e rest =>
      obtain ⟨n, fl⟩ := e
      simp only [drain]
      exact ih _ _ (pop_inv h)

/-- an empty worklist + the invariant = closure under the edges -/
theorem inv_nil_closed {g : Graph} {u : Usage} (h : Inv g u []) :
    ∀ a b, b ∈ succ g a → leF (getU u a) (getU u b) = true := by
  intro a b hb
  rcases h a b hb with h1 | h2
  · exact h1
  · cases h2

theorem inv_closed_of_empty {g : Graph} {u : Usage} {w : Work} (h : Inv g u w) (hw : w = []) :
    ∀ a b, b ∈ succ g a → leF (getU u a) (getU u b) = true := by
  subst hw; exact inv_nil_closed h

theorem lookup_mem {u : Usage} {a : Name} {f : Flags} (h : u.lookup a = some f) : (a, f) ∈ u := by
  induction u with
  | nil => simp [List.lookup] at h
  | cons e t ih =>
    obtain ⟨k, v⟩ := e
    by_cases hk : a = k
    · subst hk
      simp [List.lookup] at h
      subst h
      exact List.mem_cons_self
    · have : (a == k) = false := by simpa using hk
      simp only [List.lookup, this] at h
      exact List.mem_cons_of_mem _ (ih h)

theorem succ_mem_indices {g : Graph} {a b : Name} (hb : b ∈ succ g a) : a ∈ indices g := by
  unfold succ at hb
  rw [List.mem_flatMap] at hb
  obtain ⟨nd, hnd, _⟩ := hb
  rw [List.mem_filter] at hnd
  unfold indices
  rw [mem_dedup, List.mem_flatMap]
  refine ⟨nd, hnd.1, ?_⟩
  have : nd.name = a := by simpa using hnd.2
  rw [this]
  exact List.mem_cons_self

/-- the seeds phase starts in the invariant -/
theorem inv_seeds (g : Graph) (seeds : Usage) :
    Inv g seeds (seeds.filter fun e => (indices g).contains e.1) := by
  intro a b hb
  cases hl : seeds.lookup a with
  | none =>
    left
    unfold getU
    rw [hl]
    obtain ⟨x, y⟩ := getU seeds b
    simp [leF]
  | some f =>
    right
    have hg : getU seeds a = f := by unfold getU; rw [hl]; rfl
    rw [hg, List.mem_filter]
    refine ⟨lookup_mem hl, ?_⟩
    simpa using succ_mem_indices hb

theorem getU_foldl_set (os : List Name) : ∀ (u : Usage) (x : Name),
    getU (os.foldl (fun u n => setU u n (true, true)) u) x = if x ∈ os then (true, true) else getU u x := by
  induction os with
  | nil => intro u x; simp
  | cons o t ih =>
    intro u x
    simp only [List.foldl]
    rw [ih, getU_setU]
    by_cases hx : x ∈ t
    · simp [hx]
    · by_cases hxo : x = o
      · simp [hxo]
      · simp [hx, hxo]

theorem leF_top (a : Flags) : leF a (true, true) = true := by
  obtain ⟨x, y⟩ := a; cases x <;> cases y <;> rfl

/-- the orphan phase starts in the invariant when the seeds phase has drained -/
theorem inv_orphans {g : Graph} {u : Usage} (h : Inv g u []) (os : List Name) :
    Inv g (os.foldl (fun u n => setU u n (true, true)) u) (os.map fun n => (n, (true, true))) := by
  intro a b hb
  rw [getU_foldl_set, getU_foldl_set]
  by_cases ha : a ∈ os
  · right
    simp only [ha, if_true]
    rw [List.mem_map]
    exact ⟨a, ha, rfl⟩
  · left
    simp only [ha, if_false]
    by_cases hb' : b ∈ os
    · simp only [hb', if_true]; exact leF_top _
    · simp only [hb', if_false]; exact inv_nil_closed h a b hb

/-- **closure**: whatever `propagate` returns is closed under every edge of the graph -/
theorem propagate_closed {g : Graph} {seeds u : Usage} (h : propagate g seeds = some u) :
    ∀ a b, b ∈ succ g a → leF (getU u a) (getU u b) = true := by
  unfold propagate at h
  simp only at h
  split at h
  · rename_i hc
    injection h with h
    subst h
    have hc' := hc
    simp only [Bool.and_eq_true, List.isEmpty_iff] at hc'
    obtain ⟨h1, h2⟩ := hc'
    have i1 := drain_inv g (fuelFor g seeds) seeds _ (inv_seeds g seeds)
    rw [h1] at i1
    have i2 := drain_inv g (fuelFor g seeds) _ _ (inv_orphans i1
      ((indices g).filter fun n => !hasU (drain g (fuelFor g seeds) seeds (seeds.filter fun e => (indices g).contains e.1)).1 n))
    exact inv_closed_of_empty i2 h2
  · cases h

end Oas3.Comp
