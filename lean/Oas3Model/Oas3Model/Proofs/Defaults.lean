import Oas3Model.Sem.Defaults
/-! Lemmas for C17: the coercion evaluates to the declared default on every primitive target; what
the literal evaluates to for the non-primitive targets; the three "filled in" sites agree. -/
namespace Oas3.Defaults

/-! ### lookup / table facts -/

theorem lookup_mem_snd {α β : Type} [BEq α] (l : List (α × β)) (k : α) (v : β) :
    l.lookup k = some v → v ∈ l.map Prod.snd := by
  induction l with
  | nil => simp [List.lookup]
  | cons hd tl ih =>
    obtain ⟨a, b⟩ := hd
    simp only [List.lookup]
    split
    · intro h; simp at h; simp [h]
    · intro h; simp [ih h]

def fromFormatTargets : List Prim :=
  [.i8, .i16, .i32, .i64, .u8, .u16, .u32, .u64, .f32, .f64,
   .other "chrono::NaiveDate".toList, .other "chrono::DateTime<chrono::Utc>".toList,
   .other "chrono::NaiveTime".toList, .other "chrono::Duration".toList,
   .other "Vec<u8>".toList, .other "Vec<u8>".toList, .other "uuid::Uuid".toList]

theorem fromFormat_mem (f : List Char) (p : Prim) (h : fromFormat f = some p) : p ∈ fromFormatTargets := by
  have := lookup_mem_snd _ _ _ h
  simpa [fromFormatTargets] using this

theorem fromFormat_ne_static (f : List Char) (p : Prim) (h : fromFormat f = some p) : p ≠ .staticStr := by
  have hm := fromFormat_mem f p h
  intro hp
  subst hp
  simp [fromFormatTargets] at hm

theorem scalarPrim_ne_static (ty : STy) (f : Option (List Char)) : scalarPrim ty f ≠ .staticStr := by
  have aux : ∀ (d : Prim), d ≠ .staticStr → ((f.bind fromFormat).getD d) ≠ .staticStr := by
    intro d hd
    cases f with
    | none => simpa using hd
    | some ff =>
      simp only [Option.bind]
      cases hff : fromFormat ff with
      | none => simpa using hd
      | some p => simpa using fromFormat_ne_static ff p hff
  cases ty
  · exact aux .string (by decide)
  · exact aux .i64 (by decide)
  · exact aux .f64 (by decide)
  · simp [scalarPrim]

/-! ### the coercion on primitive targets -/

theorem lower_true : ("true".toList.map lowerAscii) = "true".toList := by decide
theorem lower_false : ("false".toList.map lowerAscii) = "false".toList := by decide

/-- the literal emitted for a scalar default evaluates, at the (non-optional, non-array) primitive
type, to what the default denotes there — for the matching JSON type and for the string-encoded
forms. -/
theorem coerce_scalar (nat : JVal) (p : Prim) (v w : Scalar) (h : expectScalar p v = some w) :
    evalBase nat p false (coerce (.sc v) p) = some (.sc w) := by
  cases p <;> cases v <;>
    simp [expectScalar, Prim.isSInt, Prim.isUInt, Prim.isFloat] at h
  all_goals first
    | (obtain ⟨⟨h1, h2, h3⟩, rfl⟩ := h
       simp [coerce, coerceInt, coerceUint, evalBase, h1, h2, h3]
       done)
    | (obtain ⟨h1, rfl⟩ := h
       simp [coerce, coerceFloat, evalBase, Prim.isFloat, h1]
       done)
    | (obtain ⟨⟨h1, _⟩, rfl⟩ := h
       simp [coerce, coerceFloat, evalBase, Prim.isFloat, h1]
       done)
    | (subst h
       simp [coerce, coerceBool, evalBase, Prim.isFloat]
       done)
    | (subst h
       rename_i s
       by_cases hs : s = [] <;> simp [coerce, coerceString, evalBase, hs]
       done)
    | (rename_i s
       cases hp : parseI64 s with
       | none => simp [hp] at h
       | some i =>
         simp [hp] at h
         obtain ⟨h1, rfl⟩ := h
         simp [coerce, coerceInt, hp, evalBase, h1])
    | (rename_i s
       cases hp : parseU64 s with
       | none => simp [hp] at h
       | some i =>
         simp [hp] at h
         obtain ⟨h1, rfl⟩ := h
         simp [coerce, coerceUint, hp, evalBase, h1])
    | (rename_i s
       cases hp : parseF64 s with
       | none => simp [hp] at h
       | some me =>
         obtain ⟨mm, e⟩ := me
         simp [hp] at h
         obtain ⟨_, h⟩ := h
         subst h
         by_cases he : e = 0 <;> simp [coerce, coerceFloat, hp, evalBase, Prim.isFloat, he])
    | (rename_i s
       split at h
       · simp at h; subst h; subst_vars
         simp [coerce, coerceBool, evalBase]
         try decide
       · split at h
         · simp at h; subst h; subst_vars
           simp [coerce, coerceBool, evalBase]
           try decide
         · simp at h)

/-! ### what the emitted literal evaluates to -/

theorem eval_literal (nat : JVal) (v : JVal) (t : FTy) (hv : v ≠ .sc .null) :
    eval nat t (jsonToRustLiteral v t) = evalBase nat t.base t.isArray (coerce v t.base) := by
  unfold jsonToRustLiteral eval
  cases hn : t.nullable <;> simp [hv]

theorem coerce_arr (xs : List Scalar) (p : Prim) (hp : p ≠ .staticStr) : coerce (.arr xs) p = .dflt := by
  cases p <;> simp_all [coerce, coerceString, coerceBool, coerceInt, coerceUint, coerceFloat]

theorem coerce_other (v : JVal) (n : List Char) : coerce v (.other n) = .dflt := rfl

theorem allSome_nil_iff {α : Type} (l : List (Option α)) : allSome l = some [] ↔ l = [] := by
  cases l with
  | nil => simp [allSome]
  | cons a r =>
    cases a with
    | none => simp [allSome]
    | some x => simp [allSome]

theorem allSome_length {α : Type} : ∀ (l : List (Option α)) (ys : List α), allSome l = some ys → ys.length = l.length
  | [], ys, h => by simp [allSome] at h; subst h; rfl
  | none :: r, ys, h => by simp [allSome] at h
  | some x :: r, ys, h => by
    simp [allSome] at h
    obtain ⟨zs, hz, rfl⟩ := h
    simp [allSome_length r zs hz]

theorem expectScalar_other (n : List Char) (s : Scalar) : expectScalar (.other n) s = none := by
  cases s <;> simp [expectScalar, Prim.isSInt, Prim.isUInt, Prim.isFloat]

theorem expectScalar_null (p : Prim) : expectScalar p .null = none := by
  cases p <;> simp [expectScalar]

/-- the final nullability `convert_field` gives the member -/
def finalNullable (m : Member) : Bool := (!m.required || m.dflt.isSome) || m.nullable

theorem convert_ty (m : Member) : (convert m).ty = ⟨m.basePrim, m.isArray, finalNullable m⟩ := by
  unfold convert finalNullable Member.resolved FTy.withOption
  cases m.required <;> cases m.dflt.isSome <;> cases m.nullable <;> simp

/-- value of the literal emitted for declared default `v` at the member's (possibly optional) type -/
def litVal (m : Member) (v : JVal) (fin : Bool) : Option JVal :=
  eval (natural m) ⟨m.basePrim, m.isArray, fin⟩ (jsonToRustLiteral v ⟨m.basePrim, m.isArray, fin⟩)

/-- the four value-losing classes together -/
def valueLost (m : Member) : Bool :=
  KnownEnumDefaultIsFirst m || KnownArrayDefaultLost m || KnownObjectDefaultLost m || KnownFormatDefaultLost m

/-- the grammar part of `WF` -/
def grammarOk (m : Member) : Bool :=
  (!m.isArray || (match m.kind with | .scalar .. => true | _ => false)) &&
  (!m.nullable || ((match m.kind with | .scalar .. => true | _ => false) && !m.isArray)) &&
  (match m.kind with | .enumStr vals => decide (2 ≤ vals.length) | _ => true)

theorem expectScalar_ne_null (p : Prim) (s w : Scalar) (h : expectScalar p s = some w) : w ≠ .null := by
  intro hw
  subst hw
  cases p <;> cases s <;> simp [expectScalar, Prim.isSInt, Prim.isUInt, Prim.isFloat] at h
  all_goals (repeat' split at h) <;> simp_all

theorem expectAt_null (m : Member) : expectAt m (.sc .null) = none := by
  unfold expectAt
  cases m.isArray <;> cases m.kind <;> simp [expectScalar_null]

/-- exact characterisation of when the emitted literal carries the declared default -/
theorem litVal_iff (m : Member) (v x : JVal) (fin : Bool) (hd : m.default? = some v)
    (hx : expectAt m v = some x) (hg : grammarOk m = true) :
    litVal m v fin = some x ↔ valueLost m = false := by
  have hv : v ≠ .sc .null := by
    intro hc; subst hc; simp [expectAt_null] at hx
  unfold litVal
  rw [eval_literal _ _ _ hv]
  simp only [valueLost, KnownEnumDefaultIsFirst, KnownArrayDefaultLost, KnownObjectDefaultLost, KnownFormatDefaultLost, hd]
  obtain ⟨kind, isArray, nullable, required, dflt, const, enumOne, builders, customName⟩ := m
  simp only [grammarOk] at hg
  cases isArray
  · -- not an array
    cases kind with
    | scalar ty f =>
      cases v with
      | sc s =>
        simp only [expectAt] at hx
        simp only [Member.basePrim, natural, naturalBase]
        cases hp : scalarPrim ty f with
        | other n =>
          cases s <;> simp [hp, expectScalar_other] at hx
          subst hx
          simp [coerce_other, evalBase, hp]
          exact eq_comm
        | _ =>
          simp [hp] at hx
          obtain ⟨w, hw, rfl⟩ := hx
          have := fun nat => coerce_scalar nat _ s w hw
          cases s <;> simp [this, hp]
      | arr xs => simp [expectAt] at hx
      | obj kvs => simp [expectAt] at hx
    | enumStr vals =>
      cases v with
      | sc s =>
        cases s <;> simp [expectAt] at hx
        obtain ⟨hmem, rfl⟩ := hx
        simp [Member.basePrim, coerce_other, evalBase, natural, naturalBase]
        constructor
        · intro h _; exact h.symm
        · intro h; exact (h hmem).symm
      | arr xs => simp [expectAt] at hx
      | obj kvs => simp [expectAt] at hx
    | object keys =>
      cases v with
      | sc s => simp [expectAt] at hx
      | arr xs => simp [expectAt] at hx
      | obj kvs =>
        simp [expectAt] at hx
        obtain ⟨_, rfl⟩ := hx
        simp [Member.basePrim, coerce_other, evalBase, natural, naturalBase]
  · cases kind with
    | scalar ty f =>
      cases v with
      | sc s => simp [expectAt] at hx
      | obj kvs => simp [expectAt] at hx
      | arr xs =>
        simp [expectAt] at hx
        obtain ⟨ys, hys, rfl⟩ := hx
        simp [Member.basePrim, coerce_arr _ _ (scalarPrim_ne_static ty f), evalBase, natural]
        have hl := allSome_length _ _ hys
        simp at hl
        constructor
        · intro h; subst h; simpa using hl.symm
        · intro h; subst h; simpa using hl
    | enumStr vals => simp at hg
    | object keys => simp at hg

/-! ### the observations of the model's own output -/

theorem convert_defaultAttr (m : Member) (v : JVal) (hd : m.default? = some v) :
    (convert m).defaultAttr = some (jsonToRustLiteral v ⟨m.basePrim, m.isArray, finalNullable m⟩) := by
  have h := convert_ty m
  unfold convert at h ⊢
  simp only [hd, Option.map] at h ⊢
  simp only [h]

theorem convert_builderAttr (m : Member) (v : JVal) (hd : m.default? = some v) :
    (convert m).builderAttr =
      if m.builders && !finalNullable m then some (.default (jsonToRustLiteral v ⟨m.basePrim, m.isArray, finalNullable m⟩)) else none := by
  have h := convert_ty m
  unfold convert at h ⊢
  simp only [hd] at h ⊢
  simp only [h]
  cases m.builders <;> cases finalNullable m <;> simp

theorem convert_flags (m : Member) (v : JVal) (hd : m.default? = some v) :
    (convert m).structSerdeDefault = true ∧ (convert m).deriveDefault = true ∧
    (convert m).deriveBuilder = m.builders ∧ (convert m).fieldSkipsSerializing = false := by
  unfold convert
  simp [hd]

theorem defaultVal_convert (m : Member) (v : JVal) (hd : m.default? = some v) :
    defaultVal (natural m) (convert m) = litVal m v (finalNullable m) := by
  obtain ⟨_, h2, _, _⟩ := convert_flags m v hd
  unfold defaultVal litVal
  simp [h2, convert_defaultAttr m v hd, convert_ty m]

theorem expected_split (m : Member) (h : (expected m).isSome = true) :
    ∃ v x, m.default? = some v ∧ expectAt m v = some x ∧ expected m = some x := by
  unfold expected at h ⊢
  cases hd : m.default? with
  | none => simp [hd] at h
  | some v =>
    simp [hd] at h ⊢
    cases hx : expectAt m v with
    | none => simp [hx] at h
    | some x => exact ⟨x, rfl⟩

/-- The property on the model's own output, characterised exactly: it holds iff the member is in
none of the five known classes. -/
theorem J_iff (m : Member) (hwf : WF m = true) :
    J m (observe m (convert m)) = true ↔ (valueLost m = false ∧ KnownBuilderUnsetNone m = false) := by
  have hwf' : (expected m).isSome = true ∧ grammarOk m = true := by
    unfold WF at hwf
    unfold grammarOk
    simp only [Bool.and_eq_true] at hwf ⊢
    exact ⟨hwf.1.1.1, ⟨hwf.1.1.2, hwf.1.2⟩, hwf.2⟩
  obtain ⟨hexp, hg⟩ := hwf'
  obtain ⟨v, x, hd, hx, hex⟩ := expected_split m hexp
  have lit := litVal_iff m v x (finalNullable m) hd hx hg
  obtain ⟨f1, f2, f3, f4⟩ := convert_flags m v hd
  have hdv := defaultVal_convert m v hd
  have hb := convert_builderAttr m v hd
  have hty := convert_ty m
  have hnull : (convert m).ty.nullable = finalNullable m := by rw [hty]
  unfold J KnownBuilderUnsetNone
  simp only [hex, hnull]
  unfold observe observeN decodeOmitted builderUnset encodeOf
  simp only [f1, f3, f4, hdv, hb, hty]
  unfold litVal at lit ⊢
  generalize finalNullable m = fin at *
  by_cases hL : eval (natural m) ⟨m.basePrim, m.isArray, fin⟩ (jsonToRustLiteral v ⟨m.basePrim, m.isArray, fin⟩) = some x
  · have hvl := lit.mp hL
    simp only [hvl]
    by_cases hxn : x = .sc .null
    · subst hxn
      cases hbd : m.builders <;> cases fin <;> simp_all
    · have hxn' : ¬ JVal.sc Scalar.null = x := fun h => hxn h.symm
      cases hbd : m.builders <;> cases fin <;> simp_all
  · have hvl : valueLost m ≠ false := fun h => hL (lit.mpr h)
    simp [hL, hvl]

theorem knownFormat_false_of_prim (m : Member) (ty : STy) (f : Option (List Char))
    (hk : m.kind = .scalar ty f) (hprim : ∀ n, scalarPrim ty f ≠ .other n) : KnownFormatDefaultLost m = false := by
  unfold KnownFormatDefaultLost
  rw [hk]
  split
  · rename_i ty' f' s heq _
    injection heq with h1 h2
    subst h1 h2
    cases hp : scalarPrim ty f with
    | other n => exact absurd hp (hprim n)
    | _ => simp
  · rfl

end Oas3.Defaults
