import Oas3Model.Model.Cache
/-! Lemmas for property C13 (cache keys, canonical form, cache state machine). -/
namespace Oas3.Cache

/-! ### sorting preserves membership -/

theorem mem_insStr (a x : List Char) (l : List (List Char)) : a ∈ insStr x l ↔ a = x ∨ a ∈ l := by
  induction l with
  | nil => simp [insStr]
  | cons y r ih =>
    unfold insStr
    split
    · simp
    · simp [ih]
      constructor
      · rintro (h | h | h)
        · exact Or.inr (Or.inl h)
        · exact Or.inl h
        · exact Or.inr (Or.inr h)
      · rintro (h | h | h)
        · exact Or.inr (Or.inl h)
        · exact Or.inl h
        · exact Or.inr (Or.inr h)

theorem mem_sortStrs (a : List Char) (l : List (List Char)) : a ∈ sortStrs l ↔ a ∈ l := by
  induction l with
  | nil => simp [sortStrs]
  | cons x r ih => simp [sortStrs, mem_insStr, ih]

theorem sLe_refl (a : List Char) : sLe a a = true := by
  induction a with
  | nil => rfl
  | cons c r ih => simp [sLe, ih]

/-! ### RFC 8785 member sort is stable: look-ups are unchanged -/

theorem lookupKV_insKV (q k : List Char) (v : J) (l : List (List Char × J)) :
    lookupKV q (insKV k v l) = if k == q then some v else lookupKV q l := by
  induction l with
  | nil => simp [insKV, lookupKV]
  | cons p r ih =>
    obtain ⟨k', v'⟩ := p
    unfold insKV
    split
    · simp [lookupKV]
    · rename_i hle
      simp only [lookupKV, ih]
      by_cases h1 : (k' == q) = true
      · by_cases h2 : (k == q) = true
        · exfalso
          have e1 : k' = q := by simpa using h1
          have e2 : k = q := by simpa using h2
          subst e1; subst e2
          exact hle (sLe_refl _)
        · simp [h1, h2]
      · simp [h1]

theorem lookupKV_sortKV (q : List Char) (l : List (List Char × J)) : lookupKV q (sortKV l) = lookupKV q l := by
  induction l with
  | nil => rfl
  | cons p r ih =>
    obtain ⟨k, v⟩ := p
    simp [sortKV, lookupKV_insKV, ih, lookupKV]

/-! ### clamp -/

theorem clamp_safe (n : Int) (h1 : -maxSafe ≤ n) (h2 : n ≤ maxSafe) : clamp n = n := by
  unfold clamp
  split
  · omega
  · split
    · omega
    · rfl

mutual
theorem normalize_noBig (j : J) : hasBig j = false → normalize j = normalizeNC j := by
  cases j with
  | null => intro _; rfl
  | bool b => intro _; rfl
  | str s => intro _; rfl
  | num n =>
    intro h
    simp only [hasBig, bne_eq_false_iff_eq] at h
    simp [normalize, normalizeNC, h]
  | arr xs =>
    intro h
    simp only [hasBig] at h
    simp [normalize, normalizeNC, normList_noBig xs h]
  | obj kvs =>
    intro h
    simp only [hasBig] at h
    simp [normalize, normalizeNC, normKvs_noBig kvs h]
theorem normList_noBig (xs : List J) : hasBigList xs = false → normList xs = normListNC xs := by
  cases xs with
  | nil => intro _; rfl
  | cons x r =>
    intro h
    simp only [hasBigList, Bool.or_eq_false_iff] at h
    simp [normList, normListNC, normalize_noBig x h.1, normList_noBig r h.2]
theorem normKvs_noBig (kvs : List (List Char × J)) : hasBigKvs kvs = false → normKvs kvs = normKvsNC kvs := by
  cases kvs with
  | nil => intro _; rfl
  | cons p r =>
    obtain ⟨k, v⟩ := p
    intro h
    simp only [hasBigKvs, Bool.or_eq_false_iff] at h
    simp [normKvs, normKvsNC, normalize_noBig v h.1, normKvs_noBig r h.2]
end

/-! ### enum key -/

theorem wire_eq_strOf (vals : List JV) (h : ∀ v ∈ vals, v.strOrNull = true) :
    wireVals vals = vals.filterMap JV.strOf := by
  induction vals with
  | nil => rfl
  | cons v r ih =>
    have hr : ∀ v ∈ r, v.strOrNull = true := fun w hw => h w (List.mem_cons_of_mem _ hw)
    have hv := h v (List.mem_cons_self ..)
    cases v with
    | str s => simp [wireVals, JV.wire, JV.strOf] at *; exact ih hr
    | null => simp [wireVals] at *; exact ih hr
    | int n => simp [JV.strOrNull] at hv
    | bool b => simp [JV.strOrNull] at hv

theorem sameMembers_iff (a b : List (List Char)) : sameMembers a b = true ↔ ∀ w, w ∈ a ↔ w ∈ b := by
  simp only [sameMembers, Bool.and_eq_true, List.all_eq_true, List.contains_iff_mem]
  constructor
  · rintro ⟨h1, h2⟩ w
    exact ⟨h1 w, h2 w⟩
  · intro h
    exact ⟨fun w hw => (h w).1 hw, fun w hw => (h w).2 hw⟩

theorem not_known_nonstring (a b : List JV) (h : KnownNonStringEnum a b = false) :
    (∀ v ∈ a, v.strOrNull = true) ∧ (∀ v ∈ b, v.strOrNull = true) := by
  simp only [KnownNonStringEnum, Bool.or_eq_false_iff, List.any_eq_false] at h
  exact ⟨fun v hv => by simpa using h.1 v hv, fun v hv => by simpa using h.2 v hv⟩

/-! ### union key -/

theorem refList_of_nonNull (u : UnionS) : u.refList = u.nonNull.filterMap Var.refName := by
  unfold UnionS.refList UnionS.nonNull
  induction u.vars with
  | nil => rfl
  | cons v r ih =>
    cases v with
    | ref n =>
      have h : (fun x => x != Var.null) (Var.ref n) = true := by simp
      rw [List.filter_cons_of_pos (p := fun x => x != Var.null) h]
      simp only [List.filterMap_cons, Var.refName, ih]
    | prim t =>
      have h : (fun x => x != Var.null) (Var.prim t) = true := by simp
      rw [List.filter_cons_of_pos (p := fun x => x != Var.null) h]
      simp only [List.filterMap_cons, Var.refName, ih]
    | null =>
      have h : ¬ (fun x => x != Var.null) Var.null = true := by simp
      rw [List.filter_cons_of_neg (p := fun x => x != Var.null) h]
      simp only [List.filterMap_cons, Var.refName, ih]

/-! ### cache state machine -/

theorem lookupA_insertA {α β} [BEq α] [LawfulBEq α] (q k : α) (v : β) (l : List (α × β)) :
    lookupA q (insertA k v l) = if k == q then some v else lookupA q l := by
  induction l with
  | nil => simp [insertA, lookupA]
  | cons p r ih =>
    obtain ⟨a, b⟩ := p
    unfold insertA
    split
    · rename_i hak
      have e : a = k := by simpa using hak
      subst e
      simp only [lookupA]
      by_cases h : (a == q) = true <;> simp [h]
    · rename_i hak
      simp only [lookupA, ih]
      by_cases h1 : (a == q) = true
      · have e : a = q := by simpa using h1
        subst e
        have : (k == a) = false := by
          cases hka : (k == a) with
          | false => rfl
          | true => exfalso; apply hak; have : k = a := by simpa using hka
                    subst this; simp
        simp [this]
      · simp [h1]


theorem generated_eq (st : St) (k : EKey) : st.generatedEnumName k = lookupA k st.e2t := by
  unfold St.generatedEnumName St.enumRegistered St.enumLookup
  cases h : lookupA k st.e2t <;> simp

theorem commit_s2t (st : St) (c : Key) (r : Reg) : (st.commit c r).s2t = insertA c r.name st.s2t := by
  unfold St.commit St.reserve
  split <;> split <;> rfl

theorem commit_e2t (st : St) (c : Key) (r : Reg) :
    (st.commit c r).e2t = match r.regEnum, r.values with
      | true, some k => insertA k r.name st.e2t
      | _, _ => st.e2t := by
  unfold St.commit St.reserve
  split <;> split <;> simp_all

/-- one inline resolution request (`resolve_with_cache` arguments) -/
structure Req where
  c : Key
  relaxed : Bool
  relaxedAnyOf : Bool
  base : List Char
  forced : Option Name
  ekCheck : Option EKey
  ek : Option EKey

def Req.run (f : NameFns) (st : St) (q : Req) : St × Name :=
  resolveInline f st q.c q.relaxed q.relaxedAnyOf q.base q.forced q.ekCheck q.ek

def runInline (f : NameFns) : St → List Req → St
  | st, [] => st
  | st, q :: r => runInline f (q.run f st).1 r

theorem resolve_keeps_s2t (f : NameFns) (st : St) (q : Req) (c : Key) (n : Name)
    (h : lookupA c st.s2t = some n) : lookupA c (q.run f st).1.s2t = some n := by
  unfold Req.run resolveInline
  split
  · exact h
  · rename_i hnone
    split
    · exact h
    · simp only [commit_s2t, lookupA_insertA]
      split
      · rename_i heq
        have e : q.c = c := by simpa using heq
        rw [e, h] at hnone
        cases hnone
      · exact h

theorem resolve_keeps_s2t_none (f : NameFns) (st : St) (q : Req) (c : Key)
    (hne : q.c ≠ c) (h : lookupA c st.s2t = none) : lookupA c (q.run f st).1.s2t = none := by
  unfold Req.run resolveInline
  split
  · exact h
  · split
    · exact h
    · simp only [commit_s2t, lookupA_insertA]
      split
      · rename_i heq
        exact absurd (by simpa using heq) hne
      · exact h

theorem prepare_values (f : NameFns) (st : St) (c : Key) (ra : Bool) (base : List Char) (ek : Option EKey)
    (k k' : EKey) (n : Name) (hk : lookupA k st.e2t = some n)
    (hr : (st.prepare f c false ra base ek).regEnum = true)
    (hv : (st.prepare f c false ra base ek).values = some k') : k' ≠ k := by
  intro e
  subst e
  unfold St.prepare at hr hv
  cases ek with
  | none => simp at hv
  | some k0 =>
    simp only [Bool.false_eq_true, if_false] at hr hv
    cases hl : st.enumLookup k0 with
    | some n0 =>
      simp only [hl, Option.map_some] at hr hv
      by_cases hreg : st.enumRegistered k0 = true
      · simp [hreg] at hr
      · simp only [hreg] at hv
        simp at hv
        subst hv
        simp [St.enumRegistered, hk] at hreg
    | none =>
      simp only [hl, Option.map_none] at hr hv
      split at hv
      · simp at hv
      · simp at hv
        subst hv
        simp [St.enumLookup, hk] at hl

theorem resolve_keeps_e2t (f : NameFns) (st : St) (q : Req) (hrx : q.relaxed = false) (k : EKey) (n : Name)
    (h : lookupA k st.e2t = some n) : lookupA k (q.run f st).1.e2t = some n := by
  unfold Req.run resolveInline
  split
  · exact h
  · split
    · exact h
    · rw [commit_e2t]
      split
      · rename_i hr hv
        rw [hrx] at hr hv
        have := prepare_values f st q.c q.relaxedAnyOf _ q.ek k _ n h hr hv
        rw [lookupA_insertA]
        split
        · rename_i heq
          exact absurd (by simpa using heq) this
        · exact h
      · exact h

/-- what a use site remembers: its canonical form is recorded, or its enum key is registered -/
def Remembers (st : St) (c : Key) (ek : Option EKey) (n : Name) : Prop :=
  lookupA c st.s2t = some n ∨ (lookupA c st.s2t = none ∧ ∃ k, ek = some k ∧ lookupA k st.e2t = some n)

theorem resolve_remembers (f : NameFns) (st : St) (q : Req) :
    Remembers (q.run f st).1 q.c q.ekCheck (q.run f st).2 := by
  unfold Req.run resolveInline
  split
  · rename_i n h; exact Or.inl h
  · rename_i hnone
    split
    · rename_i n hg
      refine Or.inr ⟨hnone, ?_⟩
      cases hek : q.ekCheck with
      | none => simp [hek] at hg
      | some k => exact ⟨k, rfl, by simpa [hek, generated_eq] using hg⟩
    · refine Or.inl ?_
      simp [commit_s2t, lookupA_insertA]

theorem remembers_step (f : NameFns) (st : St) (q : Req) (c : Key) (ek : Option EKey) (n : Name)
    (hrx : q.relaxed = false) (hek : q.c = c → q.ekCheck = ek) (h : Remembers st c ek n) :
    Remembers (q.run f st).1 c ek n := by
  rcases h with h | ⟨hnone, k, hk, he⟩
  · exact Or.inl (resolve_keeps_s2t f st q c n h)
  · by_cases hc : q.c = c
    · -- same canonical form, same enum key: the generated-enum look-up answers, state unchanged
      have hq := hek hc
      have : (q.run f st).1 = st := by
        unfold Req.run resolveInline
        rw [hc, hnone, hq, hk]
        simp [generated_eq, he]
      rw [this]
      exact Or.inr ⟨hnone, k, hk, he⟩
    · exact Or.inr ⟨resolve_keeps_s2t_none f st q c hc hnone, k, hk, resolve_keeps_e2t f st q hrx k n he⟩

theorem remembers_run (f : NameFns) (mid : List Req) (st : St) (c : Key) (ek : Option EKey) (n : Name)
    (hmid : ∀ q ∈ mid, q.relaxed = false ∧ (q.c = c → q.ekCheck = ek)) (h : Remembers st c ek n) :
    Remembers (runInline f st mid) c ek n := by
  induction mid generalizing st with
  | nil => exact h
  | cons q r ih =>
    have hq := hmid q (List.mem_cons_self ..)
    exact ih _ (fun q' hq' => hmid q' (List.mem_cons_of_mem _ hq')) (remembers_step f st q c ek n hq.1 hq.2 h)

theorem remembers_answer (f : NameFns) (st : St) (q : Req) (n : Name) (h : Remembers st q.c q.ekCheck n) :
    (q.run f st).2 = n := by
  unfold Req.run resolveInline
  rcases h with h | ⟨hnone, k, hk, he⟩
  · simp [h]
  · simp [hnone, hk, generated_eq, he]

end Oas3.Cache
