/-
Helper lemmas for C04 (status dispatch). Core Lean only.
The models `Model/Status.lean`, `Model/Responses.lean` and the generated `Gen/Status.lean`
are NOT modified; everything here is a characterisation lemma about them.
-/
import Oas3Model.Proofs.StatusTables

namespace Oas3.Proofs.Status
open Oas3.Status Oas3.Resp Oas3.Gen.Status

set_option maxRecDepth 100000

/-! ### ASCII character facts -/

theorem isDigit_iff (c : Char) : c.isDigit = true ↔ 48 ≤ c.toNat ∧ c.toNat ≤ 57 := by
  simp [Char.isDigit, UInt32.le_iff_toNat_le]

theorem char_le_iff (a b : Char) : a ≤ b ↔ a.toNat ≤ b.toNat := by
  rw [Char.le_def, UInt32.le_iff_toNat_le]; rfl

theorem char_eq_ofNat (c : Char) (m : Nat) (h : c.toNat = m) : c = Char.ofNat m := by
  rw [← h, Char.ofNat_toNat]

/-! ### A. table facts -/

theorem exactRow_all (c : Nat) (h1 : 100 ≤ c) (h2 : c ≤ 599) : exactRow c = true := by
  by_cases h : c < 200; exact exactRow_1 c h h1
  by_cases h : c < 300; exact exactRow_2 c h (by omega)
  by_cases h : c < 400; exact exactRow_3 c h (by omega)
  by_cases h : c < 500; exact exactRow_4 c h (by omega)
  exact exactRow_5 c (by omega) (by omega)

/-- generic: a non-default token without range predicate tests `n == httpStatus tok`. -/
theorem cond_of_exact (t : Tok) (hd : isDefault t = false)
    (hc : ∀ nm, t = .named nm → lookup nm condTbl = none) (n : Nat) :
    Oas3.Status.cond t n = (n == httpStatus t) := by
  unfold Oas3.Status.cond
  rw [hd]
  cases t with
  | named nm => simp [hc nm rfl]
  | unknown c => simp

theorem fromStr_exact (c : Nat) (h1 : 100 ≤ c) (h2 : c ≤ 599) :
    code (fromStr (natChars c)) = some c ∧ isDefault (fromStr (natChars c)) = false ∧
    ∀ n, Oas3.Status.cond (fromStr (natChars c)) n = (n == c) := by
  have h := exactRow_all c h1 h2
  simp only [exactRow, Bool.and_eq_true, beq_iff_eq, Bool.not_eq_true'] at h
  obtain ⟨⟨⟨⟨⟨hcode, hdef⟩, hhttp⟩, hcond⟩, _⟩, _⟩ := h
  refine ⟨hcode, hdef, fun n => ?_⟩
  rw [cond_of_exact _ hdef ?_ n, hhttp]
  intro nm hnm
  rw [hnm] at hcond
  simpa using hcond

theorem exactKey_natChars_self (c : Nat) (h1 : 100 ≤ c) (h2 : c ≤ 599) : exactKey (natChars c) = some c := by
  have h := exactRow_all c h1 h2
  simp only [exactRow, Bool.and_eq_true, beq_iff_eq] at h
  exact h.1.2

theorem exact_status (t : List Char) (ht : t ∈ tokens) (c : Nat) (hc : code (.named t) = some c) :
    httpStatus (.named t) = c := by
  have h := namedRow_all t ht
  simp only [namedRow, hc, Bool.and_eq_true, beq_iff_eq] at h
  exact h.1.1

theorem exact_cond (t : List Char) (ht : t ∈ tokens) (c : Nat) (hc : code (.named t) = some c) (n : Nat) :
    Oas3.Status.cond (.named t) n = (n == c) := by
  have h := namedRow_all t ht
  simp only [namedRow, hc, Bool.and_eq_true, beq_iff_eq, Bool.not_eq_true', Option.isNone_iff_eq_none] at h
  rw [cond_of_exact _ h.1.2 ?_ n, h.1.1]
  intro nm hnm
  cases hnm
  exact h.2

/-! #### range tokens -/

theorem rangePred_predName (k : Nat) (h1 : 1 ≤ k) (h5 : k ≤ 5) (n : Nat) :
    rangePred (predName k) n = (decide (k * 100 ≤ n) && decide (n < (k + 1) * 100)) := by
  have e : ∀ i j, 1 ≤ i → i ≤ 5 → 1 ≤ j → j ≤ 5 → (predName i == predName j) = (i == j) := by
    intro i j hi1 hi5 hj1 hj5
    apply predName_ne 
    · simp only [List.mem_cons, List.not_mem_nil, or_false]; omega
    · simp only [List.mem_cons, List.not_mem_nil, or_false]; omega
  have p1 : predName 1 = "is_informational".toList := rfl
  have p2 : predName 2 = "is_success".toList := rfl
  have p3 : predName 3 = "is_redirection".toList := rfl
  have p4 : predName 4 = "is_client_error".toList := rfl
  have p5 : predName 5 = "is_server_error".toList := rfl
  have e1 := e k 1 h1 h5 (by omega) (by omega)
  have e2 := e k 2 h1 h5 (by omega) (by omega)
  have e3 := e k 3 h1 h5 (by omega) (by omega)
  have e4 := e k 4 h1 h5 (by omega) (by omega)
  have e5 := e k 5 h1 h5 (by omega) (by omega)
  rw [p1] at e1; rw [p2] at e2; rw [p3] at e3; rw [p4] at e4; rw [p5] at e5
  unfold rangePred
  rw [e1, e2, e3, e4, e5]
  have hk : k = 1 ∨ k = 2 ∨ k = 3 ∨ k = 4 ∨ k = 5 := by omega
  rcases hk with rfl | rfl | rfl | rfl | rfl <;> simp

theorem range_cond (k : Nat) (h1 : 1 ≤ k) (h5 : k ≤ 5) (x y : Char) (hx : x ∈ ['X', 'x']) (hy : y ∈ ['X', 'x']) :
    ∃ t ∈ tokens, fromStr [digitC k, x, y] = .named t ∧ code (.named t) = none ∧ isDefault (.named t) = false ∧
      fromStr [digitC k, x, y] = fromStr [digitC k, 'x', 'x'] ∧
      ∀ n, Oas3.Status.cond (.named t) n = (decide (k * 100 ≤ n) && decide (n < (k + 1) * 100)) := by
  have h := rangeRow_all k (by simp; omega) x hx y hy
  unfold rangeRow at h
  split at h
  · rename_i t ht
    simp only [Bool.and_eq_true, beq_iff_eq, Bool.not_eq_true', List.contains_iff_mem,
      Option.isNone_iff_eq_none] at h
    obtain ⟨⟨⟨⟨hmem, hcode⟩, hdef⟩, hcnd⟩, heq⟩ := h
    refine ⟨t, hmem, ht, hcode, hdef, ?_, fun n => ?_⟩
    · exact heq
    · unfold Oas3.Status.cond
      rw [hdef]
      simp only [Bool.false_eq_true, if_false, hcnd]
      exact rangePred_predName k h1 h5 n
  · simp at h

/-! #### variant names -/

theorem nodup_map_inj {α β} {f : α → β} {l : List α} (h : (l.map f).Nodup) {x y : α}
    (hx : x ∈ l) (hy : y ∈ l) (e : f x = f y) : x = y := by
  induction l with
  | nil => cases hx
  | cons a t ih =>
    simp only [List.map_cons, List.nodup_cons, List.mem_map, not_exists, not_and] at h
    rcases List.mem_cons.mp hx with rfl | hx' <;> rcases List.mem_cons.mp hy with rfl | hy'
    · rfl
    · exact absurd e.symm (h.1 y hy')
    · exact absurd e (h.1 x hx')
    · exact ih h.2 hx' hy'

theorem nodup_map_of_inj {α β} {f : α → β} {l : List α} (hl : l.Nodup)
    (hf : ∀ x ∈ l, ∀ y ∈ l, f x = f y → x = y) : (l.map f).Nodup := by
  induction l with
  | nil => exact List.nodup_nil
  | cons a t ih =>
    rw [List.nodup_cons] at hl
    simp only [List.map_cons, List.nodup_cons, List.mem_map, not_exists, not_and]
    refine ⟨fun y hy e => ?_, ih hl.2 (fun x hx y hy => hf x (List.mem_cons_of_mem _ hx) y (List.mem_cons_of_mem _ hy))⟩
    have := hf y (List.mem_cons_of_mem _ hy) a List.mem_cons_self e
    subst this
    exact hl.1 hy

theorem variant_names_distinct (t₁ t₂ : List Char) (h₁ : t₁ ∈ tokens) (h₂ : t₂ ∈ tokens)
    (d₁ : t₁ ≠ "Default".toList) (d₂ : t₂ ≠ "Default".toList) (hne : t₁ ≠ t₂) :
    variantName (.named t₁) ≠ variantName (.named t₂) := by
  intro h
  apply hne
  refine nodup_map_inj variantNames_nodup ?_ ?_ h
  · exact List.mem_filter.mpr ⟨h₁, by simpa using d₁⟩
  · exact List.mem_filter.mpr ⟨h₂, by simpa using d₂⟩

theorem variantName_unknown_ne_named (c : Nat) (t : List Char) (ht : t ∈ tokens) :
    variantName (.unknown c) ≠ variantName (.named t) := by
  intro h
  have h2 := variantName_no_Status_prefix t ht
  rw [← h] at h2
  simp [variantName] at h2

/-! #### shape of canonical keys -/

theorem exactKey_natChars {k : List Char} {c : Nat} (h : exactKey k = some c) :
    k = natChars c ∧ 100 ≤ c ∧ c ≤ 599 := by
  unfold exactKey at h
  split at h
  · rename_i a b d
    split at h
    · rename_i hc
      simp only [Bool.and_eq_true, isDigit_iff, decide_eq_true_eq, char_le_iff] at hc
      obtain ⟨⟨⟨⟨ha, hb⟩, hd⟩, ha1⟩, ha5⟩ := hc
      have ha1 : 49 ≤ a.toNat := ha1
      have ha5 : a.toNat ≤ 53 := ha5
      have ea := char_eq_ofNat a (49 + (a.toNat - 49)) (by omega)
      have eb := char_eq_ofNat b (48 + (b.toNat - 48)) (by omega)
      have ed := char_eq_ofNat d (48 + (d.toNat - 48)) (by omega)
      have key := three_digits (a.toNat - 49) (by omega) (b.toNat - 48) (by omega) (d.toNat - 48) (by omega)
      simp only [mk3] at key
      rw [← ea, ← eb, ← ed] at key
      simp only [Option.some.injEq] at h
      rw [h] at key
      exact key
    · simp at h
  · simp at h

theorem exactKey_inj {a b : List Char} {c : Nat} (ha : exactKey a = some c) (hb : exactKey b = some c) : a = b := by
  rw [(exactKey_natChars ha).1, (exactKey_natChars hb).1]

theorem rangeKey_shape {k : List Char} {j : Nat} (h : rangeKey k = some j) :
    1 ≤ j ∧ j ≤ 5 ∧ ∃ x y, x ∈ ['X', 'x'] ∧ y ∈ ['X', 'x'] ∧ k = [digitC j, x, y] := by
  unfold rangeKey at h
  split at h
  · rename_i a x y
    split at h
    · rename_i hc
      simp only [Bool.and_eq_true, Bool.or_eq_true, beq_iff_eq, decide_eq_true_eq, char_le_iff] at hc
      obtain ⟨⟨⟨ha1, ha5⟩, hx⟩, hy⟩ := hc
      have ha1 : 49 ≤ a.toNat := ha1
      have ha5 : a.toNat ≤ 53 := ha5
      simp only [Option.some.injEq] at h
      have h0 : '0'.toNat = 48 := rfl
      rw [h0] at h
      refine ⟨by omega, by omega, x, y, by simpa using hx, by simpa using hy, ?_⟩
      have ea := char_eq_ofNat a (48 + j) (by omega)
      rw [digitC, ← ea]
    · simp at h
  · simp at h

/-- tokens of canonical keys -/
theorem exactKey_tok {k : List Char} {c : Nat} (h : exactKey k = some c) :
    isDefault (fromStr k) = false ∧ ∀ n, Oas3.Status.cond (fromStr k) n = (n == c) := by
  obtain ⟨rfl, h1, h2⟩ := exactKey_natChars h
  exact (fromStr_exact c h1 h2).2

theorem rangeKey_tok {k : List Char} {j : Nat} (h : rangeKey k = some j) :
    isDefault (fromStr k) = false ∧ fromStr k = fromStr [digitC j, 'x', 'x'] ∧
    ∀ n, Oas3.Status.cond (fromStr k) n = (decide (j * 100 ≤ n) && decide (n < (j + 1) * 100)) := by
  obtain ⟨h1, h5, x, y, hx, hy, rfl⟩ := rangeKey_shape h
  obtain ⟨t, _, ht, _, hdef, heq, hcond⟩ := range_cond j h1 h5 x y hx hy
  rw [ht] at heq ⊢
  exact ⟨hdef, heq, hcond⟩

theorem rangeKey_tok_eq {a b : List Char} {j : Nat} (ha : rangeKey a = some j) (hb : rangeKey b = some j) :
    fromStr a = fromStr b := by
  rw [(rangeKey_tok ha).2.1, (rangeKey_tok hb).2.1]

/-! #### tokens of canonical keys are listed tokens or `Unknown(code)`; variant names are injective on them -/

theorem canonical_tok_shape {k : List Char} (h : canonicalKey k = true) :
    (∃ t ∈ tokens, fromStr k = .named t) ∨ (∃ c, fromStr k = .unknown c ∧ k = natChars c) := by
  simp only [canonicalKey, Bool.or_eq_true, Option.isSome_iff_exists, beq_iff_eq] at h
  rcases h with (⟨c, hc⟩ | ⟨j, hj⟩) | rfl
  · obtain ⟨rfl, h1, h2⟩ := exactKey_natChars hc
    have h := exactRow_all c h1 h2
    simp only [exactRow, Bool.and_eq_true] at h
    have h := h.2
    split at h
    · rename_i nm hnm
      exact Or.inl ⟨nm, by simpa using h, hnm⟩
    · rename_i c' hc'
      have : c' = c := by simpa using h
      subst this
      exact Or.inr ⟨c', hc', rfl⟩
  · obtain ⟨h1, h5, x, y, hx, hy, rfl⟩ := rangeKey_shape hj
    obtain ⟨t, ht, hf, _⟩ := range_cond j h1 h5 x y hx hy
    exact Or.inl ⟨t, ht, hf⟩
  · exact Or.inl ⟨_, default_mem_tokens, fromStr_default.1⟩

theorem variantName_inj_canonical {k₁ k₂ : List Char} (h₁ : canonicalKey k₁ = true) (h₂ : canonicalKey k₂ = true)
    (e : variantName (fromStr k₁) = variantName (fromStr k₂)) : fromStr k₁ = fromStr k₂ := by
  rcases canonical_tok_shape h₁ with ⟨t₁, m₁, e₁⟩ | ⟨c₁, e₁, rfl⟩ <;>
    rcases canonical_tok_shape h₂ with ⟨t₂, m₂, e₂⟩ | ⟨c₂, e₂, rfl⟩
  · rw [e₁, e₂] at e ⊢
    rw [nodup_map_inj variantNames_all_nodup m₁ m₂ e]
  · rw [e₁, e₂] at e
    exact absurd e.symm (variantName_unknown_ne_named c₂ t₁ m₁)
  · rw [e₁, e₂] at e
    exact absurd e (variantName_unknown_ne_named c₁ t₂ m₂)
  · rw [e₁, e₂] at e
    simp only [variantName] at e
    rw [List.append_cancel_left e]

/-! ### B. ordering of keys -/

theorem strLt_cons (x y : Char) (r s : List Char) :
    strLt (x :: r) (y :: s) = true ↔ x.toNat < y.toNat ∨ (x.toNat = y.toNat ∧ strLt r s = true) := by
  simp only [strLt]
  split
  · simp [*]
  · split
    · constructor
      · intro h; simp at h
      · intro h; omega
    · constructor
      · intro h; exact Or.inr ⟨by omega, h⟩
      · intro h; rcases h with h | h
        · omega
        · exact h.2

theorem exact_before_range (a b : List Char) (ha : (exactKey a).isSome) (hb : (rangeKey b).isSome)
    (hh : a.head? = b.head?) : strLt a b = true := by
  obtain ⟨c, hc⟩ := Option.isSome_iff_exists.mp ha
  obtain ⟨j, hj⟩ := Option.isSome_iff_exists.mp hb
  obtain ⟨_, _, x, y, hx, hy, rfl⟩ := rangeKey_shape hj
  unfold exactKey at hc
  split at hc
  · rename_i a1 a2 a3
    split at hc
    · rename_i hcnd
      simp only [Bool.and_eq_true, isDigit_iff, decide_eq_true_eq] at hcnd
      obtain ⟨⟨⟨⟨_, h2⟩, _⟩, _⟩, _⟩ := hcnd
      simp only [List.head?_cons, Option.some.injEq] at hh
      subst hh
      rw [strLt_cons]
      refine Or.inr ⟨rfl, ?_⟩
      rw [strLt_cons]
      left
      have : x.toNat = 88 ∨ x.toNat = 120 := by
        simp only [List.mem_cons, List.not_mem_nil, or_false] at hx
        rcases hx with rfl | rfl
        · left; rfl
        · right; rfl
      omega
    · simp at hc
  · simp at hc

end Oas3.Proofs.Status
