/-
C04: finite table facts, each checked by kernel evaluation (`decide +kernel`) over the tables REGENERATED
from the Rust sources (`Gen/Status.lean`). A changed row in a generated table breaks these proofs.
Kept in a separate module so that the (slow) kernel evaluations are cached by `lake`.
-/
import Oas3Model.Model.Responses

namespace Oas3.Proofs.Status
open Oas3.Status Oas3.Resp Oas3.Gen.Status

set_option maxRecDepth 100000

/-- the ASCII digit `d` (`d < 10`) as a character -/
def digitC (d : Nat) : Char := Char.ofNat (48 + d)

/-- one row check for an exact code `c`: `from_str(c.to_string())` has code `c`, is not the default,
its emitted http constant has value `c`, it has no range predicate, `c.to_string()` is a canonical
exact key, and the token is a listed named token or `Unknown(c)`. -/
def exactRow (c : Nat) : Bool :=
  let t := fromStr (natChars c)
  code t == some c && !isDefault t && httpStatus t == c &&
    (match t with | .named nm => (lookup nm condTbl).isNone | .unknown _ => true) &&
    exactKey (natChars c) == some c &&
    (match t with | .named nm => tokens.contains nm | .unknown c' => c' == c)

theorem exactRow_1 : ∀ c < 200, 100 ≤ c → exactRow c = true := by decide +kernel
theorem exactRow_2 : ∀ c < 300, 200 ≤ c → exactRow c = true := by decide +kernel
theorem exactRow_3 : ∀ c < 400, 300 ≤ c → exactRow c = true := by decide +kernel
theorem exactRow_4 : ∀ c < 500, 400 ≤ c → exactRow c = true := by decide +kernel
theorem exactRow_5 : ∀ c < 600, 500 ≤ c → exactRow c = true := by decide +kernel

/-- row check for a named token: when it has a numeric code, the emitted constant has that value,
the token is not the default and has no range predicate. -/
def namedRow (t : List Char) : Bool :=
  match code (.named t) with
  | some c => httpStatus (.named t) == c && !isDefault (.named t) && (lookup t condTbl).isNone
  | none => true

theorem namedRow_all : ∀ t ∈ tokens, namedRow t = true := by decide +kernel

theorem fromStr_asStr : ∀ t ∈ tokens, fromStr (asStr (.named t)) = .named t := by decide +kernel

theorem fromStr_default :
    fromStr "default".toList = .named "Default".toList ∧ isDefault (.named "Default".toList) = true := by
  decide +kernel

/-- name of the `http::StatusCode::is_*` predicate for hundred `k` -/
def predName (k : Nat) : List Char :=
  match k with
  | 1 => "is_informational".toList
  | 2 => "is_success".toList
  | 3 => "is_redirection".toList
  | 4 => "is_client_error".toList
  | _ => "is_server_error".toList

theorem predName_ne : ∀ i ∈ [1, 2, 3, 4, 5], ∀ j ∈ [1, 2, 3, 4, 5], (predName i == predName j) = (i == j) := by
  decide +kernel

/-- row check for the range key `kXX` (any case of the `X`s) -/
def rangeRow (k : Nat) (x y : Char) : Bool :=
  match fromStr [digitC k, x, y] with
  | .named t => tokens.contains t && (code (.named t)).isNone && !isDefault (.named t) &&
      lookup t condTbl == some (predName k) && fromStr [digitC k, x, y] == fromStr [digitC k, 'x', 'x']
  | .unknown _ => false

theorem rangeRow_all : ∀ k ∈ [1, 2, 3, 4, 5], ∀ x ∈ ['X', 'x'], ∀ y ∈ ['X', 'x'], rangeRow k x y = true := by
  decide +kernel

theorem variantNames_nodup :
    ((tokens.filter (fun t => t != "Default".toList)).map (fun t => variantName (.named t))).Nodup := by
  decide +kernel

theorem variantNames_all_nodup : (tokens.map (fun t => variantName (.named t))).Nodup := by
  decide +kernel

theorem default_mem_tokens : "Default".toList ∈ tokens := by decide +kernel

theorem variantName_default : variantName (.named "Default".toList) = "Unknown".toList := by decide +kernel

theorem variantName_no_Status_prefix :
    ∀ t ∈ tokens, ("Status".toList).isPrefixOf (variantName (.named t)) = false := by decide +kernel

/-- three ASCII digits -/
def mk3 (i j l : Nat) : List Char := [Char.ofNat (49 + i), Char.ofNat (48 + j), Char.ofNat (48 + l)]

/-- table fact about `Nat.repr` on three-digit numbers (500 instances) -/
theorem three_digits : ∀ i < 5, ∀ j < 10, ∀ l < 10,
    mk3 i j l = natChars (digitsVal (mk3 i j l)) ∧ 100 ≤ digitsVal (mk3 i j l) ∧ digitsVal (mk3 i j l) ≤ 599 := by
  decide +kernel

theorem defaultToks_eq : defaultToks = ["Default".toList] := by decide +kernel

theorem ise_value : (lookup "INTERNAL_SERVER_ERROR".toList httpConstValue).getD 0 = 500 := by decide +kernel

end Oas3.Proofs.Status
