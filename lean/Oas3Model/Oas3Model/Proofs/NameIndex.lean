import Oas3Model.Model.NameIndex
import Oas3Model.Proofs.Naming
/-! Lemmas about the pre-computed type names (`name_index.rs`). Core Lean only. -/
set_option linter.unusedSimpArgs false
set_option linter.unusedVariables false
namespace Oas3.NameIndex
open Oas3.Naming

/-! ### longest common suffix -/

theorem lcp_prefix_left : ∀ a b : List Char, lcp a b <+: a
  | [], _ => by simp [lcp]
  | _ :: _, [] => by simp [lcp]
  | x :: r, y :: s => by
    unfold lcp
    split
    · exact List.prefix_cons_inj x |>.mpr (lcp_prefix_left r s)
    · exact List.nil_prefix

theorem lcp_prefix_right : ∀ a b : List Char, lcp a b <+: b
  | [], _ => by simp [lcp]
  | _ :: _, [] => by simp [lcp]
  | x :: r, y :: s => by
    unfold lcp
    split
    · rename_i h; subst h
      exact List.prefix_cons_inj x |>.mpr (lcp_prefix_right r s)
    · exact List.nil_prefix

theorem lcp_greatest : ∀ (p a b : List Char), p <+: a → p <+: b → p <+: lcp a b
  | [], _, _, _, _ => List.nil_prefix
  | c :: p, [], _, h, _ => by simp at h
  | c :: p, _ :: _, [], _, h => by simp at h
  | c :: p, x :: r, y :: s, h1, h2 => by
    have e1 : c = x := by
      obtain ⟨t, ht⟩ := h1; simp at ht; exact ht.1
    have e2 : c = y := by
      obtain ⟨t, ht⟩ := h2; simp at ht; exact ht.1
    subst e1; subst e2
    have p1 : p <+: r := (List.prefix_cons_inj c).mp h1
    have p2 : p <+: s := (List.prefix_cons_inj c).mp h2
    simp only [lcp, if_true]
    exact (List.prefix_cons_inj c).mpr (lcp_greatest p r s p1 p2)

theorem foldl_lcp_prefix (rest : List Name) (a : List Char) :
    (rest.foldl (fun acc s => lcp acc s.reverse) a) <+: a ∧
    ∀ s ∈ rest, (rest.foldl (fun acc s => lcp acc s.reverse) a) <+: s.reverse := by
  induction rest generalizing a with
  | nil => exact ⟨List.prefix_refl _, by simp⟩
  | cons x r ih =>
    obtain ⟨h1, h2⟩ := ih (lcp a x.reverse)
    refine ⟨h1.trans (lcp_prefix_left _ _), ?_⟩
    intro s hs
    rcases List.mem_cons.mp hs with rfl | hs'
    · exact h1.trans (lcp_prefix_right _ _)
    · exact h2 s hs'

theorem foldl_lcp_greatest (rest : List Name) (a p : List Char) (hp : p <+: a) (hr : ∀ s ∈ rest, p <+: s.reverse) :
    p <+: rest.foldl (fun acc s => lcp acc s.reverse) a := by
  induction rest generalizing a with
  | nil => exact hp
  | cons x r ih =>
    exact ih (lcp a x.reverse) (lcp_greatest p a x.reverse hp (hr x (by simp))) (fun s hs => hr s (by simp [hs]))

/-- the result is a suffix of every candidate … -/
theorem lcs_is_suffix (l : List Name) : ∀ s ∈ l, longestCommonSuffix l <:+ s := by
  cases l with
  | nil => simp
  | cons f rest =>
    intro s hs
    obtain ⟨h1, h2⟩ := foldl_lcp_prefix rest f.reverse
    have key : (rest.foldl (fun acc s => lcp acc s.reverse) f.reverse) <+: s.reverse := by
      rcases List.mem_cons.mp hs with rfl | hs'
      · exact h1
      · exact h2 s hs'
    have := List.reverse_suffix.mpr key
    simpa [longestCommonSuffix] using this

/-- … and the longest such: every common suffix of the candidates is a suffix of it -/
theorem lcs_greatest (f : Name) (rest : List Name) (q : Name) (hq : ∀ s ∈ f :: rest, q <:+ s) :
    q <:+ longestCommonSuffix (f :: rest) := by
  have hp : q.reverse <+: f.reverse := List.reverse_prefix.mpr (hq f (by simp))
  have hr : ∀ s ∈ rest, q.reverse <+: s.reverse := fun s hs => List.reverse_prefix.mpr (hq s (by simp [hs]))
  have h := foldl_lcp_greatest rest f.reverse q.reverse hp hr
  have := List.reverse_suffix.mpr h
  simpa [longestCommonSuffix] using this

/-! ### the chosen name -/

theorem best_name_total (forbidden : List Name) (isUpper : Char → Bool) (cs : List (Name × Bool)) (used : List Name) :
    (computeBestName forbidden isUpper cs used).isSome = true := by
  unfold computeBestName
  split
  · rfl
  · split
    · rfl
    · exact ensureUnique_total_aux _ _
    · split <;> exact ensureUnique_total_aux _ _

/-- without a component-schema candidate the name is NEW: not among the names in use -/
theorem best_name_fresh (forbidden : List Name) (isUpper : Char → Bool) (cs : List (Name × Bool)) (used : List Name) (n : Name)
    (hs : fromSchema cs = false) (hne : cs ≠ []) (h : computeBestName forbidden isUpper cs used = some n) : n ∉ used := by
  unfold computeBestName at h
  have hf : cs.find? (fun c => c.2) = none := by
    rw [List.find?_eq_none]
    intro c hc
    have := (List.any_eq_false.mp hs) c hc
    simpa using this
  simp only [hf] at h
  split at h
  · rename_i hm
    have : cs = [] := by simpa using hm
    exact absurd this hne
  · exact ensureUnique_fresh_aux h
  · split at h <;> exact ensureUnique_fresh_aux h

/-- with one, it is that candidate's name (the first in set order), whatever is in use -/
theorem best_name_from_schema (forbidden : List Name) (isUpper : Char → Bool) (cs : List (Name × Bool)) (used : List Name)
    (c : Name × Bool) (hc : cs.find? (fun c => c.2) = some c) : computeBestName forbidden isUpper cs used = some c.1 := by
  simp [computeBestName, hc]

/-! ### the walk over all keys -/

/-- what `resolveNames` guarantees, key by key: a key WITHOUT component-schema candidate gets a name that is not in use
when its turn comes — `used` then holds the initial names and every name given out before -/
def FreshChain {K} : List Name → List (K × List (Name × Bool)) → List (K × Name) → Prop
  | _, [], [] => True
  | used, (k, cs) :: l, (k', n) :: out => k' = k ∧ (fromSchema cs = false → cs ≠ [] → n ∉ used) ∧ FreshChain (n :: used) l out
  | _, _, _ => False

theorem resolve_freshChain {K} (forbidden : List Name) (isUpper : Char → Bool) (l : List (K × List (Name × Bool)))
    (used : List Name) (out : List (K × Name)) (u' : List Name)
    (h : resolveNames forbidden isUpper l used = some (out, u')) : FreshChain used l out := by
  induction l generalizing used out u' with
  | nil => simp [resolveNames] at h; obtain ⟨rfl, _⟩ := h; trivial
  | cons p rest ih =>
    obtain ⟨k, cs⟩ := p
    unfold resolveNames at h
    split at h
    · simp at h
    · rename_i n hn
      split at h
      · simp at h
      · rename_i o u2 hr
        simp at h
        obtain ⟨rfl, rfl⟩ := h
        exact ⟨rfl, fun hs hne => best_name_fresh forbidden isUpper cs used n hs hne hn, ih _ _ _ hr⟩

theorem resolve_total {K} (forbidden : List Name) (isUpper : Char → Bool) (l : List (K × List (Name × Bool))) (used : List Name) :
    (resolveNames forbidden isUpper l used).isSome = true := by
  induction l generalizing used with
  | nil => rfl
  | cons p rest ih =>
    obtain ⟨k, cs⟩ := p
    unfold resolveNames
    have h1 := best_name_total forbidden isUpper cs used
    cases hb : computeBestName forbidden isUpper cs used with
    | none => simp [hb] at h1
    | some n =>
      simp only []
      have h2 := ih (n :: used)
      cases hr : resolveNames forbidden isUpper rest (n :: used) with
      | none => simp [hr] at h2
      | some q => obtain ⟨a, b⟩ := q; rfl

theorem freshChain_keys {K} : ∀ (used : List Name) (l : List (K × List (Name × Bool))) (out : List (K × Name)),
    FreshChain used l out → out.map (·.1) = l.map (·.1)
  | _, [], [], _ => rfl
  | _, [], _ :: _, h => by simp [FreshChain] at h
  | _, _ :: _, [], h => by simp [FreshChain] at h
  | used, (k, cs) :: l, (k', n) :: out, h => by
    obtain ⟨rfl, _, h3⟩ := h
    simp [freshChain_keys _ l out h3]

/-- when no key has a component-schema candidate (inline types only) the names given out are pairwise distinct and
distinct from every name that was in use before -/
theorem freshChain_nodup {K} : ∀ (used : List Name) (l : List (K × List (Name × Bool))) (out : List (K × Name)),
    FreshChain used l out → (∀ p ∈ l, fromSchema p.2 = false ∧ p.2 ≠ []) →
    (out.map (·.2)).Nodup ∧ ∀ n ∈ out.map (·.2), n ∉ used
  | _, [], [], _, _ => by simp
  | _, [], _ :: _, h, _ => by simp [FreshChain] at h
  | _, _ :: _, [], h, _ => by simp [FreshChain] at h
  | used, (k, cs) :: l, (k', n) :: out, h, hall => by
    obtain ⟨_, h2, h3⟩ := h
    have hk := hall (k, cs) (by simp)
    have hn : n ∉ used := h2 hk.1 hk.2
    obtain ⟨ih1, ih2⟩ := freshChain_nodup (n :: used) l out h3 (fun p hp => hall p (by simp [hp]))
    refine ⟨?_, ?_⟩
    · simp only [List.map_cons, List.nodup_cons]
      refine ⟨fun hm => ?_, ih1⟩
      exact (ih2 n hm) (by simp)
    · intro m hm
      simp only [List.map_cons, List.mem_cons] at hm
      rcases hm with rfl | hm
      · exact hn
      · exact fun hu => (ih2 m hm) (by simp [hu])

end Oas3.NameIndex
