/-
C11: the map built from an object's members does not depend on the order of the members
(`sortKeys` = "insert every pair into a BTreeMap, read it back in key order").
-/
import Oas3Model.Proofs.StatusDispatch

namespace Oas3.Proofs.Misc11
open Oas3.Resp Oas3.Proofs.Status

/-- two lists sorted by an irreflexive, asymmetric relation with the same members are equal -/
theorem sorted_ext {α} {R : α → α → Prop} (irr : ∀ a, ¬ R a a) (asym : ∀ a b, R a b → ¬ R b a) :
    ∀ (l₁ l₂ : List α), l₁.Pairwise R → l₂.Pairwise R → (∀ x, x ∈ l₁ ↔ x ∈ l₂) → l₁ = l₂
  | [], [], _, _, _ => rfl
  | [], b :: s, _, _, h => by
    have := (h b).mpr List.mem_cons_self
    cases this
  | a :: t, [], _, _, h => by
    have := (h a).mp List.mem_cons_self
    cases this
  | a :: t, b :: s, h1, h2, h => by
    have h1' := List.pairwise_cons.mp h1
    have h2' := List.pairwise_cons.mp h2
    have hab : a = b := by
      rcases List.mem_cons.mp ((h a).mp List.mem_cons_self) with e | ha
      · exact e
      · rcases List.mem_cons.mp ((h b).mpr List.mem_cons_self) with e | hb
        · exact e.symm
        · exact absurd (h1'.1 b hb) (asym _ _ (h2'.1 a ha))
    subst hab
    congr 1
    apply sorted_ext irr asym t s h1'.2 h2'.2
    intro x
    constructor
    · intro hx
      rcases List.mem_cons.mp ((h x).mp (List.mem_cons_of_mem _ hx)) with e | hx'
      · subst e; exact absurd (h1'.1 x hx) (irr x)
      · exact hx'
    · intro hx
      rcases List.mem_cons.mp ((h x).mpr (List.mem_cons_of_mem _ hx)) with e | hx'
      · subst e; exact absurd (h2'.1 x hx) (irr x)
      · exact hx'

/-- key-sorted lists with the same members are equal -/
theorem ksorted_ext {β} (l₁ l₂ : List (List Char × β)) (h1 : KSorted l₁) (h2 : KSorted l₂)
    (h : ∀ x, x ∈ l₁ ↔ x ∈ l₂) : l₁ = l₂ := by
  apply sorted_ext (R := fun (p q : List Char × β) => strLt p.1 q.1 = true) _ _ l₁ l₂ h1 h2 h
  · intro a; rw [strLt_irrefl]; simp
  · intro a b hab; rw [strLt_asymm hab]; simp

/-- the keys of a key-sorted list are pairwise distinct -/
theorem ksorted_keys_nodup {β} (l : List (List Char × β)) (h : KSorted l) : (l.map (·.1)).Nodup := by
  rw [List.Nodup, List.pairwise_map]
  refine List.Pairwise.imp ?_ h
  intro a b hab e
  rw [e, strLt_irrefl] at hab
  exact absurd hab (by simp)

theorem mem_sortKeys_iff {β} {l : List (List Char × β)} (hk : (l.map (·.1)).Nodup) (p : List Char × β) :
    p ∈ sortKeys l ↔ p ∈ l :=
  ⟨mem_of_mem_sortKeys, mem_sortKeys_of_mem hk⟩

theorem sortKeys_perm {β} (l₁ l₂ : List (List Char × β)) (hp : l₁.Perm l₂) (hk : (l₁.map (·.1)).Nodup) :
    sortKeys l₁ = sortKeys l₂ := by
  have hk2 : (l₂.map (·.1)).Nodup := (hp.map (·.1)).nodup_iff.mp hk
  apply ksorted_ext _ _ (sortKeys_sorted l₁) (sortKeys_sorted l₂)
  intro x
  rw [mem_sortKeys_iff hk, mem_sortKeys_iff hk2]
  exact hp.mem_iff

/-- a key-sorted list with distinct keys is a fixed point -/
theorem sortKeys_of_sorted {β} (l : List (List Char × β)) (h : KSorted l) : sortKeys l = l := by
  apply ksorted_ext _ _ (sortKeys_sorted l) h
  intro x
  exact mem_sortKeys_iff (ksorted_keys_nodup l h) x

/-- idempotence (holds for every input, duplicate keys included) -/
theorem sortKeys_idem {β} (l : List (List Char × β)) : sortKeys (sortKeys l) = sortKeys l :=
  sortKeys_of_sorted _ (sortKeys_sorted l)

/-- the result is a permutation of the members when the keys are distinct -/
theorem sortKeys_perm_self {β} (l : List (List Char × β)) (hk : (l.map (·.1)).Nodup) :
    (sortKeys l).Perm l := by
  have hnd : l.Nodup := nodup_of_nodup_map _ hk
  exact (List.perm_ext_iff_of_nodup (sortKeys_nodup l) hnd).mpr (fun x => mem_sortKeys_iff hk x)

end Oas3.Proofs.Misc11
