/-
C12: termination behaviour of the allOf-depth recursion (`compute_inheritance_depths::compute_depth`).
-/
import Oas3Model.Model.Depth
import Oas3Model.Model.Graph

namespace Oas3.Proofs.Depth
open Oas3.Depth
open Oas3.Graph (TC)

/-- the allOf-parent relation -/
def Par (g : List (Name × List Name)) (a b : Name) : Prop := b ∈ parents g a

theorem depth_succ (g : List (Name × List Name)) (f : Nat) (n : Name) :
    depth g (f + 1) n =
      if (parents g n).isEmpty then some 0
      else if ((parents g n).map (depth g f)).any Option.isNone then none
      else some ((((parents g n).map (depth g f)).filterMap id).foldl max 0 + 1) := rfl

theorem depth_mono (g : List (Name × List Name)) : ∀ (f : Nat) (n : Name) (d : Nat),
    depth g f n = some d → depth g (f + 1) n = some d := by
  intro f
  induction f with
  | zero => intro n d h; simp [depth] at h
  | succ f ih =>
    intro n d h
    rw [depth_succ] at h ⊢
    split at h
    · rename_i he; rw [if_pos he]; exact h
    · rename_i he
      rw [if_neg he]
      split at h
      · cases h
      · rename_i hany
        have hall : ∀ p ∈ parents g n, depth g (f + 1) p = depth g f p := by
          intro p hp
          cases hd : depth g f p with
          | none =>
            exfalso; apply hany
            rw [List.any_eq_true]
            exact ⟨none, List.mem_map.mpr ⟨p, hp, hd⟩, rfl⟩
          | some x => exact ih p x hd
        have hmap : (parents g n).map (depth g (f + 1)) = (parents g n).map (depth g f) :=
          List.map_congr_left hall
        rw [hmap, if_neg hany]
        exact h

theorem depth_mono' (g : List (Name × List Name)) {f f' : Nat} (hle : f ≤ f') (n : Name) (d : Nat)
    (h : depth g f n = some d) : depth g f' n = some d := by
  induction hle with
  | refl => exact h
  | step _ ih => exact depth_mono g _ n d ih

/-- `n` is, or can reach, a node lying on an allOf cycle -/
def ReachesCycle (g : List (Name × List Name)) (n : Name) : Prop :=
  ∃ m, (n = m ∨ TC (Par g) n m) ∧ TC (Par g) m m

theorem reachesCycle_parent {g : List (Name × List Name)} {n : Name} (h : ReachesCycle g n) :
    ∃ p ∈ parents g n, ReachesCycle g p := by
  obtain ⟨m, hnm, hc⟩ := h
  have key : ∀ a, TC (Par g) a m → ∃ p ∈ parents g a, ReachesCycle g p := by
    intro a ha
    cases ha with
    | base hr => exact ⟨m, hr, m, Or.inl rfl, hc⟩
    | step hr ht => exact ⟨_, hr, m, Or.inr ht, hc⟩
  rcases hnm with rfl | ht
  · exact key _ hc
  · exact key _ ht

theorem depth_reachesCycle_none (g : List (Name × List Name)) : ∀ (fuel : Nat) (n : Name),
    ReachesCycle g n → depth g fuel n = none := by
  intro fuel
  induction fuel with
  | zero => intro n _; rfl
  | succ f ih =>
    intro n h
    obtain ⟨p, hp, hpc⟩ := reachesCycle_parent h
    rw [depth_succ]
    have he : (parents g n).isEmpty = false := by
      cases hps : parents g n with
      | nil => rw [hps] at hp; cases hp
      | cons _ _ => rfl
    have hany : ((parents g n).map (depth g f)).any Option.isNone = true := by
      rw [List.any_eq_true]
      exact ⟨none, List.mem_map.mpr ⟨p, hp, ih p hpc⟩, rfl⟩
    rw [he, hany]
    rfl

/-- a node on an allOf cycle: no amount of fuel (stack) makes the recursion return -/
theorem depth_cyclic_none (g : List (Name × List Name)) (n : Name) (hc : TC (Par g) n n) (fuel : Nat) :
    depth g fuel n = none :=
  depth_reachesCycle_none g fuel n ⟨n, Or.inl rfl, hc⟩

theorem depth_some_of_rank_lt (g : List (Name × List Name)) (rank : Name → Nat)
    (hr : ∀ a b, b ∈ parents g a → rank b < rank a) :
    ∀ (k : Nat) (n : Name), rank n < k → (depth g k n).isSome = true := by
  intro k
  induction k with
  | zero => intro n h; omega
  | succ k ih =>
    intro n h
    rw [depth_succ]
    split
    · rfl
    · have hany : ((parents g n).map (depth g k)).any Option.isNone = false := by
        rw [Bool.eq_false_iff]
        intro ht
        rw [List.any_eq_true] at ht
        obtain ⟨o, ho, hn⟩ := ht
        obtain ⟨p, hp, rfl⟩ := List.mem_map.mp ho
        have := ih p (by have := hr n p hp; omega)
        rw [Option.isNone_iff_eq_none] at hn
        rw [hn] at this
        cases this
      rw [hany]
      rfl

/-- acyclic (ranked) allOf graph: the recursion returns, within `rank n + 1` nested calls -/
theorem depth_acyclic_some (g : List (Name × List Name)) (rank : Name → Nat)
    (hr : ∀ a b, b ∈ parents g a → rank b < rank a) (n : Name) :
    (depth g (rank n + 1) n).isSome = true :=
  depth_some_of_rank_lt g rank hr _ n (Nat.lt_succ_self _)

/-- a rank function excludes cycles (so the two hypotheses are exclusive) -/
theorem rank_no_cycle (g : List (Name × List Name)) (rank : Name → Nat)
    (hr : ∀ a b, b ∈ parents g a → rank b < rank a) : ∀ a b, TC (Par g) a b → rank b < rank a := by
  intro a b h
  induction h with
  | base h => exact hr _ _ h
  | step h _ ih => have := hr _ _ h; omega

/-- the returned value is the length of the longest parent chain: 0 for a root, else 1 + max over parents -/
theorem depth_value (g : List (Name × List Name)) (f : Nat) (n : Name) (d : Nat)
    (h : depth g (f + 1) n = some d) :
    (parents g n = [] ∧ d = 0) ∨
    (parents g n ≠ [] ∧ (∀ p ∈ parents g n, ∃ dp, depth g f p = some dp ∧ dp < d) ∧
      ∃ p ∈ parents g n, depth g f p = some (d - 1) ∧ 0 < d) := by
  rw [depth_succ] at h
  split at h
  · rename_i he
    left
    exact ⟨List.isEmpty_iff.mp he, by cases h; rfl⟩
  · rename_i he
    right
    have hne : parents g n ≠ [] := fun e => he (by rw [e]; rfl)
    refine ⟨hne, ?_⟩
    split at h
    · cases h
    · rename_i hany
      have hsome : ∀ p ∈ parents g n, ∃ dp, depth g f p = some dp := by
        intro p hp
        cases hd : depth g f p with
        | none =>
          exfalso; apply hany
          rw [List.any_eq_true]
          exact ⟨none, List.mem_map.mpr ⟨p, hp, hd⟩, rfl⟩
        | some x => exact ⟨x, rfl⟩
      simp only [Option.some.injEq] at h
      -- generic facts about `foldl max`
      have fold_ge : ∀ (l : List Nat) (a : Nat), a ≤ l.foldl max a ∧ ∀ x ∈ l, x ≤ l.foldl max a := by
        intro l
        induction l with
        | nil => intro a; exact ⟨Nat.le_refl _, fun x hx => by cases hx⟩
        | cons y t ih =>
          intro a
          have := ih (max a y)
          refine ⟨Nat.le_trans (Nat.le_max_left a y) this.1, ?_⟩
          intro x hx
          rcases List.mem_cons.mp hx with rfl | hx
          · exact Nat.le_trans (Nat.le_max_right a x) this.1
          · exact this.2 x hx
      have fold_mem : ∀ (l : List Nat) (a : Nat), l.foldl max a = a ∨ l.foldl max a ∈ l := by
        intro l
        induction l with
        | nil => intro a; exact Or.inl rfl
        | cons y t ih =>
          intro a
          rcases ih (max a y) with h | h
          · rw [List.foldl_cons, h]
            rcases Nat.le_total a y with hay | hay
            · right; rw [Nat.max_eq_right hay]; exact List.mem_cons_self
            · left; exact Nat.max_eq_left hay
          · right; exact List.mem_cons_of_mem _ h
      have hmemfm : ∀ x, x ∈ ((parents g n).map (depth g f)).filterMap id ↔
          ∃ p ∈ parents g n, depth g f p = some x := by
        intro x
        simp only [List.mem_filterMap, List.mem_map, id]
        constructor
        · rintro ⟨o, ⟨p, hp, rfl⟩, ho⟩; exact ⟨p, hp, ho⟩
        · rintro ⟨p, hp, ho⟩; exact ⟨_, ⟨p, hp, rfl⟩, ho⟩
      refine ⟨?_, ?_⟩
      · intro p hp
        obtain ⟨dp, hdp⟩ := hsome p hp
        refine ⟨dp, hdp, ?_⟩
        have := (fold_ge (((parents g n).map (depth g f)).filterMap id) 0).2 dp ((hmemfm dp).mpr ⟨p, hp, hdp⟩)
        omega
      · rcases fold_mem (((parents g n).map (depth g f)).filterMap id) 0 with h0 | hm
        · -- max is 0: any parent has depth 0
          cases hps : parents g n with
          | nil => exact absurd hps hne
          | cons p t =>
            have hp : p ∈ parents g n := by rw [hps]; exact List.mem_cons_self
            obtain ⟨dp, hdp⟩ := hsome p hp
            have := (fold_ge (((parents g n).map (depth g f)).filterMap id) 0).2 dp ((hmemfm dp).mpr ⟨p, hp, hdp⟩)
            rw [← hps]
            refine ⟨p, hp, ?_, by omega⟩
            rw [hdp]; congr 1; omega
        · obtain ⟨p, hp, hdp⟩ := (hmemfm _).mp hm
          refine ⟨p, hp, ?_, by omega⟩
          rw [hdp]; congr 1; omega

/-! ### completeness: on a finite graph, "no reachable cycle" is exactly "returns" -/

theorem tc_snoc {α : Type} {r : α → α → Prop} {a b c : α} (h : TC r a b) (hbc : r b c) : TC r a c := by
  induction h with
  | base h => exact .step h (.base hbc)
  | step h _ ih => exact .step h (ih hbc)

theorem tc_trans {α : Type} {r : α → α → Prop} {a b c : α} (h : TC r a b) (h2 : TC r b c) : TC r a c := by
  induction h with
  | base h => exact .step h h2
  | step h _ ih => exact .step h (ih h2)

theorem nodup_subset_length {α} [DecidableEq α] : ∀ (l k : List α), l.Nodup → (∀ x ∈ l, x ∈ k) →
    l.length ≤ k.length
  | [], _, _, _ => Nat.zero_le _
  | a :: t, k, hnd, hsub => by
    rw [List.nodup_cons] at hnd
    have hak : a ∈ k := hsub a List.mem_cons_self
    have hsub' : ∀ x ∈ t, x ∈ k.erase a := by
      intro x hx
      have hne : x ≠ a := fun e => hnd.1 (e ▸ hx)
      exact (List.mem_erase_of_ne hne).mpr (hsub x (List.mem_cons_of_mem _ hx))
    have := nodup_subset_length t (k.erase a) hnd.2 hsub'
    rw [List.length_erase_of_mem hak] at this
    have hpos : 0 < k.length := List.length_pos_of_mem hak
    rw [List.length_cons]
    omega

theorem mem_keys_of_parent {g : List (Name × List Name)} {n p : Name} (h : p ∈ parents g n) :
    n ∈ g.map (·.1) := by
  unfold parents at h
  split at h
  · rename_i q hq
    have hm := List.mem_of_find?_eq_some hq
    have he : q.1 = n := by simpa using List.find?_some hq
    exact List.mem_map.mpr ⟨q, hm, he⟩
  · cases h

theorem depth_none_parent {g : List (Name × List Name)} {f : Nat} {n : Name} (h : depth g (f + 1) n = none) :
    ∃ p ∈ parents g n, depth g f p = none := by
  rw [depth_succ] at h
  split at h
  · cases h
  · split at h
    · rename_i hany
      rw [List.any_eq_true] at hany
      obtain ⟨o, ho, hn⟩ := hany
      obtain ⟨p, hp, rfl⟩ := List.mem_map.mp ho
      exact ⟨p, hp, Option.isNone_iff_eq_none.mp hn⟩
    · cases h

theorem reachesCycle_of_parent {g : List (Name × List Name)} {n p : Name} (hp : p ∈ parents g n)
    (h : ReachesCycle g p) : ReachesCycle g n := by
  obtain ⟨m, hpm, hc⟩ := h
  refine ⟨m, Or.inr ?_, hc⟩
  rcases hpm with rfl | ht
  · exact .base hp
  · exact .step hp ht

/-- the pigeonhole step: a failing call of nesting depth `f`, entered with `seen` distinct ancestors on the
call stack, either meets a cycle or still fits into the (finite) set of schemas that have parents. -/
theorem depth_none_walk (g : List (Name × List Name)) : ∀ (f : Nat) (n : Name) (seen : List Name),
    depth g f n = none → seen.Nodup → (∀ s ∈ seen, s ∈ g.map (·.1) ∧ TC (Par g) s n) →
    ReachesCycle g n ∨ f + seen.length ≤ g.length := by
  intro f
  induction f with
  | zero =>
    intro n seen _ hnd hs
    right
    have := nodup_subset_length seen (g.map (·.1)) hnd (fun s h => (hs s h).1)
    rw [List.length_map] at this
    omega
  | succ f ih =>
    intro n seen h hnd hs
    obtain ⟨p, hp, hpn⟩ := depth_none_parent h
    by_cases hseen : n ∈ seen
    · exact Or.inl ⟨n, Or.inl rfl, (hs n hseen).2⟩
    · have := ih p (n :: seen) hpn (List.nodup_cons.mpr ⟨hseen, hnd⟩) (by
        intro s hs'
        rcases List.mem_cons.mp hs' with rfl | hs'
        · exact ⟨mem_keys_of_parent hp, .base hp⟩
        · exact ⟨(hs s hs').1, tc_snoc (hs s hs').2 hp⟩)
      rcases this with hc | hl
      · exact Or.inl (reachesCycle_of_parent hp hc)
      · right; rw [List.length_cons] at hl; omega

/-- no reachable allOf cycle: the recursion returns within `|g| + 1` nested calls -/
theorem depth_some_of_no_cycle (g : List (Name × List Name)) (n : Name) (h : ¬ ReachesCycle g n) :
    (depth g (g.length + 1) n).isSome = true := by
  cases hd : depth g (g.length + 1) n with
  | some _ => rfl
  | none =>
    rcases depth_none_walk g _ n [] hd List.nodup_nil (fun s hs => by cases hs) with hc | hl
    · exact absurd hc h
    · simp only [List.length_nil] at hl; omega

/-- characterisation of termination -/
theorem depth_terminates_iff (g : List (Name × List Name)) (n : Name) :
    (∃ f, (depth g f n).isSome = true) ↔ ¬ ReachesCycle g n := by
  constructor
  · rintro ⟨f, hf⟩ hc
    rw [depth_reachesCycle_none g f n hc] at hf
    cases hf
  · intro h
    exact ⟨_, depth_some_of_no_cycle g n h⟩

end Oas3.Proofs.Depth
