import Oas3Model.Proofs.Union
/-! The ENUM constructor of the codec model (C02): `build_enum_from_values` in merge mode on string values whose variant names do not collide. -/
namespace Oas3.Codec

def mkV (vname : J → Str) (s : Str) : Variant := ⟨vname (.str s), s, []⟩

theorem find_wire (vname : J → Str) (cs : List Str) (s : Str) (h : s ∈ cs) :
    ((cs.map (mkV vname)).find? (fun v => holds v s)).map (fun v => J.str v.wire) = some (.str s) := by
  induction cs with
  | nil => simp at h
  | cons c r ih =>
    by_cases hc : c = s
    · subst hc; simp [List.find?, holds, mkV]
    · have hr : s ∈ r := by
        rcases List.mem_cons.mp h with e | e
        · exact absurd e.symm hc
        · exact e
      have hb : (c == s) = false := by simpa using hc
      simp only [List.map, List.find?, holds, mkV, hb, List.contains_nil, Bool.or_false]
      exact ih hr

theorem find_wire_none (vname : J → Str) (cs : List Str) (s : Str) (h : s ∉ cs) :
    (cs.map (mkV vname)).find? (fun v => holds v s) = none := by
  induction cs with
  | nil => rfl
  | cons c r ih =>
    have hc : c ≠ s := fun e => h (by simp [e])
    have hb : (c == s) = false := by simpa using hc
    simp only [List.map, List.find?, holds, mkV, hb, List.contains_nil, Bool.or_false]
    exact ih (fun e => h (by simp [e]))

/-- without a name collision `build_enum_from_values` emits one variant per value, in order, renamed to the value, no alias -/
theorem buildEnum_distinct (vname : J → Str) : ∀ (xs : List Str) (acc : List Variant),
    (xs.map (fun s => vname (.str s))).Nodup → (∀ s ∈ xs, ∀ v ∈ acc, v.name ≠ vname (.str s)) →
    buildEnum vname (xs.map J.str) acc = acc ++ xs.map (mkV vname)
  | [], acc, _, _ => by simp [buildEnum]
  | x :: xs, acc, hn, hd => by
    have hno : acc.any (fun v => v.name == vname (.str x)) = false := by
      simp only [List.any_eq_false]
      intro v hv
      simpa using hd x (by simp) v hv
    simp only [List.map, buildEnum, wireOf, hno, Bool.false_eq_true, if_false]
    have hrec := buildEnum_distinct vname xs (acc ++ [⟨vname (.str x), x, []⟩]) ?_ ?_
    · rw [hrec]; simp [mkV]
    · exact (List.nodup_cons.mp hn).2
    · intro s hs v hv
      rcases List.mem_append.mp hv with hv | hv
      · exact hd s (by simp [hs]) v hv
      · simp at hv
        subst hv
        intro e
        exact (List.nodup_cons.mp hn).1 (by simp; exact ⟨s, hs, e.symm⟩)

@[simp] theorem scalarEq_str_str (a b : Str) : (J.str a).scalarEq (.str b) = (a == b) := rfl

theorem any_scalarEq_str (vals : List Str) (s : Str) : (vals.map J.str).any (fun v => v.scalarEq (.str s)) = decide (s ∈ vals) := by
  induction vals with
  | nil => simp
  | cons c r ih =>
    rw [List.map, List.any_cons, ih, scalarEq_str_str]
    by_cases h : c = s
    · subst h; simp
    · have hb : (c == s) = false := by simpa using h
      have : s ≠ c := fun e => h e.symm
      simp [hb, this]

/-- the ENUM constructor on string values whose variant names do not collide: the property holds on EVERY document (declared values
round-trip to themselves; undeclared strings and all other JSON types are refused) — for every naming function -/
theorem good_string_enum (fname : Str → Str) (vname : J → Str) (vals : List Str)
    (hn : (vals.map (fun s => vname (.str s))).Nodup) (doc : J) :
    judge (.enum (vals.map J.str)) (typeOf fname vname (.enum (vals.map J.str))) doc = true := by
  have hb : buildEnum vname (vals.map J.str) [] = vals.map (mkV vname) := by
    simpa using buildEnum_distinct vname vals [] hn (by simp)
  simp only [judge, typeOf, hb]
  cases doc with
  | str s =>
    by_cases hs : s ∈ vals
    · have hf := find_wire vname vals s hs
      have hv : valid false (.enum (vals.map J.str)) (.str s) = true := by simp only [valid, any_scalarEq_str]; simpa using hs
      have hv' : valid true (.enum (vals.map J.str)) (.str s) = true := by simp only [valid, any_scalarEq_str]; simpa using hs
      simp only [judgeRun, hv, hv', if_true, rt, hf, same, scalarEq_str_str, beq_self_eq_true, Bool.and_self]
    · have hf := find_wire_none vname vals s hs
      have hv : valid false (.enum (vals.map J.str)) (.str s) = false := by simp only [valid, any_scalarEq_str]; simpa using hs
      have hv' : valid true (.enum (vals.map J.str)) (.str s) = false := by simp only [valid, any_scalarEq_str]; simpa using hs
      simp [judgeRun, hv, hv', rt, hf]
  | null => simp [judgeRun, valid, rt, J.scalarEq]
  | bool b => simp [judgeRun, valid, rt, J.scalarEq]
  | num m e => simp [judgeRun, valid, rt, J.scalarEq]
  | arr xs => simp [judgeRun, valid, rt, J.scalarEq]
  | obj kvs => simp [judgeRun, valid, rt, J.scalarEq]

end Oas3.Codec
