/-
Helper lemmas for C09 (sanitiser legality). Core Lean + Std only.
The model `Oas3Model/Model/Naming.lean` is NOT modified; everything here is a characterisation lemma.
-/
import Oas3Model.Model.Naming
import Std.Data.String.ToNat

namespace Oas3.Naming

/-! ### ASCII character facts, reduced to `Nat` arithmetic on `Char.toNat` -/

theorem isUpper_iff (c : Char) : c.isUpper = true ↔ 65 ≤ c.toNat ∧ c.toNat ≤ 90 := by
  simp [Char.isUpper, UInt32.le_iff_toNat_le]
theorem isLower_iff (c : Char) : c.isLower = true ↔ 97 ≤ c.toNat ∧ c.toNat ≤ 122 := by
  simp [Char.isLower, UInt32.le_iff_toNat_le]
theorem isDigit_iff (c : Char) : c.isDigit = true ↔ 48 ≤ c.toNat ∧ c.toNat ≤ 57 := by
  simp [Char.isDigit, UInt32.le_iff_toNat_le]
theorem isAlphanum_iff (c : Char) : c.isAlphanum = true ↔
    (65 ≤ c.toNat ∧ c.toNat ≤ 90) ∨ (97 ≤ c.toNat ∧ c.toNat ≤ 122) ∨ (48 ≤ c.toNat ∧ c.toNat ≤ 57) := by
  simp only [Char.isAlphanum, Char.isAlpha, Bool.or_eq_true, isUpper_iff, isLower_iff, isDigit_iff]
  omega
theorem isAlpha_iff (c : Char) : c.isAlpha = true ↔
    (65 ≤ c.toNat ∧ c.toNat ≤ 90) ∨ (97 ≤ c.toNat ∧ c.toNat ≤ 122) := by
  simp only [Char.isAlpha, Bool.or_eq_true, isUpper_iff, isLower_iff]
theorem eq_und_iff (c : Char) : c = '_' ↔ c.toNat = 95 := by
  rw [← Char.toNat_inj]; rfl
theorem okc_iff (c : Char) : okc c = true ↔
    (65 ≤ c.toNat ∧ c.toNat ≤ 90) ∨ (97 ≤ c.toNat ∧ c.toNat ≤ 122) ∨ (48 ≤ c.toNat ∧ c.toNat ≤ 57)
      ∨ c.toNat = 95 := by
  simp only [okc, Bool.or_eq_true, isAlphanum_iff, beq_iff_eq, eq_und_iff]
  omega

theorem toLower_cases (c : Char) :
    (65 ≤ c.toNat ∧ c.toNat ≤ 90 ∧ c.toLower.toNat = c.toNat + 32) ∨
    (¬ (65 ≤ c.toNat ∧ c.toNat ≤ 90) ∧ c.toLower = c) := by
  unfold Char.toLower
  split
  · rename_i h
    simp [UInt32.le_iff_toNat_le] at h ⊢
    simp [h]
    omega
  · rename_i h
    simp [UInt32.le_iff_toNat_le] at h ⊢
    omega

theorem toUpper_cases (c : Char) :
    (97 ≤ c.toNat ∧ c.toNat ≤ 122 ∧ c.toUpper.toNat = c.toNat - 32) ∨
    (¬ (97 ≤ c.toNat ∧ c.toNat ≤ 122) ∧ c.toUpper = c) := by
  unfold Char.toUpper
  split
  · rename_i h
    simp [UInt32.le_iff_toNat_le] at h ⊢
    simp [h]
    omega
  · rename_i h
    simp [UInt32.le_iff_toNat_le] at h ⊢
    omega

/-- lowercase letter, digit or underscore -/
def lduc (c : Char) : Bool := c.isLower || c.isDigit || c == '_'
/-- uppercase letter, digit or underscore -/
def uduc (c : Char) : Bool := c.isUpper || c.isDigit || c == '_'

theorem lduc_iff (c : Char) : lduc c = true ↔
    (97 ≤ c.toNat ∧ c.toNat ≤ 122) ∨ (48 ≤ c.toNat ∧ c.toNat ≤ 57) ∨ c.toNat = 95 := by
  simp only [lduc, Bool.or_eq_true, isLower_iff, isDigit_iff, beq_iff_eq, eq_und_iff]
  omega
theorem uduc_iff (c : Char) : uduc c = true ↔
    (65 ≤ c.toNat ∧ c.toNat ≤ 90) ∨ (48 ≤ c.toNat ∧ c.toNat ≤ 57) ∨ c.toNat = 95 := by
  simp only [uduc, Bool.or_eq_true, isUpper_iff, isDigit_iff, beq_iff_eq, eq_und_iff]
  omega

theorem okc_of_alnum {c : Char} (h : c.isAlphanum = true) : okc c = true := by
  simp [okc, h]
theorem okc_und : okc '_' = true := by decide
theorem alnum_of_okc {c : Char} (h : okc c = true) (h' : c ≠ '_') : c.isAlphanum = true := by
  simpa [okc, h'] using h
theorem okc_of_lduc {c : Char} (h : lduc c = true) : okc c = true := by
  rw [lduc_iff] at h; rw [okc_iff]; omega
theorem okc_of_uduc {c : Char} (h : uduc c = true) : okc c = true := by
  rw [uduc_iff] at h; rw [okc_iff]; omega

theorem lduc_toLower {c : Char} (h : okc c = true) : lduc c.toLower = true := by
  rw [okc_iff] at h; rw [lduc_iff]
  rcases toLower_cases c with h1 | h1
  · omega
  · rw [h1.2]; omega
theorem uduc_toUpper {c : Char} (h : okc c = true) : uduc c.toUpper = true := by
  rw [okc_iff] at h; rw [uduc_iff]
  rcases toUpper_cases c with h1 | h1
  · omega
  · rw [h1.2]; omega

theorem toLower_alnum {c : Char} (h : c.isAlphanum = true) :
    c.toLower.isLower = true ∨ c.toLower.isDigit = true := by
  rw [isAlphanum_iff] at h; rw [isLower_iff, isDigit_iff]
  rcases toLower_cases c with h1 | h1
  · omega
  · rw [h1.2]; omega
theorem toUpper_alnum {c : Char} (h : c.isAlphanum = true) :
    c.toUpper.isUpper = true ∨ c.toUpper.isDigit = true := by
  rw [isAlphanum_iff] at h; rw [isUpper_iff, isDigit_iff]
  rcases toUpper_cases c with h1 | h1
  · omega
  · rw [h1.2]; omega
theorem alnum_toLower {c : Char} (h : c.isAlphanum = true) : c.toLower.isAlphanum = true := by
  rw [isAlphanum_iff] at h ⊢
  rcases toLower_cases c with h1 | h1
  · omega
  · rw [h1.2]; omega
theorem alnum_toUpper {c : Char} (h : c.isAlphanum = true) : c.toUpper.isAlphanum = true := by
  rw [isAlphanum_iff] at h ⊢
  rcases toUpper_cases c with h1 | h1
  · omega
  · rw [h1.2]; omega

theorem swapSep_okc {c : Char} (h : okc c = true) : swapSep '_' c = c := by
  unfold swapSep isSep
  split
  · rename_i h1
    simp only [Bool.or_eq_true, beq_iff_eq] at h1
    rcases h1 with (h1 | h1) | h1
    · subst h1; exact absurd h (by decide)
    · subst h1; exact absurd h (by decide)
    · exact h1.symm
  · rfl

theorem not_lower_of_uduc {c : Char} (h : uduc c = true) : c.isLower = false := by
  rw [uduc_iff] at h
  rw [Bool.eq_false_iff, Ne, isLower_iff]; omega
theorem alpha_of_upper {c : Char} (h : c.isUpper = true) : c.isAlpha = true := by
  simp [Char.isAlpha, h]
theorem alpha_of_lower {c : Char} (h : c.isLower = true) : c.isAlpha = true := by
  simp [Char.isAlpha, h]
theorem alnum_of_upper {c : Char} (h : c.isUpper = true) : c.isAlphanum = true := by
  simp [Char.isAlphanum, Char.isAlpha, h]
theorem alnum_of_digit {c : Char} (h : c.isDigit = true) : c.isAlphanum = true := by
  simp [Char.isAlphanum, h]
theorem not_digit_of_upper {c : Char} (h : c.isUpper = true) : c.isDigit = false := by
  rw [isUpper_iff] at h
  rw [Bool.eq_false_iff, Ne, isDigit_iff]; omega

/-! ### `sanitize` -/

theorem collapse_okc (p : Bool) (s : List Char) : ∀ c ∈ collapse p s, okc c = true := by
  fun_induction collapse p s with
  | case1 => simp
  | case2 pend c cs h ih => 
    intro x hx
    rcases List.mem_cons.1 hx with rfl | hx
    · exact okc_of_alnum h
    · exact ih x hx
  | case3 c cs h ih => exact ih
  | case4 pend c cs h hp ih =>
    intro x hx
    rcases List.mem_cons.1 hx with rfl | hx
    · exact okc_und
    · exact ih x hx

theorem dropUnd_suffix (s : List Char) : dropUnd s <:+ s := by
  fun_induction dropUnd s with
  | case1 cs ih => exact List.IsSuffix.trans ih (List.suffix_cons _ _)
  | case2 cs h => exact List.suffix_refl _

theorem dropUnd_head (s : List Char) : (dropUnd s).head? ≠ some '_' := by
  fun_induction dropUnd s with
  | case1 cs ih => exact ih
  | case2 cs h => 
    intro h'
    cases cs with
    | nil => simp at h'
    | cons c cs => 
      simp at h'
      subst h'
      exact h cs rfl

theorem dropUnd_getLast (s : List Char) :
    (dropUnd s).getLast? = none ∨ (dropUnd s).getLast? = s.getLast? := by
  obtain ⟨pre, hpre⟩ := dropUnd_suffix s
  by_cases h : dropUnd s = []
  · left; simp [h]
  · right
    conv => rhs; rw [← hpre]
    rw [List.getLast?_append]
    cases hd : (dropUnd s).getLast? with
    | none => exact absurd (List.getLast?_eq_none_iff.1 hd) h
    | some x => rfl

theorem trimUnd_subset (s : List Char) : ∀ c ∈ trimUnd s, c ∈ s := by
  intro c hc
  unfold trimUnd at hc
  rw [List.mem_reverse] at hc
  have h1 := (dropUnd_suffix (dropUnd s).reverse).subset hc
  rw [List.mem_reverse] at h1
  exact (dropUnd_suffix s).subset h1

theorem trimUnd_head (s : List Char) : (trimUnd s).head? ≠ some '_' := by
  unfold trimUnd
  rw [List.head?_reverse]
  rcases dropUnd_getLast (dropUnd s).reverse with h | h
  · rw [h]; simp
  · rw [h, List.getLast?_reverse]; exact dropUnd_head s

theorem trimUnd_getLast (s : List Char) : (trimUnd s).getLast? ≠ some '_' := by
  unfold trimUnd
  rw [List.getLast?_reverse]
  exact dropUnd_head _

theorem sanitize_okc (tr : Tr) (s : List Char) : ∀ c ∈ sanitize tr s, okc c = true := by
  intro c hc
  unfold sanitize at hc
  split at hc
  · simp at hc
  · exact collapse_okc _ _ c (trimUnd_subset _ c hc)

theorem sanitize_head (tr : Tr) (s : List Char) : (sanitize tr s).head? ≠ some '_' := by
  unfold sanitize
  split
  · simp
  · exact trimUnd_head _

theorem sanitize_getLast (tr : Tr) (s : List Char) : (sanitize tr s).getLast? ≠ some '_' := by
  unfold sanitize
  split
  · simp
  · exact trimUnd_getLast _

/-- a non-empty sanitised string starts with an ASCII letter or digit -/
theorem sanitize_cons {tr : Tr} {s : List Char} {c : Char} {cs : List Char}
    (h : sanitize tr s = c :: cs) : c.isAlphanum = true ∧ ∀ x ∈ cs, okc x = true := by
  have h1 := sanitize_okc tr s
  have h2 := sanitize_head tr s
  rw [h] at h1 h2
  refine ⟨alnum_of_okc (h1 c (by simp)) ?_, fun x hx => h1 x (by simp [hx])⟩
  rintro rfl; simp at h2

/-! ### `breakCamel`, `toSnake`, `toConstant` -/

theorem breakCamel_mem (sep : Char) (s : List Char) : ∀ x ∈ breakCamel sep s, x = sep ∨ x ∈ s := by
  fun_induction breakCamel sep s with
  | case1 => simp
  | case2 c => intro x hx; exact Or.inr hx
  | case3 c d cs h ih =>
    intro x hx
    simp only [List.mem_cons] at hx ih ⊢
    rcases hx with rfl | rfl | hx
    · simp
    · simp
    · rcases ih x hx with h | h <;> simp [h]
  | case4 c d cs h ih =>
    intro x hx
    simp only [List.mem_cons] at hx ih ⊢
    rcases hx with rfl | hx
    · simp
    · rcases ih x hx with h | h <;> simp [h]

theorem breakCamel_cons (sep c : Char) (cs : List Char) :
    ∃ t, breakCamel sep (c :: cs) = c :: t := by
  cases cs with
  | nil => exact ⟨[], rfl⟩
  | cons d cs =>
    unfold breakCamel
    split <;> exact ⟨_, rfl⟩

theorem map_swapSep_okc {s : List Char} (h : ∀ c ∈ s, okc c = true) : s.map (swapSep '_') = s := by
  conv => rhs; rw [← List.map_id s]
  exact List.map_congr_left fun c hc => swapSep_okc (h c hc)

theorem toSnake_lduc (s : List Char) (h : ∀ c ∈ s, okc c = true) : ∀ c ∈ toSnake s, lduc c = true := by
  intro c hc
  unfold toSnake at hc
  rw [map_swapSep_okc h, List.mem_map] at hc
  obtain ⟨x, hx, rfl⟩ := hc
  apply lduc_toLower
  rcases breakCamel_mem _ _ x hx with rfl | hx
  · exact okc_und
  · exact h x hx

theorem toConstant_uduc (s : List Char) (h : ∀ c ∈ s, okc c = true) :
    ∀ c ∈ toConstant s, uduc c = true := by
  intro c hc
  unfold toConstant at hc
  rw [map_swapSep_okc h, List.mem_map] at hc
  obtain ⟨x, hx, rfl⟩ := hc
  apply uduc_toUpper
  rcases breakCamel_mem _ _ x hx with rfl | hx
  · exact okc_und
  · exact h x hx

theorem toSnake_nil : toSnake [] = [] := rfl
theorem toConstant_nil : toConstant [] = [] := rfl

theorem toSnake_cons {c : Char} {cs : List Char} (h : ∀ x ∈ c :: cs, okc x = true) :
    ∃ t, toSnake (c :: cs) = c.toLower :: t := by
  unfold toSnake
  rw [map_swapSep_okc h]
  obtain ⟨t, ht⟩ := breakCamel_cons '_' c cs
  exact ⟨t.map Char.toLower, by rw [ht]; rfl⟩

theorem toConstant_cons {c : Char} {cs : List Char} (h : ∀ x ∈ c :: cs, okc x = true) :
    ∃ t, toConstant (c :: cs) = c.toUpper :: t := by
  unfold toConstant
  rw [map_swapSep_okc h]
  obtain ⟨t, ht⟩ := breakCamel_cons '_' c cs
  exact ⟨t.map Char.toUpper, by rw [ht]; rfl⟩

/-- shape of a snake-case identifier: lowercase letter or digit first, then `[a-z0-9_]*` -/
def SnakeId (l : List Char) : Prop :=
  ∃ c cs, l = c :: cs ∧ (c.isLower = true ∨ c.isDigit = true) ∧ ∀ x ∈ cs, lduc x = true

/-- shape of a constant-case identifier -/
def ConstId (l : List Char) : Prop :=
  ∃ c cs, l = c :: cs ∧ (c.isUpper = true ∨ c.isDigit = true) ∧ ∀ x ∈ cs, uduc x = true

theorem snake_sanitize (tr : Tr) (s : List Char) :
    toSnake (sanitize tr s) = [] ∨ SnakeId (toSnake (sanitize tr s)) := by
  cases hs : sanitize tr s with
  | nil => left; rfl
  | cons c cs =>
    right
    have hok := sanitize_okc tr s
    rw [hs] at hok
    obtain ⟨hc, _⟩ := sanitize_cons hs
    obtain ⟨t, ht⟩ := toSnake_cons hok
    refine ⟨c.toLower, t, ht, toLower_alnum hc, fun x hx => ?_⟩
    exact toSnake_lduc _ hok x (by rw [ht]; simp [hx])

theorem constant_sanitize (tr : Tr) (s : List Char) :
    sanitize tr s = [] ∨ ConstId (toConstant (sanitize tr s)) := by
  cases hs : sanitize tr s with
  | nil => left; rfl
  | cons c cs =>
    right
    have hok := sanitize_okc tr s
    rw [hs] at hok
    obtain ⟨hc, _⟩ := sanitize_cons hs
    obtain ⟨t, ht⟩ := toConstant_cons hok
    refine ⟨c.toUpper, t, ht, toUpper_alnum hc, fun x hx => ?_⟩
    exact toConstant_uduc _ hok x (by rw [ht]; simp [hx])

/-! ### the legality judge -/

theorem legal_not_raw {pos : Pos} {id : List Char} (h : ∀ rest, id ≠ 'r' :: '#' :: rest) :
    legal pos id = (identShape id && id != ['_'] && !rustKeywords.contains id &&
         (pos != .type || !shadowed.contains id)) := by
  unfold legal
  split
  · exact absurd rfl (h _)
  · rfl

theorem legal_raw {pos : Pos} {rest : List Char} :
    legal pos ('r' :: '#' :: rest) = (identShape rest && !cannotBeRaw.contains rest) := rfl

theorem not_okc_hash : okc '#' = false := by decide

/-- a string over `[A-Za-z0-9_]` is never of the form `r#…` -/
theorem not_raw_of_okc {id : List Char} (h : ∀ x ∈ id, okc x = true) :
    ∀ rest, id ≠ 'r' :: '#' :: rest := by
  rintro rest rfl
  have := h '#' (by simp)
  simp [not_okc_hash] at this

theorem snakeId_okc {l : List Char} (h : SnakeId l) : ∀ x ∈ l, okc x = true := by
  obtain ⟨c, cs, rfl, hc, hcs⟩ := h
  intro x hx
  rcases List.mem_cons.1 hx with rfl | hx
  · rcases hc with hc | hc
    · exact okc_of_alnum (by simp [Char.isAlphanum, Char.isAlpha, hc])
    · exact okc_of_alnum (alnum_of_digit hc)
  · exact okc_of_lduc (hcs x hx)

theorem snakeId_lduc {l : List Char} (h : SnakeId l) : ∀ x ∈ l, lduc x = true := by
  obtain ⟨c, cs, rfl, hc, hcs⟩ := h
  intro x hx
  rcases List.mem_cons.1 hx with rfl | hx
  · rcases hc with hc | hc <;> simp [lduc, hc]
  · exact hcs x hx

theorem snakeId_negative {l : List Char} (h : SnakeId l) : SnakeId ("negative_".toList ++ l) := by
  refine ⟨'n', "egative_".toList ++ l, rfl, Or.inl (by decide), ?_⟩
  intro x hx
  rcases List.mem_append.1 hx with hx | hx
  · exact (by decide : ∀ x ∈ "egative_".toList, lduc x = true) x hx
  · exact snakeId_lduc h x hx

theorem legal_intro {pos : Pos} {id : List Char} (hraw : ∀ rest, id ≠ 'r' :: '#' :: rest)
    (hshape : identShape id = true) (hne : id ≠ ['_']) (hkw : id ∉ rustKeywords)
    (hpos : pos = .type → id ∉ shadowed) : legal pos id = true := by
  rw [legal_not_raw hraw]
  have h1 : rustKeywords.contains id = false := by
    rw [Bool.eq_false_iff, Ne, List.contains_iff_mem]; exact hkw
  have h2 : (pos != Pos.type || !shadowed.contains id) = true := by
    cases pos
    · rfl
    · have : shadowed.contains id = false := by
        rw [Bool.eq_false_iff, Ne, List.contains_iff_mem]; exact hpos rfl
      rw [this]; rfl
    · rfl
  have h3 : (id != ['_']) = true := by simpa using hne
  rw [hshape, h1, h2, h3]; rfl

theorem identShape_cons {c : Char} {cs : List Char} (hc : c.isAlpha = true ∨ c = '_')
    (hcs : ∀ x ∈ cs, okc x = true) : identShape (c :: cs) = true := by
  unfold identShape
  rw [Bool.and_eq_true, Bool.or_eq_true, beq_iff_eq, List.all_eq_true]
  exact ⟨hc, hcs⟩

theorem kw_head_und : ∀ k ∈ rustKeywords, k.head? ≠ some '_' := by decide

theorem mem_cannotBeRaw {k : List Char} (h : k ∈ cannotBeRaw) :
    k = "crate".toList ∨ k = "self".toList ∨ k = "super".toList ∨ k = "Self".toList ∨ k = ['_'] := by
  simpa [cannotBeRaw] using h

theorem not_snakeId_Self : ¬ SnakeId "Self".toList := by
  rintro ⟨c, cs, heq, hc, _⟩
  simp at heq
  obtain ⟨rfl, _⟩ := heq
  revert hc; decide

theorem not_snakeId_und : ¬ SnakeId ['_'] := by
  rintro ⟨c, cs, heq, hc, _⟩
  simp at heq
  obtain ⟨rfl, _⟩ := heq
  revert hc; decide

theorem prefixIfDigit_cons (p c : Char) (cs : List Char) :
    prefixIfDigit p (c :: cs) = if c.isDigit then p :: c :: cs else c :: cs := rfl

/-- everything after the `is_empty` test in `to_rust_field_name` -/
theorem field_tail (F : List (List Char)) (hcov : ∀ k ∈ rustKeywords, k ∈ F)
    (hshape : ∀ k ∈ F, identShape k = true) (id : List Char) (h : SnakeId id) :
    let r := if id == "self".toList || id == "crate".toList || id == "super".toList then id ++ ['_']
      else if F.contains id then 'r' :: '#' :: id else prefixIfDigit '_' id
    legal .field r = true := by
  intro r
  by_cases h1 : id = "self".toList ∨ id = "crate".toList ∨ id = "super".toList
  · have hc : (id == "self".toList || id == "crate".toList || id == "super".toList) = true := by
      rcases h1 with h1 | h1 | h1 <;> simp [h1]
    have hr : r = id ++ ['_'] := by simp only [r, hc, if_true]
    rw [hr]
    rcases h1 with h1 | h1 | h1 <;> rw [h1] <;> decide
  · have hs : id ≠ "self".toList := fun e => h1 (Or.inl e)
    have hcr : id ≠ "crate".toList := fun e => h1 (Or.inr (Or.inl e))
    have hsu : id ≠ "super".toList := fun e => h1 (Or.inr (Or.inr e))
    have hc : (id == "self".toList || id == "crate".toList || id == "super".toList) = false := by
      simp only [Bool.or_eq_false_iff, beq_eq_false_iff_ne]
      exact ⟨⟨hs, hcr⟩, hsu⟩
    by_cases h2 : id ∈ F
    · have hr : r = 'r' :: '#' :: id := by
        simp only [r, hc, Bool.false_eq_true, if_false, List.contains_iff_mem.2 h2, if_true]
      rw [hr]
      have h3 : id ∉ cannotBeRaw := by
        intro h3
        rcases mem_cannotBeRaw h3 with h3 | h3 | h3 | h3 | h3
        · exact hcr h3
        · exact hs h3
        · exact hsu h3
        · exact absurd (h3 ▸ h) not_snakeId_Self
        · exact absurd (h3 ▸ h) not_snakeId_und
      rw [legal_raw, hshape id h2]
      have : cannotBeRaw.contains id = false := by
        rw [Bool.eq_false_iff, Ne, List.contains_iff_mem]; exact h3
      rw [this]; rfl
    · have hcF : F.contains id = false := by
        rw [Bool.eq_false_iff, Ne, List.contains_iff_mem]; exact h2
      have hr : r = prefixIfDigit '_' id := by
        simp only [r, hc, Bool.false_eq_true, if_false, hcF]
      rw [hr]
      have hkw : id ∉ rustKeywords := fun hk => h2 (hcov id hk)
      have hok := snakeId_okc h
      obtain ⟨c, cs, rfl, hc', hcs⟩ := h
      rw [prefixIfDigit_cons]
      split
      · apply legal_intro
        · apply not_raw_of_okc
          intro x hx
          rcases List.mem_cons.1 hx with rfl | hx
          · exact okc_und
          · exact hok x hx
        · exact identShape_cons (Or.inr rfl) hok
        · simp
        · intro hk; exact kw_head_und _ hk rfl
        · intro hp; cases hp
      · rename_i hd
        have hl : c.isLower = true := by
          rcases hc' with hc' | hc'
          · exact hc'
          · exact absurd hc' hd
        apply legal_intro
        · exact not_raw_of_okc hok
        · exact identShape_cons (Or.inl (alpha_of_lower hl)) fun x hx => okc_of_lduc (hcs x hx)
        · intro he
          simp at he
          obtain ⟨rfl, _⟩ := he
          revert hl; decide
        · exact hkw
        · intro hp; cases hp

theorem stripMinus_eq (s : List Char) : stripMinus s = ((stripMinus s).1, (stripMinus s).2) := rfl

theorem field_legal_aux (F : List (List Char)) (hcov : ∀ k ∈ rustKeywords, k ∈ F)
    (hshape : ∀ k ∈ F, identShape k = true) (tr : Tr) (s : List Char) :
    legal .field (toRustFieldName F tr s) = true ∨ toRustFieldName F tr s = ['_'] ∨
    rawPassthrough s = true := by
  by_cases hraw : rawPassthrough s = true
  · exact Or.inr (Or.inr hraw)
  · unfold toRustFieldName
    rw [if_neg hraw]
    cases hsm : stripMinus s with
    | mk neg nm =>
      simp only []
      rcases snake_sanitize tr nm with h0 | hsn
      · right; left
        rw [h0]; rfl
      · have hne : (toSnake (sanitize tr nm)).isEmpty = false := by
          obtain ⟨c, cs, heq, _⟩ := hsn
          rw [heq]; rfl
        rw [hne]
        simp only [Bool.false_eq_true, if_false]
        have hid : SnakeId (if neg = true then "negative_".toList ++ toSnake (sanitize tr nm)
            else toSnake (sanitize tr nm)) := by
          split
          · exact snakeId_negative hsn
          · exact hsn
        exact Or.inl (field_tail F hcov hshape _ hid)

/-! ### constant names -/

theorem kw_has_lower : ∀ k ∈ rustKeywords, k.any Char.isLower = true := by decide

theorem constId_uduc {l : List Char} (h : ConstId l) : ∀ x ∈ l, uduc x = true := by
  obtain ⟨c, cs, rfl, hc, hcs⟩ := h
  intro x hx
  rcases List.mem_cons.1 hx with rfl | hx
  · rcases hc with hc | hc <;> simp [uduc, hc]
  · exact hcs x hx

theorem constId_not_kw {l : List Char} (h : ConstId l) : l ∉ rustKeywords := by
  intro hk
  have := kw_has_lower l hk
  rw [List.any_eq_true] at this
  obtain ⟨x, hx, hl⟩ := this
  rw [not_lower_of_uduc (constId_uduc h x hx)] at hl
  cases hl

theorem const_tail (id : List Char) (h : ConstId id) : legal .const (prefixIfDigit '_' id) = true := by
  have hkw := constId_not_kw h
  have hok : ∀ x ∈ id, okc x = true := fun x hx => okc_of_uduc (constId_uduc h x hx)
  obtain ⟨c, cs, rfl, hc, hcs⟩ := h
  rw [prefixIfDigit_cons]
  split
  · apply legal_intro
    · apply not_raw_of_okc
      intro x hx
      rcases List.mem_cons.1 hx with rfl | hx
      · exact okc_und
      · exact hok x hx
    · exact identShape_cons (Or.inr rfl) hok
    · simp
    · intro hk; exact kw_head_und _ hk rfl
    · intro hp; cases hp
  · rename_i hd
    have hu : c.isUpper = true := by
      rcases hc with hc | hc
      · exact hc
      · exact absurd hc hd
    apply legal_intro
    · exact not_raw_of_okc hok
    · exact identShape_cons (Or.inl (alpha_of_upper hu)) fun x hx => okc_of_uduc (hcs x hx)
    · intro he
      simp at he
      obtain ⟨rfl, _⟩ := he
      revert hu; decide
    · exact hkw
    · intro hp; cases hp

theorem const_legal_aux (tr : Tr) (s : List Char) : legal .const (toRustConstName tr s) = true := by
  unfold toRustConstName
  simp only []
  rcases constant_sanitize tr s with h0 | h
  · rw [h0]; decide
  · have hne : (sanitize tr s).isEmpty = false := by
      cases hs : sanitize tr s with
      | nil => 
        obtain ⟨c, cs, heq, _⟩ := h
        rw [hs] at heq; cases heq
      | cons c cs => rfl
    rw [hne]
    exact const_tail _ h

/-! ### type names -/

theorem capWordsAux_head (capNext prevLower : Bool) (s : List Char)
    (hinv : ∀ d ds, s = d :: ds → d.isAlphanum = true → capNext = true) :
    ∀ c, ((capWordsAux capNext prevLower s).filter Char.isAlphanum).head? = some c →
      c.isUpper = true ∨ c.isDigit = true := by
  fun_induction capWordsAux capNext prevLower s with
  | case1 => simp
  | case2 capNext prevLower c cs hc capNext' ih =>
    intro x hx
    have hc' : c.isAlphanum = false := by simpa using hc
    rw [List.filter_cons_of_neg (by simp [hc'])] at hx
    apply ih _ x hx
    intro d ds hds hd
    subst hds
    exact hd
  | case3 capNext prevLower c cs hc nextIsLower should ih =>
    intro x hx
    have hc' : c.isAlphanum = true := by simpa using hc
    have hcap : capNext = true := hinv c cs rfl hc'
    have hs : should = true := by simp [should, hcap]
    rw [hs, if_pos rfl, List.filter_cons_of_pos (alnum_toUpper hc')] at hx
    simp at hx
    subst hx
    exact toUpper_alnum hc'

/-- shape of a type identifier before the digit prefix: uppercase letter or digit, then `[A-Za-z0-9]*` -/
def TypeId (l : List Char) : Prop :=
  ∃ c cs, l = c :: cs ∧ (c.isUpper = true ∨ c.isDigit = true) ∧ ∀ x ∈ cs, x.isAlphanum = true

theorem typeId_alnum {l : List Char} (h : TypeId l) : ∀ x ∈ l, x.isAlphanum = true := by
  obtain ⟨c, cs, rfl, hc, hcs⟩ := h
  intro x hx
  rcases List.mem_cons.1 hx with rfl | hx
  · rcases hc with hc | hc
    · exact alnum_of_upper hc
    · exact alnum_of_digit hc
  · exact hcs x hx

theorem typeId_mixed (l : List Char) :
    upperFirst (l.filter Char.isAlphanum) = [] ∨ TypeId (upperFirst (l.filter Char.isAlphanum)) := by
  cases hf : l.filter Char.isAlphanum with
  | nil => left; rfl
  | cons c cs =>
    right
    have hall : ∀ x ∈ c :: cs, x.isAlphanum = true := by
      intro x hx; rw [← hf] at hx; exact (List.mem_filter.1 hx).2
    exact ⟨c.toUpper, cs, rfl, toUpper_alnum (hall c (by simp)), fun x hx => hall x (by simp [hx])⟩

theorem typeId_capWords (l : List Char) :
    (capWords l).filter Char.isAlphanum = [] ∨ TypeId ((capWords l).filter Char.isAlphanum) := by
  cases hf : (capWords l).filter Char.isAlphanum with
  | nil => left; rfl
  | cons c cs =>
    right
    have hall : ∀ x ∈ c :: cs, x.isAlphanum = true := by
      intro x hx; rw [← hf] at hx; exact (List.mem_filter.1 hx).2
    refine ⟨c, cs, rfl, ?_, fun x hx => hall x (by simp [hx])⟩
    apply capWordsAux_head true false l (fun _ _ _ _ => rfl) c
    unfold capWords at hf
    rw [hf]; rfl

theorem typeId_negative {l : List Char} (h : TypeId l) : TypeId ("Negative".toList ++ l) := by
  refine ⟨'N', "egative".toList ++ l, rfl, Or.inl (by decide), ?_⟩
  intro x hx
  rcases List.mem_append.1 hx with hx | hx
  · exact (by decide : ∀ x ∈ "egative".toList, x.isAlphanum = true) x hx
  · exact typeId_alnum h x hx

theorem kw_head_T : ∀ k ∈ rustKeywords, k.head? ≠ some 'T' := by decide
theorem shadowed_head_T : ∀ k ∈ shadowed, k.head? ≠ some 'T' := by decide
/-- `Self` is the only Rust keyword that starts with an uppercase letter -/
theorem kw_upper : ∀ k ∈ rustKeywords, k = "Self".toList ∨ k.head?.map Char.isUpper ≠ some true := by
  decide

/-- everything after the `is_empty` test in `to_rust_type_name` -/
theorem type_tail (P : List (List Char)) (hsh : ∀ k ∈ shadowed, k ∈ P)
    (hP : ∀ k ∈ P, legal .type (k ++ "Type".toList) = true) (id : List Char) (h : TypeId id) :
    let r := if id == "Self".toList then "r#Self".toList
      else if P.contains id then id ++ "Type".toList else prefixIfDigit 'T' id
    legal .type r = true ∨ r = "r#Self".toList := by
  intro r
  by_cases h1 : id = "Self".toList
  · right; simp [r, h1]
  · left
    by_cases h2 : id ∈ P
    · have hr : r = id ++ "Type".toList := by
        simp only [r, beq_iff_eq, h1, if_false, List.contains_iff_mem.2 h2, if_true]
      rw [hr]; exact hP id h2
    · have hc : P.contains id = false := by
        rw [Bool.eq_false_iff, Ne, List.contains_iff_mem]; exact h2
      have hr : r = prefixIfDigit 'T' id := by
        simp only [r, beq_iff_eq, h1, if_false, hc, Bool.false_eq_true]
      rw [hr]
      have hnsh : id ∉ shadowed := fun hk => h2 (hsh id hk)
      have hok : ∀ x ∈ id, okc x = true := fun x hx => okc_of_alnum (typeId_alnum h x hx)
      obtain ⟨c, cs, rfl, hc, hcs⟩ := h
      rw [prefixIfDigit_cons]
      split
      · apply legal_intro
        · apply not_raw_of_okc
          intro x hx
          rcases List.mem_cons.1 hx with rfl | hx
          · decide
          · exact hok x hx
        · exact identShape_cons (Or.inl (by decide)) hok
        · simp
        · intro hk; exact kw_head_T _ hk rfl
        · intro _ hk; exact shadowed_head_T _ hk rfl
      · rename_i hd
        have hu : c.isUpper = true := by
          rcases hc with hc | hc
          · exact hc
          · exact absurd hc hd
        apply legal_intro
        · exact not_raw_of_okc hok
        · exact identShape_cons (Or.inl (alpha_of_upper hu)) fun x hx => okc_of_alnum (hcs x hx)
        · intro he
          simp at he
          obtain ⟨rfl, _⟩ := he
          revert hu; decide
        · intro hk
          rcases kw_upper _ hk with hk | hk
          · exact h1 hk
          · apply hk; simp [hu]
        · intro _; exact hnsh

theorem type_legal_aux (P : List (List Char)) (hsh : ∀ k ∈ shadowed, k ∈ P)
    (hP : ∀ k ∈ P, legal .type (k ++ "Type".toList) = true) (tr : Tr) (s : List Char) :
    legal .type (toRustTypeName P tr s) = true ∨ toRustTypeName P tr s = "r#Self".toList := by
  unfold toRustTypeName
  simp only []
  cases hsm : stripMinus (stripRaw s) with
  | mk neg nm =>
    simp only []
    generalize hm : (!nm.any isTypeSep && nm.any Char.isUpper && nm.any Char.isLower) = mixed
    have hid : (if mixed = true then upperFirst ((translit tr nm).filter Char.isAlphanum)
          else (capWords (translit tr nm)).filter Char.isAlphanum) = [] ∨
        TypeId (if mixed = true then upperFirst ((translit tr nm).filter Char.isAlphanum)
          else (capWords (translit tr nm)).filter Char.isAlphanum) := by
      split
      · exact typeId_mixed _
      · exact typeId_capWords _
    generalize (if mixed = true then upperFirst ((translit tr nm).filter Char.isAlphanum)
          else (capWords (translit tr nm)).filter Char.isAlphanum) = ident at hid
    rcases hid with h0 | hid
    · left; rw [h0]
      have : ([] : List Char).isEmpty = true := rfl
      rw [if_pos this]; decide
    · have hne : ident.isEmpty = false := by
        obtain ⟨c, cs, heq, _⟩ := hid
        rw [heq]; rfl
      rw [hne]
      simp only [Bool.false_eq_true, if_false]
      have hid' : TypeId (if neg = true then "Negative".toList ++ ident else ident) := by
        split
        · exact typeId_negative hid
        · exact hid
      exact type_tail P hsh hP _ hid'

/-! ### `ensure_unique` -/

theorem probe_some {mk : Nat → List Char} {used : List (List Char)} {fuel i : Nat} {r : List Char} :
    probe mk used fuel i = some r → r ∉ used := by
  induction fuel generalizing i with
  | zero => intro h; cases h
  | succ n ih =>
    intro h
    unfold probe at h
    split at h
    · exact ih h
    · rename_i hc
      cases h
      rwa [List.contains_iff_mem] at hc

theorem probe_none {mk : Nat → List Char} {used : List (List Char)} {fuel i : Nat} :
    probe mk used fuel i = none → ∀ j, i ≤ j → j < i + fuel → mk j ∈ used := by
  induction fuel generalizing i with
  | zero => intro _ j h1 h2; omega
  | succ n ih =>
    intro h j h1 h2
    unfold probe at h
    split at h
    · rename_i hc
      rw [List.contains_iff_mem] at hc
      by_cases hj : j = i
      · subst hj; exact hc
      · exact ih h j (by omega) (by omega)
    · cases h

/-- pigeonhole: an injective family cannot place `fuel` consecutive members into a shorter list -/
theorem pigeon (mk : Nat → List Char) (hinj : ∀ i j, mk i = mk j → i = j) :
    ∀ (fuel i : Nat) (used : List (List Char)),
      (∀ j, i ≤ j → j < i + fuel → mk j ∈ used) → fuel ≤ used.length := by
  intro fuel
  induction fuel with
  | zero => intros; omega
  | succ n ih =>
    intro i used h
    have hi : mk i ∈ used := h i (Nat.le_refl _) (by omega)
    have hlen : (used.erase (mk i)).length = used.length - 1 := List.length_erase_of_mem hi
    have hpos : 0 < used.length := List.length_pos_of_mem hi
    have := ih (i + 1) (used.erase (mk i)) (by
      intro j h1 h2
      have hne : mk j ≠ mk i := fun he => by have := hinj _ _ he; omega
      exact (List.mem_erase_of_ne hne).2 (h j (by omega) (by omega)))
    omega

theorem natChars_inj {i j : Nat} (h : natChars i = natChars j) : i = j := by
  unfold natChars at h
  exact Nat.repr_injective (String.toList_inj.1 h)

theorem probe_total (mk : Nat → List Char) (hinj : ∀ i j, mk i = mk j → i = j)
    (used : List (List Char)) (i : Nat) : (probe mk used (used.length + 1) i).isSome = true := by
  cases h : probe mk used (used.length + 1) i with
  | some r => rfl
  | none =>
    have := pigeon mk hinj _ i used (probe_none h)
    omega

theorem ensureUnique_fresh_aux {b : List Char} {used : List (List Char)} {r : List Char} :
    ensureUnique b used = some r → r ∉ used := by
  unfold ensureUnique
  split
  · rename_i hc
    intro h; cases h
    simpa using hc
  · exact probe_some

theorem ensureUnique_total_aux (b : List Char) (used : List (List Char)) :
    (ensureUnique b used).isSome = true := by
  unfold ensureUnique
  split
  · rfl
  · exact probe_total _ (fun i j h => natChars_inj (List.append_cancel_left h)) used 2

theorem ensureUniqueSnake_fresh_aux {b : List Char} {used : List (List Char)} {r : List Char} :
    ensureUniqueSnake b used = some r → r ∉ used := by
  unfold ensureUniqueSnake
  split
  · rename_i hc
    intro h; cases h
    simpa using hc
  · exact probe_some

theorem ensureUniqueSnake_total_aux (b : List Char) (used : List (List Char)) :
    (ensureUniqueSnake b used).isSome = true := by
  unfold ensureUniqueSnake
  split
  · rfl
  · refine probe_total _ (fun i j h => natChars_inj ?_) used 2
    have := List.append_cancel_left h
    exact (List.cons.inj this).2

end Oas3.Naming
