import Oas3Model.Sem.Sse
import Oas3Model.Model.EventStream
/-
Helper lemmas for property C20 (SSE framing / chunk-invariance / wrapper poll loop).
-/
namespace Oas3.Sse

/-! ### scan -/

theorem scan_append' (b m l0 r0 : List Char) : scan b = some (l0, r0) → scan (b ++ m) = some (l0, r0 ++ m) := by
  fun_induction scan b generalizing l0 r0 <;> intro h
  all_goals simp_all [scan]
  next hne hnl =>
    cases r0 with
    | nil => exact absurd rfl hne
    | cons c t =>
      have : c ≠ '\n' := by intro hc; exact hnl t (by rw [hc])
      simp [scan, this]

/-! ### drainAll -/

/-- effect of one complete line on the builder: new data, and the event dispatched (if any). -/
def lineStep (data : List Char) (l : List Char) : List Char × List (List Char) :=
  match classify l with
  | .empty => if data.isEmpty then ([], []) else ([], [data.dropLast])
  | ln => (addLine data ln, [])

theorem drainAll_none (buf data : List Char) (h : scan buf = none) : drainAll buf data = (buf, data, []) := by
  rw [drainAll]; split
  · rfl
  · simp_all

theorem drainAll_some (buf data l r : List Char) (h : scan buf = some (l, r)) :
    drainAll buf data =
      ((drainAll r (lineStep data l).1).1, (drainAll r (lineStep data l).1).2.1,
        (lineStep data l).2 ++ (drainAll r (lineStep data l).1).2.2) := by
  rw [drainAll]; split
  · simp_all
  · next l' r' h' =>
    rw [h] at h'; cases h'
    unfold lineStep
    split <;> split <;> simp_all

theorem drainAll_append' (buf m data : List Char) :
    drainAll (buf ++ m) data =
      ((drainAll ((drainAll buf data).1 ++ m) (drainAll buf data).2.1).1,
       (drainAll ((drainAll buf data).1 ++ m) (drainAll buf data).2.1).2.1,
       (drainAll buf data).2.2 ++ (drainAll ((drainAll buf data).1 ++ m) (drainAll buf data).2.1).2.2) := by
  induction hn : buf.length using Nat.strongRecOn generalizing buf data with
  | _ n ih =>
    cases hs : scan buf with
    | none => rw [drainAll_none buf data hs]; simp
    | some p =>
      obtain ⟨l, r⟩ := p
      rw [drainAll_some _ _ _ _ (scan_append' _ m _ _ hs), drainAll_some _ _ _ _ hs]
      rw [ih r.length (hn ▸ scan_lt _ _ _ hs) r _ rfl]
      simp [List.append_assoc]

/-- after draining, nothing more is available -/
theorem drainAll_idem' (buf data : List Char) :
    drainAll (drainAll buf data).1 (drainAll buf data).2.1 =
      ((drainAll buf data).1, (drainAll buf data).2.1, []) := by
  have h := drainAll_append' buf [] data
  simp only [List.append_nil] at h
  generalize drainAll buf data = p at h ⊢
  obtain ⟨b', d', evs⟩ := p
  simp only at h ⊢
  generalize drainAll b' d' = q at h ⊢
  obtain ⟨b'', d'', evs'⟩ := q
  simp only [Prod.mk.injEq] at h ⊢
  obtain ⟨h1, h2, h3⟩ := h
  refine ⟨h1.symm, h2.symm, ?_⟩
  simpa using h3

/-! ### UTF-8 layer -/

theorem decode1_append (x y : List UInt8) (c : Char) (n : Nat) (h : decode1 x = some (c, n)) :
    decode1 (x ++ y) = some (c, n) := by
  match x with
  | [] => simp [decode1] at h
  | [b0] =>
    simp only [decode1] at h
    simp only [List.cons_append, List.nil_append, decode1]
    split at h
    · next hc => rw [if_pos hc]; exact h
    · simp at h
  | [b0, b1] =>
    simp only [decode1] at h
    simp only [List.cons_append, List.nil_append, decode1]
    split at h
    · next hc => rw [if_pos hc]; exact h
    · next hc =>
      rw [if_neg hc]
      split at h
      · next hc => rw [if_pos hc]; exact h
      · simp at h
  | [b0, b1, b2] =>
    simp only [decode1] at h
    simp only [List.cons_append, List.nil_append, decode1]
    split at h
    · next hc => rw [if_pos hc]; exact h
    · next hc =>
      rw [if_neg hc]
      split at h
      · next hc => rw [if_pos hc]; exact h
      · next hc =>
        rw [if_neg hc]
        split at h
        · next hc => rw [if_pos hc]; exact h
        · simp at h
  | b0 :: b1 :: b2 :: b3 :: t =>
    simp only [decode1] at h
    simp only [List.cons_append, decode1]
    exact h

theorem decode1_bound (x : List UInt8) (c : Char) (n : Nat) (h : decode1 x = some (c, n)) :
    0 < n ∧ n ≤ x.length := by
  match x with
  | [] => simp [decode1] at h
  | b0 :: rest =>
    simp only [decode1] at h
    repeat' split at h
    all_goals first
      | (simp only [Option.some.injEq, Prod.mk.injEq] at h; obtain ⟨_, rfl⟩ := h; simp)
      | (simp at h)

theorem decode1_le4 (x : List UInt8) (c : Char) (n : Nat) (h : decode1 x = some (c, n)) : n ≤ 4 := by
  match x with
  | [] => simp [decode1] at h
  | b0 :: rest =>
    simp only [decode1] at h
    repeat' split at h
    all_goals first
      | (simp only [Option.some.injEq, Prod.mk.injEq] at h; obtain ⟨_, rfl⟩ := h; simp)
      | (simp at h)

/-- `decode1` only inspects the first (at most) 4 bytes -/
theorem decode1_take4 (x : List UInt8) : decode1 x = decode1 (x.take 4) := by
  match x with
  | [] => rfl
  | [_] => rfl
  | [_, _] => rfl
  | [_, _, _] => rfl
  | b0 :: b1 :: b2 :: b3 :: t => simp only [List.take, decode1]

theorem utf8Split_none (bs : List UInt8) (h : decode1 bs = none) : utf8Split bs = ([], bs) := by
  rw [utf8Split]; split
  · rfl
  · simp_all

theorem utf8Split_some (bs : List UInt8) (c : Char) (n : Nat) (h : decode1 bs = some (c, n)) :
    utf8Split bs = (c :: (utf8Split (bs.drop n)).1, (utf8Split (bs.drop n)).2) := by
  have hb := decode1_bound bs c n h
  rw [utf8Split]; split
  · simp_all
  · next c' n' h' =>
    rw [h] at h'; cases h'
    rw [dif_neg (by omega)]

theorem utf8Split_nil : utf8Split [] = ([], []) := utf8Split_none [] rfl

theorem utf8Split_append' (a b : List UInt8) :
    utf8Split (a ++ b) =
      ((utf8Split a).1 ++ (utf8Split ((utf8Split a).2 ++ b)).1, (utf8Split ((utf8Split a).2 ++ b)).2) := by
  induction hn : a.length using Nat.strongRecOn generalizing a with
  | _ n ih =>
    cases hd : decode1 a with
    | none => rw [utf8Split_none a hd]; simp
    | some p =>
      obtain ⟨c, k⟩ := p
      have hb := decode1_bound a c k hd
      rw [utf8Split_some _ c k (decode1_append a b c k hd), utf8Split_some a c k hd]
      rw [List.drop_append_of_le_length hb.2]
      rw [ih (a.drop k).length (by simp; omega) (a.drop k) rfl]
      simp

/-- the undecodable remainder stays undecodable (nothing decodes from it without more input) -/
theorem utf8Split_idem' (a : List UInt8) : utf8Split (utf8Split a).2 = ([], (utf8Split a).2) := by
  have h := utf8Split_append' a []
  simp only [List.append_nil] at h
  generalize utf8Split a = p at h ⊢
  obtain ⟨cs, rem⟩ := p
  simp only at h ⊢
  generalize utf8Split rem = q at h ⊢
  obtain ⟨cs', rem'⟩ := q
  simp only [Prod.mk.injEq] at h ⊢
  obtain ⟨h1, h2⟩ := h
  refine ⟨?_, h2.symm⟩
  simpa using h1

/-! ### feeding -/

/-- sequencing of two feeds (`none` = panic is absorbing, events are concatenated) -/
def seqFeed (r : Option (St × List (List Char))) (f : St → Option (St × List (List Char))) :
    Option (St × List (List Char)) :=
  match r with
  | none => none
  | some (st', evs) =>
    match f st' with
    | none => none
    | some (st'', evs') => some (st'', evs ++ evs')

theorem feedBytes_append (st : St) (a b : List UInt8) :
    feedBytes st (a ++ b) = seqFeed (feedBytes st a) (fun st' => feedBytes st' b) := by
  unfold feedBytes
  rw [← List.append_assoc, utf8Split_append']
  generalize utf8Split (st.bytes ++ a) = p
  obtain ⟨cs, rem⟩ := p
  simp only
  cases cs with
  | nil =>
    simp only [feedChars, seqFeed, List.nil_append]
    generalize utf8Split (rem ++ b) = q
    obtain ⟨cs', rem'⟩ := q
    simp only
    cases cs' with
    | nil => simp
    | cons c' cs' =>
      simp only
      split <;> simp
  | cons c cs =>
    simp only [feedChars, List.cons_append]
    by_cases hp : (!st.started && c == bom) = true
    · simp [hp, seqFeed]
    · simp only [hp, seqFeed, Bool.false_eq_true, if_false]
      generalize utf8Split (rem ++ b) = q
      obtain ⟨cs', rem'⟩ := q
      simp only
      cases cs' with
      | nil => simp
      | cons c' cs' =>
        simp only [Bool.not_true, Bool.false_and, Bool.false_eq_true, if_false]
        have e : st.buf ++ c :: (cs ++ c' :: cs') = (st.buf ++ c :: cs) ++ c' :: cs' := by simp
        rw [e, drainAll_append']

/-- a feed can only panic before the first non-empty decoded string -/
theorem feedBytes_none_started (st : St) (bs : List UInt8) (h : feedBytes st bs = none) :
    st.started = false := by
  unfold feedBytes at h
  generalize utf8Split (st.bytes ++ bs) = p at h
  obtain ⟨cs, rem⟩ := p
  cases cs with
  | nil => simp [feedChars] at h
  | cons c cs =>
    simp only [feedChars] at h
    split at h
    · next hc => simp at hc; exact hc.1
    · simp at h

/-- as long as the stream has not started, no event has been produced and only `bytes` changed -/
theorem feedBytes_not_started (st st' : St) (bs : List UInt8) (evs : List (List Char))
    (h : feedBytes st bs = some (st', evs)) (hs : st'.started = false) :
    evs = [] ∧ st' = { st with bytes := st'.bytes } := by
  unfold feedBytes at h
  generalize utf8Split (st.bytes ++ bs) = p at h
  obtain ⟨cs, rem⟩ := p
  cases cs with
  | nil =>
    simp only [feedChars, Option.some.injEq, Prod.mk.injEq] at h
    obtain ⟨rfl, rfl⟩ := h
    simp
  | cons c cs =>
    simp only [feedChars] at h
    split at h
    · simp at h
    · simp only [Option.some.injEq, Prod.mk.injEq] at h
      obtain ⟨rfl, rfl⟩ := h
      simp at hs

/-- the byte buffer never holds a decodable prefix -/
def BytesInv (st : St) : Prop := utf8Split st.bytes = ([], st.bytes)

theorem bytesInv_init : BytesInv {} := utf8Split_nil

theorem feedBytes_inv (st st' : St) (bs : List UInt8) (evs : List (List Char))
    (h : feedBytes st bs = some (st', evs)) : BytesInv st' := by
  unfold feedBytes at h
  have hi := utf8Split_idem' (st.bytes ++ bs)
  generalize utf8Split (st.bytes ++ bs) = p at h hi
  obtain ⟨cs, rem⟩ := p
  cases cs with
  | nil =>
    simp only [feedChars, Option.some.injEq, Prod.mk.injEq] at h
    obtain ⟨rfl, rfl⟩ := h
    exact hi
  | cons c cs =>
    simp only [feedChars] at h
    split at h
    · simp at h
    · simp only [Option.some.injEq, Prod.mk.injEq] at h
      obtain ⟨rfl, rfl⟩ := h
      exact hi

theorem feedBytes_nil (st : St) (h : BytesInv st) : feedBytes st [] = some (st, []) := by
  unfold feedBytes
  rw [List.append_nil, h]
  simp [feedChars]

/-! ### innerRun -/

theorem innerRun_single (st : St) (bs : List UInt8) :
    innerRun st [.chunk bs] =
      match feedBytes st bs with
      | none => [.panic]
      | some (st', evs) => evs.map .ev ++ (if st'.bytes.isEmpty then [.done] else [.utf8Err, .done]) := by
  cases h : feedBytes st bs <;> simp [innerRun, h]

theorem innerRun_pending (st : St) (rest : List In) :
    innerRun st (.pending :: rest) = .pending :: innerRun st rest := rfl

theorem innerRun_chunk (st : St) (bs : List UInt8) (rest : List In) :
    innerRun st (.chunk bs :: rest) =
      match feedBytes st bs with
      | none => [.panic]
      | some (st', evs) => evs.map .ev ++ innerRun st' rest := rfl

theorem innerRun_nil (st : St) :
    innerRun st [] = if st.bytes.isEmpty then [.done] else [.utf8Err, .done] := rfl

theorem filter_map_ev (evs : List (List Char)) :
    (evs.map InnerOut.ev).filter (fun o => o != .pending) = evs.map .ev := by
  induction evs with
  | nil => rfl
  | cons e t ih => simp

/-- chunk invariance from an arbitrary reachable state; `ab` is any function satisfying the defining
equations of "all bytes of the script" -/
theorem innerRun_whole (ab : List In → List UInt8) (h0 : ab [] = [])
    (hc : ∀ bs r, ab (.chunk bs :: r) = bs ++ ab r) (hp : ∀ r, ab (.pending :: r) = ab r)
    (script : List In) (st : St) (hinv : BytesInv st) :
    (innerRun st script).filter (fun o => o != .pending) = innerRun st [.chunk (ab script)] := by
  induction script generalizing st with
  | nil =>
    rw [h0, innerRun_single, feedBytes_nil st hinv, innerRun_nil]
    simp only [List.map_nil, List.nil_append]
    split <;> rfl
  | cons i rest ih =>
    cases i with
    | pending =>
      rw [hp, innerRun_pending, ← ih st hinv]
      exact List.filter_cons_of_neg (by decide)
    | chunk bs =>
      rw [hc, innerRun_single, feedBytes_append, innerRun_chunk]
      cases hf : feedBytes st bs with
      | none => simp only [seqFeed]; rfl
      | some p =>
        obtain ⟨st', evs⟩ := p
        simp only [seqFeed]
        rw [List.filter_append, filter_map_ev, ih st' (feedBytes_inv _ _ _ _ hf), innerRun_single]
        cases hf' : feedBytes st' (ab rest) with
        | none =>
          have := (feedBytes_not_started _ _ _ _ hf (feedBytes_none_started _ _ hf')).1
          simp [this]
        | some q =>
          obtain ⟨st'', evs'⟩ := q
          simp

end Oas3.Sse

namespace Oas3.EventStream
open Oas3.Sse

/-! ### the wrapper's poll loop -/

variable {R : Type}

theorem outerTrace_nil (dec : List Char → R) : outerTrace dec [] = [.done] := by
  rw [outerTrace]

theorem outerTrace_cons (dec : List Char → R) (i : InnerOut) (rest : List InnerOut) :
    outerTrace dec (i :: rest) =
      match pollNext dec (i :: rest) with
      | (.done, _) => [.done]
      | (.panic, _) => [.panic]
      | (o, rest') => o :: outerTrace dec rest' := by
  rw [outerTrace]
  split <;> simp_all

theorem outerTrace_done (dec : List Char → R) (r : List InnerOut) :
    outerTrace dec (.done :: r) = [.done] := by
  rw [outerTrace_cons]; simp [pollNext]

theorem outerTrace_panic (dec : List Char → R) (r : List InnerOut) :
    outerTrace dec (.panic :: r) = [.panic] := by
  rw [outerTrace_cons]; simp [pollNext]

theorem outerTrace_pending (dec : List Char → R) (r : List InnerOut) :
    outerTrace dec (.pending :: r) = .pending :: outerTrace dec r := by
  rw [outerTrace_cons]; simp [pollNext]

theorem outerTrace_utf8Err (dec : List Char → R) (r : List InnerOut) :
    outerTrace dec (.utf8Err :: r) = .sseErr :: outerTrace dec r := by
  rw [outerTrace_cons]; simp [pollNext]

theorem outerTrace_ev_nonempty (dec : List Char → R) (d : List Char) (r : List InnerOut)
    (h : d.isEmpty = false) : outerTrace dec (.ev d :: r) = .item (dec d) :: outerTrace dec r := by
  rw [outerTrace_cons]; simp [pollNext, h]

theorem outerTrace_ev_empty (dec : List Char → R) (d : List Char) (r : List InnerOut)
    (h : d.isEmpty = true) : outerTrace dec (.ev d :: r) = outerTrace dec r := by
  rw [outerTrace_cons]
  cases r with
  | nil => simp [pollNext, h, outerTrace_nil]
  | cons i t => rw [outerTrace_cons]; simp [pollNext, h]

theorem outerTrace_ev (dec : List Char → R) (d : List Char) (r : List InnerOut) :
    outerTrace dec (.ev d :: r) =
      if d.isEmpty then outerTrace dec r else .item (dec d) :: outerTrace dec r := by
  cases h : d.isEmpty
  · simp [outerTrace_ev_nonempty dec d r h]
  · simp [outerTrace_ev_empty dec d r h]

theorem pollNext_pending (dec : List Char → R) (is : List InnerOut)
    (h : (pollNext dec is).1 = .pending) :
    ∃ pre rest, is = pre ++ .pending :: rest ∧ (∀ i ∈ pre, i = .ev []) ∧ (pollNext dec is).2 = rest := by
  induction is with
  | nil => simp [pollNext] at h
  | cons i t ih =>
    cases i with
    | pending => exact ⟨[], t, rfl, by simp, by simp [pollNext]⟩
    | ev d =>
      simp only [pollNext] at h ⊢
      split at h
      · next hd =>
        rw [if_pos hd]
        obtain ⟨pre, rest, e, hp, hr⟩ := ih h
        have : d = [] := by simpa using hd
        subst this
        exact ⟨.ev [] :: pre, rest, by rw [e]; rfl, by simpa using hp, hr⟩
      · simp at h
    | utf8Err => simp [pollNext] at h
    | done => simp [pollNext] at h
    | panic => simp [pollNext] at h

/-- dropping the inner `pending`s drops exactly the outer `pending`s (`keep` = "is not pending") -/
theorem outerTrace_filter (dec : List Char → R) (keep : OuterOut R → Bool)
    (hk0 : keep .pending = false) (hk1 : ∀ r, keep (.item r) = true) (hk2 : keep .sseErr = true)
    (hk3 : keep .done = true) (hk4 : keep .panic = true) (is : List InnerOut) :
    (outerTrace dec is).filter keep = outerTrace dec (is.filter (fun o => o != .pending)) := by
  induction is with
  | nil => simp [outerTrace_nil, hk3]
  | cons i t ih =>
    cases i with
    | pending =>
      rw [outerTrace_pending, List.filter_cons_of_neg (by simp [hk0]), ih]
      rw [List.filter_cons_of_neg (by decide)]
    | ev d =>
      rw [List.filter_cons_of_pos (by simp), outerTrace_ev, outerTrace_ev]
      split
      · exact ih
      · rw [List.filter_cons_of_pos (hk1 _), ih]
    | utf8Err =>
      rw [List.filter_cons_of_pos (by decide), outerTrace_utf8Err, outerTrace_utf8Err,
        List.filter_cons_of_pos hk2, ih]
    | done =>
      rw [List.filter_cons_of_pos (by decide), outerTrace_done, outerTrace_done]
      simp [hk3]
    | panic =>
      rw [List.filter_cons_of_pos (by decide), outerTrace_panic, outerTrace_panic]
      simp [hk4]

theorem outerTrace_evs (dec : List Char → R) (evs : List (List Char)) (tail : List InnerOut) :
    outerTrace dec (evs.map .ev ++ tail) =
      (evs.filter (fun d => !d.isEmpty)).map (fun d => .item (dec d)) ++ outerTrace dec tail := by
  induction evs with
  | nil => simp
  | cons e t ih =>
    simp only [List.map_cons, List.cons_append]
    rw [outerTrace_ev, ih]
    cases h : e.isEmpty <;> simp [h]

end Oas3.EventStream
