/- Lemmas for property C15: invariants of the `build_enum_from_values` fold. -/
import Oas3Model.Model.EnumJudge

namespace Oas3.Enum
open Oas3.Naming (natChars)

/-! ### `addAliasAt` -/

theorem addAliasAt_names (vs : List Variant) (i : Nat) (a : Str) :
    (addAliasAt vs i a).map (·.name) = vs.map (·.name) := by
  induction vs generalizing i with
  | nil => simp [addAliasAt]
  | cons x xs ih => cases i <;> simp [addAliasAt, Variant.withAlias, ih]

theorem addAliasAt_getElem? (vs : List Variant) (i : Nat) (a : Str) (j : Nat) :
    (addAliasAt vs i a)[j]? = if j = i then (vs[j]?).map (·.withAlias a) else vs[j]? := by
  induction vs generalizing i j with
  | nil => simp [addAliasAt]
  | cons x xs ih =>
    cases i with
    | zero => cases j <;> simp [addAliasAt]
    | succ i => cases j <;> simp [addAliasAt, ih]

theorem holds_iff (x : Variant) (s : Str) : holds x s = true ↔ x.rename = s ∨ s ∈ x.aliases := by
  simp [holds]

theorem holds_withAlias (x : Variant) (a s : Str) :
    holds (x.withAlias a) s = true ↔ holds x s = true ∨ s = a := by
  simp [holds_iff, Variant.withAlias, or_assoc]

theorem lookup_cons_eq (seen : Seen) (k : Str) (b : Nat) (n : Str) :
    List.lookup n ((k, b) :: seen) = if n = k then some b else List.lookup n seen := by
  by_cases h : n = k
  · simp [List.lookup, h]
  · have : (n == k) = false := by simpa using h
    simp [List.lookup, this, h]


/-! ### the `Deduplicate` fold: invariant "`seen n = i ↔ variants[i].name = n`" and what it buys -/

structure DInv (nm : Str → Str) (P : List Str) (vars : List Variant) (seen : Seen) : Prop where
  seenSome : ∀ n idx, seen.lookup n = some idx → ∃ x, vars[idx]? = some x ∧ x.name = n
  seenNone : ∀ n, seen.lookup n = none → ∀ x ∈ vars, x.name ≠ n
  nameOf : ∀ x ∈ vars, nm x.rename = x.name ∧ ∀ a ∈ x.aliases, nm a = x.name
  cover : ∀ s, (∃ x ∈ vars, holds x s = true) ↔ s ∈ P
  first : ∀ x ∈ vars, P.find? (fun w => nm w == x.name) = some x.rename
  nodup : (vars.map (·.name)).Nodup

theorem DInv.init (nm : Str → Str) : DInv nm [] [] [] :=
  ⟨by simp [List.lookup], by simp, by simp, by simp, by simp, by simp⟩

theorem DInv.nm_of_holds {nm P vars seen} (h : DInv nm P vars seen) {x : Variant} (hx : x ∈ vars) {s : Str}
    (hs : holds x s = true) : nm s = x.name := by
  rcases (holds_iff x s).1 hs with e | e
  · rw [← e]; exact (h.nameOf x hx).1
  · exact (h.nameOf x hx).2 s e

theorem DInv.push {nm P vars seen} (h : DInv nm P vars seen) (v : Str) (hl : seen.lookup (nm v) = none) :
    DInv nm (P ++ [v]) (vars ++ [⟨nm v, v, []⟩]) ((nm v, vars.length) :: seen) := by
  have hfresh : ∀ x ∈ vars, x.name ≠ nm v := h.seenNone _ hl
  refine ⟨?_, ?_, ?_, ?_, ?_, ?_⟩
  · intro n idx hn
    rw [lookup_cons_eq] at hn
    by_cases e : n = nm v
    · simp [e] at hn
      subst hn
      exact ⟨⟨nm v, v, []⟩, by simp, e.symm⟩
    · rw [if_neg e] at hn
      obtain ⟨x, hx, hxn⟩ := h.seenSome n idx hn
      have hlt : idx < vars.length := (List.getElem?_eq_some_iff.1 hx).1
      exact ⟨x, by rw [List.getElem?_append_left hlt]; exact hx, hxn⟩
  · intro n hn x hx
    rw [lookup_cons_eq] at hn
    by_cases e : n = nm v
    · simp [e] at hn
    · rw [if_neg e] at hn
      rcases List.mem_append.1 hx with hx | hx
      · exact h.seenNone n hn x hx
      · simp at hx; subst hx; exact fun h' => e h'.symm
  · intro x hx
    rcases List.mem_append.1 hx with hx | hx
    · exact h.nameOf x hx
    · simp at hx; subst hx; simp
  · intro s
    constructor
    · rintro ⟨x, hx, hs⟩
      rcases List.mem_append.1 hx with hx | hx
      · exact List.mem_append.2 (Or.inl ((h.cover s).1 ⟨x, hx, hs⟩))
      · simp at hx; subst hx
        simp [holds] at hs
        simp [hs]
    · intro hs
      rcases List.mem_append.1 hs with hs | hs
      · obtain ⟨x, hx, hxs⟩ := (h.cover s).2 hs
        exact ⟨x, List.mem_append.2 (Or.inl hx), hxs⟩
      · simp at hs; subst hs
        exact ⟨⟨nm s, s, []⟩, by simp, by simp [holds]⟩
  · intro x hx
    rw [List.find?_append]
    rcases List.mem_append.1 hx with hx | hx
    · rw [h.first x hx]; rfl
    · simp at hx; subst hx
      have hnone : P.find? (fun w => nm w == nm v) = none := by
        rw [List.find?_eq_none]
        intro w hw
        obtain ⟨x, hx, hxs⟩ := (h.cover w).2 hw
        have := h.nm_of_holds hx hxs
        simp [this, hfresh x hx]
      simp [hnone]
  · rw [List.map_append, List.nodup_append]
    refine ⟨h.nodup, by simp, ?_⟩
    intro a ha b hb
    simp at hb; subst hb
    obtain ⟨x, hx, rfl⟩ := List.mem_map.1 ha
    exact hfresh x hx


theorem mem_addAliasAt {vs : List Variant} {i : Nat} {a : Str} {y : Variant} (hy : y ∈ addAliasAt vs i a) :
    y ∈ vs ∨ ∃ x, vs[i]? = some x ∧ y = x.withAlias a := by
  obtain ⟨j, hj⟩ := List.mem_iff_getElem?.1 hy
  rw [addAliasAt_getElem?] at hj
  by_cases e : j = i
  · subst e
    simp at hj
    obtain ⟨x, hx, rfl⟩ := hj
    exact Or.inr ⟨x, hx, rfl⟩
  · rw [if_neg e] at hj
    exact Or.inl (List.mem_iff_getElem?.2 ⟨j, hj⟩)

theorem addAliasAt_mem_of_mem {vs : List Variant} {i : Nat} {a : Str} {x : Variant} (hx : x ∈ vs) :
    x ∈ addAliasAt vs i a ∨ x.withAlias a ∈ addAliasAt vs i a := by
  obtain ⟨j, hj⟩ := List.mem_iff_getElem?.1 hx
  by_cases e : j = i
  · refine Or.inr (List.mem_iff_getElem?.2 ⟨j, ?_⟩)
    rw [addAliasAt_getElem?, if_pos e, hj]; rfl
  · refine Or.inl (List.mem_iff_getElem?.2 ⟨j, ?_⟩)
    rw [addAliasAt_getElem?, if_neg e, hj]

theorem DInv.alias {nm P vars seen} (h : DInv nm P vars seen) (v : Str) (idx : Nat)
    (hl : seen.lookup (nm v) = some idx) : DInv nm (P ++ [v]) (addAliasAt vars idx v) seen := by
  obtain ⟨x0, hx0, hx0n⟩ := h.seenSome _ _ hl
  have hx0m : x0 ∈ vars := List.mem_iff_getElem?.2 ⟨idx, hx0⟩
  -- every new variant is an old one, possibly with the alias `v` (then its name is `nm v`)
  have hback : ∀ y ∈ addAliasAt vars idx v, ∃ x ∈ vars, y.name = x.name ∧ y.rename = x.rename ∧
      (y = x ∨ (y = x.withAlias v ∧ x.name = nm v)) := by
    intro y hy
    rcases mem_addAliasAt hy with hy | ⟨x, hx, rfl⟩
    · exact ⟨y, hy, rfl, rfl, Or.inl rfl⟩
    · rw [hx0] at hx; cases hx
      exact ⟨x0, hx0m, rfl, rfl, Or.inr ⟨rfl, hx0n⟩⟩
  refine ⟨?_, ?_, ?_, ?_, ?_, ?_⟩
  · intro n j hn
    obtain ⟨x, hx, hxn⟩ := h.seenSome n j hn
    rw [addAliasAt_getElem?]
    by_cases e : j = idx
    · rw [if_pos e, hx]; exact ⟨x.withAlias v, rfl, hxn⟩
    · rw [if_neg e]; exact ⟨x, hx, hxn⟩
  · intro n hn y hy
    obtain ⟨x, hx, hname, _, _⟩ := hback y hy
    rw [hname]; exact h.seenNone n hn x hx
  · intro y hy
    obtain ⟨x, hx, hname, hren, hcase⟩ := hback y hy
    rcases hcase with rfl | ⟨rfl, hxn⟩
    · exact h.nameOf y hx
    · refine ⟨(h.nameOf x hx).1, ?_⟩
      intro a ha
      simp [Variant.withAlias] at ha
      rcases ha with ha | rfl
      · exact (h.nameOf x hx).2 a ha
      · exact hxn.symm
  · intro s
    constructor
    · rintro ⟨y, hy, hs⟩
      obtain ⟨x, hx, _, _, hcase⟩ := hback y hy
      rcases hcase with rfl | ⟨rfl, _⟩
      · exact List.mem_append.2 (Or.inl ((h.cover s).1 ⟨y, hx, hs⟩))
      · rcases (holds_withAlias x v s).1 hs with hs | rfl
        · exact List.mem_append.2 (Or.inl ((h.cover s).1 ⟨x, hx, hs⟩))
        · simp
    · intro hs
      rcases List.mem_append.1 hs with hs | hs
      · obtain ⟨x, hx, hxs⟩ := (h.cover s).2 hs
        rcases addAliasAt_mem_of_mem (i := idx) (a := v) hx with hm | hm
        · exact ⟨x, hm, hxs⟩
        · exact ⟨x.withAlias v, hm, (holds_withAlias x v s).2 (Or.inl hxs)⟩
      · simp at hs; subst hs
        refine ⟨x0.withAlias s, List.mem_iff_getElem?.2 ⟨idx, ?_⟩, (holds_withAlias x0 s s).2 (Or.inr rfl)⟩
        rw [addAliasAt_getElem?, if_pos rfl, hx0]; rfl
  · intro y hy
    obtain ⟨x, hx, hname, hren, _⟩ := hback y hy
    rw [List.find?_append, hname, hren, h.first x hx]; rfl
  · rw [addAliasAt_names]; exact h.nodup

/-- the whole fold keeps the invariant (`Deduplicate`) -/
theorem DInv.fold {nm : Str → Str} (es : List (Option Str)) :
    ∀ {P vars seen} (i : Nat), DInv nm P vars seen →
      ∃ seen', DInv nm (P ++ strs es) (buildAux .dedup nm es i vars seen) seen' := by
  induction es with
  | nil => intro P vars seen i h; exact ⟨seen, by simpa [strs, buildAux] using h⟩
  | cons e es ih =>
    intro P vars seen i h
    cases e with
    | none => simpa [strs, buildAux] using ih (i + 1) h
    | some v =>
      simp only [strs, buildAux]
      cases hl : seen.lookup (nm v) with
      | none =>
        have := ih (i + 1) (h.push v hl)
        simpa [List.append_assoc] using this
      | some idx =>
        have := ih (i + 1) (h.alias v idx hl)
        simpa [List.append_assoc] using this

theorem dedup_inv (nm : Str → Str) (es : List (Option Str)) :
    ∃ seen, DInv nm (strs es) (build .dedup nm es) seen := by
  simpa [build] using DInv.fold (nm := nm) es 0 (DInv.init nm)


/-! ### consequences for the derived decoder -/

theorem decodeStrict_some {vars : List Variant} {s : Str} (h : ∃ x ∈ vars, holds x s = true) :
    ∃ y ∈ vars, decodeStrict vars s = some y ∧ holds y s = true := by
  unfold decodeStrict
  cases hf : vars.find? (holds · s) with
  | none =>
    obtain ⟨x, hx, hxs⟩ := h
    have := List.find?_eq_none.1 hf x hx
    simp [hxs] at this
  | some y => exact ⟨y, List.mem_of_find?_eq_some hf, rfl, by simpa using List.find?_some hf⟩

theorem decodeStrict_mem {vars : List Variant} {s : Str} {y : Variant} (h : decodeStrict vars s = some y) :
    y ∈ vars ∧ holds y s = true :=
  ⟨List.mem_of_find?_eq_some h, by simpa using List.find?_some (p := (holds · s)) h⟩

/-- merge, on the model: every declared value decodes to the variant named `nm v`, which encodes as the
first declared value with that name; nothing undeclared is accepted; identifiers are distinct. -/
theorem dedup_contract (nm : Str → Str) (es : List (Option Str)) :
    let vars := build .dedup nm es
    (∀ v ∈ strs es, ∃ y ∈ vars, decodeStrict vars v = some y ∧ y.name = nm v ∧
        firstOf nm (strs es) v = some y.rename) ∧
    (∀ s, (∃ y, decodeStrict vars s = some y) → s ∈ strs es) ∧
    (∀ x ∈ vars, x.rename ∈ strs es ∧ ∀ a ∈ x.aliases, a ∈ strs es) ∧
    (vars.map (·.name)).Nodup := by
  intro vars
  obtain ⟨seen, h⟩ := dedup_inv nm es
  refine ⟨?_, ?_, ?_, h.nodup⟩
  · intro v hv
    obtain ⟨y, hy, hd, hh⟩ := decodeStrict_some ((h.cover v).2 hv)
    have hn : nm v = y.name := h.nm_of_holds hy hh
    refine ⟨y, hy, hd, hn.symm, ?_⟩
    unfold firstOf; rw [hn]; exact h.first y hy
  · rintro s ⟨y, hy⟩
    exact (h.cover s).1 ⟨y, (decodeStrict_mem hy).1, (decodeStrict_mem hy).2⟩
  · intro x hx
    refine ⟨(h.cover _).1 ⟨x, hx, by simp [holds]⟩, fun a ha => (h.cover _).1 ⟨x, hx, ?_⟩⟩
    simp [holds, ha]

/-! ### the `Preserve` fold -/

theorem preserve_shape (nm : Str → Str) (es : List (Option Str)) :
    ∀ (i : Nat) (vars : List Variant) (seen : Seen),
      (buildAux .preserve nm es i vars seen).map (·.rename) = vars.map (·.rename) ++ strs es ∧
      (∀ x ∈ buildAux .preserve nm es i vars seen, x ∈ vars ∨ x.aliases = []) := by
  induction es with
  | nil => intro i vars seen; exact ⟨by simp [buildAux, strs], fun x hx => Or.inl (by simpa [buildAux] using hx)⟩
  | cons e es ih =>
    intro i vars seen
    cases e with
    | none => simpa [buildAux, strs] using ih (i + 1) vars seen
    | some v =>
      simp only [buildAux, strs]
      cases hl : seen.lookup (nm v) with
      | none =>
        obtain ⟨h1, h2⟩ := ih (i + 1) (vars ++ [⟨nm v, v, []⟩]) ((nm v, vars.length) :: seen)
        refine ⟨by simpa using h1, fun x hx => ?_⟩
        rcases h2 x hx with h | h
        · rcases List.mem_append.1 h with h | h
          · exact Or.inl h
          · simp at h; subst h; exact Or.inr rfl
        · exact Or.inr h
      | some idx =>
        obtain ⟨h1, h2⟩ := ih (i + 1) (vars ++ [⟨nm v ++ natChars i, v, []⟩]) ((nm v ++ natChars i, vars.length) :: seen)
        refine ⟨by simpa using h1, fun x hx => ?_⟩
        rcases h2 x hx with h | h
        · rcases List.mem_append.1 h with h | h
          · exact Or.inl h
          · simp at h; subst h; exact Or.inr rfl
        · exact Or.inr h

/-- no clash ⇒ identifiers pairwise different (`Preserve`) -/
theorem preserve_nodup (nm : Str → Str) (es : List (Option Str)) :
    ∀ (i : Nat) (vars : List Variant) (seen : Seen),
      (vars.map (·.name)).Nodup → (∀ x ∈ vars, (seen.lookup x.name).isSome) →
      clashAux nm es i vars.length seen = false →
      ((buildAux .preserve nm es i vars seen).map (·.name)).Nodup := by
  induction es with
  | nil => intro i vars seen h _ _; simpa [buildAux] using h
  | cons e es ih =>
    intro i vars seen hnd hseen hc
    cases e with
    | none => simpa [buildAux] using ih (i + 1) vars seen hnd hseen (by simpa [clashAux] using hc)
    | some v =>
      simp only [buildAux]
      simp only [clashAux] at hc
      -- one step with the fresh name `u`
      have step : ∀ u : Str, seen.lookup u = none →
          clashAux nm es (i + 1) (vars.length + 1) ((u, vars.length) :: seen) = false →
          ((buildAux .preserve nm es (i + 1) (vars ++ [⟨u, v, []⟩]) ((u, vars.length) :: seen)).map (·.name)).Nodup := by
        intro u hu hc'
        apply ih
        · rw [List.map_append, List.nodup_append]
          refine ⟨hnd, by simp, ?_⟩
          intro a ha b hb
          simp at hb; subst hb
          obtain ⟨x, hx, rfl⟩ := List.mem_map.1 ha
          intro e
          have := hseen x hx
          rw [e, hu] at this
          simp at this
        · intro x hx
          rw [lookup_cons_eq]
          rcases List.mem_append.1 hx with hx | hx
          · by_cases e : x.name = u
            · simp [e]
            · rw [if_neg e]; exact hseen x hx
          · simp at hx; subst hx; simp
        · simpa using hc'
      cases hl : seen.lookup (nm v) with
      | none =>
        rw [hl] at hc
        exact step (nm v) hl hc
      | some idx =>
        rw [hl] at hc
        simp only [Bool.or_eq_false_iff] at hc
        have hu : seen.lookup (nm v ++ natChars i) = none := by
          cases h : seen.lookup (nm v ++ natChars i) with
          | none => rfl
          | some _ => rw [h] at hc; simp at hc
        exact step _ hu hc.2

theorem preserve_names_prefix (nm : Str → Str) (es : List (Option Str)) :
    ∀ (i : Nat) (vars : List Variant) (seen : Seen),
      ∃ rest, (buildAux .preserve nm es i vars seen).map (·.name) = vars.map (·.name) ++ rest := by
  induction es with
  | nil => intro i vars seen; exact ⟨[], by simp [buildAux]⟩
  | cons e es ih =>
    intro i vars seen
    cases e with
    | none => simpa [buildAux] using ih (i + 1) vars seen
    | some v =>
      simp only [buildAux]
      cases hl : seen.lookup (nm v) with
      | none =>
        obtain ⟨rest, h⟩ := ih (i + 1) (vars ++ [⟨nm v, v, []⟩]) ((nm v, vars.length) :: seen)
        exact ⟨nm v :: rest, by simpa using h⟩
      | some idx =>
        obtain ⟨rest, h⟩ := ih (i + 1) (vars ++ [⟨nm v ++ natChars i, v, []⟩]) ((nm v ++ natChars i, vars.length) :: seen)
        exact ⟨(nm v ++ natChars i) :: rest, by simpa using h⟩

/-- a clash ⇒ two variants share an identifier (`Preserve`): the class is exactly the defect -/
theorem preserve_clash_dup (nm : Str → Str) (es : List (Option Str)) :
    ∀ (i : Nat) (vars : List Variant) (seen : Seen),
      (∀ n, (seen.lookup n).isSome → n ∈ vars.map (·.name)) →
      clashAux nm es i vars.length seen = true →
      ¬ ((buildAux .preserve nm es i vars seen).map (·.name)).Nodup := by
  induction es with
  | nil => intro i vars seen _ hc; simp [clashAux] at hc
  | cons e es ih =>
    intro i vars seen hseen hc
    cases e with
    | none => simpa [buildAux] using ih (i + 1) vars seen hseen (by simpa [clashAux] using hc)
    | some v =>
      simp only [buildAux]
      simp only [clashAux] at hc
      have step : ∀ u : Str, clashAux nm es (i + 1) (vars.length + 1) ((u, vars.length) :: seen) = true →
          ¬ ((buildAux .preserve nm es (i + 1) (vars ++ [⟨u, v, []⟩]) ((u, vars.length) :: seen)).map (·.name)).Nodup := by
        intro u hc'
        apply ih
        · intro n hn
          rw [lookup_cons_eq] at hn
          by_cases e : n = u
          · simp [e]
          · rw [if_neg e] at hn
            have := hseen n hn
            simp only [List.map_append, List.mem_append]
            exact Or.inl this
        · simpa using hc'
      cases hl : seen.lookup (nm v) with
      | none =>
        rw [hl] at hc
        exact step (nm v) hc
      | some idx =>
        rw [hl] at hc
        simp only [Bool.or_eq_true] at hc
        rcases hc with hc | hc
        · -- the suffixed name is already a variant name
          have hmem := hseen _ hc
          obtain ⟨rest, hp⟩ := preserve_names_prefix nm es (i + 1) (vars ++ [⟨nm v ++ natChars i, v, []⟩])
            ((nm v ++ natChars i, vars.length) :: seen)
          rw [hp]
          intro hnd
          have h1 := (List.nodup_append.1 hnd).1
          rw [List.map_append, List.nodup_append] at h1
          exact h1.2.2 _ hmem _ (by simp) rfl
        · exact step _ hc

theorem preserve_contract (nm : Str → Str) (es : List (Option Str)) :
    let vars := build .preserve nm es
    vars.map (·.rename) = strs es ∧ (∀ x ∈ vars, x.aliases = []) ∧
    (preserveClash nm es = false ↔ (vars.map (·.name)).Nodup) := by
  intro vars
  obtain ⟨h1, h2⟩ := preserve_shape nm es 0 [] []
  refine ⟨by simpa [vars, build] using h1, fun x hx => ?_, fun hc => ?_, fun hnd => ?_⟩
  · rcases h2 x hx with h | h
    · simp at h
    · exact h
  · exact preserve_nodup nm es 0 [] [] (by simp) (by simp) (by simpa [preserveClash] using hc)
  · cases hc : preserveClash nm es with
    | false => rfl
    | true =>
      exact absurd hnd (preserve_clash_dup nm es 0 [] [] (by simp [List.lookup]) (by simpa [preserveClash] using hc))

/-- when every variant has `rename` only, the derived decoder is "first variant whose rename is `s`" -/
theorem decodeStrict_rename_only {vars : List Variant} (hal : ∀ x ∈ vars, x.aliases = []) (s : Str) :
    (s ∈ vars.map (·.rename) → ∃ y ∈ vars, decodeStrict vars s = some y ∧ y.rename = s) ∧
    (∀ y, decodeStrict vars s = some y → y.rename = s) := by
  constructor
  · intro hs
    obtain ⟨x, hx, rfl⟩ := List.mem_map.1 hs
    obtain ⟨y, hy, hd, hh⟩ := decodeStrict_some (s := x.rename) ⟨x, hx, by simp [holds]⟩
    refine ⟨y, hy, hd, ?_⟩
    simpa [holds, hal y hy] using hh
  · intro y hy
    have := decodeStrict_mem hy
    simpa [holds, hal y this.1] using this.2

end Oas3.Enum
