import Oas3Model.Sem.Router
/-! Lemmas about the router semantics (C05): which request reaches which handler. Core Lean only. -/
set_option linter.unusedSimpArgs false
set_option linter.unusedVariables false
namespace Oas3.Router
open Oas3.ReqInterop

theorem best_mem : ∀ (l : List Route) (r : Route), best l = some r → r ∈ l
  | [], r, h => by simp [best] at h
  | a :: rest, r, h => by
    unfold best at h
    cases hb : best rest with
    | none => simp [hb] at h; subst h; simp
    | some b =>
      simp only [hb] at h
      split at h
      · simp at h; subst h; simp
      · simp at h; subst h; exact List.mem_cons_of_mem _ (best_mem rest b hb)

theorem best_none_iff (l : List Route) : best l = none ↔ l = [] := by
  cases l with
  | nil => simp [best]
  | cons a rest =>
    simp only [best]
    cases best rest <;> simp
    split <;> simp

theorem best_single (r : Route) : best [r] = some r := by simp [best]

/-- no pattern matches the path: 404, whatever the method -/
theorem dispatch_no_match (table : List Route) (method : Str) (path : List Str)
    (h : ∀ r ∈ table, routeMatch r.pattern path = none) : dispatch table method path = .notFound := by
  have : matching table path = [] := by
    unfold matching
    rw [List.filter_eq_nil_iff]
    intro r hr
    simp [h r hr]
  simp [dispatch, this, best]

/-- exactly one route of the table matches the path: the outcome is decided by that route's method table alone -/
theorem dispatch_unique (table : List Route) (method : Str) (path : List Str) (r : Route)
    (h : matching table path = [r]) : dispatch table method path = resolveMethod r method := by
  simp [dispatch, h, best]

theorem resolve_registered (r : Route) (m : Str) (id : Nat) (h : lookupM m r.methods = some id) :
    resolveMethod r m = .handler id := by simp [resolveMethod, h]

/-- a method that is not registered on the route — and that is not a HEAD the GET handler would serve — gets 405 -/
theorem resolve_unregistered (r : Route) (m : Str) (h : lookupM m r.methods = none)
    (hh : m ≠ mHEAD ∨ lookupM mGET r.methods = none) : resolveMethod r m = .methodNotAllowed := by
  unfold resolveMethod
  simp only [h]
  rcases hh with hh | hh
  · simp only [hh, if_false]
  · split
    · simp only [hh]
    · rfl

/-- HEAD without a HEAD handler is served by the GET handler -/
theorem resolve_head_get (r : Route) (id : Nat) (h : lookupM mHEAD r.methods = none)
    (hg : lookupM mGET r.methods = some id) : resolveMethod r mHEAD = .handler id := by
  simp [resolveMethod, h, hg]

/-- whatever the table: a request that reaches a handler reaches one that some route registered, under the requested method
or (HEAD) under GET, and that route matches the path -/
theorem dispatch_handler_sound (table : List Route) (method : Str) (path : List Str) (id : Nat)
    (h : dispatch table method path = .handler id) :
    ∃ r ∈ table, (routeMatch r.pattern path).isSome ∧
      (lookupM method r.methods = some id ∨ (method = mHEAD ∧ lookupM method r.methods = none ∧ lookupM mGET r.methods = some id)) := by
  unfold dispatch at h
  cases hb : best (matching table path) with
  | none => simp [hb] at h
  | some r =>
    simp only [hb] at h
    have hm := best_mem _ _ hb
    unfold matching at hm
    obtain ⟨hr, hmatch⟩ := List.mem_filter.mp hm
    refine ⟨r, hr, hmatch, ?_⟩
    unfold resolveMethod at h
    cases hl : lookupM method r.methods with
    | some i => simp only [hl, Outcome.handler.injEq] at h; left; rw [h]
    | none =>
      simp only [hl] at h
      split at h
      · rename_i hhead
        cases hg : lookupM mGET r.methods with
        | some i => simp only [hg, Outcome.handler.injEq] at h; right; exact ⟨hhead, rfl, by rw [h]⟩
        | none => simp only [hg] at h; exact absurd h (by simp)
      · exact absurd h (by simp)

/-- the router deviates from the declared methods in exactly one way: a HEAD request on a route with a GET and without a HEAD
handler reaches the GET handler instead of being refused with 405 -/
theorem dispatch_eq_strict_or_head (table : List Route) (method : Str) (path : List Str) :
    dispatch table method path = dispatchStrict table method path ∨
    (method = mHEAD ∧ dispatchStrict table method path = .methodNotAllowed ∧ ∃ id, dispatch table method path = .handler id) := by
  unfold dispatch dispatchStrict
  cases hb : best (matching table path) with
  | none => left; rfl
  | some r =>
    simp only []
    unfold resolveMethod resolveStrict
    cases hl : lookupM method r.methods with
    | some i => left; rfl
    | none =>
      simp only []
      by_cases hh : method = mHEAD
      · simp only [hh, if_true]
        cases hg : lookupM mGET r.methods with
        | none => left; rfl
        | some i => right; exact ⟨trivial, trivial, i, rfl⟩
      · left; simp only [hh, if_false]

theorem dispatch_eq_strict_of_not_head (table : List Route) (method : Str) (path : List Str) (h : method ≠ mHEAD) :
    dispatch table method path = dispatchStrict table method path := by
  rcases dispatch_eq_strict_or_head table method path with h' | ⟨h', _⟩
  · exact h'
  · exact absurd h' h

end Oas3.Router
