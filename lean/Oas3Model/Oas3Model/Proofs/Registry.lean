import Oas3Model.Model.Registry
/-
Helper lemmas for C08 (operation registry: `list`, `--only`, `--exclude`). Core Lean only.
The model `Oas3Model/Model/Registry.lean` is NOT modified.
-/
namespace Oas3.Registry
open Oas3.Naming

/-! ### `ensureUniqueSnake` adds no suffix to an unused id -/

theorem ensureUniqueSnake_of_not_mem {b : List Char} {used : List (List Char)} (h : b ∉ used) :
    ensureUniqueSnake b used = some b := by
  simp [ensureUniqueSnake, h]

/-! ### ingestion with pairwise distinct base ids -/

theorem ingest_nodup_base_acc (f : Filter) :
    ∀ (ops : List Op) (acc : List (Id × Op)),
      (ops.map baseId).Nodup →
      (∀ o ∈ ops, baseId o ∉ acc.map (·.1)) →
      ingest f ops acc =
        some (acc ++ (ops.filter (fun o => accepts f (baseId o))).map (fun o => (baseId o, o))) := by
  intro ops
  induction ops with
  | nil => intro acc _ _; simp [ingest]
  | cons o r ih =>
    intro acc hnd hdisj
    have hnd' : (r.map baseId).Nodup := by
      simp only [List.map_cons, List.nodup_cons] at hnd
      exact hnd.2
    have hnot : baseId o ∉ r.map baseId := by
      simp only [List.map_cons, List.nodup_cons] at hnd
      exact hnd.1
    cases hacc : accepts f (baseId o) with
    | false =>
      have hd' : ∀ o' ∈ r, baseId o' ∉ acc.map (·.1) :=
        fun o' ho' => hdisj o' (List.mem_cons_of_mem _ ho')
      simp only [ingest, hacc, Bool.not_false, if_true]
      rw [ih acc hnd' hd']
      simp [hacc]
    | true =>
      have hfresh : baseId o ∉ acc.map (·.1) := hdisj o (List.mem_cons_self)
      have hd' : ∀ o' ∈ r, baseId o' ∉ (acc ++ [(baseId o, o)]).map (·.1) := by
        intro o' ho' hmem
        simp only [List.map_append, List.map_cons, List.map_nil, List.mem_append,
          List.mem_singleton] at hmem
        cases hmem with
        | inl h => exact hdisj o' (List.mem_cons_of_mem _ ho') h
        | inr h => exact hnot (h ▸ List.mem_map_of_mem ho')
      simp only [ingest, hacc, Bool.not_true, Bool.false_eq_true, if_false,
        ensureUniqueSnake_of_not_mem hfresh]
      rw [ih _ hnd' hd']
      simp [hacc]

/-! ### `specOrder` is a permutation -/

theorem insertOp_perm (o : Op) : ∀ l : List Op, (insertOp o l).Perm (o :: l)
  | [] => by simp [insertOp]
  | x :: r => by
    unfold insertOp
    split
    · exact List.Perm.refl _
    · exact ((insertOp_perm o r).cons x).trans (List.Perm.swap o x r)

theorem foldl_insertOp_perm : ∀ (ops acc : List Op),
    (ops.foldl (fun acc o => insertOp o acc) acc).Perm (ops ++ acc)
  | [], acc => by simp
  | o :: r, acc => by
    simp only [List.foldl_cons]
    refine (foldl_insertOp_perm r (insertOp o acc)).trans ?_
    refine ((insertOp_perm o acc).append_left r).trans ?_
    simp

theorem specOrder_perm' (ops : List Op) : (specOrder ops).Perm ops := by
  simpa [specOrder] using foldl_insertOp_perm ops []

/-! ### zip of two maps -/

theorem zip_map_fst_snd {α β γ : Type} (f : α → β) (g : α → γ) :
    ∀ l : List α, (l.map f).zip (l.map g) = l.map (fun a => (f a, g a))
  | [] => rfl
  | a :: r => by simp [zip_map_fst_snd f g r]

/-! ### sub-selections: an executable enumeration of all sublists -/

def subseqs {α : Type} : List α → List (List α)
  | [] => [[]]
  | a :: r => subseqs r ++ (subseqs r).map (a :: ·)

theorem mem_subseqs_of_sublist {α : Type} {l ids : List α} (h : l.Sublist ids) : l ∈ subseqs ids := by
  induction h with
  | slnil => simp [subseqs]
  | cons a _ ih => exact List.mem_append_left _ ih
  | cons_cons a _ ih => exact List.mem_append_right _ (List.mem_map_of_mem ih)

end Oas3.Registry
