import Oas3Model.Model.Discr
/-!
# C14 — semantics of the emitted constructs (`Sem`, TRUSTED layer) and the judge `J`

`Sem` states what the emitted Rust does at run time, as far as the property observes it:

* tag-dispatching enum: `match value.get(TAG).and_then(|v| v.as_str())` — the first arm whose string
  literal equals the tag decodes the WHOLE value as that variant's payload type; `None` (tag absent or
  not a string) goes to the fallback variant if there is one, otherwise `missing_field`; any other
  string is an error.  `Serialize` delegates to the payload.
* struct field `#[serde(default, skip_deserializing)]` + `#[default(Some(v))]` (`FMode.fixed`): never
  read; after DECODING it is `None` and is omitted on encode (see `encodeTag`); in `Default::default()`
  values it is `Some(v)`;
  `#[serde(skip)]`: never read, never written (`FMode.skip`); ordinary field: read and written back.
* `#[serde(deny_unknown_fields)]`: a key of the document that is not a DESERIALISABLE field of the
  struct (skipped fields are not) is an error.

This layer is validated (not proved) against compiled code by the arena tie of `bin/check C14`
(thorough tier).  `J` is the property as a Boolean function of the input spec and a `Facts` value
(the implementation's, in the check).
-/
namespace Oas3.Discr

/-- a document that is a valid instance of some schema: its keys, and the value of the tag property -/
structure Doc where
  tagProp : Str
  tag : Option Str
  keys : List Str
  /-- string values of the OTHER keys (a second tag property of the member: its const / first enum value / "x") -/
  others : List (Str × Str) := []
  deriving DecidableEq, Repr

def findEnum (fx : Facts) (ty : Str) : Option EnumF := fx.enums.find? (fun e => e.name = ty)
def findStruct (fx : Facts) (ty : Str) : Option StructF := fx.structs.find? (fun s => s.name = ty)

def deserialisable (s : StructF) (k : Str) : Bool :=
  match look k s.fields with | some .plain => true | _ => false

def structAccepts (s : StructF) (d : Doc) : Bool := !s.deny || d.keys.all (deserialisable s)

def firstSome {α β : Type} (f : α → Option β) : List α → Option β
  | [] => none
  | a :: r => match f a with | some b => some b | none => firstSome f r

/-- decoding a document as payload type `ty`: the struct finally built, or `none` = error -/
def decT (fx : Facts) : Nat → Str → Doc → Option StructF
  | 0, _, _ => none
  | f + 1, ty, doc =>
    match findEnum fx ty with
    | some e =>
      if e.untagged then none     -- serde `untagged` is not modelled: such an enum is never tag-dispatching
      else
        let tagv := if e.tag = doc.tagProp then doc.tag else none
        match tagv with
        | some t => (match look t e.arms with | some ty' => decT fx f ty' doc | none => none)
        | none => (match e.fallback with | some ty' => decT fx f ty' doc | none => none)
    | none =>
      match findStruct fx ty with
      | some s => if structAccepts s doc then some s else none
      | none => none

/-- the type the top-level `match` of enum `e` dispatches a tag to -/
def dispatch (e : EnumF) (t : Str) : Option Str := if e.untagged then none else look t e.arms

/-- value of property `p` when a DECODED struct is encoded again (`read` = what the document carried).
A `fixed v` field is `#[serde(default, skip_deserializing)]`: serde fills a skipped field from the
FIELD-level `default` (= `Default::default()` of `Option<&str>` = `None`) — the field-level attribute takes
precedence over the container's `#[serde(default)]`, so the `#[default(Some(v))]` value is NOT used on decode —
and `#[serde_with::skip_serializing_none]` then omits it. -/
def encodeTag (s : StructF) (p : Str) (read : Option Str) : Option Str :=
  match look p s.fields with
  | some (.fixed _) => none
  | some .skip => none
  | some .plain => read
  | none => none

/-- value of property `p` when a value built with `Default::default()` (or a helper constructor) is encoded -/
def encodeDefaultTag (s : StructF) (p : Str) : Option Str :=
  match look p s.fields with
  | some (.fixed v) => some v
  | _ => none

-- ------------------------------------------------------------------------------------------
-- the property

inductive Clause where
  | emitted | tagDispatch | dispatch | accept | roundtrip | member | unmapped
  deriving DecidableEq, Repr

inductive Known where
  | memberNotInMapping   -- a union member / allOf child without a mapping entry is unreachable by any tag
  | tagLostOnDecode      -- hidden tag field is `None` after decoding, so re-encoding drops the tag property
  | sharedChild          -- one tag-cache entry per child: a child mapped by two discriminators gets the last writer's tag
  | unreachableChild     -- base enum drops mapping targets outside the operation-reachable set
  | denyUnknownTag       -- hidden tag field + deny_unknown_fields: the tag key itself is rejected
  | siteUntyped          -- the use site is typed `serde_json::Value` (nullable inline wrapper at a property, inline array items in a response)
  | implicitNotSynth     -- discriminator without `mapping` that is not written directly on a component: the const-implied mapping is never synthesised
  | namedTwin            -- inline union typed with the component union over the same member refs, whose discriminator differs
  | inlineTwin           -- inline union typed with an earlier inline union over the same refs + property name, whose mapping differs
  | arrayWrapperFlattened -- `[array-of-union, null]` wrapper is flattened to the union itself: the array (and an outer discriminator) is lost
  deriving DecidableEq, Repr

structure Failure where
  clause : Clause
  schema : Str
  tag : Str
  target : Str
  known : Option Known
  deriving DecidableEq, Repr

/-- the mapping the spec author states: explicit, or implied by unique string consts on all members -/
def intended (schemas : List (Str × Sch)) (s : Sch) : Option (List (Str × Str)) :=
  match s.disc with
  | none => none
  | some d =>
    match d.mapping with
    | some m => some m
    | none =>
      let vs := unionVariants s
      if vs.isEmpty then none else
      match synthGo schemas d.prop vs [] [] with
      | some st => some (mkMap (st.map (fun e => (e.2.value, e.1))))
      | none => none

/-- direct allOf children of `n` -/
def childrenOf (schemas : List (Str × Sch)) (n : Str) : List Str :=
  (schemas.filter (fun e => e.2.allOf.any (fun p => p = .ref n))).map (·.1)

def membersOf (schemas : List (Str × Sch)) (n : Str) (s : Sch) : List Str :=
  let u := if s.oneOf.isEmpty then s.anyOf else s.oneOf
  if u.isEmpty then childrenOf schemas n else u

/-- discriminator-bearing schemas that write the cache entry of `c` -/
def writers (schemas : List (Str × Sch)) (c : Str) : List Str :=
  (schemas.filter (fun e =>
    match e.2.disc with
    | none => false
    | some d =>
      match d.mapping with
      | some m => m.any (fun x => x.2 = c)
      | none => (match synthGo schemas d.prop (unionVariants e.2) [] [] with | some st => (look c st).isSome | none => false))).map (·.1)

def tagsFor (m : List (Str × Str)) (c : Str) : List Str := (m.filter (fun e => e.2 = c)).map (·.1)

/-- the schema a document with tag `t` is finally an instance of (nested unions follow their own mapping) -/
def leafOf (schemas : List (Str × Sch)) (p : Str) (t : Str) : Nat → Str → Str
  | 0, n => n
  | f + 1, n =>
    match look n schemas with
    | none => n
    | some s =>
      if s.oneOf.isEmpty && s.anyOf.isEmpty then n else
      match intended schemas s, s.disc with
      | some m, some d => if d.prop = p then (match look t m with | some n' => leafOf schemas p t f n' | none => n) else n
      | _, _ => n

/-- does schema `n` allow the value `t` for property `p` (a valid instance with that tag exists) -/
def permits (e : Env) (p t n : Str) : Bool :=
  match look n e.schemas with
  | none => false
  | some s =>
    match look p (e.merged s).props with
    | none => false      -- OpenAPI requires the discriminator property to be defined by every mapped schema
    | some pi => (match pi.const with | some c => c = t | none => true) && (pi.enumVals.isEmpty || pi.enumVals.contains t)

def validDoc (e : Env) (p t n : Str) : Doc :=
  let props := match look n e.schemas with | some s => (e.merged s).props | none => []
  let keys := props.map (·.1)
  { tagProp := p, tag := some t, keys := if keys.contains p then keys else keys ++ [p],
    others := (props.filter (fun x => x.1 ≠ p)).map (fun x =>
      (x.1, match x.2.const with | some c => c | none => (match x.2.enumVals with | v :: _ => v | [] => "x".toList))) }

def allTags (schemas : List (Str × Sch)) : List Str :=
  mkSet (schemas.flatMap (fun e =>
    (match e.2.disc with | some d => (match d.mapping with | some m => m.map (·.1) | none => []) | none => [])
      ++ e.2.props.filterMap (fun x => x.2.const)))

def unmappedProbe : Str := "~unmapped~".toList

/-- the last tag the (tag-ordered) mapping `m` gives to schema `c` -/
def lastOf : List Str → Option Str
  | [] => none
  | a :: r => match lastOf r with | some v => some v | none => some a

def lastTagFor (m : List (Str × Str)) (c : Str) : Option Str := lastOf (tagsFor m c)

def shared (sp : Spec) (c : Str) : Bool := decide ((writers sp.schemas c).length ≥ 2)

/-- is the property `p` of the struct built for schema `leaf` hidden (never read on decode)? -/
def tagHidden (e : Env) (p leaf : Str) : Bool :=
  match look leaf e.schemas with
  | none => false
  | some ls =>
    let lm := e.merged ls
    match look p lm.props with
    | some pi => (match fieldMode (look leaf e.cache) lm.disc p pi with | .plain => false | _ => true)
    | none => false

def leafDeny (e : Env) (leaf : Str) : Bool :=
  match look leaf e.schemas with | some ls => (e.merged ls).deny | none => false

/-- Known classes, each a predicate on the INPUT, consulted only for a failure of the matching clause:
* dispatch  — `unreachableChild`: allOf base, operation filter active, target outside the reachable set;
              `sharedChild`: mapping implied by const (rebuilt from the one-entry-per-child tag cache) and the
              target is written by another discriminator too;
* accept    — `denyUnknownTag`: the leaf struct is `deny_unknown_fields` and has a hidden (tag) field;
              `sharedChild`: the tag is routed to a nested union whose leaf is written by another discriminator;
* roundtrip — `tagLostOnDecode`: the leaf's tag field is hidden with a fixed value (`FMode.fixed`), i.e. the tag
              property is not enum-typed and the leaf has a tag-cache entry for it; `sharedChild`: the field is
              `#[serde(skip)]` because the leaf's single cache entry was taken by another discriminator;
* member    — `memberNotInMapping`: no mapping entry targets the member; `unreachableChild` as above;
* unmapped / tagDispatch — `sharedChild`: mapping implied by const and a member is shared. -/
def classDispatch (e : Env) (sp : Spec) (s : Sch) (explicit : Bool) (tgt : Str) : Option Known :=
  if (s.oneOf.isEmpty && s.anyOf.isEmpty) && e.reach.isSome && !isReach e.reach tgt then some .unreachableChild
  else if !explicit && shared sp tgt then some .sharedChild
  else none

/-- some property of the struct built for `leaf` is hidden (a tag property of this or another discriminator) -/
def anyHidden (e : Env) (leaf : Str) : Bool :=
  match look leaf e.schemas with
  | none => false
  | some ls => (e.merged ls).props.any (fun x => tagHidden e x.1 leaf)

def classAccept (e : Env) (sp : Spec) (tgt leaf : Str) : Option Known :=
  if leafDeny e leaf && anyHidden e leaf then some .denyUnknownTag
  else if tgt ≠ leaf && shared sp leaf then some .sharedChild      -- the nested union below rejects the tag (see dispatch)
  else none

/-- is the field for property `p` of the struct built for `leaf` a hidden tag with a fixed value? -/
def tagFixed (e : Env) (p leaf : Str) : Bool :=
  match look leaf e.schemas with
  | none => false
  | some ls =>
    let lm := e.merged ls
    match look p lm.props with
    | some pi => (match fieldMode (look leaf e.cache) lm.disc p pi with | .fixed _ => true | _ => false)
    | none => false

def classRoundtrip (e : Env) (sp : Spec) (p leaf : Str) : Option Known :=
  if tagFixed e p leaf then some .tagLostOnDecode
  -- the one cache entry of the leaf belongs to ANOTHER discriminator's property, so under an allOf base this
  -- property is treated as the base's own tag (`#[serde(skip)]`)
  else if tagHidden e p leaf && shared sp leaf then some .sharedChild
  else none

/-- a union, or a schema that carries a discriminator itself (its emitted type is an enum, not a struct) -/
def isUnionSch (schemas : List (Str × Sch)) (n : Str) : Bool :=
  match look n schemas with | some s => !(s.oneOf.isEmpty && s.anyOf.isEmpty) || s.disc.isSome | none => false

/-- the judge for ONE discriminator-bearing schema `n` that is in scope of the output -/
def judgeOne (sp : Spec) (fx : Facts) (n : Str) (s : Sch) : List Failure :=
  let e := envOf sp
  match s.disc, intended sp.schemas s with
  | some d, some m =>
    let p := d.prop
    let explicit := d.mapping.isSome
    let members := membersOf sp.schemas n s
    let isUnion := !(s.oneOf.isEmpty && s.anyOf.isEmpty)
    -- well-formedness of the configuration (otherwise the property says nothing)
    if !(m.all (fun x => (look x.2 sp.schemas).isSome)) || (isUnion && !(m.all (fun x => members.contains x.2))) then []
    else
    match findEnum fx n with
    | none => [⟨.emitted, n, [], [], none⟩]
    | some en =>
      if en.untagged then
        [⟨.tagDispatch, n, [], [], if !explicit && members.any (shared sp) then some .sharedChild else none⟩]
      else
      let fuel := sp.schemas.length + 2
      let perEntry := m.flatMap (fun x =>
        let t := x.1; let tgt := x.2
        let leaf := leafOf sp.schemas p t fuel tgt
        -- a nested union without a mapping of its own, or a discriminated base used as a union member:
        -- no notion of "the schema the tag maps to" below it (out of scope, stated in the manifest)
        if isUnionSch sp.schemas leaf then [] else
        if !permits e p t leaf then [] else
        let doc := validDoc e p t leaf
        if dispatch en t ≠ some tgt then [Failure.mk .dispatch n t tgt (classDispatch e sp s explicit tgt)]
        else
          match decT fx fuel n doc with
          | none => [Failure.mk .accept n t tgt (classAccept e sp tgt leaf)]
          | some st =>
            if encodeTag st p (some t) = some t then []
            else [Failure.mk .roundtrip n t tgt (classRoundtrip e sp p leaf)])
      let perMember := members.flatMap (fun c =>
        if en.arms.any (fun a => a.2 = c) then []
        else [Failure.mk .member n [] c
          (if !(m.any (fun x => x.2 = c)) then some .memberNotInMapping
           else if !isUnion && e.reach.isSome && !isReach e.reach c then some .unreachableChild else none)])
      let probes := (allTags sp.schemas ++ [unmappedProbe]).filter (fun t => (look t m).isNone)
      let perProbe := probes.flatMap (fun t =>
        match dispatch en t with
        | none => []
        | some ty => [Failure.mk .unmapped n t ty (if !explicit && shared sp ty then some .sharedChild else none)])
      perEntry ++ perMember ++ perProbe
  | _, _ => []

/-- `J`: all failures of the property on `fx` (empty = the property holds) -/
def judge (sp : Spec) (fx : Facts) : List Failure :=
  let reach := reachOf sp
  (sp.schemas.filter (fun x => x.2.disc.isSome && isReach reach x.1)).flatMap (fun x => judgeOne sp fx x.1 x.2)

def J (sp : Spec) (fx : Facts) : Bool := (judge sp fx).isEmpty

def dedupK : List Known → List Known
  | [] => []
  | a :: r => if (dedupK r).contains a then dedupK r else a :: dedupK r

/-- classes of the failures, or `[]` when some failure is in no known class -/
def knownOf (fs : List Failure) : List Known :=
  if fs.all (fun f => f.known.isSome) then dedupK (fs.filterMap (·.known)) else []

-- ------------------------------------------------------------------------------------------
-- use sites: semantics of `#[serde(untagged)]` and the judge for one use site

/-- what an `untagged` trial needs to know about a struct: keys that must be present, and string-valued keys
typed by a value enum (the permitted wire strings) -/
structure ShapeF where
  name : Str
  req : List Str
  allowed : List (Str × List Str)
  deriving DecidableEq, Repr, Inhabited

/-- does decoding `d` as struct `ty` succeed?  (`deny_unknown_fields`, missing required keys, enum-typed tag) -/
def shapeAccepts (fx : Facts) (shapes : List ShapeF) (d : Doc) (ty : Str) : Bool :=
  match findStruct fx ty with
  | none => false
  | some st =>
    structAccepts st d &&
    (match shapes.find? (fun sh => sh.name = ty) with
     | none => true
     | some sh =>
       sh.req.all (fun k => d.keys.contains k) &&
       (match look d.tagProp sh.allowed, d.tag with
        | some vs, some t => vs.contains t
        | _, _ => true) &&
       d.others.all (fun kv => match look kv.1 sh.allowed with | some vs => vs.contains kv.2 | none => true))

/-- serde `untagged`: the variants are tried IN ORDER, the first one that decodes wins -/
def firstAccepting (acc : Str → Bool) : List Str → Option Str
  | [] => none
  | t :: r => if acc t then some t else firstAccepting acc r

inductive Dec where
  | rejected
  | member (ty : Str)     -- decoded into the struct `ty`
  | untyped               -- kept as a `serde_json::Value`: nothing is selected, nothing is rejected
  deriving DecidableEq, Repr, Inhabited

/-- decoding one element document at a use site whose core type is `st` -/
def siteDecode (fx : Facts) (shapes : List ShapeF) (fuel : Nat) (st : SiteTy) (doc : Doc) : Dec :=
  if st.value then .untyped else
  match st.en with
  | none => .rejected
  | some e =>
    if e.untagged then
      (match firstAccepting (shapeAccepts fx shapes doc) e.types with | some t => .member t | none => .rejected)
    else
      let tagv := if e.tag = doc.tagProp then doc.tag else look e.tag doc.others
      let next := match tagv with | some t => look t e.arms | none => e.fallback
      match next with
      | none => .rejected
      | some ty => (match decT fx fuel ty doc with | some s => .member s.name | none => .rejected)

/-- Known class of a use site — a predicate on the INPUT (the spelling, the document around it, and where the
model says the type comes from); consulted only for failures at that site. -/
def siteClass (sp : Spec) (site : Site) (o : Origin) : Option Known :=
  let core := siteCore site.s
  match core.disc with
  | none => none
  | some d =>
    if o = .value then some .siteUntyped
    else if site.s.arr && site.s.wrap.isSome then some .arrayWrapperFlattened
    else
      let twin : Option Known := match o with
        | .named n => (match look n sp.schemas with
            | some s => if s.disc ≠ core.disc then some .namedTwin else none
            | none => none)
        | .earlier s => if s.disc ≠ core.disc then some .inlineTwin else none
        | _ => none
      match twin with
      | some k => some k
      | none =>
        if d.mapping.isNone then
          (if (unionRefs core).any (fun c => !(writers sp.schemas c).isEmpty) then some .sharedChild else some .implicitNotSynth)
        else none

def orK : Option Known → Option Known → Option Known
  | some k, _ => some k
  | none, b => b

/-- the judge for ONE use site: `st` is the type the EMITTED code has there -/
def judgeSite (sp : Spec) (fx : Facts) (shapes : List ShapeF) (site : Site) (st : SiteTy) (cls : Option Known) : List Failure :=
  let e := envOf sp
  let core := siteCore site.s
  match core.disc, intended sp.schemas core with
  | some d, some m =>
    let members := unionRefs core
    if !(m.all (fun x => members.contains x.2 && (look x.2 sp.schemas).isSome)) then [] else
    let p := d.prop
    if st.vec ≠ (if site.s.arr then 1 else 0) then [⟨.accept, site.id, [], [], cls⟩]   -- an array document against a non-array type (or vice versa)
    else
    let fuel := sp.schemas.length + 2
    let perEntry := m.flatMap (fun x =>
      let t := x.1; let tgt := x.2
      if isUnionSch sp.schemas tgt then [] else
      if !permits e p t tgt then [] else
      let doc := validDoc e p t tgt
      match siteDecode fx shapes fuel st doc with
      | .untyped => [Failure.mk .tagDispatch site.id t tgt cls]
      | .rejected => [Failure.mk .accept site.id t tgt (orK cls (classAccept e sp tgt tgt))]
      | .member ty =>
        if ty ≠ tgt then [Failure.mk .dispatch site.id t tgt cls]
        else match findStruct fx ty with
          | some s => if encodeTag s p (some t) = some t then [] else [Failure.mk .roundtrip site.id t tgt (orK (classRoundtrip e sp p tgt) cls)]
          | none => [])
    let perMember := match st.en with
      | some en =>
        if en.untagged then [] else
        members.flatMap (fun c =>
          if en.arms.any (fun a => a.2 = c) then []
          else [Failure.mk .member site.id [] c (if !(m.any (fun x => x.2 = c)) then some .memberNotInMapping else cls)])
      | none => []
    let perProbe := members.flatMap (fun c =>
      if isUnionSch sp.schemas c then [] else
      let doc := validDoc e p unmappedProbe c
      match siteDecode fx shapes fuel st doc with
      | .rejected => []
      | .untyped => [Failure.mk .unmapped site.id unmappedProbe c cls]
      | .member ty => [Failure.mk .unmapped site.id unmappedProbe ty cls])
    perEntry ++ perMember ++ perProbe
  | _, _ => []

end Oas3.Discr
