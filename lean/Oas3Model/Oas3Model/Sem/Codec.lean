import Oas3Model.Model.Codec
/-
TRUSTED semantics for property C02: what serde's derived `Deserialize`/`Serialize` (serde 1, serde_json,
serde_with::skip_serializing_none) do for exactly the shapes the generator emits, as the composite
`rt = encode ∘ decode`; a JSON-Schema evaluator `valid` for the fragment's type-level keywords
(cross-checked against python `jsonschema` Draft 2020-12 on every generated instance); and the
member-wise comparison `same` of the property statement.  Validated on compiled code by tie A.
-/
namespace Oas3.Codec

/-! ## helpers over lists (the recursion on types/schemas goes through closures) -/

def mapAll (f : J → Option J) : List J → Option (List J)
  | [] => some []
  | x :: xs => match f x, mapAll f xs with
    | some y, some ys => some (y :: ys)
    | _, _ => none

def mapVals (f : J → Option J) : List (Str × J) → Option (List (Str × J))
  | [] => some []
  | (k, v) :: xs => match f v, mapVals f xs with
    | some y, some ys => some ((k, y) :: ys)
    | _, _ => none

def all2 (f : J → J → Bool) : List J → List J → Bool
  | [], [] => true
  | x :: xs, y :: ys => f x y && all2 f xs ys
  | _, _ => false

/-- every entry of `xs` is in `ys` with a related value, and `ys` has no other key -/
def sameKvs (f : J → J → Bool) (xs ys : List (Str × J)) : Bool :=
  xs.all (fun kv => match lookup kv.1 ys with | some w => f kv.2 w | none => false) &&
  ys.all (fun kv => hasKey kv.1 xs)

def restOf (names : List Str) (kvs : List (Str × J)) : List (Str × J) := kvs.filter (fun kv => !names.contains kv.1)

/-! ## `rt`: decode with the derived `Deserialize`, encode with the derived `Serialize` -/

def holds (v : Variant) (s : Str) : Bool := v.wire == s || v.aliases.contains s

mutual
/-- `serde_json::to_value(serde_json::from_value::<T>(doc)?)`; `none` = the decoder returns `Err`.
For documents that are not valid against the schema only `isSome` is meant (what a container
`#[serde(default)]` fills in for a missing non-`Option` member is not modelled). -/
def rt : Ty → J → Option J
  | .string, j => match j with | .str s => some (.str s) | _ => none
  | .int lo hi, j => match j with
    | .num m 0 => if lo ≤ m ∧ m ≤ hi then some (.num m 0) else none
    | _ => none
  | .float _, j => match j with | .num m e => some (.num m e) | _ => none
  | .bool, j => match j with | .bool b => some (.bool b) | _ => none
  | .option t, j => if j.isNull then some .null else rt t j
  | .vec t, j => match j with
    | .arr xs => (mapAll (fun x => rt t x) xs).map .arr
    | _ => none
  | .map t, j => match j with
    | .obj kvs => (mapVals (fun x => rt t x) kvs).map .obj
    | _ => none
  | .enum vs, j => match j with
    | .str s => (vs.find? (holds · s)).map (fun v => .str v.wire)
    | _ => none
  | .struct fs flat deny cdef skip, j => match j with
    | .obj kvs =>
      match rtFields fs cdef skip kvs, rtFlat flat deny (restOf fs.wires kvs) with
      | some a, some b => some (.obj (a ++ b))
      | _, _ => none
    /- a derived struct `Deserialize` without a flattened member also implements `visit_seq`:
       a JSON array is read positionally -/
    | .arr xs => match flat with
      | .none => (rtSeq fs cdef skip xs).map .obj
      | .some _ => none
    | _ => none
  | .other, _ => none
def rtFields : Fields → Bool → Bool → List (Str × J) → Option (List (Str × J))
  | .nil, _, _, _ => some []
  | .cons _ w t d rest, cdef, skip, kvs =>
    match rtFields rest cdef skip kvs with
    | none => none
    | some r =>
      match lookup w kvs with
      | some v => match rt t v with
        | none => none
        | some o => if skip && t.isOption && o.isNull then some r else some ((w, o) :: r)
      | none =>
        if t.isOption then
          match (if cdef then d else none) with
          | some s => some ((w, .str s) :: r)            -- container default: the struct's `Default` has `Some(dflt)`
          | none => if skip then some r else some ((w, .null) :: r)
        else if cdef then some r                         -- filled from `Default::default()` (value not modelled)
        else none                                        -- "missing field"
def rtFlat : Flat → Bool → List (Str × J) → Option (List (Str × J))
  | .none, deny, rest => if deny && !rest.isEmpty then none else some []
  | .some t, _, rest => mapVals (fun x => rt t x) rest
def rtSeq : Fields → Bool → Bool → List J → Option (List (Str × J))
  | .nil, _, _, xs => if xs.isEmpty then some [] else none
  | .cons _ w t _ rest, cdef, skip, xs =>
    match xs with
    | [] => if cdef then some [] else none
    | x :: xs' => match rt t x, rtSeq rest cdef skip xs' with
      | some o, some r => if skip && t.isOption && o.isNull then some r else some ((w, o) :: r)
      | _, _ => none
end

/-! ## `valid`: JSON Schema (type, enum, items, properties, required, additionalProperties) -/

mutual
/-- `lenient = false`: validity as JSON Schema defines it.  `lenient = true`: the same, except that a
required member WITH a default may be missing and an optional member may be `null` — the complement
of the "type-level shape violations" of the property statement. -/
def valid (lenient : Bool) : S → J → Bool
  | .str, j => match j with | .str _ => true | _ => false
  | .int _, j => match j with | .num _ 0 => true | _ => false
  | .num _, j => match j with | .num _ _ => true | _ => false
  | .bool, j => match j with | .bool _ => true | _ => false
  | .enum vals, j => vals.any (fun v => v.scalarEq j)
  | .arr s, j => match j with | .arr xs => xs.all (fun x => valid lenient s x) | _ => false
  | .map s, j => match j with | .obj kvs => kvs.all (fun kv => valid lenient s kv.2) | _ => false
  | .nullable s, j => j.isNull || valid lenient s j
  | .strNum _, j => match j with | .str _ => true | _ => false        -- `format` is an annotation: any string is valid
  | .strFloat _, j => match j with | .str _ => true | _ => false
  | .strBytes, j => match j with | .str _ => true | _ => false
  | .single v, j => j.scalarEq (.str v)
  | .obj ps addl, j => match j with
    | .obj kvs => validProps lenient ps kvs && validAddl lenient addl (restOf ps.names kvs)
    | _ => false
def validProps (lenient : Bool) : Props → List (Str × J) → Bool
  | .nil, _ => true
  | .cons n s req d rest, kvs =>
    (match lookup n kvs with
     | some v => valid lenient s v || (lenient && !req && v.isNull)
     | none => !req || (lenient && d.isSome)) && validProps lenient rest kvs
def validAddl (lenient : Bool) : Addl → List (Str × J) → Bool
  | .closed, rest => rest.isEmpty
  | .absent, _ => true
  | .typed s, rest => rest.all (fun kv => valid lenient s kv.2)
end

/-! ## `same`: same value under the same wire name, absent ≈ null for optional members -/

mutual
def same : S → J → J → Bool
  | .str, a, b => a.scalarEq b
  | .int _, a, b => a.scalarEq b
  | .num _, a, b => a.scalarEq b
  | .bool, a, b => a.scalarEq b
  | .enum _, a, b => a.scalarEq b
  | .arr s, a, b => match a, b with
    | .arr xs, .arr ys => all2 (fun x y => same s x y) xs ys
    | _, _ => false
  | .map s, a, b => match a, b with
    | .obj xs, .obj ys => sameKvs (fun x y => same s x y) xs ys
    | _, _ => false
  | .nullable s, a, b => if a.isNull then b.isNull else (!b.isNull && same s a b)
  | .strNum _, a, b => a.scalarEq b
  | .strFloat _, a, b => a.scalarEq b
  | .strBytes, a, b => a.scalarEq b
  | .single _, a, b => a.scalarEq b
  | .obj ps addl, a, b => match a, b with
    | .obj xs, .obj ys =>
      sameProps ps xs ys && sameAddl addl (restOf ps.names xs) ys &&
      ys.all (fun kv => ps.names.contains kv.1 || hasKey kv.1 xs)
    | _, _ => false
def sameProps : Props → List (Str × J) → List (Str × J) → Bool
  | .nil, _, _ => true
  | .cons n s req d rest, xs, ys =>
    (match lookup n xs, lookup n ys with
     | some v, some w => same s v w
     | some v, none => v.isNull && !req
     | none, some w => (w.isNull && !req) || (match d with | some x => w.scalarEq (.str x) | none => false)
     | none, none => true) && sameProps rest xs ys
def sameAddl : Addl → List (Str × J) → List (Str × J) → Bool
  | .closed, _, _ => true
  | .absent, _, _ => true          -- undeclared members of an open object are not part of the type
  | .typed s, rest, ys => rest.all (fun kv => match lookup kv.1 ys with | some w => same s kv.2 w | none => false)
end

/-! ## the judge -/

/-- the property for one (schema, document) and the result `res` of decoding and re-encoding it
(`none` = the decoder returned `Err`): a valid document round-trips to a valid document with the same
members; a document with a type-level shape violation is rejected.  (The two conjuncts never both
apply: `valid false` implies `valid true`.) -/
def judgeRun (s : S) (doc : J) (res : Option J) : Bool :=
  (if valid false s doc then
    match res with
    | some out => valid false s out && same s doc out
    | none => false
   else true) &&
  (if valid true s doc then true else res.isNone)

/-- `J`: the property for one (schema, emitted type, document), through `Sem` -/
def judge (s : S) (t : Ty) (doc : J) : Bool := judgeRun s doc (rt t doc)

/-! ## characterised defect classes (where today's code violates the property) -/

inductive Known
  | nonStringEnum | enumAliasMerged | renamedDup | numericWidth
  | requiredNullDropped | requiredNullableMissing | containerDefault | structFromSeq
  | stringNumericFormat | stringByteFormat | singleValueEnum
  deriving DecidableEq, Repr

def Known.name : Known → String
  | .nonStringEnum => "KnownNonStringEnum" | .enumAliasMerged => "KnownEnumAliasMerged"
  | .renamedDup => "KnownRenamedDup" | .numericWidth => "KnownNumericWidth"
  | .requiredNullDropped => "KnownRequiredNullDropped" | .requiredNullableMissing => "KnownRequiredNullableMissing"
  | .containerDefault => "KnownContainerDefault" | .structFromSeq => "KnownStructFromSeq"
  | .stringNumericFormat => "KnownStringNumericFormat" | .stringByteFormat => "KnownStringByteFormat"
  | .singleValueEnum => "KnownSingleValueEnumIsString"

def isStr : J → Bool
  | .str _ => true
  | _ => false

/-- an EARLIER value of the list has the same variant name as `j` (so `j` became an alias) -/
def mergedInto (vname : J → Str) (j : J) : List J → Bool
  | [] => false
  | v :: vs => if v.scalarEq j then false else (vname v == vname j) || mergedInto vname j vs

def enumClasses (vname : J → Str) (vals : List J) (j : J) : List Known :=
  if vals.any (fun v => v.scalarEq j) then
    (if !isStr j then [.nonStringEnum] else if mergedInto vname j vals then [.enumAliasMerged] else [])
  else match j with
    | .str s => if vals.any (fun v => !isStr v && wireOf v == some s) then [.nonStringEnum] else []
    | _ => []

mutual
/-- the defect classes a (schema, document) pair falls in, position by position -/
def classes (fname : Str → Str) (vname : J → Str) : S → J → List Known
  | .str, _ => []
  | .num _, _ => []
  | .bool, _ => []
  | .int f, j => match j with
    | .num m 0 => if (intRange f).1 ≤ m ∧ m ≤ (intRange f).2 then [] else [.numericWidth]
    | _ => []
  | .enum vals, j => enumClasses vname vals j
  | .arr s, j => match j with | .arr xs => xs.flatMap (fun x => classes fname vname s x) | _ => []
  | .map s, j => match j with | .obj kvs => kvs.flatMap (fun kv => classes fname vname s kv.2) | _ => []
  | .nullable s, j => if j.isNull then [] else classes fname vname s j
  -- the member is a Rust number: every STRING (all of them valid) is refused, every in-range NUMBER (none of them valid) is read
  | .strNum _, j => match j with | .str _ => [.stringNumericFormat] | .num _ _ => [.stringNumericFormat] | _ => []
  | .strFloat _, j => match j with | .str _ => [.stringNumericFormat] | .num _ _ => [.stringNumericFormat] | _ => []
  -- the member is a `Vec<u8>`: every (base64) string is refused, an array of small integers is read
  | .strBytes, j => match j with | .str _ => [.stringByteFormat] | .arr _ => [.stringByteFormat] | _ => []
  -- the member is a `String`: every other string is read
  | .single v, j => match j with | .str s => if s == v then [] else [.singleValueEnum] | _ => []
  | .obj ps addl, j => match j with
    | .obj kvs => classesProps fname vname ps [] ps.anyDefault kvs ++ classesAddl fname vname addl (restOf ps.names kvs)
    | .arr _ => (match addl with | .typed _ => [] | _ => [.structFromSeq])
    | _ => []
def classesProps (fname : Str → Str) (vname : J → Str) : Props → List Str → Bool → List (Str × J) → List Known
  | .nil, _, _, _ => []
  | .cons n s req d rest, seen, cdef, kvs =>
    (match lookup n kvs with
     | some v =>
       (if seen.contains (fname n) && fname n == n then [.renamedDup] else []) ++
       (if req && s.isNullable && v.isNull then [.requiredNullDropped] else []) ++
       classes fname vname s v
     | none =>
       -- the default of a renamed duplicate is written back under the wrong wire name (`foo_bar_2`)
       (if seen.contains (fname n) && fname n == n && d.isSome then [.renamedDup] else []) ++
       (if req && d.isNone then
         (if s.isNullable then [.requiredNullableMissing] else if cdef then [.containerDefault] else [])
       else [])) ++ classesProps fname vname rest (seen ++ [fname n]) cdef kvs
def classesAddl (fname : Str → Str) (vname : J → Str) : Addl → List (Str × J) → List Known
  | .closed, _ => []
  | .absent, _ => []
  | .typed s, rest => rest.flatMap (fun kv => classes fname vname s kv.2)
end

end Oas3.Codec
