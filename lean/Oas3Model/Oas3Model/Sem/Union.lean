import Oas3Model.Model.Union
import Oas3Model.Sem.Codec
/-
TRUSTED semantics of `#[serde(untagged)]` on an enum of unit and newtype variants (serde_derive: the input is
buffered, the variants are tried in declaration order, the first that deserializes wins; a UNIT variant of an
untagged enum deserializes from — and serializes as — the JSON unit `null`, its `rename` plays no part), the
JSON-Schema meaning of `oneOf` / `anyOf` / `const`, and the property's judge for a union.  Validated on
compiled code by tie A (`codec.urun`).
-/
namespace Oas3.Codec

/-! a canonical text of a JSON value (used to compare what a `serde_json::Value` variant gives back) -/
mutual
def J.key : J → List Char
  | .null => ['n']
  | .bool b => if b then ['t'] else ['f']
  | .num m e => 'd' :: showInt m ++ 'e' :: showNat e
  | .str s => 's' :: showNat s.length ++ ':' :: s
  | .arr xs => '[' :: keyList xs ++ [']']
  | .obj kvs => '{' :: keyKvs kvs ++ ['}']
def keyList : List J → List Char
  | [] => []
  | x :: r => x.key ++ ',' :: keyList r
def keyKvs : List (Str × J) → List Char
  | [] => []
  | (k, v) :: r => showNat k.length ++ ':' :: k ++ v.key ++ ',' :: keyKvs r
end

def J.isObj : J → Bool
  | .obj _ => true
  | _ => false

def rtVar : UVar → J → Option J
  | .unit _, j => if j.isNull then some .null else none
  | .newtype t, j => rt t j
  | .value, j => some j                  -- `serde_json::Value` reads and writes every JSON value as it is

/-- decode with the derived untagged `Deserialize` (first variant that accepts), encode with the derived `Serialize` -/
def rtU : List UVar → J → Option J
  | [], _ => none
  | v :: r, j => match rtVar v j with
    | some o => some o
    | none => rtU r j

def validAlt (lenient : Bool) : Alt → J → Bool
  | .const v, j => j.scalarEq (.str v)
  | .null, j => j.isNull
  | .sch s, j => valid lenient s j
  | .free .obj, j => j.isObj
  | .free .objNull, j => j.isObj || j.isNull
  | .free .objClosed, j => match j with | .obj kvs => kvs.isEmpty | _ => false
  | .free .any, _ => true

def sameAlt : Alt → J → J → Bool
  | .const _, a, b => a.scalarEq b
  | .null, a, b => a.isNull && b.isNull
  | .sch s, a, b => same s a b
  | .free _, a, b => a.key == b.key

def matchCount (lenient : Bool) (alts : List Alt) (j : J) : Nat := (alts.filter (fun a => validAlt lenient a j)).length

/-- `oneOf`: exactly one alternative is valid; `anyOf`: at least one -/
def validU (oneOf lenient : Bool) (alts : List Alt) (j : J) : Bool :=
  if oneOf then matchCount lenient alts j == 1 else decide (1 ≤ matchCount lenient alts j)

/-- the property for one (union, document) and the result of decoding and re-encoding it: a valid document
round-trips to a valid document that is the same under EVERY alternative the document is valid against (each
of them declares members of the document); a document that is valid against no alternative — not even
leniently — is rejected. -/
def judgeRunU (oneOf : Bool) (alts : List Alt) (doc : J) (res : Option J) : Bool :=
  (if validU oneOf false alts doc then
    match res with
    | some out => validU oneOf false alts out && alts.all (fun a => !validAlt false a doc || sameAlt a doc out)
    | none => false
   else true) &&
  (if alts.any (fun a => validAlt true a doc) then true else res.isNone)

def rtRoot : URoot → J → Option J
  | .plain vs, j => rt (.enum vs) j
  | .untagged vs, j => rtU vs j

def judgeRoot (oneOf : Bool) (alts : List Alt) (t : URoot) (doc : J) : Bool := judgeRunU oneOf alts doc (rtRoot t doc)

def judgeU (oneOf : Bool) (alts : List Alt) (vs : List UVar) (doc : J) : Bool := judgeRunU oneOf alts doc (rtU vs doc)

/-! ## characterised defect classes of unions -/

inductive KnownU
  | constVariantIsUnit     -- a `const` alternative is a unit variant: its wire form is `null`, not the constant
  | unionNullDropped       -- a `{type: null}` alternative has no variant: `null` is refused
  | unionShadowed          -- an earlier variant accepts a document that a later alternative describes more fully
  | oneOfOutAmbiguous      -- `oneOf`: the re-encoded document is valid against more than one alternative
  | relaxedDropsAlternatives  -- `anyOf` turned into Known/Other: alternatives that are not strings have no variant
  | valueVariantAcceptsAnything  -- a free-form object alternative is a `serde_json::Value` variant: it accepts every JSON value
  deriving DecidableEq, Repr

def KnownU.name : KnownU → String
  | .constVariantIsUnit => "KnownConstVariantIsUnit"
  | .unionNullDropped => "KnownUnionNullDropped"
  | .unionShadowed => "KnownUnionShadowed"
  | .oneOfOutAmbiguous => "KnownOneOfOutAmbiguous"
  | .relaxedDropsAlternatives => "KnownRelaxedDropsAlternatives"
  | .valueVariantAcceptsAnything => "KnownValueVariantAcceptsAnything"

/-- index of the first variant that accepts the document -/
def firstAccept : List UVar → J → Nat → Option Nat
  | [], _, _ => none
  | v :: r, j, i => if (rtVar v j).isSome then some i else firstAccept r j (i + 1)

/-- variant index of every alternative (`none` for a skipped `null` alternative) -/
def altVariantIdx : List Alt → Nat → List (Alt × Option Nat)
  | [], _ => []
  | .null :: r, i => (.null, none) :: altVariantIdx r i
  | a :: r, i => (a, some i) :: altVariantIdx r (i + 1)

def classesU (fname : Str → Str) (vname : J → Str) (oneOf : Bool) (alts : List Alt) (doc : J) : List KnownU :=
  if !oneOf && relaxedPattern alts then
    (match doc with | .str _ => [] | _ => [KnownU.relaxedDropsAlternatives])
  else
  let vs := unionTy fname vname alts
  let fa := firstAccept vs doc 0
  (if allUnit alts then [] else match doc with
   | .str s => if alts.any (fun a => match a with | .const v => v == s | _ => false) then [KnownU.constVariantIsUnit] else []
   | .null => if alts.any Alt.isConst then [KnownU.constVariantIsUnit] else []
   | _ => []) ++
  (if doc.isNull && alts.any Alt.isNullAlt then [KnownU.unionNullDropped] else []) ++
  (if (altVariantIdx alts 0).any (fun p => validAlt false p.1 doc && p.2.isSome && fa.isSome && p.2 != fa) then [KnownU.unionShadowed] else []) ++
  (if alts.any (fun a => match a with | .free _ => true | _ => false) && !alts.any (fun a => validAlt true a doc) then [KnownU.valueVariantAcceptsAnything] else []) ++
  (match oneOf, rtRoot (unionRoot fname vname alts) doc with
   | true, some out => if matchCount false alts doc == 1 && decide (2 ≤ matchCount false alts out) then [KnownU.oneOfOutAmbiguous] else []
   | _, _ => [])

end Oas3.Codec
