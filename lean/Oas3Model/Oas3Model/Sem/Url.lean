/-
Semantics of `url::PathSegmentsMut::push` on a special (http/https) URL and of percent-decoding
(url 2.5, percent-encoding 2.3 as pinned in /repo/Cargo.lock) — trusted layer, validated by tie K.
Byte level: a segment value is its UTF-8 bytes.
-/
namespace Oas3.Url

def hexDigit (n : Nat) : Char := if n < 10 then Char.ofNat (48 + n) else Char.ofNat (55 + n)

/-- SPECIAL_PATH_SEGMENT = CONTROLS ∪ {space " < > ` # ? { } / % \} ; non-ASCII is always encoded -/
def mustEncode (b : UInt8) : Bool :=
  b < 0x20 || b ≥ 0x7F || b == 0x20 || b == 0x22 || b == 0x3C || b == 0x3E || b == 0x60 ||
  b == 0x23 || b == 0x3F || b == 0x7B || b == 0x7D || b == 0x2F || b == 0x25 || b == 0x5C

def encodeByte (b : UInt8) : List Char :=
  if mustEncode b then ['%', hexDigit (b.toNat / 16), hexDigit (b.toNat % 16)] else [Char.ofNat b.toNat]

def encodeBytes (bs : List UInt8) : List Char := bs.flatMap encodeByte

def isTabNl (b : UInt8) : Bool := b == 0x09 || b == 0x0A || b == 0x0D

def hexVal (c : Char) : Option Nat :=
  if c.isDigit then some (c.toNat - 48)
  else if 'A' ≤ c && c ≤ 'F' then some (c.toNat - 55)
  else if 'a' ≤ c && c ≤ 'f' then some (c.toNat - 87)
  else none

/-- `percent_decode` -/
def pctDecode : List Char → List UInt8
  | '%' :: a :: b :: r =>
    match hexVal a, hexVal b with
    | some x, some y => UInt8.ofNat (x * 16 + y) :: pctDecode r
    | _, _ => 0x25 :: pctDecode (a :: b :: r)
  | c :: r => UInt8.ofNat c.toNat :: pctDecode r
  | [] => []

/-- path after `push(seg)`; `path` is the serialised path so far (starts with '/'). -/
def push (path : List Char) (seg : List UInt8) : List Char :=
  if seg == [0x2E] || seg == [0x2E, 0x2E] then path           -- "." and ".." are skipped
  else
    let path0 := path
    let path := if path.length > 1 then path ++ ['/'] else path
    let enc := encodeBytes (seg.filter (fun b => !isTabNl b))
    if enc == ['.', '.'] then
      -- TAB/LF/CR removal produced "..": the previous segment is removed (shorten_path);
      -- the '/' just added goes too, and at the root "/" nothing can be removed
      let p := path0
      -- "/api/v2" becomes "/api/": the slash before the removed segment stays
      (p.reverse.dropWhile (· != '/')).reverse
    else if enc == ['.'] then path
    else path ++ enc

end Oas3.Url
