/-
TRUSTED semantics (Sem) of the constructs oas3-gen emits for a string enum (property C15), on JSON
STRING inputs.  Not verified here; validated in the thorough tier by compiling the emitted code in an
arena crate and comparing every decode/encode with these functions (tie A).

* `#[derive(Deserialize)]` on a unit-variant enum with `rename`/`alias`: serde_derive emits ONE
  `match` over the strings, one arm per variant in declaration order, each arm `rename | alias…`;
  the first arm that contains the string wins; no arm → `unknown_variant` error.
* `#[derive(Serialize)]`: a unit variant is written as its `rename`.
* the hand-written `Deserialize` impl: Rust `match` on string literals, first arm wins, `_` arm last.
* `#[serde(untagged)] enum { Known(T), Other(String) }`: `T` is tried first, then `String` (which
  accepts every JSON string verbatim); `Serialize` writes the payload.
* two variants with one identifier do not compile (so `decode` is only meaningful when the variant
  names are pairwise different — the judge checks that first).
-/
import Oas3Model.Model.Enum

namespace Oas3.Enum

def holds (x : Variant) (s : Str) : Bool := x.rename == s || x.aliases.contains s

def decodeStrict (vs : List Variant) (s : Str) : Option Variant := vs.find? (holds · s)

def byName (vs : List Variant) (n : Str) : Option Variant := vs.find? (·.name == n)

def decodeCustom (vs : List Variant) (lower : Bool) (arms : List Arm) (fb : Option Str) (s : Str) : Option Variant :=
  match arms.find? (·.key == (if lower then lowerS s else s)) with
  | some a => byName vs a.target
  | none => fb.bind (byName vs)

/-- decoding a JSON string into the (inner) enum; `none` = rejected -/
def decode (e : Emitted) (s : Str) : Option Variant :=
  match e.de with
  | .derive => decodeStrict e.variants s
  | .custom lower arms fb => decodeCustom e.variants lower arms fb s

def encode (x : Variant) : Str := x.rename

/-- what a JSON string becomes at the type that carries the schema (`E`, or the `Known/Other` wrapper) -/
inductive Wire
  | known (x : Variant)
  | other (s : Str)
  | reject
deriving DecidableEq, Repr

def decodeWire (e : Emitted) (s : Str) : Wire :=
  match decode e s with
  | some x => .known x
  | none => if e.wrapped then .other s else .reject

def encodeWire : Wire → Option Str
  | .known x => some (encode x)
  | .other s => some s
  | .reject => none

end Oas3.Enum
