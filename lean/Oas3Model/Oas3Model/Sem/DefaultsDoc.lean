import Oas3Model.Sem.Defaults
import Oas3Model.Model.DefaultsDoc
/-!
TRUSTED layer for C17 on documents: the property per site, relative to the traits the emitted struct REALLY
derives in the run at hand.

* decoding only exists where `Deserialize` is derived: **if the struct derives `Deserialize` then decoding a
  document that omits the member must give the declared default** (otherwise nothing is claimed about decoding);
* `Default::default()` and the builder are always observable;
* encoding only exists where `Serialize` is derived; the value that is encoded is the decoded one when the
  struct can be decoded, `T::default()` otherwise.
-/
namespace Oas3.Defaults

/-- Sem on one member of a struct that derives `sd` -/
def observeU (nat : JVal) (builders : Bool) (sd : Serde) (f : Facts) : Obs :=
  let d := decodeOmitted nat f
  let dv := defaultVal nat f
  { dec := d, dflt := dv, bld := if builders then some (builderUnset nat f) else none,
    enc := encodeOf f (if sd.de then d else dv) }

/-- the property for one member at one site -/
def JU (m : Member) (sd : Serde) (o : Obs) : Bool :=
  match expected m with
  | none => true
  | some x =>
    (!sd.de || o.dec == some x) && o.dflt == some x &&
    (match o.bld with | some b => b == some x | none => true) &&
    (x == .sc .null || !sd.ser || o.enc == some x)

/-- a QUERY parameter with a default in a SERVER run: the parameter struct derives `Deserialize` (it is the
target of `axum::extract::Query`) and its members carry `#[default(..)]`, but parameter structs never get the
container `#[serde(default)]`: an omitted parameter decodes to `None` (or `missing field` when required). -/
def KnownQueryParamDefaultNotDecoded (t : Target) (s : Site) (m : Member) : Bool :=
  t == .server && s.kind == .query && (match expected m with | some x => x != .sc .null | none => false)

def knownClassesU (t : Target) (s : Site) (m : Member) : List String :=
  knownClasses (s.member m) ++
  (if KnownQueryParamDefaultNotDecoded t s m then ["KnownQueryParamDefaultNotDecoded"] else [])

/-- the judge of one site on a list of per-member facts (the implementation's, or the model's): every
well-formed member must satisfy `JU` under the derives `sd` -/
def JSite (s : Site) (sd : Serde) (facts : List (List Char × Facts)) : Bool :=
  s.members.all fun nm =>
    let m := s.member nm.2
    !(WF m) ||
    (match facts.lookup nm.1 with
     | some f => JU m sd (observeU (natural m) m.builders sd f)
     | none => false)

/-- the per-site judge of a whole document on one list of site facts -/
def JDoc {κ : Type} (sites : List (DocSite κ)) (facts : List SiteFacts) : List Bool :=
  (sites.zip facts).map fun (d, f) => JSite d.site f.serde f.members

end Oas3.Defaults
