import Oas3Model.Model.Defaults
/-!
TRUSTED layer for C17: what the constructs the generator emits MEAN at run time, and the property
as a decidable predicate.

* value of an emitted default expression at the field's Rust type (`eval`): rustc typing of the
  seven expression shapes, the deny-by-default `overflowing_literals` lint, `Default::default()` of
  the std types / of a generated unit enum (its `#[default]` first variant) / of a generated
  all-optional struct;
* `better_default::Default` (re-exported as `oas3_gen_support::Default`): a field carrying
  `#[default(e)]` is initialised with `e`, every other field with `Default::default()`;
* serde: struct-level `#[serde(default)]` fills every missing member from `Self::default()`;
  without it a missing `Option` member is `None` and a missing non-`Option` member is an error;
* bon: `#[builder(default = e)]` / `skip = e` give `e` when the setter is not called; an `Option`
  member without attribute is `None`;
* `#[serde_with::skip_serializing_none]` / plain `Serialize`: `Some(v)` and non-`Option` members are
  always written, `None` is omitted.

Run-time values are observed as JSON (`JVal`); `None` and an absent member are both `null`.
Floating point values are identified with the decimal they were written as (the check only
generates decimals with few significant digits, for which Rust's shortest-round-trip printing and
the f32/f64 literal rounding are exact inverses; tie A measures this on compiled code).
-/
namespace Oas3.Defaults

/-- JSON image of `<P as Default>::default()` for a primitive / std / chrono / uuid type -/
def naturalPrim : Prim → JVal
  | .string | .staticStr => .sc (.str [])
  | .bool => .sc (.bool false)
  | .other n =>
    if n = "chrono::NaiveDate".toList then .sc (.str "1970-01-01".toList)
    else if n = "chrono::DateTime<chrono::Utc>".toList then .sc (.str "1970-01-01T00:00:00Z".toList)
    else if n = "uuid::Uuid".toList then .sc (.str "00000000-0000-0000-0000-000000000000".toList)
    else if n = "Vec<u8>".toList then .arr []
    else .sc .null
  | _ => .sc (.int 0)

/-- JSON image of `<T as Default>::default()` for the member's base type `T` (not `Option`). -/
def naturalBase (k : Kind) : JVal :=
  match k with
  | .scalar ty f => naturalPrim (scalarPrim ty f)
  | .enumStr vals => .sc (.str (vals.headD []))      -- first variant carries `#[default]`
  | .object _ => .obj []                             -- all members `None`, all skipped on encode

def natural (m : Member) : JVal := if m.isArray then .arr [] else naturalBase m.kind

/-- value of an expression at the NON-optional type `T` (`nat` = JSON image of `T::default()`);
`none` = does not compile -/
def evalBase (nat : JVal) (base : Prim) (isArray : Bool) : Expr → Option JVal
  | .dflt => some nat
  | .strToString s => if base = .string ∧ !isArray then some (.sc (.str s)) else none
  | .stringNew => if base = .string ∧ !isArray then some (.sc (.str [])) else none
  | .staticStr s => if base = .staticStr ∧ !isArray then some (.sc (.str s)) else none
  | .ilit v p => if base = p ∧ !isArray ∧ p.inRange v then some (.sc (.int v)) else none
  | .flit mm e p => if base = p ∧ !isArray ∧ p.isFloat then some (if e = 0 then .sc (.int mm) else .sc (.dec mm e)) else none
  | .blit b => if base = .bool ∧ !isArray then some (.sc (.bool b)) else none
  | .none => none
  | .some _ => none

/-- value of an expression at the field's type -/
def eval (nat : JVal) (t : FTy) (e : Expr) : Option JVal :=
  if t.nullable then
    match e with
    | .none => some (.sc .null)
    | .some x => evalBase nat t.base t.isArray x
    | .dflt => some (.sc .null)            -- `Default::default()` at `Option<T>`
    | _ => none
  else evalBase nat t.base t.isArray e

/-- what can be observed on the compiled type -/
structure Obs where
  /-- the member after decoding a document that omits it (`none`: decode error / does not compile) -/
  dec : Option JVal
  /-- the member of `T::default()` -/
  dflt : Option JVal
  /-- the member of `T::builder().build()` (outer `none`: builders are off) -/
  bld : Option (Option JVal)
  /-- the member in the encoding of the decoded value (`none`: not written) -/
  enc : Option JVal
  deriving DecidableEq, Repr

/-- `T::default().m`  (`nat` = JSON image of `Default::default()` at the member's base type) -/
def defaultVal (nat : JVal) (f : Facts) : Option JVal :=
  if !f.deriveDefault then none
  else match f.defaultAttr with
    | some e => eval nat f.ty e
    | none => some (if f.ty.nullable then .sc .null else nat)

def decodeOmitted (nat : JVal) (f : Facts) : Option JVal :=
  if f.structSerdeDefault then defaultVal nat f
  else if f.ty.nullable then some (.sc .null) else none

def builderUnset (nat : JVal) (f : Facts) : Option JVal :=
  if !f.deriveBuilder then none
  else match f.builderAttr with
    | some (.default e) => eval nat f.ty e
    | some (.skip e) => eval nat f.ty e
    | none => if f.ty.nullable then some (.sc .null) else none

def encodeOf (f : Facts) (v : Option JVal) : Option JVal :=
  match v with
  | some (.sc .null) => none
  | some x => if f.fieldSkipsSerializing then none else some x
  | none => none

/-- Sem: facts ↦ observations -/
def observeN (nat : JVal) (builders : Bool) (f : Facts) : Obs :=
  let d := decodeOmitted nat f
  { dec := d, dflt := defaultVal nat f, bld := if builders then some (builderUnset nat f) else none, enc := encodeOf f d }

def observe (m : Member) (f : Facts) : Obs := observeN (natural m) m.builders f

/-! ## The declared default as a value of the member's type -/

/-- at most 15 significant decimal digits: the range in which decimal → f64 → shortest decimal is the
identity (DBL_DIG); outside it a float member cannot hold the written value and nothing is claimed -/
def exact15 (m : Int) : Bool := decide (m.natAbs < 1000000000000000)

/-- what a declared default scalar denotes at primitive `p` (matching JSON type, or the
string-encoded form for the coercible targets); `none`: ill-typed / out of range / not covered -/
def expectScalar (p : Prim) (v : Scalar) : Option Scalar :=
  match p, v with
  | .string, .str s => some (.str s)
  | .bool, .bool b => some (.bool b)
  | .bool, .str s => if s = "true".toList then some (.bool true) else if s = "false".toList then some (.bool false) else none
  | p, .int i =>
    if p.isSInt then (if p.inRange i ∧ i64Min ≤ i ∧ i ≤ i64Max then some (.int i) else none)
    else if p.isUInt then (if p.inRange i ∧ 0 ≤ i ∧ i ≤ u64Max then some (.int i) else none)
    else if p.isFloat then (if exact15 i then some (.int i) else none) else none
  | p, .dec mm e => if p.isFloat ∧ e ≠ 0 ∧ exact15 mm then some (.dec mm e) else none
  | p, .str s =>
    if p.isSInt then (match parseI64 s with | some i => if p.inRange i then some (.int i) else none | none => none)
    else if p.isUInt then (match parseU64 s with | some i => if p.inRange i then some (.int i) else none | none => none)
    else if p.isFloat then (match parseF64 s with | some (mm, e) => if exact15 mm then some (if e = 0 then .int mm else .dec mm e) else none | none => none)
    else none
  | _, _ => none

def allSome {α : Type} : List (Option α) → Option (List α)
  | [] => some []
  | some x :: r => (allSome r).map (x :: ·)
  | none :: _ => none

/-- the declared default `v` as a value of the member (ignoring `Option`) -/
def expectAt (m : Member) (v : JVal) : Option JVal :=
  if m.isArray then
    match m.kind, v with
    | .scalar ty f, .arr xs => (allSome (xs.map (expectScalar (scalarPrim ty f)))).map .arr
    | _, _ => none
  else
    match m.kind, v with
    | .scalar ty f, .sc s =>
      (match scalarPrim ty f, s with
       | .other _, .str t => some (.sc (.str t))          -- formatted strings (date, uuid, …)
       | p, s => (expectScalar p s).map .sc)
    | .enumStr vals, .sc (.str s) => if s ∈ vals then some (.sc (.str s)) else none
    | .object keys, .obj kvs =>
      if kvs.all (fun kv => keys.contains kv.1 && (match kv.2 with | .str _ => true | _ => false)) then some (.obj kvs) else none
    | _, _ => none

def expected (m : Member) : Option JVal := m.default?.bind (expectAt m)

/-! ## The property -/

/-- J: decode-with-member-omitted, `Default`, and (builders on) builder-unset all give the declared
default, and encoding writes it. -/
def J (m : Member) (o : Obs) : Bool :=
  match expected m with
  | none => true                       -- no (well-typed) declared default: nothing is claimed
  | some x =>
    o.dec == some x && o.dflt == some x &&
    (match o.bld with | some b => b == some x | none => true) &&
    (x == .sc .null || o.enc == some x)

/-- well-formed member of the feature grammar with a declared, well-typed default -/
def WF (m : Member) : Bool :=
  (expected m).isSome &&
  -- arrays and nullable only around scalars; a nullable array is not in the grammar
  (!m.isArray || (match m.kind with | .scalar .. => true | _ => false)) &&
  (!m.nullable || ((match m.kind with | .scalar .. => true | _ => false) && !m.isArray)) &&
  -- an enum type has ≥ 2 values, the first of which is its `#[default]`
  (match m.kind with | .enumStr vals => decide (2 ≤ vals.length) | _ => true)

/-! ## Known defect classes (each one a decidable predicate on the input) -/

/-- an enum-typed member declares a default that is not the enum's first value:
`Default::default()` is emitted, i.e. the first variant. -/
def KnownEnumDefaultIsFirst (m : Member) : Bool :=
  match m.kind, m.default? with
  | .enumStr vals, some (.sc (.str s)) => !m.isArray && vals.contains s && s != vals.headD []
  | _, _ => false

/-- an array member declares a non-empty default: `is_array` is ignored by the coercion and an
array value coerces to `Default::default()`, i.e. the empty vector. -/
def KnownArrayDefaultLost (m : Member) : Bool :=
  m.isArray && (match m.default? with | some (.arr xs) => !xs.isEmpty | _ => false)

/-- an object-typed member declares a non-empty object default: `Default::default()` of the
generated struct (all members unset) is emitted. -/
def KnownObjectDefaultLost (m : Member) : Bool :=
  match m.kind, m.default? with
  | .object _, some (.obj kvs) => !m.isArray && !kvs.isEmpty
  | _, _ => false

/-- a string member with a non-primitive format (date, date-time, uuid, …) declares a default other
than the Rust type's own `Default`: `Default::default()` is emitted. -/
def KnownFormatDefaultLost (m : Member) : Bool :=
  match m.kind, m.default? with
  | .scalar ty f, some (.sc (.str s)) =>
    !m.isArray && (match scalarPrim ty f with | .other _ => true | _ => false) && JVal.sc (.str s) != naturalBase m.kind
  | _, _ => false

/-- builders on, the member ended up `Option<T>` (it has a `default`, or is not required) and the
declared default is not null: `with_builder_attrs` emits no `#[builder(default = …)]` for nullable
fields, so `T::builder().build()` leaves it `None` while `T::default()` / decoding give `Some(d)`. -/
def KnownBuilderUnsetNone (m : Member) : Bool :=
  m.builders && (convert m).ty.nullable && (match expected m with | some x => x != .sc .null | none => false)

def knownClasses (m : Member) : List String :=
  (if KnownEnumDefaultIsFirst m then ["KnownEnumDefaultIsFirst"] else []) ++
  (if KnownArrayDefaultLost m then ["KnownArrayDefaultLost"] else []) ++
  (if KnownObjectDefaultLost m then ["KnownObjectDefaultLost"] else []) ++
  (if KnownFormatDefaultLost m then ["KnownFormatDefaultLost"] else []) ++
  (if KnownBuilderUnsetNone m then ["KnownBuilderUnsetNone"] else [])

/-! ## Judge of the coercion alone (K tie) -/

/-- a `TypeRef` with a primitive, non-array base: the literal must evaluate to what the JSON value
denotes at that type.  Nothing is claimed for other types or ill-typed values at this level. -/
def expectLit (t : FTy) (v : JVal) : Option JVal :=
  if t.isArray then none
  else match v with
    | .sc .null => if t.nullable then some (.sc .null) else none
    | .sc s => (match t.base with | .other _ => none | .staticStr => none | p => (expectScalar p s).map .sc)
    | _ => none

def JLit (t : FTy) (v : JVal) (e : Expr) : Bool :=
  match expectLit t v with
  | none => true
  | some x => eval (if t.isArray then .arr [] else naturalPrim t.base) t e == some x

end Oas3.Defaults
