/-
Semantics of the `eventsource-stream` 0.2.3 crate (pinned in /repo/Cargo.lock), the *inner* stream
that `oas3-gen-support::EventStream` wraps.  Trusted/validated layer (tie K runs the real crate).

* `scan`     = `parser::line`'s framing: content up to the first CR/LF + end_of_line (CRLF | CR | LF);
               nom *streaming* combinators make a buffer without terminator, or ending in a bare CR,
               `Incomplete` (= `none`).
* `classify` = comment / field(name, value) / empty.
* `drainAll` = `parse_event` called until it returns `Ok(None)`: the events now available.
* `Utf8Stream` = byte layer (`utf8Split`: longest valid prefix is emitted, the rest is kept).
Only `data` matters to the wrapper (event/id/retry are ignored by it), so the builder is the data buffer.
-/
namespace Oas3.Sse

/-- `line` framing. `none` = nom `Incomplete`. -/
def scan : List Char → Option (List Char × List Char)
  | [] => none
  | '\n' :: r => some ([], r)
  | '\r' :: [] => none
  | '\r' :: '\n' :: r => some ([], r)
  | '\r' :: r => some ([], r)
  | c :: r =>
    match scan r with
    | some (l, r') => some (c :: l, r')
    | none => none

inductive RawLine
  | empty
  | comment
  | field (name : List Char) (value : List Char)
  deriving DecidableEq, Repr

/-- value part of a field line after the name: `opt(':' opt(' ') any*)`, `None` ↦ "" -/
def fieldValue : List Char → List Char
  | ':' :: ' ' :: v => v
  | ':' :: v => v
  | _ => []

def classify (content : List Char) : RawLine :=
  match content with
  | [] => .empty
  | ':' :: _ => .comment
  | _ => .field (content.takeWhile (· != ':')) (fieldValue (content.dropWhile (· != ':')))

theorem scan_lt : ∀ (b l r : List Char), scan b = some (l, r) → r.length < b.length := by
  intro b
  fun_induction scan b <;> intro l r h <;> simp_all <;> try omega
  all_goals (try (obtain ⟨_, rfl⟩ := h; simp; try omega))

/-- `EventBuilder::add` restricted to what the wrapper can observe (the data buffer). -/
def addLine (data : List Char) : RawLine → List Char
  | .field name v => if name == "data".toList then data ++ v ++ ['\n'] else data
  | _ => data

/-- `parse_event` iterated: all events (their `data`, trailing LF stripped) available in `buf`,
with the remaining buffer and builder data. An empty-line with an empty builder dispatches nothing. -/
def drainAll (buf : List Char) (data : List Char) : List Char × List Char × List (List Char) :=
  match h : scan buf with
  | none => (buf, data, [])
  | some (l, r) =>
    have : r.length < buf.length := scan_lt buf l r h
    match classify l with
    | .empty =>
      if data.isEmpty then drainAll r []
      else
        let (b', d', evs) := drainAll r []
        (b', d', data.dropLast :: evs)
    | ln => drainAll r (addLine data ln)
termination_by buf.length

/-! ### UTF-8 layer (`Utf8Stream`) -/

def isCont (b : UInt8) : Bool := 0x80 ≤ b && b ≤ 0xBF

/-- decode one scalar at the head. `some (c, n)` = valid sequence of `n` bytes; `none` = invalid or incomplete. -/
def decode1 : List UInt8 → Option (Char × Nat)
  | [] => none
  | b0 :: rest =>
    if b0 < 0x80 then some (Char.ofNat b0.toNat, 1)
    else if 0xC2 ≤ b0 && b0 ≤ 0xDF then
      match rest with
      | b1 :: _ => if isCont b1 then some (Char.ofNat ((b0.toNat - 0xC0) * 64 + (b1.toNat - 0x80)), 2) else none
      | _ => none
    else if 0xE0 ≤ b0 && b0 ≤ 0xEF then
      match rest with
      | b1 :: b2 :: _ =>
        let lo : UInt8 := if b0 == 0xE0 then 0xA0 else 0x80
        let hi : UInt8 := if b0 == 0xED then 0x9F else 0xBF
        if lo ≤ b1 && b1 ≤ hi && isCont b2 then
          some (Char.ofNat ((b0.toNat - 0xE0) * 4096 + (b1.toNat - 0x80) * 64 + (b2.toNat - 0x80)), 3)
        else none
      | _ => none
    else if 0xF0 ≤ b0 && b0 ≤ 0xF4 then
      match rest with
      | b1 :: b2 :: b3 :: _ =>
        let lo : UInt8 := if b0 == 0xF0 then 0x90 else 0x80
        let hi : UInt8 := if b0 == 0xF4 then 0x8F else 0xBF
        if lo ≤ b1 && b1 ≤ hi && isCont b2 && isCont b3 then
          some (Char.ofNat ((b0.toNat - 0xF0) * 262144 + (b1.toNat - 0x80) * 4096 + (b2.toNat - 0x80) * 64 + (b3.toNat - 0x80)), 4)
        else none
      | _ => none
    else none

/-- `String::from_utf8` + `valid_up_to`: decoded longest valid prefix, and the bytes after it. -/
def utf8Split (bs : List UInt8) : List Char × List UInt8 :=
  match h : decode1 bs with
  | none => ([], bs)
  | some (c, n) =>
    if hn : n = 0 ∨ bs.length < n then ([], bs) else
    have : (bs.drop n).length < bs.length := by simp; omega
    let (cs, rem) := utf8Split (bs.drop n)
    (c :: cs, rem)
termination_by bs.length

/-! ### the inner stream as seen by its consumer -/

inductive In
  | chunk (bytes : List UInt8)
  | pending
  deriving Repr

inductive InnerOut
  | pending
  | ev (data : List Char)
  | utf8Err
  | done
  | panic                 -- the crate panics (see `feedChars`)
  deriving DecidableEq, Repr

structure St where
  bytes : List UInt8 := []      -- Utf8Stream.buffer
  buf : List Char := []         -- EventStream.buffer
  data : List Char := []        -- EventBuilder.event.data
  started : Bool := false
  deriving Repr

def bom : Char := Char.ofNat 0xFEFF

/-- push one decoded string (empty strings are ignored), then drain.
`none` = the crate PANICS: on the first non-empty string it strips a leading BOM with `&string[1..]`,
a byte index inside the 3-byte BOM ("byte index 1 is not a char boundary"). Faithfully modelled. -/
def feedChars (st : St) (s : List Char) : Option (St × List (List Char)) :=
  match s with
  | [] => some (st, [])
  | c :: _ =>
    if !st.started && c == bom then none else
    let (b, d, evs) := drainAll (st.buf ++ s) st.data
    some ({ st with buf := b, data := d, started := true }, evs)

def feedBytes (st : St) (chunk : List UInt8) : Option (St × List (List Char)) :=
  let (cs, rem) := utf8Split (st.bytes ++ chunk)
  feedChars { st with bytes := rem } cs

/-- the sequence of results of polling the inner stream until it ends, for a scripted transport. -/
def innerRun (st : St) : List In → List InnerOut
  | [] => if st.bytes.isEmpty then [.done] else [.utf8Err, .done]
  | .pending :: rest => .pending :: innerRun st rest
  | .chunk bs :: rest =>
    match feedBytes st bs with
    | none => [.panic]
    | some (st', evs) => evs.map .ev ++ innerRun st' rest

end Oas3.Sse
