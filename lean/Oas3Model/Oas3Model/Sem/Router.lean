import Oas3Model.Model.ReqInterop
/-
STATED semantics of the axum 0.8 router for the tables the generator emits (`Router::new().route(pattern, get(h).put(h2)…)`),
compared with the REAL axum on every run (K tie `route.dispatch`, harness/src/k_route.rs):

* path → route: the patterns that match the request path segment by segment (`ReqInterop.routeMatch`, matchit 0.8.4);
  when several match, the one that is literal at the first segment where they differ in kind wins (static beats `{param}`),
  and there is NO backtracking to another route when the method is missing on the chosen one;
* no route → 404;
* route → method: the handler registered for the method; a HEAD request is served by the GET handler when no HEAD handler
  is registered (axum's `MethodRouter`); otherwise 405.
-/
namespace Oas3.Router
open Oas3.ReqInterop

structure Route where
  pattern : List PSeg
  methods : List (Str × Nat)        -- method (upper case) ↦ handler id
  deriving Repr

inductive Outcome
  | handler (id : Nat)
  | notFound
  | methodNotAllowed
  deriving DecidableEq, Repr

/-- `a` is preferred to `b` for a path both match: at the first segment where one is a literal and the other a capture, the
literal wins (captures with a longer literal prefix before shorter ones) -/
def prefer : List PSeg → List PSeg → Bool
  | .lit _ :: _, .cap _ _ :: _ => true
  | .cap _ _ :: _, .lit _ :: _ => false
  | .cap p _ :: r, .cap q _ :: s => if p.length != q.length then p.length > q.length else prefer r s
  | _ :: r, _ :: s => prefer r s
  | _, _ => true

def best : List Route → Option Route
  | [] => none
  | r :: rest => match best rest with
    | none => some r
    | some b => if prefer r.pattern b.pattern then some r else some b

def lookupM (m : Str) : List (Str × Nat) → Option Nat
  | [] => none
  | (k, v) :: r => if k = m then some v else lookupM m r

def mGET : Str := ['G', 'E', 'T']
def mHEAD : Str := ['H', 'E', 'A', 'D']

def resolveMethod (r : Route) (method : Str) : Outcome :=
  match lookupM method r.methods with
  | some id => .handler id
  | none =>
    if method = mHEAD then
      (match lookupM mGET r.methods with
       | some id => .handler id
       | none => .methodNotAllowed)
    else .methodNotAllowed

/-- what the DOCUMENT declares for a matched path: the operation under exactly that method, nothing else -/
def resolveStrict (r : Route) (method : Str) : Outcome :=
  match lookupM method r.methods with
  | some id => .handler id
  | none => .methodNotAllowed

def matching (table : List Route) (path : List Str) : List Route :=
  table.filter fun r => (routeMatch r.pattern path).isSome

def dispatch (table : List Route) (method : Str) (path : List Str) : Outcome :=
  match best (matching table path) with
  | none => .notFound
  | some r => resolveMethod r method

/-- the reference of the property: same path resolution, methods exactly as declared -/
def dispatchStrict (table : List Route) (method : Str) (path : List Str) : Outcome :=
  match best (matching table path) with
  | none => .notFound
  | some r => resolveStrict r method

end Oas3.Router
