/-
Decoration model for the presentation flags (C18): a type definition skeleton (what goes on the
wire) and the decorations the flags may add. `decorate cfg skel` is what the generator is allowed to
emit; `erase` removes exactly the documented decorations.
-/
namespace Oas3.Flags

structure FieldSk where
  name : List Char
  ty : List Char
  attrs : List (List Char)          -- serde / validate / default … (wire-relevant)
  deriving DecidableEq, Repr

structure TypeSk where
  kind : List Char                  -- struct | enum | type
  name : List Char
  derives : List (List Char)
  attrs : List (List Char)
  fields : List FieldSk
  deriving DecidableEq, Repr

inductive Vis | pub | crate | file
  deriving DecidableEq, Repr

structure Cfg where
  vis : Vis
  builders : Bool
  deriving DecidableEq, Repr

structure FieldD where
  sk : FieldSk
  vis : Vis
  builderAttrs : List (List Char)   -- `builder(...)` attributes
  deriving DecidableEq, Repr

structure TypeD where
  sk : TypeSk                       -- with the decorated derive list below kept apart
  vis : Vis
  builderDerive : Bool
  fields : List FieldD
  deriving DecidableEq, Repr

def isBuilderAttr (a : List Char) : Bool := "builder(".toList.isPrefixOf a || a == "builder".toList

/-- the documented decorations: visibility on the item and its fields; with builders on, the
`bon::Builder` derive on structs and `#[builder(..)]` attributes chosen per field by `battrs`. -/
def decorate (cfg : Cfg) (battrs : FieldSk → List (List Char)) (t : TypeSk) : TypeD :=
  { sk := { t with fields := [] }, vis := cfg.vis, builderDerive := cfg.builders && t.kind == "struct".toList,
    fields := t.fields.map fun f => { sk := f, vis := cfg.vis, builderAttrs := if cfg.builders then (battrs f).filter isBuilderAttr else [] } }

/-- what the judge compares: drop visibility, the builder derive and builder attributes -/
def erase (d : TypeD) : TypeSk := { d.sk with fields := d.fields.map (·.sk) }

end Oas3.Flags
