/-
Model of `ast/parsed_path.rs`: PathSegment::tokenize / parse / build_mixed / to_axum_segment,
ParsedPath::parse / to_axum_path; and of what `PathSegment::to_tokens` emits (`.push(..)` calls).
-/
namespace Oas3.Path

inductive Part
  | lit (s : List Char)
  | param (name : List Char)
  deriving DecidableEq, Repr

inductive TokErr | unclosed | emptyParam | unmatchedClose | nested
  deriving DecidableEq, Repr

mutual
/-- scanning literal text; `acc` is the literal so far (reversed) -/
def tokLit (acc : List Char) : List Char → Except TokErr (List Part)
  | [] => .ok (if acc.isEmpty then [] else [.lit acc.reverse])
  | c :: r =>
    if c == '}' then .error .unmatchedClose
    else if c == '{' then
      match tokParam [] r with
      | .ok ps => .ok ((if acc.isEmpty then [] else [.lit acc.reverse]) ++ ps)
      | .error e => .error e
    else tokLit (c :: acc) r
/-- scanning a parameter name after `{` -/
def tokParam (acc : List Char) : List Char → Except TokErr (List Part)
  | [] => .error .unclosed
  | c :: r =>
    if c == '}' then
      if acc.isEmpty then .error .emptyParam
      else match tokLit [] r with
        | .ok ps => .ok (.param acc.reverse :: ps)
        | .error e => .error e
    else if c == '{' then (if r.contains '}' then .error .nested else .error .unclosed)
    else tokParam (c :: acc) r
end

def tokenize (seg : List Char) : Except TokErr (List Part) := tokLit [] seg

inductive Segment
  | literal (s : List Char)
  | param (field : List Char)
  | mixed (format : List Char) (params : List (List Char))
  deriving DecidableEq, Repr

/-- declared path parameters: original name ↦ Rust field name; later entries win (HashMap collect). -/
def fieldOf (decl : List (List Char × List Char)) (name : List Char) : List Char :=
  match decl.reverse.find? (fun p => p.1 == name) with
  | some p => p.2
  | none => name            -- `FieldNameToken::new(name)`: the raw template name

def formatOf : List Part → List Char
  | [] => []
  | .lit l :: r => l ++ formatOf r
  | .param _ :: r => '{' :: '}' :: formatOf r

def paramsOf (decl : List (List Char × List Char)) : List Part → List (List Char)
  | [] => []
  | .lit _ :: r => paramsOf decl r
  | .param n :: r => fieldOf decl n :: paramsOf decl r

def segmentOfParts (decl : List (List Char × List Char)) (seg : List Char) (parts : List Part) : Segment :=
  match parts with
  | [] => .literal []
  | [.lit l] => .literal l
  | [.param n] => .param (fieldOf decl n)
  | _ => if (paramsOf decl parts).isEmpty then .literal seg else .mixed (formatOf parts) (paramsOf decl parts)

def parseSegment (decl : List (List Char × List Char)) (seg : List Char) : Except TokErr Segment :=
  match tokenize seg with
  | .ok parts => .ok (segmentOfParts decl seg parts)
  | .error e => .error e

def splitOn (sep : Char) : List Char → List (List Char)
  | [] => [[]]
  | c :: r =>
    if c == sep then [] :: splitOn sep r
    else match splitOn sep r with
      | h :: t => (c :: h) :: t
      | [] => [[c]]

def splitOnce (sep : Char) : List Char → List Char × Option (List Char)
  | [] => ([], none)
  | c :: r => if c == sep then ([], some r) else
    let (a, b) := splitOnce sep r
    (c :: a, b)

structure Parsed where
  segments : List Segment
  query : Option (List Char)
  deriving DecidableEq, Repr

def mapM' {α β ε} (f : α → Except ε β) : List α → Except ε (List β)
  | [] => .ok []
  | a :: r => match f a with
    | .error e => .error e
    | .ok b => match mapM' f r with
      | .error e => .error e
      | .ok bs => .ok (b :: bs)

def parsePath (decl : List (List Char × List Char)) (path : List Char) : Except TokErr Parsed :=
  let (p, q) := splitOnce '?' path
  let segs := (splitOn '/' p).filter (fun s => !s.isEmpty)
  match mapM' (parseSegment decl) segs with
  | .ok ss => .ok { segments := ss, query := q }
  | .error e => .error e

/-- the segments of a template as HTTP sees them: the text between the slashes after the leading one, EMPTY ones included
(`/items/` has the segments `items`, `` — it is another path than `/items`); the root `/` has none -/
def templateSegments (path : List Char) : List (List Char) :=
  match (splitOnce '?' path).1 with
  | ['/'] => []
  | '/' :: r => splitOn '/' r
  | r => splitOn '/' r

/-- `to_axum_segment` for Mixed: each `{}` of the format replaced, left to right, by `{param}`. -/
def fillFormat : List Char → List (List Char) → List Char
  | [], _ => []
  | '{' :: '}' :: r, p :: ps => '{' :: p ++ '}' :: fillFormat r ps
  | c :: r, ps => c :: fillFormat r ps

def axumSegment : Segment → List Char
  | .literal l => l
  | .param f => '{' :: f ++ ['}']
  | .mixed fmt ps => fillFormat fmt ps

def axumPath (p : Parsed) : List Char :=
  if p.segments.isEmpty then ['/'] else p.segments.flatMap (fun s => '/' :: axumSegment s)

/-- number of `{}` placeholders of a Rust format string that has no other braces -/
def countPlaceholders : List Char → Nat
  | '{' :: '}' :: r => countPlaceholders r + 1
  | _ :: r => countPlaceholders r
  | [] => 0

/-- a format template is safe when, after removing `{}` pairs, no brace is left -/
def formatSafe : List Char → Bool
  | '{' :: '}' :: r => formatSafe r
  | c :: r => c != '{' && c != '}' && formatSafe r
  | [] => true

end Oas3.Path
