/-
C16 — model of the validation pipeline of oas3-gen.

Rust anchors (read from /repo, modelled as they ARE):
* `converter/fields.rs: FieldConverter::extract_all_validation`            → `extract`
* `ast/validation_attrs.rs: ValidationAttribute::{range,length}, ToTokens`  → `rangeAttr`, `lengthAttr`
* `ast/types.rs: RustPrimitive::{from_format,format_number}, render_integer,
   render_unsigned_integer`                                                 → `fromFormat`, `renderNum`
* `converter/type_resolver.rs: primitive / format_or_default`               → `typeRefOf`
* `utils/schema_ext.rs: is_numeric / is_freeform_string / is_array`         → `Cons.isNumeric` …

Numbers are exact decimals (`Num`), strings are `List Char`.  Core Lean only.
-/
namespace Oas3.Valid

abbrev Name := List Char

/-! ### numbers -/

/-- a JSON number `m · 10^-e`; `f` = it was written with a fraction or an exponent (serde_json then
stores an `f64`, so `as_i64`/`as_u64` fail even when the value is integral). -/
structure Num where
  m : Int
  e : Nat
  f : Bool
deriving DecidableEq, Repr, Inhabited

namespace Num
def ofInt (n : Int) : Num := ⟨n, 0, false⟩
def le (a b : Num) : Bool := decide (a.m * (10 : Int) ^ b.e ≤ b.m * (10 : Int) ^ a.e)
def lt (a b : Num) : Bool := decide (a.m * (10 : Int) ^ b.e < b.m * (10 : Int) ^ a.e)
/-- the token denotes an integer that serde_json keeps as i64/u64 -/
def isIntTok (n : Num) : Bool := !n.f && n.e == 0
end Num

/-! ### Rust primitives -/

inductive Prim
  | i8 | i16 | i32 | i64 | u8 | u16 | u32 | u64 | f32 | f64
  | string | bytes | date | dateTime | time | duration | uuid | bool | value
deriving DecidableEq, Repr, Inhabited

namespace Prim
def isFloat : Prim → Bool
  | f32 | f64 => true
  | _ => false

/-- inclusive value range of the integer primitives -/
def range : Prim → Option (Int × Int)
  | i8 => some (-128, 127)
  | i16 => some (-32768, 32767)
  | i32 => some (-2147483648, 2147483647)
  | i64 => some (-9223372036854775808, 9223372036854775807)
  | u8 => some (0, 255)
  | u16 => some (0, 65535)
  | u32 => some (0, 4294967295)
  | u64 => some (0, 18446744073709551615)
  | _ => none

def isInt (p : Prim) : Bool := p.range.isSome

def name : Prim → List Char
  | i8 => "i8".toList | i16 => "i16".toList | i32 => "i32".toList | i64 => "i64".toList
  | u8 => "u8".toList | u16 => "u16".toList | u32 => "u32".toList | u64 => "u64".toList
  | f32 => "f32".toList | f64 => "f64".toList
  | string => "String".toList | bytes => "Vec<u8>".toList | date => "chrono::NaiveDate".toList
  | dateTime => "chrono::DateTime<chrono::Utc>".toList | time => "chrono::NaiveTime".toList
  | duration => "chrono::Duration".toList | uuid => "uuid::Uuid".toList | bool => "bool".toList
  | value => "serde_json::Value".toList
end Prim

def i64Min : Int := -9223372036854775808
def i64Max : Int := 9223372036854775807
def u64Max : Int := 18446744073709551615

/-- `RustPrimitive::from_format` -/
def fromFormat (f : List Char) : Option Prim :=
  if f == "int8".toList then some .i8 else if f == "int16".toList then some .i16
  else if f == "int32".toList then some .i32 else if f == "int64".toList then some .i64
  else if f == "uint8".toList then some .u8 else if f == "uint16".toList then some .u16
  else if f == "uint32".toList then some .u32 else if f == "uint64".toList then some .u64
  else if f == "float".toList then some .f32 else if f == "double".toList then some .f64
  else if f == "date".toList then some .date else if f == "date-time".toList then some .dateTime
  else if f == "time".toList then some .time else if f == "duration".toList then some .duration
  else if f == "byte".toList || f == "binary".toList then some .bytes
  else if f == "uuid".toList then some .uuid
  else none

/-! ### the schema fragment -/

inductive JT | string | integer | number | boolean | array | object
deriving DecidableEq, Repr, Inhabited

/-- `schema_type`: `Single t`, `Multiple [t, null]`, anything else -/
inductive TySet | single (t : JT) | nullable (t : JT) | other
  /-- `anyOf | oneOf: [<schema of type t with the keywords>, {type: null}]` (what pydantic / FastAPI write for an optional
  constrained member): the OUTER schema has neither `type` nor keywords, the member's type comes from the unwrapped variant -/
  | wrapped (t : JT)
deriving DecidableEq, Repr, Inhabited

/-- the constraint keywords of one schema object (the part of `ObjectSchema` the mechanism reads) -/
structure Cons where
  ty : TySet
  format : Option (List Char) := none
  hasEnum : Bool := false          -- `enum` non-empty or `const` present
  minimum : Option Num := none
  maximum : Option Num := none
  exMin : Option Num := none
  exMax : Option Num := none
  minLength : Option Nat := none
  maxLength : Option Nat := none
  pattern : Option (List Char) := none
  minItems : Option Nat := none
  maxItems : Option Nat := none
deriving DecidableEq, Repr, Inhabited

namespace Cons
/-- `SchemaExt::is_numeric`: `Single(Number | Integer)` only -/
def isNumeric (c : Cons) : Bool :=
  match c.ty with
  | .single .integer | .single .number => true
  | _ => false
/-- `is_freeform_string`: single or nullable string, no enum / const -/
def isFreeformString (c : Cons) : Bool :=
  (match c.ty with
   | .single .string | .nullable .string => true
   | _ => false) && !c.hasEnum
/-- `is_array`: `Single(Array)` only -/
def isArray (c : Cons) : Bool :=
  match c.ty with
  | .single .array => true
  | _ => false
def jt (c : Cons) : Option JT :=
  match c.ty with
  | .single t | .nullable t | .wrapped t => some t
  | .other => none
def tyNullable (c : Cons) : Bool :=
  match c.ty with
  | .nullable _ | .wrapped _ => true
  | _ => false
def isWrapped (c : Cons) : Bool :=
  match c.ty with
  | .wrapped _ => true
  | _ => false
def hasNumericKw (c : Cons) : Bool := c.minimum.isSome || c.maximum.isSome || c.exMin.isSome || c.exMax.isSome
def hasStringKw (c : Cons) : Bool := c.minLength.isSome || c.maxLength.isSome || c.pattern.isSome
def hasArrayKw (c : Cons) : Bool := c.minItems.isSome || c.maxItems.isSome
def isEmailFmt (c : Cons) : Bool := c.format == some "email".toList
def isUrlFmt (c : Cons) : Bool := c.format == some "uri".toList || c.format == some "url".toList
end Cons

/-- `TypeResolver::format_or_default` for a scalar schema (string / number / integer) -/
def primOf (c : Cons) : Prim :=
  match c.jt with
  | some .string => ((c.format.bind fromFormat).getD .string)
  | some .number => ((c.format.bind fromFormat).getD .f64)
  | some .integer => ((c.format.bind fromFormat).getD .i64)
  | some .boolean => .bool
  | _ => .value

/-- the part of `TypeRef` the mechanism reads -/
structure TRef where
  base : Prim
  nullable : Bool
deriving DecidableEq, Repr, Inhabited

/-! ### literals and attributes (what is emitted) -/

/-- a numeric literal inside `range(..)` -/
inductive Lit
  | tmin (p : Prim)                       -- `i8::MIN`
  | tmax (p : Prim)                       -- `i8::MAX`
  | int (n : Int) (suf : Option Prim)     -- `1_000i32` / `5`
  | flt (n : Num)                         -- a well-formed float literal, e.g. `2.5`, `1.0`, `1.5e300`
  | bad (txt : List Char)                 -- not a Rust literal (`1e-7.0`)
deriving DecidableEq, Repr, Inhabited

inductive VAttr
  | email | url | nested
  | length (min max : Option Nat)
  | range (p : Prim) (min max xmin xmax : Option Lit)
  | regex (pat : List Char)
deriving DecidableEq, Repr, Inhabited

/-! ### rendering of numbers (`format_number`, `render_integer`, `render_unsigned_integer`) -/

/-- `render_integer(primitive, value: i64)` -/
def renderInteger (p : Prim) (v : Int) : Lit :=
  match p with
  | .i8 => if v ≤ -128 then .tmin .i8 else if v ≥ 127 then .tmax .i8 else .int v (some .i8)
  | .i16 => if v ≤ -32768 then .tmin .i16 else if v ≥ 32767 then .tmax .i16 else .int v (some .i16)
  | .i32 => if v ≤ -2147483648 then .tmin .i32 else if v ≥ 2147483647 then .tmax .i32 else .int v (some .i32)
  | .i64 => .int v (some .i64)
  | _ => .int v none

/-- `render_unsigned_integer(primitive, value: u64)` -/
def renderUnsigned (p : Prim) (v : Int) : Lit :=
  match p with
  | .u8 => if v ≥ 255 then .tmax .u8 else .int v (some .u8)
  | .u16 => if v ≥ 65535 then .tmax .u16 else .int v (some .u16)
  | .u32 => if v ≥ 4294967295 then .tmax .u32 else .int v (some .u32)
  | .u64 => .int v (some .u64)
  | _ => .int v none

def natDigits (n : Nat) : List Char := (Nat.toDigits 10 n)

/-- number of decimal digits of a positive mantissa -/
def digitCount (n : Nat) : Nat := (natDigits n).length

/-- `serde_json::Number::to_string()` of an `f64` token (ryu "pretty" format), for decimals whose
shortest representation is the decimal itself (≤ 15 significant digits): `kk` = position of the
decimal point relative to the digit string; plain notation iff `-5 < kk ≤ 16`. -/
def floatText (n : Num) : List Char :=
  let neg := n.m < 0
  let ds := natDigits n.m.natAbs                -- significant digits (mantissa is normalised)
  let len := ds.length
  let sign := if neg then ['-'] else []
  if n.m == 0 then "0.0".toList
  else
    let kk : Int := (len : Int) - (n.e : Int)
    if n.e == 0 then
      -- integral value: digits then ".0" up to 1e16, exponent form above (mantissa has trailing zeros there)
      let stripped := (ds.reverse.dropWhile (· == '0')).reverse
      if len ≤ 16 then sign ++ ds ++ ".0".toList
      else
        let ex := natDigits (len - 1)
        match stripped with
        | [d] => sign ++ [d] ++ "e+".toList ++ ex
        | d :: rest => sign ++ [d, '.'] ++ rest ++ "e+".toList ++ ex
        | [] => sign ++ ds
    else if 0 < kk then
      sign ++ ds.take kk.toNat ++ ['.'] ++ ds.drop kk.toNat
    else if -5 < kk then
      sign ++ "0.".toList ++ List.replicate (-kk).toNat '0' ++ ds
    else
      let ex := natDigits (1 - kk).toNat
      match ds with
      | [d] => sign ++ [d] ++ "e-".toList ++ ex
      | d :: rest => sign ++ [d, '.'] ++ rest ++ "e-".toList ++ ex
      | [] => sign

/-- `RustPrimitive::format_number` as a structured literal -/
def renderNum (p : Prim) (n : Num) : Lit :=
  if p.isFloat then
    if n.isIntTok then .flt n                       -- `5` → `5.0`
    else
      -- (an exponent form is a float literal as it stands; `.0` is appended only to a text with neither `.` nor `e`)
      let t := floatText n
      if t.contains '.' || t.contains 'e' || t.contains 'E' then .flt n else .bad (t ++ ".0".toList)
  else if n.isIntTok && decide (i64Min ≤ n.m) && decide (n.m ≤ i64Max) then renderInteger p n.m
  else if n.isIntTok && decide (0 ≤ n.m) && decide (n.m ≤ u64Max) then renderUnsigned p n.m
  else if n.isIntTok then .bad (if n.m < 0 then '-' :: natDigits n.m.natAbs else natDigits n.m.natAbs)
  else
    -- `num.to_string()`: a float literal (ill-typed on an integer field) or an exponent form
    let t := floatText n
    if t.contains '.' then .flt n else .bad t

/-- `format_number_with_underscores`: groups of three from the right, separator `_`
(`k` = digits emitted since the last separator, walking the reversed digit string) -/
def groupRev : List Char → Nat → List Char
  | [], _ => []
  | c :: cs, k => if k == 3 then '_' :: c :: groupRev cs 1 else c :: groupRev cs (k + 1)

def groupDigits (ds : List Char) : List Char := (groupRev ds.reverse 0).reverse

def intText (n : Int) (grouped : Bool) : List Char :=
  let ds := natDigits n.natAbs
  let body := if grouped then groupDigits ds else ds
  if n < 0 then '-' :: body else body

/-- text of a float literal: the number's text, `.0` appended when there is no `.` -/
def fltText (n : Num) : List Char :=
  if n.isIntTok then intText n.m false ++ ".0".toList else floatText n

def Lit.text : Lit → List Char
  | .tmin p => p.name ++ "::MIN".toList
  | .tmax p => p.name ++ "::MAX".toList
  | .int n (some p) => intText n true ++ p.name
  | .int n none => intText n false
  | .flt n => fltText n
  | .bad t => t

/-- `f32::MAX` = 340282346638528859811704183484516925440 -/
def f32MaxNat : Nat := 340282346638528859811704183484516925440

/-- the value a literal denotes when it is used as a bound of a field of primitive `fp`;
`none` = the attribute does not type-check (no `validate()` exists). -/
def Lit.val (fp : Prim) : Lit → Option Num
  | .tmin p => if p == fp then (fp.range.map fun r => Num.ofInt r.1) else none
  | .tmax p => if p == fp then (fp.range.map fun r => Num.ofInt r.2) else none
  | .int n (some p) =>
    if p == fp then
      match fp.range with
      | some (lo, hi) => if lo ≤ n ∧ n ≤ hi then some (Num.ofInt n) else none
      | none => none
    else none
  | .int n none =>
    match fp.range with
    | some (lo, hi) => if lo ≤ n ∧ n ≤ hi then some (Num.ofInt n) else none
    | none => none
  | .flt n =>
    -- a float literal beyond f32::MAX is rejected by rustc (`overflowing_literals` is deny-by-default)
    if fp == .f32 then (if decide (n.m.natAbs ≤ f32MaxNat * 10 ^ n.e) then some n else none)
    else if fp.isFloat then some n else none
  | .bad _ => none

/-! ### attribute construction -/

/-- `ValidationAttribute::range` + `ToTokens` (literal rendering) -/
def rangeAttr (c : Cons) (tr : TRef) : Option VAttr :=
  if c.minimum.isNone && c.maximum.isNone && c.exMin.isNone && c.exMax.isNone then none
  else some (.range tr.base (c.minimum.map (renderNum tr.base)) (c.maximum.map (renderNum tr.base))
    (c.exMin.map (renderNum tr.base)) (c.exMax.map (renderNum tr.base)))

/-- `ValidationAttribute::length(min, max, is_required_non_empty)` -/
def lengthAttr (mn mx : Option Nat) (reqNonEmpty : Bool) : Option VAttr :=
  match mn, mx with
  | none, none => if reqNonEmpty then some (.length (some 1) none) else none
  | a, b => some (.length a b)

def nonStringFormats : List (List Char) :=
  ["date".toList, "date-time".toList, "duration".toList, "time".toList, "binary".toList, "byte".toList, "uuid".toList]

def skipRegexBase (p : Prim) : Bool :=
  match p with
  | .dateTime | .date | .time | .uuid => true
  | _ => false

/-- the `format` arm: `"email"` → Email, `"uri" | "url"` → Url -/
def fmtAttrs (c : Cons) : List VAttr := if c.isEmailFmt then [.email] else if c.isUrlFmt then [.url] else []

def Cons.specialFormat (c : Cons) : Bool :=
  match c.format with
  | some f => nonStringFormats.contains f
  | none => false

/-- the member is not a `String`: its format is one of the listed ones, or `from_format` resolves it to another type -/
def Cons.notStringTyped (c : Cons) : Bool := c.specialFormat || primOf c != .string

/-- the `pattern` arm -/
def regexAttrs (compiles : List Char → Bool) (c : Cons) (tr : TRef) : List VAttr :=
  match c.pattern with
  | some p => if compiles p then (if skipRegexBase tr.base then [] else [.regex p]) else []
  | none => []

/-- `FieldConverter::extract_all_validation(prop_name, is_required, schema, type_ref)`;
`compiles` is the parameter `Regex::new(p).is_ok()`. -/
def extract (compiles : List Char → Bool) (req : Bool) (c : Cons) (tr : TRef) : List VAttr :=
  if c.isNumeric then
    fmtAttrs c ++ (rangeAttr c tr).toList
  else if c.isFreeformString then
    -- since the `fix:` commit aa73532 (finding F01-16) the RESOLVED type is consulted too: `format: int64` on a string schema is an `i64`
    if c.specialFormat || tr.base != .string then fmtAttrs c
    else fmtAttrs c ++ (lengthAttr c.minLength c.maxLength (req && !tr.nullable)).toList ++ regexAttrs compiles c tr
  else if c.isArray then
    fmtAttrs c ++ (lengthAttr c.minItems c.maxItems false).toList
  else fmtAttrs c

/-- what a member gets: the keywords of a nullable WRAPPER sit inside its variant, `extract_all_validation` is handed the
OUTER schema, which has none (finding F16-9); otherwise `extract` -/
def extractW (compiles : List Char → Bool) (req : Bool) (c : Cons) (tr : TRef) : List VAttr :=
  if c.isWrapped then [] else extract compiles req c tr

/-! ### field schemas and the resolved type -/

/-- schema of a member / parameter in the fragment -/
inductive FS
  | prim (c : Cons)                 -- scalar (also a `$ref` to a named scalar schema: it is inlined)
  | arrP (c : Cons) (items : Cons)  -- array of scalars
  | arrR (c : Cons) (to : Name)     -- array of `$ref` objects
  | ref (to : Name)                 -- `$ref` to an object schema
deriving DecidableEq, Repr, Inhabited

def FS.cons : FS → Option Cons
  | .prim c | .arrP c _ | .arrR c _ => some c
  | .ref _ => none

/-- does the resolved `TypeRef` come out nullable (before member optionality)? -/
def FS.tyNullable : FS → Bool
  | .prim c | .arrP c _ | .arrR c _ => c.tyNullable
  | .ref _ => false

/-- base primitive used by `ValidationAttribute::range` / the regex skip list; for arrays the base is
the item type, for refs a custom type (no primitive: `value` stands for "not a listed primitive"). -/
def FS.base : FS → Prim
  | .prim c => primOf c
  | .arrP _ i => primOf i
  | .arrR _ _ => .value
  | .ref _ => .value

def FS.target : FS → Option Name
  | .arrR _ t | .ref t => some t
  | _ => none

/-- attributes of a struct member: `convert_field` makes the type optional when not required, then
calls `extract_all_validation(.., is_required, schema, final_type)` -/
def memberAttrs (compiles : List Char → Bool) (req : Bool) (s : FS) : List VAttr :=
  match s.cons with
  | some c => extractW compiles req c ⟨s.base, !req || s.tyNullable⟩
  | none => []

/-- attributes of a parameter: `resolve_with_metadata` calls it with the type BEFORE `with_option` -/
def paramAttrs (compiles : List Char → Bool) (req : Bool) (s : FS) : List VAttr :=
  match s.cons with
  | some c => extractW compiles req c ⟨s.base, s.tyNullable⟩
  | none => []

/-! ### Sem: what the emitted `validator` attributes mean (TRUSTED layer, exercised by the arena) -/

/-- regex / format engines are parameters -/
structure Rx where
  compiles : List Char → Bool
  isMatch : List Char → List Char → Bool      -- unanchored search
  email : List Char → Bool
  url : List Char → Bool

inductive SV | num (n : Num) | str (s : List Char)
deriving DecidableEq, Repr, Inhabited

/-- value of a leaf member: `None`/absent, a scalar, or a list of scalars -/
inductive LV | absent | sc (v : SV) | list (vs : List SV)
deriving DecidableEq, Repr, Inhabited

def lenOk (mn mx : Option Nat) (n : Nat) : Bool :=
  (match mn with | some a => decide (a ≤ n) | none => true) &&
  (match mx with | some b => decide (n ≤ b) | none => true)

def rangeOk (mn mx xmn xmx : Option Num) (v : Num) : Bool :=
  (match mn with | some a => a.le v | none => true) &&
  (match mx with | some b => v.le b | none => true) &&
  (match xmn with | some a => a.lt v | none => true) &&
  (match xmx with | some b => v.lt b | none => true)

/-- every literal of a range attribute type-checks against the field primitive -/
def litOk (fp : Prim) : Option Lit → Bool
  | none => true
  | some l => (l.val fp).isSome

def litVal (fp : Prim) (o : Option Lit) : Option Num := o.bind (Lit.val fp)

/-- does the attribute compile on a field of primitive `fp`? -/
def VAttr.typed (fp : Prim) : VAttr → Bool
  | .range _ a b c d => litOk fp a && litOk fp b && litOk fp c && litOk fp d
  | _ => true

/-- `validator` semantics of one attribute on one leaf value (`Option::None` passes everything;
`length` counts Unicode scalar values of a string / elements of a list; `range` compares with the
typed literal; `regex` is `Regex::is_match`). -/
def VAttr.accepts (rx : Rx) (fp : Prim) (a : VAttr) (v : LV) : Bool :=
  match a, v with
  | _, .absent => true
  | .email, .sc (.str s) => rx.email s
  | .url, .sc (.str s) => rx.url s
  | .length mn mx, .sc (.str s) => lenOk mn mx s.length
  | .length mn mx, .list vs => lenOk mn mx vs.length
  | .range _ a b c d, .sc (.num n) => rangeOk (litVal fp a) (litVal fp b) (litVal fp c) (litVal fp d) n
  | .regex p, .sc (.str s) => rx.isMatch p s
  | _, _ => true

def acceptsAll (rx : Rx) (fp : Prim) (as : List VAttr) (v : LV) : Bool := as.all fun a => a.accepts rx fp v

/-! ### Spec: JSON-Schema verdict restricted to the keywords of the property -/

def satScalar (rx : Rx) (c : Cons) : SV → Bool
  | .num n => rangeOk c.minimum c.maximum c.exMin c.exMax n
  | .str s =>
    lenOk c.minLength c.maxLength s.length &&
    (match c.pattern with | some p => rx.isMatch p s | none => true) &&
    (if c.isEmailFmt then rx.email s else true) &&
    (if c.isUrlFmt then rx.url s else true)

/-- restricted JSON-Schema verdict for a leaf member (`items` = the item schema of an array) -/
def satisfies (rx : Rx) (c : Cons) (items : Option Cons) : LV → Bool
  | .absent => true
  | .sc v => satScalar rx c v
  | .list vs =>
    lenOk c.minItems c.maxItems vs.length &&
    (match items with | some i => vs.all (satScalar rx i) | none => true)

/-- "with non-empty required strings" -/
def nonEmptyReq (req : Bool) : LV → Bool
  | .sc (.str s) => !(req && s.isEmpty)
  | _ => true

/-- leaf schema: scalar (`items = none`) or array of scalars -/
structure Leaf where
  c : Cons
  items : Option Cons
deriving DecidableEq, Repr, Inhabited

def FS.leaf : FS → Option Leaf
  | .prim c => some ⟨c, none⟩
  | .arrP c i => some ⟨c, some i⟩
  | .arrR c _ => some ⟨c, none⟩
  | .ref _ => none

/-- value is well-typed for the leaf: numbers for numeric schemas (integers inside the primitive's range),
strings for string schemas, lists for arrays -/
def svTyped (c : Cons) : SV → Bool
  | .num n =>
    (c.jt == some .integer || c.jt == some .number) &&
    (match (primOf c).range with
     | some (lo, hi) => n.isIntTok && decide (lo ≤ n.m) && decide (n.m ≤ hi)
     | none => (primOf c).isFloat)
  | .str _ => c.jt == some .string

def lvTyped (l : Leaf) : LV → Bool
  | .absent => true
  | .sc v => l.items.isNone && l.c.jt != some .array && svTyped l.c v
  | .list vs => l.c.jt == some .array && (match l.items with | some i => vs.all (svTyped i) | none => vs.isEmpty)

/-- THE JUDGE for one leaf and one value: soundness and completeness of the emitted attributes `as`
(type-checked against field primitive `fp`) w.r.t. the declared constraints. -/
def leafJ (rx : Rx) (req : Bool) (l : Leaf) (fp : Prim) (as : List VAttr) (v : LV) : Bool :=
  as.all (VAttr.typed fp) &&
  (!(acceptsAll rx fp as v) || satisfies rx l.c l.items v) &&
  (!(satisfies rx l.c l.items v && nonEmptyReq req v) || acceptsAll rx fp as v)

/-! ### known defect classes (static predicates on the declared schema) -/

def boundsOf (c : Cons) : List Num := c.minimum.toList ++ c.maximum.toList ++ c.exMin.toList ++ c.exMax.toList

/-- `type: [integer|number, null]` with a numeric keyword: `is_numeric` tests `Single(_)` only -/
def KnownNullableNumeric (c : Cons) : Bool :=
  (c.ty == .nullable .integer || c.ty == .nullable .number) && c.hasNumericKw

/-- `type: [array, null]` with minItems / maxItems: `is_array` tests `Single(_)` only -/
def KnownNullableArray (c : Cons) : Bool := c.ty == .nullable .array && c.hasArrayKw

/-- constraints declared on array ITEMS are never extracted -/
def KnownItemConstraintsLost (l : Leaf) : Bool :=
  match l.items with
  | some i => i.hasNumericKw || i.hasStringKw || i.isEmailFmt || i.isUrlFmt
  | none => false

/-- string with a date / date-time / time / duration / byte / binary / uuid format — or with a format that resolves to a
numeric type (`int64`, `double`, …) —: minLength, maxLength and pattern are skipped -/
def KnownSpecialFormatSkipsLength (c : Cons) : Bool :=
  c.isFreeformString && c.notStringTyped && c.hasStringKw

/-- a constrained scalar / array written inside a nullable wrapper `anyOf | oneOf [.., {type: null}]`: no keyword is seen -/
def KnownWrapperConstraintsLost (c : Cons) : Bool :=
  c.isWrapped && (c.hasNumericKw || c.hasStringKw || c.hasArrayKw || c.isEmailFmt || c.isUrlFmt)

/-- a pattern the `regex` crate rejects is dropped with a warning -/
def KnownUncompilableRegex (rx : Rx) (c : Cons) : Bool :=
  c.isFreeformString && (match c.pattern with | some p => !rx.compiles p | none => false)

/-- a bound whose rendered literal does not type-check for the field primitive: non-integer bound on an
integer field, bound outside an unsigned / 64-bit type, float whose text is in exponent form (`1e-7.0`) -/
def KnownIllTypedLiteral (c : Cons) : Bool :=
  c.isNumeric && (boundsOf c).any fun b => ((renderNum (primOf c) b).val (primOf c)).isNone

/-- the three causes of an ill-typed literal, as separate classes: (1) a non-integer bound on an integer field
(`range(min = 1.5)` on `i64`) -/
def KnownFloatBoundOnInt (c : Cons) : Bool :=
  c.isNumeric && (primOf c).isInt && (boundsOf c).any fun b => !b.isIntTok

def Lit.isBad : Lit → Bool
  | .bad _ => true
  | _ => false

/-- (2) a bound that is emitted unclamped although it lies outside the field type: `render_integer` /
`render_unsigned_integer` do not clamp unsigned and 64-bit primitives (`-1` or `5000000000` on `u32`,
`18446744073709551615` on `i64`), and floats are never range-checked (`1.5e300` on an `f32` field) -/
def KnownBoundOutsideType (c : Cons) : Bool :=
  c.isNumeric && (boundsOf c).any fun b =>
    ((primOf c).isInt && b.isIntTok || (primOf c).isFloat && !(renderNum (primOf c) b).isBad) &&
      ((renderNum (primOf c) b).val (primOf c)).isNone

/-- (3) a float bound whose `to_string()` is in exponent form without a `.`: `.0` is appended (`1e-7.0`) -/
def KnownFloatExponentLiteral (c : Cons) : Bool :=
  c.isNumeric && (primOf c).isFloat && (boundsOf c).any fun b => (renderNum (primOf c) b).isBad

/-- `render_integer` clamps a bound outside i8/i16/i32 to MIN/MAX; this changes the meaning for
`maximum < MIN`, `minimum > MAX`, `exclusiveMaximum > MAX`, `exclusiveMinimum < MIN` -/
def clampChanges (p : Prim) (c : Cons) : Bool :=
  match p.range with
  | some (lo, hi) =>
    (match c.maximum with | some b => b.isIntTok && decide (b.m < lo) | none => false) ||
    (match c.minimum with | some b => b.isIntTok && decide (hi < b.m) | none => false) ||
    (match c.exMax with | some b => b.isIntTok && decide (hi < b.m) | none => false) ||
    (match c.exMin with | some b => b.isIntTok && decide (b.m < lo) | none => false)
  | none => false

def KnownClampChangesMeaning (c : Cons) : Bool := c.isNumeric && clampChanges (primOf c) c

/-- keywords of the other JSON type (e.g. `maxLength` on an integer) are not part of the fragment -/
def Cons.wellKinded (c : Cons) : Bool :=
  match c.jt with
  | some .string => !c.hasNumericKw && !c.hasArrayKw
  | some .integer | some .number => !c.hasStringKw && !c.hasArrayKw && !c.isEmailFmt && !c.isUrlFmt
  | some .array => !c.hasNumericKw && !c.hasStringKw && !c.isEmailFmt && !c.isUrlFmt
  | some .boolean | some .object => !c.hasNumericKw && !c.hasStringKw && !c.hasArrayKw && !c.isEmailFmt && !c.isUrlFmt
  | none => false

/-- every bound's literal denotes exactly the bound -/
def litExact (c : Cons) : Bool :=
  (boundsOf c).all fun b => (renderNum (primOf c) b).val (primOf c) == some b

/-- the fragment on which the leaf theorems hold outright -/
def Clean (rx : Rx) (l : Leaf) : Bool :=
  l.c.wellKinded && !l.c.hasEnum &&
  !KnownNullableNumeric l.c && !KnownNullableArray l.c && !KnownItemConstraintsLost l &&
  !KnownSpecialFormatSkipsLength l.c && !KnownUncompilableRegex rx l.c && !l.c.isWrapped &&
  (!l.c.isNumeric || litExact l.c) &&
  (match l.c.jt with | some .string => !skipRegexBase (primOf l.c) || l.c.pattern.isNone | _ => true)

end Oas3.Valid
