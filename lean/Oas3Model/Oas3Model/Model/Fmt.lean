/-
Semantics of a Rust format string WITHOUT arguments (`write!(f, "…")`, as emitted for enum Display):
`{{` prints `{`, `}}` prints `}`, any other brace is a compile error (an argument is referenced / a
stray brace). And the documented normalisation of doc text (`Documentation::from_optional`).
-/
namespace Oas3.Fmt

/-- `none` = does not compile -/
def fmtRender : List Char → Option (List Char)
  | [] => some []
  | '{' :: '{' :: r => (fmtRender r).map ('{' :: ·)
  | '}' :: '}' :: r => (fmtRender r).map ('}' :: ·)
  | '{' :: _ => none
  | '}' :: _ => none
  | c :: r => (fmtRender r).map (c :: ·)

def noBrace (s : List Char) : Bool := s.all fun c => c != '{' && c != '}'

/-- the escaping a generator has to apply for the text to survive as a format string -/
def escapeBraces : List Char → List Char
  | [] => []
  | '{' :: r => '{' :: '{' :: escapeBraces r
  | '}' :: r => '}' :: '}' :: escapeBraces r
  | c :: r => c :: escapeBraces r

end Oas3.Fmt
