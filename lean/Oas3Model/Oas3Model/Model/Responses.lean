import Oas3Model.Model.Status
/-
Model of the response side of the client:
  `converter/responses.rs`  build_enum / split_variants_by_content_type / with_default_variant /
                            build_status_handlers / ResponseStatusCategory::from_variants
  `ast/mod.rs`              ContentCategory::from_content_type, variant_suffix
  `codegen/structs.rs`      ParseResponseMethodFragment … FallbackFragment (the emitted chain)
and the *semantics* of the emitted chain (`evalChain`), plus the property's reference `specKey`.
-/
namespace Oas3.Resp
open Oas3.Status

inductive Cat | json | form | multipart | text | binary | xml | eventStream
  deriving DecidableEq, Repr

/-! ### ContentCategory::from_content_type (mediatype 0.21 parse, parameters ignored) -/

def restrictedChar (c : Char) : Bool :=
  c.isAlphanum || "!#$&-^_.+%*'".toList.contains c

def restrictedName (s : List Char) : Bool :=
  match s with
  | [] => false
  | c :: _ => (c.isAlphanum || c == '*') && s.all restrictedChar && s.length ≤ 127

def splitOnFirst (sep : Char) : List Char → Option (List Char × List Char)
  | [] => none
  | c :: r => if c == sep then some ([], r) else
    match splitOnFirst sep r with
    | some (a, b) => some (c :: a, b)
    | none => none

/-- position-free `rfind('+')` split: (before last '+', after) -/
def splitOnLast (sep : Char) (s : List Char) : Option (List Char × List Char) :=
  match splitOnFirst sep s.reverse with
  | some (a, b) => some (b.reverse, a.reverse)
  | none => none

/-- (type, subtype, suffix?) or none when `MediaType::parse` fails. Parameters are not validated
(generated cases carry none or a plain `; charset=utf-8`). -/
def parseMedia (s : List Char) : Option (List Char × List Char × Option (List Char)) :=
  match splitOnFirst '/' s with
  | none => none
  | some (ty, right) =>
    if !restrictedName ty then none else
    let body := right.takeWhile restrictedChar
    let (subty, suffix) := match splitOnLast '+' body with
      | some (a, b) => (a, some b)
      | none => (body, none)
    if !restrictedName subty then none else
    match suffix with
    | some sfx => if sfx.isEmpty then none else
        -- crate quirk: validates `suffix[1..]`
        if !(sfx.drop 1).isEmpty && !restrictedName (sfx.drop 1) then none else some (ty, subty, some sfx)
    | none => some (ty, subty, none)

def catOf (ct : List Char) : Cat :=
  match parseMedia ct with
  | none => .json
  | some (ty, sub, sfx) =>
    let is (a : List Char) (b : String) := a == b.toList
    if is ty "multipart" then .multipart
    else if is ty "text" && is sub "event-stream" then .eventStream
    else if ((is ty "text" || is ty "application") && is sub "xml") || sfx == some "xml".toList then .xml
    else if is ty "application" && is sub "x-www-form-urlencoded" then .form
    else if (is ty "application" && is sub "json") || sfx == some "json".toList then .json
    else if is ty "image" || is ty "audio" || is ty "video" || (is ty "application" && (is sub "pdf" || is sub "octet-stream")) then .binary
    else if is ty "application" || is ty "text" then .text
    else .json

def variantSuffix : Cat → List Char
  | .json => []
  | .binary => "Binary".toList
  | .text => "Text".toList
  | .xml => "Xml".toList
  | .eventStream => "EventStream".toList
  | .form => "Form".toList
  | .multipart => "Multipart".toList

/-! ### the emitted chain as data -/

inductive CondE
  | tt | ff
  | range (p : List Char)
  | const (name : List Char)
  | u16 (n : Nat)
  | other (text : List Char)
  deriving DecidableEq, Repr

inductive CheckE
  | contains (s : List Char)
  | startsWith (s : List Char)
  | and (a b : CheckE)
  | or (a b : CheckE)
  | not (a : CheckE)
  | other (text : List Char)
  deriving DecidableEq, Repr

structure Case where
  variant : List Char
  payload : Bool
  extract : List Char
  ty : List Char
  deriving DecidableEq, Repr

inductive Body
  | single (c : Case)
  | dispatch (cases : List (CheckE × Case))
  deriving DecidableEq, Repr

structure Chain where
  handlers : List (CondE × Body)
  fallback : Case
  deriving DecidableEq, Repr

/-! ### semantics of the chain (`Sem/Dispatch`) -/

def isInfix (pat s : List Char) : Bool :=
  match s with
  | [] => pat.isEmpty
  | _ :: r => pat.isPrefixOf s || isInfix pat r

def evalCheck (ct : List Char) : CheckE → Bool
  | .contains s => isInfix s ct
  | .startsWith s => s.isPrefixOf ct
  | .and a b => evalCheck ct a && evalCheck ct b
  | .or a b => evalCheck ct a || evalCheck ct b
  | .not a => !evalCheck ct a
  | .other _ => false

def evalCond (n : Nat) : CondE → Bool
  | .tt => true
  | .ff => false
  | .range p => rangePred p n
  | .const name => n == (lookup name httpConstValue).getD 0
  | .u16 c => n == (if 100 ≤ c && c ≤ 999 then c else 500)
  | .other _ => false

def firstCase (ct : List Char) : List (CheckE × Case) → Option Case
  | [] => none
  | (chk, c) :: r => if evalCheck ct chk then some c else firstCase ct r

/-- run the `if cond { … return }` chain: a dispatch block whose checks all miss FALLS THROUGH. -/
def evalChainAux (n : Nat) (ct : List Char) : List (CondE × Body) → Option Case
  | [] => none
  | (c, b) :: r =>
    if evalCond n c then
      match b with
      | .single k => some k
      | .dispatch cs =>
        match firstCase ct cs with
        | some k => some k
        | none => evalChainAux n ct r
    else evalChainAux n ct r

def evalChain (ch : Chain) (n : Nat) (ct : List Char) : Case :=
  (evalChainAux n ct ch.handlers).getD ch.fallback

/-! ### F: responses object ↦ variants ↦ handlers ↦ chain -/

structure Media where
  cat : Cat
  schema : Option (List Char)      -- `to_rust_type()` of the resolved payload type
  stringLike : Bool := false
  custom : Bool := false
  deriving DecidableEq, Repr

structure Variant where
  tok : Tok
  name : List Char
  medias : List Media
  schemaType : Option (List Char)
  stringLike : Bool := false
  custom : Bool := false
  deriving DecidableEq, Repr

/-- a declared media type: content type, and the payload type key (none = no/empty schema). -/
structure MediaDecl where
  ct : List Char
  schema : Option (List Char)
  stringLike : Bool := false
  custom : Bool := false
  deriving Repr

def resolveMedia (tok : Tok) (m : MediaDecl) : Media :=
  let cat := catOf m.ct
  if cat == .binary && isSuccess tok then { cat, schema := some "Vec<u8>".toList }
  else { cat, schema := m.schema, stringLike := m.stringLike, custom := m.custom }

def groupKey (m : Media) : Option (List Char) :=
  m.schema.map fun s => if m.cat == .eventStream then "oas3_gen_support::EventStream<".toList ++ s ++ ['>'] else s

/-- IndexMap grouping in first-occurrence order. -/
def groupInsert (k : List Char) (m : Media) : List (List Char × List Media) → List (List Char × List Media)
  | [] => [(k, [m])]
  | (k', ms) :: r => if k' == k then (k', ms ++ [m]) :: r else (k', ms) :: groupInsert k m r

def groupBySchema (ms : List Media) : List (List Char × List Media) :=
  ms.foldl (fun acc m => match groupKey m with | some k => groupInsert k m acc | none => acc) []

def primaryCat (ms : List Media) : Cat := match ms with | m :: _ => m.cat | [] => .json

def hasDupCats (g : List (List Char × List Media)) : Bool :=
  let cats := g.map (fun p => primaryCat p.2)
  cats.length != cats.eraseDups.length

def splitVariants (tok : Tok) (medias : List Media) : List Variant :=
  let base := variantName tok
  let grouped := groupBySchema medias
  if grouped.isEmpty then [{ tok, name := base, medias, schemaType := none }]
  else
    let needsSuffix := grouped.length > 1
    let schemaSuffix := needsSuffix && hasDupCats grouped
    grouped.map fun (key, ms) =>
      let name := if !needsSuffix then base else if schemaSuffix then base ++ key else base ++ variantSuffix (primaryCat ms)
      let m0 := ms.head?
      { tok, name, medias := ms, schemaType := some key,
        stringLike := (m0.map (·.stringLike)).getD false, custom := (m0.map (·.custom)).getD false }

def defaultTok : Tok := .named "Default".toList

def jsonMedia : Media := { cat := .json, schema := none }

/-- string order of the responses map (BTreeMap<String,_>): by Unicode scalar values. -/
def strLt : List Char → List Char → Bool
  | [], [] => false
  | [], _ :: _ => true
  | _ :: _, [] => false
  | a :: r, b :: s => if a.toNat < b.toNat then true else if b.toNat < a.toNat then false else strLt r s

def insertSorted {β} (k : List Char) (v : β) : List (List Char × β) → List (List Char × β)
  | [] => [(k, v)]
  | (k', v') :: r => if strLt k k' then (k, v) :: (k', v') :: r else if k == k' then (k, v) :: r else (k', v') :: insertSorted k v r

def sortKeys {β} (l : List (List Char × β)) : List (List Char × β) := l.foldl (fun acc (k, v) => insertSorted k v acc) []

/-- `build_enum` (variants part): responses in key order; media in content-type order. -/
def variantsOf (responses : List (List Char × List MediaDecl)) : List Variant :=
  let vs := (sortKeys responses).flatMap fun (key, decls) =>
    let tok := fromStr key
    let medias := (sortKeys (decls.map fun d => (d.ct, d))).map fun p => resolveMedia tok p.2
    let medias := if medias.isEmpty then [jsonMedia] else medias
    splitVariants tok medias
  if vs.isEmpty || vs.any (fun v => isDefault v.tok) then vs
  else vs ++ [{ tok := defaultTok, name := "Unknown".toList, medias := [jsonMedia], schemaType := none }]

def extractOf (cat : Cat) (v : Variant) : Case :=
  match v.schemaType with
  | none => { variant := v.name, payload := false, extract := "none".toList, ty := [] }
  | some ty =>
    let mk (e : String) (t : List Char) : Case := { variant := v.name, payload := true, extract := e.toList, ty := t }
    match cat with
    | .text => if v.stringLike then mk "text" "String".toList else if v.custom then mk "json" ty else mk "text-parse" ty
    | .binary => if ty == "Vec<u8>".toList then mk "bytes" ty else mk "json" ty
    | .eventStream => mk "event-stream" ty
    | .xml => mk "xml" ty
    | _ => mk "json" ty

def checkOf : Cat → CheckE
  | .json => .contains "json".toList
  | .xml => .contains "xml".toList
  | .text => .and (.startsWith "text/".toList) (.not (.contains "xml".toList))
  | .binary => .or (.or (.or (.startsWith "application/octet-stream".toList) (.startsWith "image/".toList)) (.startsWith "audio/".toList)) (.startsWith "video/".toList)
  | .eventStream => .contains "event-stream".toList
  | .form => .contains "x-www-form-urlencoded".toList
  | .multipart => .contains "multipart".toList

def condOf (tok : Tok) : CondE :=
  if isDefault tok then .tt
  else match tok with
    | .named nm =>
      match lookup nm Oas3.Gen.Status.condTbl with
      | some p => .range p
      | none => match lookup nm Oas3.Gen.Status.httpConstTbl with
        | some c => .const c
        | none => .const "INTERNAL_SERVER_ERROR".toList
    | .unknown c => .u16 c

def groupByTok : List Variant → List (Tok × List Variant)
  | [] => []
  | v :: r =>
    let rest := groupByTok r
    -- first-occurrence order: put v's token first, merging later members
    match rest.find? (fun p => p.1 == v.tok) with
    | some (_, vs) => (v.tok, v :: vs) :: rest.filter (fun p => p.1 != v.tok)
    | none => (v.tok, [v]) :: rest

def uniqCats (ms : List Media) : Nat := (ms.map (·.cat)).eraseDups.length

/-- `ResponseStatusCategory::from_variants` + `from_content_types` -/
def bodyOf (group : List Variant) : Body :=
  match group with
  | [v] =>
    if uniqCats v.medias ≤ 1 then .single (extractOf (primaryCat v.medias) v)
    else
      let pairs := (v.medias.map (·.cat)).eraseDups.map fun c => (c, v)
      let (streams, others) := pairs.partition (fun p => p.1 == .eventStream)
      .dispatch ((streams ++ others).map fun (c, v) => (checkOf c, extractOf c v))
  | _ =>
    let pairs := group.flatMap fun v =>
      (if v.medias.isEmpty then [Cat.json] else v.medias.map (·.cat)).map fun c => (c, v)
    let pairs := pairs.foldl (fun acc p => if acc.any (fun q => q.1 == p.1 && q.2.name == p.2.name) then acc else acc ++ [p]) []
    let (streams, others) := pairs.partition (fun p => p.1 == .eventStream)
    .dispatch ((streams ++ others).map fun (c, v) => (checkOf c, extractOf c v))

def chainOf (responses : List (List Char × List MediaDecl)) : Option Chain :=
  let vs := variantsOf responses
  if vs.isEmpty then none else
  let (dflt, status) := vs.partition (fun v => isDefault v.tok)
  let handlers := (groupByTok status).map fun (tok, g) => (condOf tok, bodyOf g)
  let fallback := match dflt with
    | v :: _ => extractOf (primaryCat v.medias) v
    | [] => { variant := "Unknown".toList, payload := false, extract := "none".toList, ty := [] }
  some { handlers, fallback }

/-! ### the property's reference: which declared key answers status `n` -/

def digitsVal (s : List Char) : Nat := s.foldl (fun acc c => acc * 10 + (c.toNat - '0'.toNat)) 0

/-- canonical exact key `[1-5][0-9][0-9]` -/
def exactKey (k : List Char) : Option Nat :=
  match k with
  | [a, b, c] => if a.isDigit && b.isDigit && c.isDigit && '1' ≤ a && a ≤ '5' then some (digitsVal k) else none
  | _ => none

/-- canonical range key `[1-5]XX` (OpenAPI requires upper-case `X`; lower-case is accepted too) -/
def rangeKey (k : List Char) : Option Nat :=
  match k with
  | [a, x, y] => if '1' ≤ a && a ≤ '5' && (x == 'X' || x == 'x') && (y == 'X' || y == 'x') then some (a.toNat - '0'.toNat) else none
  | _ => none

def canonicalKey (k : List Char) : Bool :=
  (exactKey k).isSome || (rangeKey k).isSome || k == "default".toList

/-- exact key for `n`, else its `NXX` key, else `default` (declared or synthetic). -/
def specKey (keys : List (List Char)) (n : Nat) : List Char :=
  match keys.find? (fun k => exactKey k == some n) with
  | some k => k
  | none => match keys.find? (fun k => rangeKey k == some (n / 100)) with
    | some k => k
    | none => "default".toList

end Oas3.Resp
