/-
Model of `crates/oas3-gen/src/generator/naming/identifiers.rs` (sanitisers) and of the parts of
the `inflections` crate they call, on `List Char`.

`any_ascii` is a PARAMETER `tr : Char → List Char` (it works char by char); all theorems hold for
every `tr`.  The correspondence check ships, with every case, the real per-char transliteration.
Core Lean only (no Mathlib) so that the driver links as an executable.
-/
namespace Oas3.Naming

abbrev Tr := Char → List Char

/-- `[A-Za-z0-9_]` -/
def okc (c : Char) : Bool := c.isAlphanum || c == '_'

def translit (tr : Tr) (s : List Char) : List Char := s.flatMap tr

/-- `INVALID_CHARS_RE.replace_all(.., "_")` followed by `MULTI_UNDERSCORE_RE.replace_all(.., "_")`:
every maximal run of characters outside `[A-Za-z0-9]` (invalid ones and underscores) becomes one `_`.
`pend = true` means "the previous emitted char was `_`". -/
def collapse : Bool → List Char → List Char
  | _, [] => []
  | pend, c :: cs =>
    if c.isAlphanum then c :: collapse false cs
    else if pend then collapse true cs
    else '_' :: collapse true cs

def dropUnd : List Char → List Char
  | '_' :: cs => dropUnd cs
  | cs => cs

/-- `trim_matches('_')` -/
def trimUnd (s : List Char) : List Char := (dropUnd (dropUnd s).reverse).reverse

def sanitize (tr : Tr) (s : List Char) : List Char :=
  if s.isEmpty then [] else trimUnd (collapse false (translit tr s))

/-! ### inflections -/

def isSep (c : Char) : Bool := c == ' ' || c == '-' || c == '_'
def swapSep (sep : Char) (c : Char) : Char := if isSep c then sep else c

/-- `BreakCamel`: insert `sep` between a lowercase char and a following uppercase char. -/
def breakCamel (sep : Char) : List Char → List Char
  | [] => []
  | [c] => [c]
  | c :: d :: cs =>
    if c.isLower && d.isUpper then c :: sep :: breakCamel sep (d :: cs)
    else c :: breakCamel sep (d :: cs)

/-- `to_snake_case` (ASCII input; on sanitised input only `_` can be a separator). -/
def toSnake (s : List Char) : List Char := (breakCamel '_' (s.map (swapSep '_'))).map Char.toLower
/-- `to_constant_case` -/
def toConstant (s : List Char) : List Char := (breakCamel '_' (s.map (swapSep '_'))).map Char.toUpper

/-- `CapitalizeWordsWithBoundaries` as a state machine: state = (capitalize_next, prev_was_lower). -/
def capWordsAux : Bool → Bool → List Char → List Char
  | _, _, [] => []
  | capNext, prevLower, c :: cs =>
    if !c.isAlphanum then
      let capNext' := match cs with | d :: _ => d.isAlphanum | [] => false
      c :: capWordsAux capNext' false cs
    else
      let nextIsLower := match cs with | d :: _ => d.isLower | [] => false
      let should := capNext || (prevLower && c.isUpper) || (c.isUpper && nextIsLower)
      (if should then c.toUpper else c.toLower) :: capWordsAux false c.isLower cs

def capWords (s : List Char) : List Char := capWordsAux true false s

/-! ### the three sanitisers -/

def startsDigit : List Char → Bool
  | c :: _ => c.isDigit
  | [] => false

def prefixIfDigit (p : Char) (s : List Char) : List Char := if startsDigit s then p :: s else s

/-- `name.strip_prefix("r#")` succeeded, rest non-empty and all `[A-Za-z0-9_]`. -/
def rawPassthrough : List Char → Bool
  | 'r' :: '#' :: rest => !rest.isEmpty && rest.all okc
  | _ => false

def stripMinus : List Char → Bool × List Char
  | '-' :: cs => (true, cs)
  | cs => (false, cs)

def toRustFieldName (forbidden : List (List Char)) (tr : Tr) (name : List Char) : List Char :=
  if rawPassthrough name then name
  else
    let (neg, nm) := stripMinus name
    let ident := toSnake (sanitize tr nm)
    if ident.isEmpty then ['_']
    else
      let ident := if neg then "negative_".toList ++ ident else ident
      if ident == "self".toList || ident == "crate".toList || ident == "super".toList then ident ++ ['_']
      else if forbidden.contains ident then 'r' :: '#' :: ident
      else prefixIfDigit '_' ident

def toRustConstName (tr : Tr) (name : List Char) : List Char :=
  let s := sanitize tr name
  if s.isEmpty then "UNNAMED".toList else prefixIfDigit '_' (toConstant s)

def stripRaw : List Char → List Char
  | 'r' :: '#' :: rest => rest
  | s => s

def isTypeSep (c : Char) : Bool := c == '-' || c == '_' || c == '.' || c == ' '

def upperFirst : List Char → List Char
  | [] => []
  | c :: cs => c.toUpper :: cs

def toRustTypeName (prelude : List (List Char)) (tr : Tr) (name : List Char) : List Char :=
  let name := stripRaw name
  let (neg, nm) := stripMinus name
  let mixed := !nm.any isTypeSep && nm.any Char.isUpper && nm.any Char.isLower
  let ascii := translit tr nm
  let ident :=
    if mixed then upperFirst (ascii.filter Char.isAlphanum)
    else (capWords ascii).filter Char.isAlphanum
  if ident.isEmpty then "Unnamed".toList
  else
    let ident := if neg then "Negative".toList ++ ident else ident
    if ident == "Self".toList then "r#Self".toList
    else if prelude.contains ident then ident ++ "Type".toList
    else prefixIfDigit 'T' ident

/-! ### uniqueness helpers -/

/-- `ensure_unique`: `base`, else `base2`, `base3`, … ; the loop is modelled with fuel
`used.length + 1` (sufficiency is `ensureUnique_fresh`). `none` = fuel exhausted (never happens). -/
def probe (mk : Nat → List Char) (used : List (List Char)) : Nat → Nat → Option (List Char)
  | 0, _ => none
  | fuel + 1, i => if used.contains (mk i) then probe mk used fuel (i + 1) else some (mk i)

def natChars (n : Nat) : List Char := (Nat.repr n).toList

def ensureUnique (base : List Char) (used : List (List Char)) : Option (List Char) :=
  if !used.contains base then some base
  else probe (fun i => base ++ natChars i) used (used.length + 1) 2

/-- `ensure_unique_snake_case_id`: `base`, else `base_2`, `base_3`, … -/
def ensureUniqueSnake (base : List Char) (used : List (List Char)) : Option (List Char) :=
  if !used.contains base then some base
  else probe (fun i => base ++ '_' :: natChars i) used (used.length + 1) 2

/-! ### legality judge (Rust reference: identifiers, keywords, raw identifiers) -/

inductive Pos | field | type | const
  deriving DecidableEq, Repr

def identShape : List Char → Bool
  | [] => false
  | c :: cs => (c.isAlpha || c == '_') && cs.all okc

/-- Rust strict + reserved keywords (2024 edition, incl. `gen`) — the SPEC side, hand-written from
the Rust reference, *not* taken from the generator. -/
def rustKeywords : List (List Char) :=
  ["as","break","const","continue","crate","else","enum","extern","false","fn","for","if","impl","in",
   "let","loop","match","mod","move","mut","pub","ref","return","self","Self","static","struct","super",
   "trait","true","type","unsafe","use","where","while","async","await","dyn",
   "abstract","become","box","do","final","macro","override","priv","typeof","unsized","virtual","yield",
   "try","gen"].map String.toList

def cannotBeRaw : List (List Char) := ["crate","self","super","Self","_"].map String.toList

/-- names of the std prelude / derive macros the generated module would shadow (spec side). -/
def shadowed : List (List Char) :=
  ["Clone","Copy","Option","Result","Send","Sync","Vec"].map String.toList

def legal (pos : Pos) (id : List Char) : Bool :=
  match id with
  | 'r' :: '#' :: rest => identShape rest && !cannotBeRaw.contains rest
  | _ => identShape id && id != ['_'] && !rustKeywords.contains id &&
         (pos != .type || !shadowed.contains id)

end Oas3.Naming
