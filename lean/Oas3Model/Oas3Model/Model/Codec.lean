/-
Model of the generator's schema -> Rust type mapping as far as the JSON codec is concerned
(property C02), read from
  converter/type_resolver.rs : primitive / format_or_default / try_map_type / additional_properties_type
  ast/types.rs               : RustPrimitive::from_format
  converter/fields.rs        : convert_field (should_be_optional, rename iff Rust name != property name),
                               deduplicate_names (`_2` suffix WITHOUT a rename), build_struct_fields (flatten map)
  converter/structs.rs       : build_struct (deny_unknown_fields), ast/fields.rs : struct_serde_attrs (container default)
  postprocess/serde_usage.rs : update_skip_serializing_none
  converter/value_enums.rs   : build_enum_from_values (Deduplicate strategy), naming/inference.rs : NormalizedVariant
This file models the code that EXISTS.  Core Lean only, total, executable (structural recursion over
explicit mutual inductives so that `decide` reduces in the kernel).

Names are parameters: `fname` = `to_rust_field_name` (C09's subject), `vname` = the variant identifier
`NormalizedVariant::name`.  Every definition and theorem holds for ALL naming functions; the driver
instantiates them with the Naming model and ties them to the code.
-/
namespace Oas3.Codec

abbrev Str := List Char

/-! ## JSON documents -/

/-- JSON values.  `num m e` is the decimal `m · 10^-e` in canonical form (`e = 0` or `10 ∤ m`), so an
integer is `num i 0`; objects are association lists with distinct keys. -/
inductive J
  | null
  | bool (b : Bool)
  | num (m : Int) (e : Nat)
  | str (s : Str)
  | arr (xs : List J)
  | obj (kvs : List (Str × J))
  deriving Repr, Inhabited

def J.isNull : J → Bool
  | .null => true
  | _ => false

/-- equality of scalars (the only values compared directly: leaves and enum values) -/
def J.scalarEq : J → J → Bool
  | .null, .null => true
  | .bool a, .bool b => a == b
  | .num m e, .num m' e' => m == m' && e == e'
  | .str a, .str b => a == b
  | _, _ => false

def J.isScalar : J → Bool
  | .arr _ | .obj _ => false
  | _ => true

def lookup (k : Str) : List (Str × J) → Option J
  | [] => none
  | (k', v) :: r => if k' == k then some v else lookup k r

def hasKey (k : Str) (kvs : List (Str × J)) : Bool := (lookup k kvs).isSome

/-! ## Schemas of the fragment -/

/-- the integer formats `RustPrimitive::from_format` knows; `none` = no/unknown format -/
inductive IntFmt | i8 | i16 | i32 | i64 | u8 | u16 | u32 | u64
  deriving DecidableEq, Repr

mutual
/-- schema trees: scalars, enums of scalars, arrays, maps, objects, nullable wrapper.  `$ref`s are
resolved (the fragment is acyclic), `allOf` is merged before (`merge_schema`). -/
inductive S
  | str
  | int (fmt : Option IntFmt)
  | num (f32 : Bool)
  | bool
  | enum (vals : List J)
  | arr (item : S)
  | map (val : S)
  | obj (props : Props) (addl : Addl)
  | nullable (s : S)
  /-- `type: string` with an INTEGER `format` (`int64`, …): `RustPrimitive::from_format` resolves the format whatever the
  type says, so the member is a Rust integer (finding F02-9) -/
  | strNum (fmt : IntFmt)
  /-- `type: string, format: float | double` -/
  | strFloat (f32 : Bool)
  /-- `type: string, format: byte | binary`: typed `Vec<u8>` without a base64 adapter (finding F02-10) -/
  | strBytes
  /-- `enum: [v]` / `const: v` with ONE string value: the member is typed `String` and carries the value as its default
  (fields.rs: a single-value enum is a default, not a type) -/
  | single (v : Str)
/-- properties in the generator's iteration order (BTreeMap order of the names) -/
inductive Props
  | nil
  | cons (name : Str) (s : S) (required : Bool) (dflt : Option Str) (rest : Props)
/-- `additionalProperties`: `false`, absent, or a schema -/
inductive Addl
  | closed
  | absent
  | typed (s : S)
end

def Props.names : Props → List Str
  | .nil => []
  | .cons n _ _ _ r => n :: r.names

def Props.anyDefault : Props → Bool
  | .nil => false
  | .cons _ _ _ d r => d.isSome || r.anyDefault

def S.isSingle : S → Bool
  | .single _ => true
  | _ => false

def S.isNullable : S → Bool
  | .nullable _ => true
  | _ => false

/-! ## Emitted types, as far as serde is concerned -/

structure Variant where
  name : Str
  wire : Str
  aliases : List Str
  deriving DecidableEq, Repr

mutual
inductive Ty
  | string
  | int (lo hi : Int)
  | float (f32 : Bool)
  | bool
  | option (t : Ty)
  | vec (t : Ty)
  | map (t : Ty)
  | enum (vs : List Variant)
  /-- `deny` = `#[serde(deny_unknown_fields)]`, `cdefault` = container `#[serde(default)]`,
  `skipNone` = `#[serde_with::skip_serializing_none]` -/
  | struct (fs : Fields) (flat : Flat) (deny cdefault skipNone : Bool)
  /-- anything `Sem` does not describe -/
  | other
/-- fields in declaration order: Rust identifier, wire name (rename, else the identifier), type,
the string inside `#[default(Some("…".to_string()))]` if any -/
inductive Fields
  | nil
  | cons (ident wire : Str) (t : Ty) (dflt : Option Str) (rest : Fields)
/-- the `#[serde(flatten)] additional_properties: HashMap<String, T>` field -/
inductive Flat
  | none
  | some (t : Ty)
end

def Ty.isOption : Ty → Bool
  | .option _ => true
  | _ => false

/-- `TypeRef::with_option` is idempotent (`nullable` is a flag) -/
def Ty.withOption (t : Ty) : Ty := if t.isOption then t else .option t

def Fields.wires : Fields → List Str
  | .nil => []
  | .cons _ w _ _ r => w :: r.wires

def Fields.idents : Fields → List Str
  | .nil => []
  | .cons i _ _ _ r => i :: r.idents

def Fields.anyOption : Fields → Bool
  | .nil => false
  | .cons _ _ t _ r => t.isOption || r.anyOption

/-! ## `F`: the type mapping -/

def IntFmt.range : IntFmt → Int × Int
  | .i8 => (-128, 127) | .i16 => (-32768, 32767) | .i32 => (-2147483648, 2147483647)
  | .i64 => (-9223372036854775808, 9223372036854775807)
  | .u8 => (0, 255) | .u16 => (0, 65535) | .u32 => (0, 4294967295) | .u64 => (0, 18446744073709551615)

/-- `format_or_default(Integer)`: `i64` unless the format names another width -/
def intRange (f : Option IntFmt) : Int × Int := (f.getD .i64).range

def showNat (n : Nat) : Str := Nat.toDigits 10 n
def showInt (i : Int) : Str := if i < 0 then '-' :: showNat i.natAbs else showNat i.natAbs

/-- `NormalizedVariant::rename_value`: strings as they are, `i64` numbers and booleans through
`to_string()`; `none` for values `NormalizedVariant::try_from` rejects (null, arrays, objects; non-integral
numbers are outside the fragment) -/
def wireOf : J → Option Str
  | .str s => some s
  | .num m 0 => some (showInt m)
  | .bool true => some "true".toList
  | .bool false => some "false".toList
  | _ => none

def addAlias (n a : Str) : List Variant → List Variant
  | [] => []
  | v :: vs => if v.name == n then { v with aliases := v.aliases ++ [a] } :: vs else v :: addAlias n a vs

/-- `ValueEnumBuilder::build_enum_from_values` with `CollisionStrategy::Deduplicate` (the default
`--enum-mode merge`): a value whose variant name is taken becomes a serde `alias` of the earlier variant -/
def buildEnum (vname : J → Str) : List J → List Variant → List Variant
  | [], acc => acc
  | x :: xs, acc =>
    match wireOf x with
    | none => buildEnum vname xs acc
    | some w =>
      let n := vname x
      if acc.any (fun v => v.name == n) then buildEnum vname xs (addAlias n w acc)
      else buildEnum vname xs (acc ++ [⟨n, w, []⟩])

def count (x : Str) : List Str → Nat
  | [] => 0
  | y :: r => (if y == x then 1 else 0) + count x r

/-- serde strips `r#` from a raw identifier when it derives the wire name -/
def unraw : Str → Str
  | 'r' :: '#' :: r => r
  | s => s

mutual
/-- `TypeResolver::resolve_type`/`resolve_property` on the fragment -/
def typeOf (fname : Str → Str) (vname : J → Str) : S → Ty
  | .str => .string
  | .int f => .int (intRange f).1 (intRange f).2
  | .num f32 => .float f32
  | .bool => .bool
  | .enum vals => .enum (buildEnum vname vals [])
  | .arr s => .vec (typeOf fname vname s)
  | .map s => .map (typeOf fname vname s)
  | .nullable s => (typeOf fname vname s).withOption
  | .strNum f => .int f.range.1 f.range.2
  | .strFloat f32 => .float f32
  | .strBytes => .vec (.int 0 255)
  | .single _ => .string
  | .obj ps addl =>
    let fs := fieldsOf fname vname ps []
    .struct fs (flatOf fname vname addl) (match addl with | .closed => true | _ => false) ps.anyDefault fs.anyOption
/-- `build_struct_fields`: `convert_field` per property, then `deduplicate_names` (`seen` = the Rust
names of the fields before this one) -/
def fieldsOf (fname : Str → Str) (vname : J → Str) : Props → List Str → Fields
  | .nil, _ => .nil
  | .cons name s req dflt rest, seen =>
    let rust := fname name
    let t0 := typeOf fname vname s
    -- an explicit `default` makes the member optional; the value of a single-value enum is a default that does not
    let t := if !req || (dflt.isSome && !s.isSingle) then t0.withOption else t0
    let n := count rust seen + 1
    let ident := if n > 1 then rust ++ '_' :: showNat n else rust
    let wire := if rust == name then unraw ident else name
    .cons ident wire t dflt (fieldsOf fname vname rest (seen ++ [rust]))
def flatOf (fname : Str → Str) (vname : J → Str) : Addl → Flat
  | .closed => .none
  | .absent => .none
  | .typed s => .some (typeOf fname vname s)
end

end Oas3.Codec
