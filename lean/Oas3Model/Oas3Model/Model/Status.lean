import Oas3Model.Gen.Status
/-
Model of `ast/status_codes.rs` (StatusCodeToken), `codegen/http.rs` (HttpStatusCode) and
`codegen/structs.rs::StatusConditionFragment`, over the tables REGENERATED from those files (Gen/Status).
Spec side (hand-written): numeric values of the `http::StatusCode` constants (checked against the
`http` crate by tie K) and the semantics of `StatusCode::is_*` / `from_u16`.
-/
namespace Oas3.Status
open Oas3.Gen.Status

inductive Tok
  | named (n : List Char)
  | unknown (code : Nat)
  deriving DecidableEq, Repr

def lookup {β} (k : List Char) : List (List Char × β) → Option β
  | [] => none
  | (a, b) :: r => if a == k then some b else lookup k r

def lowerAscii (s : List Char) : List Char := s.map Char.toLower

/-- Rust `str::parse::<u16>()`: optional `+`, then one or more ASCII digits, value ≤ 65535. -/
def parseU16 (s : List Char) : Option Nat :=
  let d := match s with | '+' :: r => r | _ => s
  if d.isEmpty || !d.all Char.isDigit then none
  else
    let n := d.foldl (fun acc c => acc * 10 + (c.toNat - '0'.toNat)) 0
    if n ≤ 65535 then some n else none

/-- `StatusCodeToken::from_str` -/
def fromStr (s : List Char) : Tok :=
  let l := lowerAscii s
  match lookup l fromStrTbl with
  | some t => .named t
  | none => match parseU16 l with
    | some n => .unknown n
    | none => .named "Default".toList

def code : Tok → Option Nat
  | .named n => (lookup n codeTbl).join
  | .unknown c => some c

def isDefault : Tok → Bool
  | .named n => defaultToks.contains n
  | .unknown _ => false

def isSuccess : Tok → Bool
  | .named n => successToks.contains n
  | .unknown _ => false

def natChars (n : Nat) : List Char := (Nat.repr n).toList

/-- `to_variant_token` -/
def variantName : Tok → List Char
  | .named n => (lookup n variantNameTbl).getD []
  | .unknown c => "Status".toList ++ natChars c

/-- `as_str` (used for naming inline response types) -/
def asStr : Tok → List Char
  | .named n => (lookup n asStrTbl).getD []
  | .unknown _ => "unknown".toList

/-- numeric values of the `http` crate's StatusCode constants (http 1.x `status.rs`) — spec side. -/
def httpConstValue : List (List Char × Nat) := [
  ("CONTINUE", 100), ("SWITCHING_PROTOCOLS", 101), ("PROCESSING", 102), ("EARLY_HINTS", 103),
  ("OK", 200), ("CREATED", 201), ("ACCEPTED", 202), ("NON_AUTHORITATIVE_INFORMATION", 203), ("NO_CONTENT", 204),
  ("RESET_CONTENT", 205), ("PARTIAL_CONTENT", 206), ("MULTI_STATUS", 207), ("ALREADY_REPORTED", 208), ("IM_USED", 226),
  ("MULTIPLE_CHOICES", 300), ("MOVED_PERMANENTLY", 301), ("FOUND", 302), ("SEE_OTHER", 303), ("NOT_MODIFIED", 304),
  ("USE_PROXY", 305), ("TEMPORARY_REDIRECT", 307), ("PERMANENT_REDIRECT", 308),
  ("BAD_REQUEST", 400), ("UNAUTHORIZED", 401), ("PAYMENT_REQUIRED", 402), ("FORBIDDEN", 403), ("NOT_FOUND", 404),
  ("METHOD_NOT_ALLOWED", 405), ("NOT_ACCEPTABLE", 406), ("PROXY_AUTHENTICATION_REQUIRED", 407), ("REQUEST_TIMEOUT", 408),
  ("CONFLICT", 409), ("GONE", 410), ("LENGTH_REQUIRED", 411), ("PRECONDITION_FAILED", 412), ("PAYLOAD_TOO_LARGE", 413),
  ("URI_TOO_LONG", 414), ("UNSUPPORTED_MEDIA_TYPE", 415), ("RANGE_NOT_SATISFIABLE", 416), ("EXPECTATION_FAILED", 417),
  ("IM_A_TEAPOT", 418), ("MISDIRECTED_REQUEST", 421), ("UNPROCESSABLE_ENTITY", 422), ("LOCKED", 423), ("FAILED_DEPENDENCY", 424),
  ("TOO_EARLY", 425), ("UPGRADE_REQUIRED", 426), ("PRECONDITION_REQUIRED", 428), ("TOO_MANY_REQUESTS", 429),
  ("REQUEST_HEADER_FIELDS_TOO_LARGE", 431), ("UNAVAILABLE_FOR_LEGAL_REASONS", 451),
  ("INTERNAL_SERVER_ERROR", 500), ("NOT_IMPLEMENTED", 501), ("BAD_GATEWAY", 502), ("SERVICE_UNAVAILABLE", 503),
  ("GATEWAY_TIMEOUT", 504), ("HTTP_VERSION_NOT_SUPPORTED", 505), ("VARIANT_ALSO_NEGOTIATES", 506), ("INSUFFICIENT_STORAGE", 507),
  ("LOOP_DETECTED", 508), ("NOT_EXTENDED", 510), ("NETWORK_AUTHENTICATION_REQUIRED", 511)
].map fun (k, v) => (k.toList, v)

/-- value of the expression `HttpStatusCode(tok)` emits. `from_u16` accepts 100..=999. -/
def httpStatus : Tok → Nat
  | .named n =>
    match lookup n httpConstTbl with
    | some c => (lookup c httpConstValue).getD 0
    | none => 500     -- `other` arm: `code()` is None for a named token without arm → INTERNAL_SERVER_ERROR
  | .unknown c => if 100 ≤ c && c ≤ 999 then c else 500

/-- `http::StatusCode::is_informational` … `is_server_error` -/
def rangePred (p : List Char) (n : Nat) : Bool :=
  if p == "is_informational".toList then 100 ≤ n && n < 200
  else if p == "is_success".toList then 200 ≤ n && n < 300
  else if p == "is_redirection".toList then 300 ≤ n && n < 400
  else if p == "is_client_error".toList then 400 ≤ n && n < 500
  else if p == "is_server_error".toList then 500 ≤ n && n < 600
  else false

/-- truth value of the condition `StatusConditionFragment` emits for `tok`, on response status `n`. -/
def cond (tok : Tok) (n : Nat) : Bool :=
  if isDefault tok then true
  else match tok with
    | .named nm =>
      match lookup nm condTbl with
      | some p => rangePred p n
      | none => n == httpStatus tok
    | .unknown _ => n == httpStatus tok

end Oas3.Status
