/-
Lexical carriers of spec text (C19): how a text from the document reaches the emitted file and how the Rust
lexer reads it back.

Generator side (modelled on /repo, compared by the K tie `lex.*`):
* `escapeStringLiteral`  — `ast/types.rs::escape_string_literal` (five `str::replace` calls, in that order);
* `unescapeNl`, `lines`, `docLinesOf` — `Documentation::process_doc_text` + `str::lines()` of `from_optional`;
* `splitCr`, `docAttrs`  — `Documentation::to_tokens` (a lone carriage return ends the doc line; every line gets the
  leading space of `format!(" {line}")`).

Stated semantics of what is NOT oas3-gen code (compared by the same tie, never verified):
* `litBody` / `strLit`   — `proc_macro2::Literal::string` 1.0.106 (`escape_utf8` over `char::escape_debug`; which
  characters `escape_debug` prints as themselves is the parameter `pr`);
* `lexS`                 — the Rust lexer on the body of a `"…"` literal (escapes `\n \r \t \\ \0 \" \' \xHH \u{…}`,
  CRLF read as LF, a bare CR rejected).  Line continuations (`\` + newline) and `_` inside `\u{…}` are rejected by the
  model although rustc accepts them: the model lexer accepts a SUBSET of what rustc accepts and agrees with it there,
  so "the model reads the literal back" transfers to rustc;
* `ppDocLine`            — prettyplease 0.2.37 `attr()`: a doc attribute without `\n` that does not start with `/` is
  printed as `///` + text with trailing blanks trimmed;
* `lexDocLine`           — the Rust lexer on a `///` comment: up to the line end, CRLF is a line end, a bare CR is an error.
-/
namespace Oas3.Lex

/-! ## generator side -/

/-- `str::replace(c, w)` for a one-character pattern -/
def replaceChar (c : Char) (w : List Char) (s : List Char) : List Char :=
  s.flatMap fun x => if x = c then w else [x]

/-- `escape_string_literal`: `s.replace('\\', "\\\\").replace('"', "\\\"").replace('\n', "\\n").replace('\r', "\\r").replace('\t', "\\t")` -/
def escapeStringLiteral (s : List Char) : List Char :=
  replaceChar '\t' ['\\', 't'] (replaceChar '\r' ['\\', 'r'] (replaceChar '\n' ['\\', 'n']
    (replaceChar '"' ['\\', '"'] (replaceChar '\\' ['\\', '\\'] s))))

/-- the same as ONE pass (theorem `escape_one_pass`) -/
def escOne (c : Char) : List Char :=
  if c = '\\' then ['\\', '\\'] else if c = '"' then ['\\', '"'] else if c = '\n' then ['\\', 'n']
  else if c = '\r' then ['\\', 'r'] else if c = '\t' then ['\\', 't'] else [c]

/-- `input.replace("\\n", "\n")`: the two characters backslash, `n` become a line feed (left to right, non-overlapping) -/
def unescapeNl : List Char → List Char
  | '\\' :: 'n' :: r => '\n' :: unescapeNl r
  | c :: r => c :: unescapeNl r
  | [] => []

/-- one trailing carriage return of a line that ended in `\n` is dropped (`cur` is the line, reversed) -/
def finishLine (cur : List Char) : List Char :=
  match cur with
  | '\r' :: t => t.reverse
  | _ => cur.reverse

/-- `str::lines()`: split at `\n`; a `\r` right before it belongs to the line end; a last line without line end is
kept as it is (its trailing `\r` too), unless it is empty -/
def linesAux : List Char → List Char → List (List Char)
  | cur, [] => if cur.isEmpty then [] else [cur.reverse]
  | cur, c :: r => if c = '\n' then finishLine cur :: linesAux [] r else linesAux (c :: cur) r

def lines (s : List Char) : List (List Char) := linesAux [] s

/-- `Documentation::from_optional(Some(d))` -/
def docLinesOf (d : List Char) : List (List Char) := lines (unescapeNl d)

/-- `line.split('\r')` -/
def splitCrAux : List Char → List Char → List (List Char)
  | cur, [] => [cur.reverse]
  | cur, c :: r => if c = '\r' then cur.reverse :: splitCrAux [] r else splitCrAux (c :: cur) r

def splitCr (s : List Char) : List (List Char) := splitCrAux [] s

/-- `Documentation::to_tokens`: the VALUES of the `#[doc = …]` attributes, in order -/
def docAttrs (ls : List (List Char)) : List (List Char) :=
  (ls.flatMap splitCr).map fun l => ' ' :: l

/-- `str::trim()`; which characters are white space (Unicode `White_Space`) is the parameter `ws` -/
def trimWs (ws : Char → Bool) (l : List Char) : List Char := ((l.dropWhile ws).reverse.dropWhile ws).reverse

/-- `Documentation::documentation()` (operations): non-blank summary lines trimmed, a blank line if both are given,
description lines trimmed, a blank line, then the `* Path:` line built from the method and the path template -/
def opDocLines (ws : Char → Bool) (summary description : Option (List Char)) (methodPath : Option (List Char × List Char)) : List (List Char) :=
  (match summary with
   | some s => ((lines s).filter fun l => !(trimWs ws l).isEmpty).map (trimWs ws)
   | none => []) ++
  (match description with
   | some d => (if summary.isSome then [[]] else []) ++ (lines d).map (trimWs ws)
   | none => []) ++
  (if summary.isSome || description.isSome then [[]] else []) ++
  (match methodPath with
   | some (m, p) => ["* Path: `".toList ++ m ++ [' '] ++ p ++ ['`']]
   | none => [])

/-- the non-empty pieces of a text between its line breaks (`\n`, `\r`), in order: what survives of a doc text -/
def segAux : List Char → List Char → List (List Char)
  | cur, [] => if cur.isEmpty then [] else [cur.reverse]
  | cur, c :: r =>
    if c = '\n' || c = '\r' then (if cur.isEmpty then segAux [] r else cur.reverse :: segAux [] r)
    else segAux (c :: cur) r

def segments (s : List Char) : List (List Char) := segAux [] s

/-! ## proc_macro2 `Literal::string` -/

def hexDigit (d : Nat) : Char := if d < 10 then Char.ofNat (48 + d) else Char.ofNat (87 + d)

/-- `{:x}` digit list, least significant digit last; `f + 1` digits at most (exact for `n < 16 ^ (f + 1)`) -/
def hexL : Nat → Nat → List Char
  | 0, n => [hexDigit (n % 16)]
  | f + 1, n => if n / 16 = 0 then [hexDigit (n % 16)] else hexL f (n / 16) ++ [hexDigit (n % 16)]

/-- lower-case hexadecimal of a `u32` -/
def hex (n : Nat) : List Char := hexL 7 n

/-- `char::escape_debug` (all extensions on); `pr c` = "printable and not a grapheme extender" (Unicode tables: parameter) -/
def escDebug (pr : Char → Bool) (c : Char) : List Char :=
  if c = '\t' then ['\\', 't'] else if c = '\r' then ['\\', 'r'] else if c = '\n' then ['\\', 'n']
  else if c = '\\' then ['\\', '\\'] else if c = '"' then ['\\', '"'] else if c = '\'' then ['\\', '\'']
  else if pr c then [c] else '\\' :: 'u' :: '{' :: (hex c.toNat ++ ['}'])

def isOctal (c : Char) : Bool := '0'.toNat ≤ c.toNat && c.toNat ≤ '7'.toNat

/-- `escape_utf8` -/
def litBody (pr : Char → Bool) : List Char → List Char
  | [] => []
  | c :: r =>
    (if c = Char.ofNat 0 then
       (match r with
        | d :: _ => if isOctal d then ['\\', 'x', '0', '0'] else ['\\', '0']
        | [] => ['\\', '0'])
     else if c = '\'' then ['\'']
     else escDebug pr c) ++ litBody pr r

/-- `Literal::string(s).to_string()` -/
def strLit (pr : Char → Bool) (s : List Char) : List Char := '"' :: (litBody pr s ++ ['"'])

/-! ## the Rust lexer on a string literal -/

def hexVal (c : Char) : Option Nat :=
  if '0'.toNat ≤ c.toNat && c.toNat ≤ '9'.toNat then some (c.toNat - 48)
  else if 'a'.toNat ≤ c.toNat && c.toNat ≤ 'f'.toNat then some (c.toNat - 87)
  else if 'A'.toNat ≤ c.toNat && c.toNat ≤ 'F'.toNat then some (c.toNat - 55)
  else none

inductive St
  | norm                       -- between escapes
  | esc                        -- after a backslash
  | x1                         -- after `\x`
  | x2 (hi : Nat)              -- after `\x` and one digit
  | u0                         -- after `\u`
  | uh (v : Nat) (k : Nat)     -- inside `\u{`: value so far, digits so far
  deriving DecidableEq, Repr

/-- body of a `"…"` literal (the opening quote already consumed): `some (value, text after the closing quote)`,
`none` = lexical error / unterminated.  `acc` is the value so far, reversed. -/
def lexS : St → List Char → List Char → Option (List Char × List Char)
  | _, _, [] => none
  | .norm, acc, c :: r =>
    if c = '"' then some (acc.reverse, r)
    else if c = '\\' then lexS .esc acc r
    else if c = '\r' then (match r with
      | '\n' :: _ => lexS .norm acc r          -- CRLF is read as LF
      | _ => none)                             -- bare CR
    else lexS .norm (c :: acc) r
  | .esc, acc, c :: r =>
    if c = 'n' then lexS .norm ('\n' :: acc) r
    else if c = 'r' then lexS .norm ('\r' :: acc) r
    else if c = 't' then lexS .norm ('\t' :: acc) r
    else if c = '\\' then lexS .norm ('\\' :: acc) r
    else if c = '0' then lexS .norm (Char.ofNat 0 :: acc) r
    else if c = '"' then lexS .norm ('"' :: acc) r
    else if c = '\'' then lexS .norm ('\'' :: acc) r
    else if c = 'x' then lexS .x1 acc r
    else if c = 'u' then lexS .u0 acc r
    else none
  | .x1, acc, c :: r =>
    match hexVal c with
    | some d => if d < 8 then lexS (.x2 d) acc r else none
    | none => none
  | .x2 hi, acc, c :: r =>
    match hexVal c with
    | some d => lexS .norm (Char.ofNat (hi * 16 + d) :: acc) r
    | none => none
  | .u0, acc, c :: r => if c = '{' then lexS (.uh 0 0) acc r else none
  | .uh v k, acc, c :: r =>
    if c = '}' then
      (if k = 0 then none else if v.isValidChar then lexS .norm (Char.ofNat v :: acc) r else none)
    else match hexVal c with
      | some d => if k < 6 then lexS (.uh (v * 16 + d) (k + 1)) acc r else none
      | none => none

/-- a whole literal token at the head of `t` -/
def lexStr (t : List Char) : Option (List Char × List Char) :=
  match t with
  | '"' :: r => lexS .norm [] r
  | _ => none

/-! ## doc comments -/

def dropTrailingSpacesRev : List Char → List Char
  | ' ' :: r => dropTrailingSpacesRev r
  | l => l

/-- prettyplease `trim_trailing_spaces` -/
def trimTrailingSpaces (s : List Char) : List Char := (dropTrailingSpacesRev s.reverse).reverse

/-- prettyplease `attr()` for an OUTER `#[doc = v]`: `some text` = printed as a `///` line comment with that text -/
def ppDocLine (v : List Char) : Option (List Char) :=
  if v.contains '\n' then none
  else match v with
    | '/' :: _ => none
    | _ => some (trimTrailingSpaces v)

/-- the Rust lexer after `///`: `some (text, what follows the line end)`; `none` = "bare CR not allowed in doc-comment" -/
def lexDocLine : List Char → Option (List Char × List Char)
  | [] => some ([], [])
  | c :: r =>
    if c = '\n' then some ([], r)
    else if c = '\r' then (match r with
      | '\n' :: r' => some ([], r')
      | _ => none)
    else (lexDocLine r).map fun p => (c :: p.1, p.2)

def hasCr (s : List Char) : Bool := s.contains '\r'
def hasNl (s : List Char) : Bool := s.contains '\n'

/-- `l.flatMap (· ++ "\n")` -/
def unlines (ls : List (List Char)) : List Char := ls.flatMap fun l => l ++ ['\n']

end Oas3.Lex
