import Oas3Model.Model.Client
/-
C03, wire layout of query and header parameters (extension of Model/Client.lean, kept in its own module so that
the path model's proofs do not depend on it).

Implementation modelled:
* converter/parameters.rs::convert_parameter — member type `T` when required, `Option<T>` otherwise;
  `explode` defaults to `style ∈ {none, form}`; query members go through `FieldDef::with_serde_attributes`;
* ast/fields.rs::with_serde_attributes — `#[serde(rename = original)]` whenever the field identifier differs
  from the original name; `#[serde_as(as = "…StringWith{Comma,Space,Pipe}Separator")]` for arrays that are not
  exploded, wrapped in `Option<…>` for optional members;
* codegen/headers.rs — one insertion per header member: constant `ConstToken::from_raw(name)` whose value is
  `name.to_ascii_lowercase()`, value expression by type (string: the member itself, array:
  `iter().map(to_string).collect::<Vec<_>>().join(",")`, otherwise `to_string()`), wrapped in
  `if let Some(value) = &headers.f` when `FieldDef::is_required()` is false (optional OR defaulted).

Semantics (what the request then carries): `serde_urlencoded` on the query struct — `None` members are
skipped, a scalar is one pair under the member's serde key, a sequence is an error unless an adapter turned it
into one joined string; `HeaderMap::insert(constant, value)`.
-/
namespace Oas3.Client
open Oas3.Path Oas3.Naming

inductive Style | form | spaceDelimited | pipeDelimited | other
  deriving DecidableEq, Repr

inductive Item | string | integer | number | boolean | enum
  deriving DecidableEq, Repr

/-- a parameter with everything the wire layout depends on -/
structure WParam where
  name : List Char
  loc : Loc
  pathLevel : Bool := false
  isArray : Bool := false
  item : Item := .string          -- the scalar type, or the item type of an array
  required : Bool := false
  style : Option Style := none
  explode : Option Bool := none
  hasDefault : Bool := false
  deriving DecidableEq, Repr

def WParam.toParam (p : WParam) : Param := { name := p.name, loc := p.loc, pathLevel := p.pathLevel }

/-- `collect_parameters` on full parameters (same function as `collectParams`, see `collectW_toParam`) -/
def collectW (ps : List WParam) : List WParam :=
  let pathLevel := ps.filter (·.pathLevel)
  let opLevel := ps.filter (!·.pathLevel)
  opLevel.foldl (fun acc p => acc.filter (fun q => q.loc != p.loc || q.name != p.name) ++ [p]) pathLevel

/-! ### query -/

inductive Sep | comma | space | pipe
  deriving DecidableEq, Repr

def Sep.char : Sep → Char
  | .comma => ',' | .space => ' ' | .pipe => '|'

def sepOf : Option Style → Sep
  | some .spaceDelimited => .space
  | some .pipeDelimited => .pipe
  | _ => .comma

/-- OpenAPI: `explode` defaults to true for style form (the default style of query parameters), false otherwise -/
def explodeOf (p : WParam) : Bool :=
  match p.explode with
  | some b => b
  | none => p.style == none || p.style == some .form

def adapterName : Sep → List Char
  | .comma => "oas3_gen_support::StringWithCommaSeparator".toList
  | .space => "oas3_gen_support::StringWithSpaceSeparator".toList
  | .pipe => "oas3_gen_support::StringWithPipeSeparator".toList

/-- text of `#[serde_as(as = "…")]` -/
def adapterText (s : Sep) (optional : Bool) : List Char :=
  if optional then "Option<".toList ++ adapterName s ++ ">".toList else adapterName s

/-- the three adapters are `serde_with::StringWithSeparator<_, String>` (oas3-gen-support/src/lib.rs): they
convert sequences of `String` only -/
def adapterItemType : List Char := "String".toList

structure QMember where
  field : List Char
  key : List Char                 -- serde key = name of the pair on the wire
  isArray : Bool
  optional : Bool
  adapter : Option Sep
  deriving DecidableEq, Repr

/-- expected member of the `…Query` struct -/
def queryMember (p : WParam) : QMember :=
  { field := fieldName p.name, key := p.name, isArray := p.isArray, optional := !p.required,
    adapter := if p.isArray && !explodeOf p then some (sepOf p.style) else none }

/-- `sep`-joined text (`[T]::join`, `StringWithSeparator::serialize_as`) -/
def joinWith (sep : Char) : List (List Char) → List Char
  | [] => []
  | [x] => x
  | x :: y :: r => x ++ sep :: joinWith sep (y :: r)

/-- a parameter value as the caller supplies it (items already in their text form) -/
inductive PVal
  | absent
  | scalar (v : List Char)
  | list (vs : List (List Char))
  deriving DecidableEq, Repr

/-- `serde_urlencoded` on one member: `none` = the serializer returns an error (the call fails) -/
def memberPairs (m : QMember) : PVal → Option (List (List Char × List Char))
  | .absent => some []
  | .scalar v => some [(m.key, v)]
  | .list vs => match m.adapter with
    | some s => some [(m.key, joinWith s.char vs)]
    | none => none                                      -- "unsupported value": sequences are not pairs

def queryPairs : List (QMember × PVal) → Option (List (List Char × List Char))
  | [] => some []
  | (m, v) :: r => match memberPairs m v, queryPairs r with
    | some a, some b => some (a ++ b)
    | _, _ => none

/-- what OpenAPI prescribes for one supplied query parameter -/
def wantPairs (p : WParam) : PVal → List (List Char × List Char)
  | .absent => []
  | .scalar v => [(p.name, v)]
  | .list vs => if explodeOf p then vs.map fun v => (p.name, v) else [(p.name, joinWith (sepOf p.style).char vs)]

/-! ### header -/

def lowerName (n : List Char) : List Char := n.map Char.toLower

inductive HForm
  | str                            -- the member itself (`&headers.f` / `value`), a `String`
  | toString                       -- `….to_string()`
  | joinComma                      -- `….iter().map(|v| v.to_string()).collect::<Vec<_>>().join(",")`
  | other (text : List Char)       -- anything else
  deriving DecidableEq, Repr

structure HInsert where
  field : List Char
  const : List Char                -- identifier of the header-name constant
  wire : List Char                 -- its value
  form : HForm
  conditional : Bool               -- inside `if let Some(value) = &headers.f`
  optional : Bool                  -- the member is an `Option`
  deriving DecidableEq, Repr

/-- what today's generator emits for a header parameter -/
def headerInsert (p : WParam) : HInsert :=
  { field := fieldName p.name, const := toRustConstName idTr p.name, wire := lowerName p.name,
    form := if p.isArray then .joinComma else if p.item == .string then .str else .toString,
    conditional := !p.required || p.hasDefault, optional := !p.required }

/-- `style: simple` value of a header (explode does not change the text for primitives and arrays) -/
def joinHeader (items : List (List Char)) : List Char := joinWith ',' items

/-- a single-pass join that decides "first item?" by looking at the accumulator -/
def joinSkipping (items : List (List Char)) : List Char :=
  items.foldl (fun acc v => (if acc.isEmpty then acc else acc ++ [',']) ++ v) []

/-- header value produced by an insertion of a recognised form; `none`: no header / not a recognised form -/
def headerValue (h : HInsert) : PVal → Option (List Char)
  | .absent => none
  | .scalar v => match h.form with | .str | .toString => some v | _ => none
  | .list vs => match h.form with | .joinComma => some (joinHeader vs) | _ => none

/-- the property's header clause for one parameter and one extracted insertion: constant value is the name
(header names are case-insensitive, the `http` crate wants them lower-cased), the value form fits the type, and
the insertion is conditional exactly when the member is optional, which it is exactly when the parameter is not
required -/
def headerOk (p : WParam) (h : HInsert) (memberIsString : Bool) : Bool :=
  h.wire == lowerName p.name &&
  (if p.isArray then h.form == .joinComma else (h.form == .toString || (h.form == .str && memberIsString))) &&
  h.conditional == h.optional && h.optional == !p.required

/-- the property's query clause for one parameter and one extracted member -/
def queryOk (p : WParam) (m : QMember) : Bool :=
  m.key == p.name && m.isArray == p.isArray && m.optional == !p.required &&
  (if p.isArray then m.adapter == (if explodeOf p then none else some (sepOf p.style)) && !explodeOf p else m.adapter == none)

end Oas3.Client
