import Oas3Model.Model.Path
import Oas3Model.Sem.Url
/-
C06, request side: what the generated CLIENT puts on the wire against how the generated SERVER (a second,
separate generator run) takes it off the wire.

* route patterns of axum 0.8 / matchit 0.8.4 at the level the property needs: segment-wise, a literal segment
  must be equal, `{name}` (optionally after a static prefix in the same segment) captures the segment
  remainder (non-empty when the parameter ends the route), a parameter followed by more text in the same segment is rejected at insertion, the
  trailing slash is significant (an empty last segment is a segment);  stated semantics — compared with the
  real `matchit` crate by the harness op `interop.req.route` (tie K), not verified;
* the client's emitted path: one raw (percent-encoded) segment per `.push(..)`;
* string codecs of enum-valued parameters: client `Display` arms / serde renames against the server's
  `FromStr` / `Deserialize` arms under the server's scrutinee transform;
* the decidable judge `reqInteropOk` over the facts read from the two emitted halves.
-/
namespace Oas3.ReqInterop
open Oas3.Path Oas3.Url

abbrev Str := List Char

/-! ## route patterns -/

/-- one segment of a route pattern: literal text, or `pre{name}` (pre may be empty) -/
inductive PSeg
  | lit (s : Str)
  | cap (pre name : Str)
  deriving DecidableEq, Repr

/-- matchit 0.8.4: "named parameters must be followed by a `/` or the end of the route" — a segment with
text after the parameter, or with two parameters, is rejected at insertion (`InvalidParamSegment`); axum's
`Router::route` panics on that.  `none` = rejected. -/
def parsePSeg (s : Str) : Option PSeg :=
  match tokenize s with
  | .ok [] => some (.lit [])
  | .ok [.lit l] => some (.lit l)
  | .ok [.param n] => some (.cap [] n)
  | .ok [.lit l, .param n] => some (.cap l n)
  | _ => none

def mapOpt {α β} (f : α → Option β) : List α → Option (List β)
  | [] => some []
  | a :: r => match f a, mapOpt f r with
    | some b, some bs => some (b :: bs)
    | _, _ => none

/-- a pattern string starts with '/'; what follows is split at every '/' (so `/items/` has the two
segments `items` and the empty one, `/` has the single empty segment) -/
def parsePattern : Str → Option (List PSeg)
  | '/' :: r => mapOpt parsePSeg (splitOn '/' r)
  | _ => none

/-- the raw (still percent-encoded) segments of a request path -/
def segsOfPath : Str → Option (List Str)
  | '/' :: r => some (splitOn '/' r)
  | _ => none

abbrev Captures := List (Str × Str)

/-- `last`: the segment ends the route.  matchit 0.8.4 lets a parameter in the middle of a route capture the
empty string (`/{y}/b` matches `//b`), a parameter at the end of the route needs a non-empty remainder
(observed on the real crate through `interop.req.route`). -/
def matchSeg (last : Bool) : PSeg → Str → Option Captures
  | .lit s, x => if x = s then some [] else none
  | .cap pre n, x =>
    if pre.isPrefixOf x && (!last || !(x.drop pre.length).isEmpty) then some [(n, x.drop pre.length)] else none

/-- segment-wise match; the captured values are RAW (axum's `Path` extractor percent-decodes them) -/
def routeMatch : List PSeg → List Str → Option Captures
  | [], [] => some []
  | p :: ps, x :: xs =>
    match matchSeg ps.isEmpty p x, routeMatch ps xs with
    | some a, some b => some (a ++ b)
    | _, _ => none
  | _, _ => none

/-! ## the client's path -/

/-- what one `.push(..)` of the emitted chain contributes: a literal, `&request.path.f.to_string()`, or
`&format!("pre{}", request.path.f)` -/
inductive CSeg
  | lit (l : Str)
  | param (f : Str)
  | pre (p f : Str)
  deriving DecidableEq, Repr

def asciiBytes (l : Str) : List UInt8 := l.map fun c => UInt8.ofNat c.toNat

/-- raw form of literal text after `url::PathSegmentsMut::push` (ASCII; a non-ASCII character is always
percent-encoded, so `rawLit l = l` fails for it whatever this computes) -/
def rawLit (l : Str) : Str := encodeBytes (asciiBytes l)

/-- literal text that travels unchanged -/
def urlSafe (l : Str) : Bool := rawLit l == l

/-- raw segment the client emits; `env f` = UTF-8 bytes of the Display form of path field `f` -/
def clientRaw (env : Str → List UInt8) : CSeg → Str
  | .lit l => rawLit l
  | .param f => encodeBytes (env f)
  | .pre p f => rawLit p ++ encodeBytes (env f)

def CSeg.fields : CSeg → List Str
  | .lit _ => []
  | .param f => [f]
  | .pre _ f => [f]

/-- the pattern segment `to_axum_segment` must produce for a chain segment; `key f` = name under which the
server's path struct deserialises field `f` -/
def toAxum (key : Str → Str) : CSeg → PSeg
  | .lit l => .lit l
  | .param f => .cap [] (key f)
  | .pre p f => .cap p (key f)

def CSeg.safe : CSeg → Bool
  | .lit l => urlSafe l
  | .param _ => true
  | .pre p _ => urlSafe p

/-- judge clause (i), one segment: the server's pattern segment is the one derived from the client's chain
segment, the capture is named after the server's own deserialisation key, literal text travels unchanged -/
def segAgree (key : Str → Option Str) : CSeg → PSeg → Bool
  | .lit l, .lit m => l == m && urlSafe l
  | .param f, .cap p n => p.isEmpty && key f == some n
  | .pre q f, .cap p n => q == p && urlSafe q && key f == some n
  | _, _ => false

def pathOk (key : Str → Option Str) : List CSeg → List PSeg → Bool
  | [], [] => true
  | c :: cs, p :: ps => segAgree key c p && pathOk key cs ps
  | _, _ => false

/-! ## enum codecs -/

/-- transforms applied to the scrutinee of a string `match` -/
inductive Tr | id | asciiLower | lower | asciiUpper | upper | trim
  deriving DecidableEq, Repr

def isWs (c : Char) : Bool := c == ' ' || c == '\t' || c == '\n' || c == '\r' || c == Char.ofNat 11 || c == Char.ofNat 12

/-- `to_lowercase`/`to_uppercase` are modelled on ASCII (parameter values in the modelled domain are ASCII) -/
def Tr.apply : Tr → Str → Str
  | .id, s => s
  | .asciiLower, s => s.map Char.toLower
  | .lower, s => s.map Char.toLower
  | .asciiUpper, s => s.map Char.toUpper
  | .upper, s => s.map Char.toUpper
  | .trim, s => ((s.dropWhile isWs).reverse.dropWhile isWs).reverse

def applyAll (ts : List Tr) (s : Str) : Str := ts.foldl (fun a t => t.apply a) s

/-- `match <transforms>(s) { "k" => Ok(V), …, _ => fallback }`: first arm wins -/
structure Decoder where
  trs : List Tr
  arms : List (Str × Str)
  fallback : Option Str
  deriving DecidableEq, Repr

def fromStr (d : Decoder) (s : Str) : Option Str :=
  match d.arms.lookup (applyAll d.trs s) with
  | some v => some v
  | none => d.fallback

/-- `Display` arms / serde renames: variant ↦ string -/
abbrev Encoder := List (Str × Str)

def display (e : Encoder) (v : Str) : Option Str := e.lookup v

/-- judge clause (iii) for one enum type in one location -/
def enumOk (vars : List Str) (e : Encoder) (d : Decoder) : Bool :=
  vars.all fun v => match display e v with
    | some s => fromStr d s == some v
    | none => false

/-! ## header / query names, scalar forms, bodies -/

def lowerAscii (s : Str) : Str := s.map Char.toLower

/-- `http::HeaderMap`: names compare ASCII-case-insensitively -/
def headerNameEq (a b : Str) : Bool := lowerAscii a == lowerAscii b

/-- how a non-enum value is written / read -/
inductive Form
  | str                     -- the string itself / `value.to_string()` on a `&str`
  | display                 -- `x.to_string()` of a std scalar / `value.parse()`
  | joined (sep : Str)      -- `iter().map(to_string).join(sep)` / `split(sep).map(trim).filter_map(parse)`
  | sepAs (name : Str)      -- serde_as = "…StringWith<name>Separator" (same adapter on both sides)
  | other (text : Str)
  deriving DecidableEq, Repr

/-- value kind of a parameter as seen in ONE of the two runs -/
inductive Kind
  | string | scalar | enum (name : Str) | other (ty : Str)
  deriving DecidableEq, Repr

structure ParamSide where
  wire : Str            -- header name (value of the constant) / query key
  kind : Kind
  array : Bool
  optional : Bool
  form : Form
  deriving DecidableEq, Repr

/-- one header or query parameter in both runs, paired by the Rust field name (same pipeline) -/
structure ParamFact where
  field : Str
  client : ParamSide
  server : ParamSide
  deriving DecidableEq, Repr

def formsAgree (header : Bool) (c s : ParamSide) : Bool :=
  match c.form, s.form with
  | .str, .str => c.kind == .string && !c.array
  | .display, .display => (c.kind != .string || !header) && !c.array
  | .joined a, .joined b => a == b && c.array && header
  | .sepAs a, .sepAs b => a == b && c.array && !header
  | _, _ => false

def paramOk (header : Bool) (p : ParamFact) : Bool :=
  (if header then headerNameEq p.client.wire p.server.wire else p.client.wire == p.server.wire) &&
  p.client.kind == p.server.kind && p.client.array == p.server.array && p.client.optional == p.server.optional &&
  formsAgree header p.client p.server &&
  (match p.client.kind with | .other _ => false | _ => true)

inductive Body | none | json | form | text | bytes | other (s : Str)
  deriving DecidableEq, Repr

/-- one enum type in one location with the codec pair used there -/
structure EnumUse where
  name : Str
  loc : Str
  vars : List Str
  enc : Encoder
  dec : Decoder
  deriving DecidableEq, Repr

/-- the facts of one operation, read from the two emitted halves -/
structure OpFacts where
  cMethod : Str                   -- upper-case method of the client's call
  sMethod : Str                   -- upper-case method of the routing function the handler is registered with
  chain : List CSeg
  pattern : List PSeg
  pathKeys : List (Str × Str)     -- server path struct: field ↦ deserialisation key
  registered : Nat                -- router entries with this (pattern, method) that lead to this operation's handler
  clashes : Nat                   -- OTHER router entries with the same pattern shape and method
  headers : List ParamFact
  query : List ParamFact
  enums : List EnumUse
  cBody : Body × Bool
  sBody : Body × Bool
  deriving DecidableEq, Repr

def nodupStr : List Str → Bool
  | [] => true
  | a :: r => !r.contains a && nodupStr r

def OpFacts.key (f : OpFacts) (fld : Str) : Option Str := f.pathKeys.lookup fld

def routeOk (f : OpFacts) : Bool :=
  f.cMethod == f.sMethod && f.registered == 1 && f.clashes == 0 && pathOk f.key f.chain f.pattern &&
  -- every field of the server's path struct is bound by exactly one capture
  (f.pathKeys.map (·.1)).all (fun fld => (f.chain.flatMap CSeg.fields).count fld == 1) &&
  nodupStr (f.pathKeys.map (·.2))

def bodyOk (f : OpFacts) : Bool :=
  f.cBody == f.sBody && (match f.cBody.1 with | .other _ => false | _ => true)

def reqInteropOk (f : OpFacts) : Bool :=
  routeOk f && f.headers.all (paramOk true) && f.query.all (paramOk false) &&
  nodupStr (f.headers.map fun p => lowerAscii p.server.wire) && nodupStr (f.query.map (·.server.wire)) &&
  f.enums.all (fun u => enumOk u.vars u.enc u.dec) && bodyOk f

/-! ## the modelled request round trip -/

/-- a header map / query string as an association list; header names are stored lower-cased -/
def insertAll (norm : Str → Str) (ps : List (Str × Str)) : List (Str × Str) := ps.map fun p => (norm p.1, p.2)

def getBy (norm : Str → Str) (m : List (Str × Str)) (name : Str) : Option Str := m.lookup (norm name)

end Oas3.ReqInterop

namespace Oas3.ReqInterop
open Oas3.Url

/-- request values of one operation, by Rust field name: path values as the UTF-8 bytes of their Display form,
header / query values as the strings their encoders produce -/
structure ReqVal where
  path : Str → List UInt8
  hdr : Str → Str
  qry : Str → Str

/-- what travels -/
structure Wire where
  method : Str
  segs : List Str
  headers : List (Str × Str)
  query : List (Str × Str)
  body : Body × Bool
  deriving DecidableEq, Repr

/-- what the handler's extractors hand over: decoded path captures by deserialisation key, header and query
values by field (`none` = the lookup found nothing) -/
structure Extracted where
  path : List (Str × List UInt8)
  hdr : List (Str × Option Str)
  qry : List (Str × Option Str)
  deriving DecidableEq, Repr

def clientRequest (f : OpFacts) (v : ReqVal) : Wire :=
  { method := f.cMethod
    segs := f.chain.map (clientRaw v.path)
    headers := insertAll lowerAscii (f.headers.map fun p => (p.client.wire, v.hdr p.field))
    query := insertAll id (f.query.map fun p => (p.client.wire, v.qry p.field))
    body := f.cBody }

/-- `none` = the request does not reach this operation's handler (404/405/415) -/
def serverExtract (f : OpFacts) (w : Wire) : Option Extracted :=
  if w.method = f.sMethod ∧ w.body = f.sBody then
    match routeMatch f.pattern w.segs with
    | some caps => some
        { path := caps.map fun c => (c.1, pctDecode c.2)
          hdr := f.headers.map fun p => (p.field, getBy lowerAscii w.headers p.server.wire)
          qry := f.query.map fun p => (p.field, getBy id w.query p.server.wire) }
    | none => none
  else none

/-- the values the handler should see -/
def expected (f : OpFacts) (v : ReqVal) : Extracted :=
  { path := (f.chain.flatMap CSeg.fields).map fun fld => ((f.key fld).getD [], v.path fld)
    hdr := f.headers.map fun p => (p.field, some (v.hdr p.field))
    qry := f.query.map fun p => (p.field, some (v.qry p.field)) }

end Oas3.ReqInterop
