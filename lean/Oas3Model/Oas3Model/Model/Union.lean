import Oas3Model.Model.Codec
/-
Untagged unions (`oneOf` / `anyOf` without a discriminator) — converter/unions.rs `collect_union_variants`,
converter/variants.rs `build_variant` / `build_const_content`, converter/union_types.rs `untagged_enum`:
one enum variant per alternative, in the order of the list; `{type: null}` alternatives are skipped; an
alternative with `const` becomes a UNIT variant carrying `#[serde(rename = const)]`; every other alternative
becomes a newtype variant around the alternative's own type; the enum carries `#[serde(untagged)]` — unless EVERY
variant is a unit variant (a union of constants): then the enum carries no container attribute and is a plain value
enum read and written by the `rename`d names (union_types.rs `untagged_enum`, since the repair of F02-11).
-/
namespace Oas3.Codec

/-- an alternative without any structure of its own: a free-form object (`{type: object}`), a nullable one
(`{type: [object, null]}`), the empty closed object (`{type: object, additionalProperties: false}`), or the empty schema `{}` -/
inductive FreeKind | obj | objNull | objClosed | any
  deriving DecidableEq, Repr

/-- one alternative of a union schema -/
inductive Alt
  | const (v : Str)
  | null
  | sch (s : S)
  | free (k : FreeKind)

/-- one variant of the emitted `#[serde(untagged)]` enum -/
inductive UVar
  | unit (wire : Str)
  | newtype (t : Ty)
  | value                      -- newtype variant around `serde_json::Value`

def unionTy (fname : Str → Str) (vname : J → Str) : List Alt → List UVar
  | [] => []
  | .const v :: r => .unit v :: unionTy fname vname r
  | .null :: r => unionTy fname vname r
  | .sch s :: r => .newtype (typeOf fname vname s) :: unionTy fname vname r
  | .free _ :: r => .value :: unionTy fname vname r

def Alt.isConst : Alt → Bool
  | .const _ => true
  | _ => false

def Alt.isNullAlt : Alt → Bool
  | .null => true
  | _ => false

/-- the emitted root type of a union -/
inductive URoot
  | plain (vs : List Variant)        -- no container attribute: unit variants by name
  | untagged (vs : List UVar)

/-- the constants of a list of alternatives, in order -/
def constsOf : List Alt → List Str
  | [] => []
  | .const v :: r => v :: constsOf r
  | _ :: r => constsOf r

/-- every variant is a unit variant, and there is one -/
def allUnit (alts : List Alt) : Bool := alts.all (fun a => a.isConst || a.isNullAlt) && alts.any Alt.isConst

/-- variant identifiers are not modelled here (naming is C09's subject): `name` is left empty -/
def unionRoot (fname : Str → Str) (vname : J → Str) (alts : List Alt) : URoot :=
  if allUnit alts then .plain ((constsOf alts).map fun c => ⟨[], c, []⟩) else .untagged (unionTy fname vname alts)

/-! ### `anyOf` with a free-form string next to string constants: the Known/Other pair (converter/relaxed_enum.rs)

`try_build_relaxed_enum` is asked first for every `anyOf`: when some alternative is a free-form string schema (type string, no
`enum`, no `const` — a `format` does not matter) and the alternatives carry at least one enum / const value, the union becomes
`enum T { Known(TKnown), Other(String) }` (untagged) where `TKnown` is the value enum over ALL collected values (in order,
duplicates removed).  Alternatives of any other kind are not looked at. -/

def S.isFreeformString : S → Bool
  | .str | .strNum _ | .strFloat _ | .strBytes => true
  | _ => false

def Alt.isFreeform : Alt → Bool
  | .sch s => s.isFreeformString
  | _ => false

def dedupJ : List J → List J → List J
  | [], _ => []
  | v :: r, seen => if seen.any (fun w => w.scalarEq v) then dedupJ r seen else v :: dedupJ r (v :: seen)

/-- `extract_enum_entries` over the alternatives -/
def entriesOf : List Alt → List J
  | [] => []
  | .const v :: r => .str v :: entriesOf r
  | .sch (.enum vals) :: r => vals ++ entriesOf r
  | .sch (.single v) :: r => .str v :: entriesOf r
  | _ :: r => entriesOf r

def relaxedPattern (alts : List Alt) : Bool := alts.any Alt.isFreeform && !(entriesOf alts).isEmpty

/-- the emitted root type of an `anyOf` -/
def anyOfRoot (fname : Str → Str) (vname : J → Str) (alts : List Alt) : URoot :=
  if relaxedPattern alts then
    .untagged [.newtype (typeOf fname vname (.enum (dedupJ (entriesOf alts) []))), .newtype .string]
  else unionRoot fname vname alts

def rootOf (fname : Str → Str) (vname : J → Str) (oneOf : Bool) (alts : List Alt) : URoot :=
  if oneOf then unionRoot fname vname alts else anyOfRoot fname vname alts

end Oas3.Codec
