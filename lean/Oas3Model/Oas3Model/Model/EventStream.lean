import Oas3Model.Sem.Sse
/-
Model of `crates/oas3-gen-support/src/event_stream.rs` : `EventStream::<T>::poll_next`, against an
arbitrary sequence of inner poll results.  `dec` (= `parse_event::<T>`) is a parameter.
-/
namespace Oas3.EventStream
open Oas3.Sse

inductive OuterOut (R : Type)
  | pending
  | item (r : R)          -- Ok(T) or Err(JsonDeserialize) for this event alone
  | sseErr                -- Err(SseParse)
  | done
  | panic                 -- the inner crate panicked inside this poll
  deriving DecidableEq, Repr

/-- one call of `poll_next`: consumes inner poll results until it can return. An exhausted inner
stream keeps answering `Ready(None)`. -/
def pollNext {R : Type} (dec : List Char → R) : List InnerOut → OuterOut R × List InnerOut
  | [] => (.done, [])
  | .ev d :: rest => if d.isEmpty then pollNext dec rest else (.item (dec d), rest)
  | .utf8Err :: rest => (.sseErr, rest)
  | .done :: rest => (.done, rest)
  | .pending :: rest => (.pending, rest)
  | .panic :: _ => (.panic, [])

theorem pollNext_length {R : Type} (dec : List Char → R) (is : List InnerOut) :
    (pollNext dec is).2.length ≤ is.length - 1 := by
  induction is with
  | nil => simp [pollNext]
  | cons i rest ih =>
    cases i <;> simp [pollNext]
    split
    · omega
    · simp

/-- what a consumer sees: poll until `Ready(None)`. -/
def outerTrace {R : Type} (dec : List Char → R) (is : List InnerOut) : List (OuterOut R) :=
  match h : is with
  | [] => [.done]
  | i :: rest =>
    match hp : pollNext dec is with
    | (.done, _) => [.done]
    | (.panic, _) => [.panic]
    | (o, rest') =>
      have : rest'.length < is.length := by
        have := pollNext_length dec is
        rw [hp] at this; subst h; simp at this ⊢; omega
      o :: outerTrace dec rest'
termination_by is.length

end Oas3.EventStream
