import Oas3Model.Sem.Sse
/-
Model of `crates/oas3-gen-support/src/event_stream.rs` : `EventStream::<T>::poll_next`, against an
arbitrary sequence of inner poll results.  `dec` (= `parse_event::<T>`) is a parameter.
-/
namespace Oas3.EventStream
open Oas3.Sse

inductive OuterOut (R : Type)
  | pending
  | item (r : R)          -- Ok(T) or Err(JsonDeserialize) for this event alone
  | sseErr                -- Err(SseParse)
  | done
  | panic                 -- the inner crate panicked inside this poll
  deriving DecidableEq, Repr

/-- one call of `poll_next`: consumes inner poll results until it can return. An exhausted inner
stream keeps answering `Ready(None)`. -/
def pollNext {R : Type} (dec : List Char → R) : List InnerOut → OuterOut R × List InnerOut
  | [] => (.done, [])
  | .ev d :: rest => if d.isEmpty then pollNext dec rest else (.item (dec d), rest)
  | .utf8Err :: rest => (.sseErr, rest)
  | .done :: rest => (.done, rest)
  | .pending :: rest => (.pending, rest)
  | .panic :: _ => (.panic, [])

theorem pollNext_length {R : Type} (dec : List Char → R) (is : List InnerOut) :
    (pollNext dec is).2.length ≤ is.length - 1 := by
  induction is with
  | nil => simp [pollNext]
  | cons i rest ih =>
    cases i <;> simp [pollNext]
    split
    · omega
    · simp

/-- what a consumer sees: poll until `Ready(None)`. -/
def outerTrace {R : Type} (dec : List Char → R) (is : List InnerOut) : List (OuterOut R) :=
  match h : is with
  | [] => [.done]
  | i :: rest =>
    match hp : pollNext dec is with
    | (.done, _) => [.done]
    | (.panic, _) => [.panic]
    | (o, rest') =>
      have : rest'.length < is.length := by
        have := pollNext_length dec is
        rw [hp] at this; subst h; simp at this ⊢; omega
      o :: outerTrace dec rest'
termination_by is.length

end Oas3.EventStream

/-! ## wake accounting: the same loop as seen by a task that is re-polled only after a wake-up

`poll_next` returning `Poll::Pending` promises that the waker of the context will be woken.  There
are two ways to keep the promise: the inner stream answered `Pending` in this very call (then IT
took the waker: `innerPending`), or `poll_next` wakes the waker itself before returning
(`wokeSelf`).  A `Pending` with neither is a lost wake-up: under an executor the consumer sleeps
forever, whatever is still buffered. -/
namespace Oas3.EventStream
open Oas3.Sse

/-- one step of the scripted transport -/
inductive Step
  | chunk (bytes : List UInt8)   -- `Ready(Some(chunk))`
  | pendLater                    -- `Pending`; the transport keeps the waker and wakes it after the call
  | pendWake                     -- `Pending`; the transport wakes the waker before it returns
  deriving Repr

def Step.toIn : Step → In
  | .chunk b => .chunk b
  | .pendLater => .pending
  | .pendWake => .pending

/-- inner poll answers, `pending` with what the transport did to the waker during the call -/
inductive InnerW
  | pending (woke : Bool)
  | ev (data : List Char)
  | utf8Err
  | done
  | panic
  deriving DecidableEq, Repr

def InnerW.erase : InnerW → InnerOut
  | .pending _ => .pending
  | .ev d => .ev d
  | .utf8Err => .utf8Err
  | .done => .done
  | .panic => .panic

/-- `innerRun` with the wake bookkeeping of the transport -/
def innerRunW (st : St) : List Step → List InnerW
  | [] => if st.bytes.isEmpty then [.done] else [.utf8Err, .done]
  | .pendLater :: rest => .pending false :: innerRunW st rest
  | .pendWake :: rest => .pending true :: innerRunW st rest
  | .chunk bs :: rest =>
    match feedBytes st bs with
    | none => [.panic]
    | some (st', evs) => evs.map .ev ++ innerRunW st' rest

/-- result of ONE call of `poll_next` -/
structure Poll (R : Type) where
  out : OuterOut R
  rest : List InnerW
  innerPending : Bool := false    -- the inner stream answered `Pending` in this call: it holds the waker
  wokeSelf : Bool := false        -- `poll_next` called `wake_by_ref` itself
  transportWoke : Bool := false   -- the transport woke the waker during the call

/-- `EventStream::poll_next` (today's code: no budget, never wakes itself) -/
def pollStep {R : Type} (dec : List Char → R) : List InnerW → Poll R
  | [] => { out := .done, rest := [] }
  | .ev d :: rest => if d.isEmpty then pollStep dec rest else { out := .item (dec d), rest }
  | .utf8Err :: rest => { out := .sseErr, rest }
  | .done :: rest => { out := .done, rest }
  | .pending w :: rest => { out := .pending, rest, innerPending := true, transportWoke := w }
  | .panic :: _ => { out := .panic, rest := [] }

/-- the loop with a skip budget of `n` empty-data events per call (`k` = skipped so far in this
call); `selfWake` says whether it wakes the waker before giving up.  NOT today's code: the subject
of the witnesses `budget_*` in `Props/C20`. -/
def pollBudget {R : Type} (n : Nat) (selfWake : Bool) (dec : List Char → R) : Nat → List InnerW → Poll R
  | _, [] => { out := .done, rest := [] }
  | k, .ev d :: rest =>
    if d.isEmpty then
      if k + 1 == n then { out := .pending, rest, wokeSelf := selfWake }
      else pollBudget n selfWake dec (k + 1) rest
    else { out := .item (dec d), rest }
  | _, .utf8Err :: rest => { out := .sseErr, rest }
  | _, .done :: rest => { out := .done, rest }
  | _, .pending w :: rest => { out := .pending, rest, innerPending := true, transportWoke := w }
  | _, .panic :: _ => { out := .panic, rest := [] }

/-- what an executor-driven consumer observes -/
inductive Seen (R : Type)
  | out (o : OuterOut R) (innerPending woke : Bool)
  | stalled        -- `Pending` and nobody will ever wake the task: the consumer sleeps forever
  | fuel           -- artefact of the fuel-bounded definition; proved absent for sufficient fuel
  deriving DecidableEq, Repr

def Seen.toOuter {R : Type} : Seen R → Option (OuterOut R)
  | .out o _ _ => some o
  | _ => none

/-- a consumer under executor semantics: after `Pending` the task is polled again only if a wake-up
is due (the inner stream holds the waker, or the waker was woken during the call). -/
def execWith {R : Type} (poll : List InnerW → Poll R) : Nat → List InnerW → List (Seen R)
  | 0, _ => [.fuel]
  | f + 1, is =>
    let p := poll is
    let seen := Seen.out p.out p.innerPending (p.transportWoke || p.wokeSelf)
    match p.out with
    | .done => [seen]
    | .panic => [seen]
    | .pending => if p.innerPending || p.wokeSelf then seen :: execWith poll f p.rest else [.stalled]
    | _ => seen :: execWith poll f p.rest

def execTrace {R : Type} (dec : List Char → R) (is : List InnerW) : List (Seen R) :=
  execWith (pollStep dec) (is.length + 1) is

end Oas3.EventStream
