import Oas3Model.Model.ClientWire
/-
C05, what the handler is handed for each parameter: the members of the `…RequestPath` / `…RequestQuery` /
`…RequestHeader` structs of ONE operation, judged member by member against the MERGED parameter set
(`collect_parameters`: an operation-level parameter replaces the path-item parameter of the same (location, name)).

Implementation modelled: converter/parameters.rs::convert_parameter — member type `T` when required (path parameters
always), `Option<T>` otherwise; `T` by schema type (`String`, `i64`, `f64`, `bool`, `Vec<item>`; enums get a generated
type); query members are keyed by `#[serde(rename = name)]` when the identifier differs; path members are keyed by
the route capture (`to_axum_path` uses the field identifier); header members are found through the header constant.
-/
namespace Oas3.Server
open Oas3.Client

/-- a member of a parameter struct as emitted -/
structure SField where
  ident : List Char                   -- field identifier
  rename : Option (List Char)         -- `#[serde(rename = "…")]`
  ty : List Char                      -- type text, spaces removed
  deriving DecidableEq, Repr

def scalarTy : Item → Option (List Char)
  | .string => some "String".toList
  | .integer => some "i64".toList
  | .number => some "f64".toList
  | .boolean => some "bool".toList
  | .enum => none                      -- a generated enum type: any name

def isPrefixTy (pre : List Char) (t : List Char) : Bool := pre.isPrefixOf t && t.getLast? == some '>'

/-- strip one `Option<…>` -/
def unOption (t : List Char) : Option (List Char) :=
  if isPrefixTy "Option<".toList t then some ((t.drop 7).dropLast) else none

def unVec (t : List Char) : Option (List Char) :=
  if isPrefixTy "Vec<".toList t then some ((t.drop 4).dropLast) else none

def primitiveTys : List (List Char) := ["String", "i64", "f64", "bool", "i32", "u32", "u64", "f32"].map String.toList

/-- does the inner type (below Option) fit the declared schema type? an enum fits any non-primitive, non-wrapper name -/
def innerFits (p : WParam) (t : List Char) : Bool :=
  let item (x : List Char) : Bool := match scalarTy p.item with
    | some s => x == s
    | none => !primitiveTys.contains x && (unOption x).isNone && (unVec x).isNone
  if p.isArray then (match unVec t with | some x => item x | none => false) else item t

/-- the key under which the framework looks the member up -/
def memberKey (loc : Loc) (f : SField) : List Char :=
  match loc with
  | .query => f.rename.getD f.ident
  | _ => f.ident

def wantKey (p : WParam) : List Char :=
  match p.loc with
  | .query => p.name
  | _ => fieldName p.name

/-- member clause: right key, `Option` exactly when the parameter is not required, inner type as declared -/
def memberOk (p : WParam) (f : SField) : Bool :=
  memberKey p.loc f == wantKey p &&
  (match unOption f.ty with
   | some inner => !p.required && innerFits p inner
   | none => p.required && innerFits p f.ty)

/-- the struct of one location: one fitting member per merged parameter of that location, and no member more -/
def locOk (merged : List WParam) (loc : Loc) (fields : List SField) : Bool :=
  let ps := merged.filter (·.loc == loc)
  ps.all (fun p => ((fields.filter fun f => memberKey loc f == wantKey p).length == 1) && fields.any (memberOk p)) &&
  fields.length == ps.length

/-- first parameter of a location that has no fitting member (for the message) -/
def firstBad (merged : List WParam) (loc : Loc) (fields : List SField) : Option WParam :=
  (merged.filter (·.loc == loc)).find? fun p => !(((fields.filter fun f => memberKey loc f == wantKey p).length == 1) && fields.any (memberOk p))

end Oas3.Server
