/-
Model of `SchemaRegistry::compute_inheritance_depths` (memoised recursion over allOf parents, which
ASSUMES the allOf graph is acyclic) and of the three-step module write in `ui/commands/generate.rs`.
-/
namespace Oas3.Depth

abbrev Name := List Char

def parents (g : List (Name × List Name)) (n : Name) : List Name :=
  match g.find? (fun p => p.1 == n) with
  | some p => p.2
  | none => []

/-- `compute_depth` without the memo table (the memo only avoids recomputation; it is filled AFTER the
recursive calls return, so it never cuts a cycle). `none` = the recursion does not return within `fuel`
nested calls (the real code overflows its stack). -/
def depth (g : List (Name × List Name)) : Nat → Name → Option Nat
  | 0, _ => none
  | fuel + 1, n =>
    let ps := parents g n
    if ps.isEmpty then some 0
    else
      let ds := ps.map (depth g fuel)
      if ds.any Option.isNone then none
      else some ((ds.filterMap id).foldl max 0 + 1)

/-- the module write: create_dir_all, then types.rs, client.rs, mod.rs in this order; a fault at step k
leaves the first k files written. `none` fault = success. -/
def writeModule (existing : List Name) (fault : Option Nat) : List Name :=
  let files := ["types.rs".toList, "client.rs".toList, "mod.rs".toList]
  match fault with
  | none => existing ++ files.filter (fun f => !existing.contains f)
  | some k => existing ++ (files.take k).filter (fun f => !existing.contains f)

end Oas3.Depth
