/-
Model (F) of the enum-mode mechanism of oas3-gen (property C15), read from

* `ui/commands/generate.rs`  `EnumPolicies::from`, `create_orchestrator`      → `policies` (generated table)
* `converter/unions.rs`      `EnumConverter::convert_value_enum`               → `strategyOf`
* `converter/relaxed_enum.rs` `create_known_enum` (always `Preserve`), wrapper  → `strategyOf`, `Emitted.wrapped`
* `converter/value_enums.rs` `ValueEnumBuilder::build_enum_from_values`        → `buildAux` / `build`
* `ast/mod.rs`               `VariantDef::{serde_name,add_alias}`, `EnumDef::fallback_variant` → `Variant`, `fallbackVariant`
* `codegen/enums.rs`         `CaseInsensitiveDeserializeImplFragment`, `EnumFragment` → `emitDe`
* `ast/tokens.rs`            `Ident::new_raw` on a variant called `r#Self` panics → `F = none`

The naming function (`to_rust_type_name`, modelled in `Model/Naming.lean`) is a PARAMETER `nm` of
everything here; the theorems hold for every `nm`.  Core Lean only.
-/
import Oas3Model.Model.Naming
import Oas3Model.Gen.EnumModes

namespace Oas3.Enum
open Oas3.Naming (natChars)

abbrev Str := List Char

/-- a unit variant with its `#[serde(rename = …, alias = …, …)]` literals -/
structure Variant where
  name : Str
  rename : Str
  aliases : List Str
deriving DecidableEq, Repr, Inhabited

inductive Strategy | dedup | preserve
deriving DecidableEq, Repr

/-- `BTreeMap<String, usize>`: newest binding first, `lookup` returns the newest (= `insert` overwrites) -/
abbrev Seen := List (Str × Nat)

def Variant.withAlias (x : Variant) (a : Str) : Variant := { x with aliases := x.aliases ++ [a] }

/-- `variants[idx].add_alias(v)` -/
def addAliasAt : List Variant → Nat → Str → List Variant
  | [], _, _ => []
  | x :: xs, 0, a => x.withAlias a :: xs
  | x :: xs, i + 1, a => x :: addAliasAt xs i a

/-- The fold of `build_enum_from_values`.  An entry is `some v` (JSON string `v`) or `none` (a JSON
value `NormalizedVariant::try_from` rejects, i.e. `null`): it is filtered out AFTER `enumerate()`, so it
still consumes an index `i`. -/
def buildAux (st : Strategy) (nm : Str → Str) : List (Option Str) → Nat → List Variant → Seen → List Variant
  | [], _, vars, _ => vars
  | none :: es, i, vars, seen => buildAux st nm es (i + 1) vars seen
  | some v :: es, i, vars, seen =>
    match seen.lookup (nm v) with
    | some idx =>
      match st with
      | .dedup => buildAux st nm es (i + 1) (addAliasAt vars idx v) seen
      | .preserve =>
        buildAux st nm es (i + 1) (vars ++ [⟨nm v ++ natChars i, v, []⟩]) ((nm v ++ natChars i, vars.length) :: seen)
    | none => buildAux st nm es (i + 1) (vars ++ [⟨nm v, v, []⟩]) ((nm v, vars.length) :: seen)

def build (st : Strategy) (nm : Str → Str) (es : List (Option Str)) : List Variant := buildAux st nm es 0 [] []

/-- the declared string values, in order -/
def strs : List (Option Str) → List Str
  | [] => []
  | none :: es => strs es
  | some v :: es => v :: strs es

/-- "a suffixed name was already taken": the only way `Preserve` produces two variants of one name -/
def clashAux (nm : Str → Str) : List (Option Str) → Nat → Nat → Seen → Bool
  | [], _, _, _ => false
  | none :: es, i, len, seen => clashAux nm es (i + 1) len seen
  | some v :: es, i, len, seen =>
    match seen.lookup (nm v) with
    | some _ =>
      (seen.lookup (nm v ++ natChars i)).isSome || clashAux nm es (i + 1) (len + 1) ((nm v ++ natChars i, len) :: seen)
    | none => clashAux nm es (i + 1) (len + 1) ((nm v, len) :: seen)

def preserveClash (nm : Str → Str) (es : List (Option Str)) : Bool := clashAux nm es 0 0 []

/-! ### what is emitted for the enum -/

def lowerS (s : Str) : Str := s.map Char.toLower

structure Arm where
  key : Str
  target : Str
deriving DecidableEq, Repr

/-- how the emitted enum is decoded: `#[derive(Deserialize)]`, or the hand-written impl
`let s = String::deserialize(d)?; match <scrutinee> { "key" => Ok(E::target), …, _ => fallback }`
with scrutinee `s.to_ascii_lowercase().as_str()` (`lower = true`) or `s.as_str()`. -/
inductive De
  | derive
  | custom (lower : Bool) (arms : List Arm) (fallback : Option Str)
deriving DecidableEq, Repr

structure Emitted where
  variants : List Variant
  de : De
  /-- the enum is wrapped as `#[serde(untagged)] enum E { Known(EKnown), Other(String) }` -/
  wrapped : Bool
deriving DecidableEq, Repr

def isFallbackName (n : Str) : Bool := Oas3.Gen.enumFallbackNames.contains n

/-- `EnumDef::fallback_variant` -/
def fallbackVariant (vs : List Variant) : Option Str := (vs.find? fun x => isFallbackName x.name).map (·.name)

/-- `EnumFragment::to_tokens`: custom `Deserialize` iff `case_insensitive`; arms are the lower-cased RENAMES only -/
def emitDe (ci : Bool) (vs : List Variant) : De :=
  if ci then .custom true (vs.map fun x => ⟨lowerS x.rename, x.name⟩) (fallbackVariant vs) else .derive

/-! ### modes and shapes -/

inductive Mode | merge | preserve | relaxed
deriving DecidableEq, Repr

inductive Shape | plain | nullable | «open»
deriving DecidableEq, Repr

def Mode.key : Mode → String
  | .merge => "merge" | .preserve => "preserve" | .relaxed => "relaxed"

structure Policies where
  preserve : Bool
  ci : Bool
deriving DecidableEq, Repr

/-- `EnumPolicies::from` (table regenerated from the source) -/
def policies (m : Mode) : Policies :=
  match Oas3.Gen.enumPolicies.lookup m.key with
  | some (p, c) => ⟨p, c⟩
  | none => ⟨false, false⟩

def strategyOf (m : Mode) (sh : Shape) : Strategy :=
  if sh = .open then (if Oas3.Gen.openKnownPreserve then .preserve else .dedup)
  else if (policies m).preserve then .preserve else .dedup

def rawSelf : Str := "r#Self".toList

/-- `SchemaExt::extract_enum_entries` on the three spec shapes the check declares a value list in:
`enum: values` | `type: [string, null], enum: values with null inserted at nullpos` |
`anyOf: [{enum: values}, {type: string}]` (union path: `.unique_by(value)` drops exact duplicates). -/
def entriesOf (sh : Shape) (values : List Str) (nullpos : Nat) : List (Option Str) :=
  match sh with
  | .plain => values.map some
  | .nullable => (values.take nullpos).map some ++ [none] ++ (values.drop nullpos).map some
  | .open => values.eraseDups.map some

/-- a variant called `r#Self` makes `Ident::new_raw("Self")` panic while the tokens are produced -/
def selfPanics (nm : Str → Str) (st : Strategy) (es : List (Option Str)) : Bool :=
  (build st nm es).any fun x => x.name == rawSelf

/-- words `syn` refuses as an identifier (TRUSTED table: `syn::Ident::parse`); the whole output is
re-parsed with `syn::parse2`, so a helper constructor `pub fn <keyword>()` fails the generation. -/
def synKeywords : List Str :=
  ["abstract","as","async","await","become","box","break","const","continue","crate","do","dyn","else","enum","extern",
   "false","final","fn","for","if","impl","in","let","loop","macro","match","mod","move","mut","override","priv","pub",
   "ref","return","static","struct","super","trait","true","try","typeof","unsafe","unsized","use","virtual","where",
   "while","yield"].map String.toList

/-- `RelaxedEnumBuilder::build_known_value_constructors` (helpers are on by default): a value whose
variant name is one word that lower-cases to a keyword gets the constructor `pub fn <keyword>()`.
(Under-approximates `derive_method_names`: multi-word names that shrink to a keyword after the words of
the enum's own name are removed are not modelled.) -/
def helperKeyword (nm : Str → Str) (sh : Shape) (es : List (Option Str)) : Bool :=
  sh == .open && (strs es).any fun v => synKeywords.contains (lowerS (nm v))

/-- the whole mechanism; `none` = nothing is generated (panic in `Ident::new_raw`, or the emitted
file does not parse) -/
def F (nm : Str → Str) (m : Mode) (sh : Shape) (es : List (Option Str)) : Option Emitted :=
  let vs := build (strategyOf m sh) nm es
  if selfPanics nm (strategyOf m sh) es || helperKeyword nm sh es then none
  else some ⟨vs, emitDe (policies m).ci vs, sh == .open⟩

end Oas3.Enum
