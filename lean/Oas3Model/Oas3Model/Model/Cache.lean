import Oas3Model.Model.Naming
/-
Cache kernel (property C13): model of the type-sharing decisions of the generator.

* `J`, `normalize`, `sortKeysJ`, `ser`, `canon`  — `converter/hashing.rs::CanonicalSchema::from_schema`
  (`normalize_schema_semantics` + `json_canon::to_string`, RFC 8785) on the integer-only JSON fragment.
* `JV`, `enumKey`, `wireVals`                    — `union_types.rs::entries_to_cache_key` and the wire
  strings a value enum accepts (`naming/inference.rs::NormalizedVariant::try_from`).
* `Var`, `UnionS`, `refsOf`, `renderU`            — `utils/refs.rs::extract_union_fingerprint`, the
  `UnionRegistry` key, and what an (un)tagged union enum looks like on the wire.
* `St`, `Step`, `step`                            — `converter/cache.rs::SharedSchemaCache` as a state machine.
* `Occ`, `token`                                  — `inline_resolver.rs` (lookup-before-generate): which
  type identity each occurrence of the C13 feature grammar ends up with.

Everything is total and executable; strings are `List Char`.
-/
namespace Oas3.Cache
open Oas3.Naming

/-! ### strings: code-point order (Rust `String` order on valid UTF-8) and insertion sort -/

def sLe : List Char → List Char → Bool
  | [], _ => true
  | _ :: _, [] => false
  | a :: r, b :: s => if a.toNat < b.toNat then true else if b.toNat < a.toNat then false else sLe r s

def insStr (x : List Char) : List (List Char) → List (List Char)
  | [] => [x]
  | y :: r => if sLe x y then x :: y :: r else y :: insStr x r

/-- `sort_unstable` / `.sorted()` on strings (any sort gives the same list on a total order; the
theorems below only need membership preservation). -/
def sortStrs : List (List Char) → List (List Char)
  | [] => []
  | x :: r => insStr x (sortStrs r)

def insDedup (x : List Char) : List (List Char) → List (List Char)
  | [] => [x]
  | y :: r => if x == y then y :: r else if sLe x y then x :: y :: r else y :: insDedup x r

/-- contents of a `BTreeSet<String>` in iteration order -/
def sortDedup : List (List Char) → List (List Char)
  | [] => []
  | x :: r => insDedup x (sortDedup r)

/-! ### canonical schema (JSON level) -/

inductive J
  | null
  | bool (b : Bool)
  | num (n : Int)
  | str (s : List Char)
  | arr (xs : List J)
  | obj (kvs : List (List Char × J))
  deriving Repr, Inhabited

def maxSafe : Int := 9007199254740991

/-- `clamp_number_to_safe_range` on integers -/
def clamp (n : Int) : Int := if n > maxSafe then maxSafe else if n < -maxSafe then -maxSafe else n

def strOfJ : J → Option (List Char)
  | .str s => some s
  | _ => none

/-- `sort_string_array_in_place`: sorted iff every element is a string -/
def sortIfStrings (xs : List J) : List J :=
  let ss := xs.filterMap strOfJ
  if ss.length == xs.length then (sortStrs ss).map J.str else xs

def sortedKeyNames : List (List Char) := ["required".toList, "type".toList, "enum".toList]

def preSort (k : List Char) (v : J) : J :=
  match v with
  | .arr xs => if sortedKeyNames.contains k then .arr (sortIfStrings xs) else v
  | _ => v

mutual
/-- `normalize_schema_semantics` -/
def normalize : J → J
  | .obj kvs => .obj (normKvs kvs)
  | .arr xs => .arr (normList xs)
  | .num n => .num (clamp n)
  | j => j
def normList : List J → List J
  | [] => []
  | x :: r => normalize x :: normList r
def normKvs : List (List Char × J) → List (List Char × J)
  | [] => []
  | (k, v) :: r => (k, preSort k (normalize v)) :: normKvs r
end

/-- stable insertion by key (first of equal keys stays first) -/
def insKV (k : List Char) (v : J) : List (List Char × J) → List (List Char × J)
  | [] => [(k, v)]
  | (k', v') :: r => if sLe k k' then (k, v) :: (k', v') :: r else (k', v') :: insKV k v r

def sortKV : List (List Char × J) → List (List Char × J)
  | [] => []
  | (k, v) :: r => insKV k v (sortKV r)

mutual
/-- RFC 8785 member ordering, recursively -/
def sortKeysJ : J → J
  | .obj kvs => .obj (sortKV (sortKeysKvs kvs))
  | .arr xs => .arr (sortKeysList xs)
  | j => j
def sortKeysList : List J → List J
  | [] => []
  | x :: r => sortKeysJ x :: sortKeysList r
def sortKeysKvs : List (List Char × J) → List (List Char × J)
  | [] => []
  | (k, v) :: r => (k, sortKeysJ v) :: sortKeysKvs r
end

def hexDigit (n : Nat) : Char := if n < 10 then Char.ofNat (48 + n) else Char.ofNat (87 + n)

/-- ECMAScript `JSON.stringify` string escaping (what RFC 8785 prescribes) -/
def escChar (c : Char) : List Char :=
  if c == '"' then ['\\', '"'] else if c == '\\' then ['\\', '\\']
  else if c.toNat == 8 then ['\\', 'b'] else if c.toNat == 12 then ['\\', 'f']
  else if c == '\n' then ['\\', 'n'] else if c == '\r' then ['\\', 'r'] else if c == '\t' then ['\\', 't']
  else if c.toNat < 32 then ['\\', 'u', '0', '0', hexDigit (c.toNat / 16), hexDigit (c.toNat % 16)]
  else [c]

def serStr (s : List Char) : List Char := '"' :: s.flatMap escChar ++ ['"']

def intChars (n : Int) : List Char :=
  if n < 0 then '-' :: (Nat.repr n.natAbs).toList else (Nat.repr n.natAbs).toList

mutual
def ser : J → List Char
  | .null => "null".toList
  | .bool b => if b then "true".toList else "false".toList
  | .num n => intChars n
  | .str s => serStr s
  | .arr xs => '[' :: serList xs ++ [']']
  | .obj kvs => '{' :: serKvs kvs ++ ['}']
def serList : List J → List Char
  | [] => []
  | [x] => ser x
  | x :: y :: r => ser x ++ ',' :: serList (y :: r)
def serKvs : List (List Char × J) → List Char
  | [] => []
  | [(k, v)] => serStr k ++ ':' :: ser v
  | (k, v) :: y :: r => serStr k ++ ':' :: ser v ++ ',' :: serKvs (y :: r)
end

/-- the canonical tree: equality of `CanonicalSchema` values is equality of `ser (canon j)` -/
def canon (j : J) : J := sortKeysJ (normalize j)
def canonString (j : J) : List Char := ser (canon j)

/- the same without the ±2^53 clamp: two schemas with equal `canonNoClamp` differ only in member
order and in the order of `required`/`type`/`enum` string arrays.  (`preSort` is applied after the
recursive call: normalisation maps strings to themselves and non-strings to non-strings, so the
all-strings test and the sorted result are the same as sorting first.) -/
mutual
def normalizeNC : J → J
  | .obj kvs => .obj (normKvsNC kvs)
  | .arr xs => .arr (normListNC xs)
  | j => j
def normListNC : List J → List J
  | [] => []
  | x :: r => normalizeNC x :: normListNC r
def normKvsNC : List (List Char × J) → List (List Char × J)
  | [] => []
  | (k, v) :: r => (k, preSort k (normalizeNC v)) :: normKvsNC r
end
def canonNoClamp (j : J) : J := sortKeysJ (normalizeNC j)

mutual
def hasBig : J → Bool
  | .num n => clamp n != n
  | .arr xs => hasBigList xs
  | .obj kvs => hasBigKvs kvs
  | _ => false
def hasBigList : List J → Bool
  | [] => false
  | x :: r => hasBig x || hasBigList r
def hasBigKvs : List (List Char × J) → Bool
  | [] => false
  | (_, v) :: r => hasBig v || hasBigKvs r
end

def lookupKV (k : List Char) : List (List Char × J) → Option J
  | [] => none
  | (k', v) :: r => if k' == k then some v else lookupKV k r

/-! ### enum key -/

/-- an enum value (floats are outside the fragment) -/
inductive JV
  | str (s : List Char)
  | int (n : Int)
  | bool (b : Bool)
  | null
  deriving DecidableEq, Repr

def JV.strOf : JV → Option (List Char)
  | .str s => some s
  | _ => none

/-- `NormalizedVariant::try_from(v).rename_value`: the wire string of the generated unit variant -/
def JV.wire : JV → Option (List Char)
  | .str s => some s
  | .int n => some (intChars n)
  | .bool b => some (if b then "true".toList else "false".toList)
  | .null => none

def JV.strOrNull : JV → Bool
  | .str _ => true
  | .null => true
  | _ => false

/-- `entries_to_cache_key`: sorted STRING values; everything else is filtered out -/
def enumKey (vals : List JV) : List (List Char) := sortStrs (vals.filterMap JV.strOf)

/-- the wire strings a stand-alone value enum for these values accepts -/
def wireVals (vals : List JV) : List (List Char) := vals.filterMap JV.wire

def sameMembers (a b : List (List Char)) : Bool := a.all (b.contains ·) && b.all (a.contains ·)

/-- defect class: the key ignores non-string values, so enums that differ in them share a type -/
def KnownNonStringEnum (a b : List JV) : Bool := a.any (!·.strOrNull) || b.any (!·.strOrNull)

/-! ### union key -/

inductive Var
  | ref (n : List Char)
  | prim (t : List Char)
  | null
  deriving DecidableEq, Repr

def Var.refName : Var → Option (List Char)
  | .ref n => some n
  | _ => none

structure UnionS where
  vars : List Var
  disc : Option (List Char) := none      -- discriminator.propertyName
  mapped : Bool := false                 -- discriminator has a non-empty mapping
  /-- no mapping is written, but every member is a component whose tag property carries a `const` and that is in the
  discriminator cache (some named discriminated union lists it): `effective_mapping` synthesises the mapping and
  `try_upgrade_to_discriminated` emits a TAGGED enum all the same -/
  implicit : Bool := false
  deriving DecidableEq, Repr

def UnionS.refList (u : UnionS) : List (List Char) := u.vars.filterMap Var.refName
/-- `extract_union_fingerprint` (a `BTreeSet`) -/
def refsOf (u : UnionS) : List (List Char) := sortDedup u.refList
def UnionS.nonNull (u : UnionS) : List Var := u.vars.filter (· != .null)
def UnionS.tag (u : UnionS) : Option (List Char) := if u.mapped || u.implicit then u.disc else none
/-- wire shape of the stand-alone enum: variants tried in order; tag-dispatched iff mapped (explicitly or implicitly) -/
def renderU (u : UnionS) : List Var × Option (List Char) := (u.nonNull, u.tag)

/-- sharing through `union_fingerprints` (named union, discriminator ignored) -/
def shareNamedU (a b : UnionS) : Bool := (refsOf a).length ≥ 2 && refsOf a == refsOf b
/-- sharing through `UnionRegistry` (inline unions; key = refs + discriminator property name) -/
def shareInlineU (a b : UnionS) : Bool := shareNamedU a b && a.disc == b.disc

def KnownUnionVariantOrder (a b : UnionS) : Bool := a.refList != b.refList
def KnownUnionExtraInline (a b : UnionS) : Bool := a.refList == b.refList && a.nonNull != b.nonNull
def KnownUnionDiscriminator (a b : UnionS) : Bool := a.tag != b.tag

/-! ### SharedSchemaCache as a state machine -/

abbrev Key := List Char            -- canonical string
abbrev EKey := List (List Char)    -- enum cache key
abbrev Name := List Char

def lookupA {α β} [BEq α] (k : α) : List (α × β) → Option β
  | [] => none
  | (a, b) :: r => if a == k then some b else lookupA k r

def insertA {α β} [BEq α] (k : α) (v : β) : List (α × β) → List (α × β)
  | [] => [(k, v)]
  | (a, b) :: r => if a == k then (k, v) :: r else (a, b) :: insertA k v r

structure St where
  used : List Name := []
  s2t : List (Key × Name) := []
  pre : List (Key × Name) := []
  metaK : List (Key × Option EKey) := []
  e2t : List (EKey × Name) := []
  epre : List (EKey × Name) := []
  u2t : List ((List Name × Option Name) × Name) := []
  deriving Repr

/-- the naming functions are parameters: `mk` = `to_rust_type_name`, `uniq` = `ensure_unique` -/
structure NameFns where
  mkName : List Char → Name
  uniq : Name → List Name → Name

def St.makeUnique (f : NameFns) (st : St) (base : List Char) : Name := f.uniq (f.mkName base) st.used

def St.determineName (f : NameFns) (st : St) (preferred : Option Name) (base : List Char) : Name :=
  match preferred with
  | some p => if st.used.contains p then st.makeUnique f base else p
  | none => st.makeUnique f base

def St.enumLookup (st : St) (k : EKey) : Option Name :=
  match lookupA k st.e2t with
  | some n => some n
  | none => lookupA k st.epre

def St.enumRegistered (st : St) (k : EKey) : Bool := (lookupA k st.e2t).isSome

def St.generatedEnumName (st : St) (k : EKey) : Option Name :=
  if st.enumRegistered k then st.enumLookup k else none

def St.reserve (st : St) (n : Name) : St := if st.used.contains n then st else { st with used := n :: st.used }

structure Reg where
  name : Name
  regEnum : Bool
  values : Option EKey
  deriving DecidableEq, Repr

/-- `prepare_registration` -/
def St.prepare (f : NameFns) (st : St) (c : Key) (relaxed relaxedAnyOf : Bool) (base : List Char) (ek : Option EKey) : Reg :=
  let hit : Option (EKey × Name) :=
    if relaxed then none else
    match ek with
    | some k => (st.enumLookup k).map fun n => (k, n)
    | none => none
  match hit with
  | some (k, n) =>
    let sr := !st.enumRegistered k
    { name := n, regEnum := sr, values := if sr then some k else none }
  | none =>
    let name := match lookupA c st.s2t with
      | some n => n
      | none => st.determineName f (lookupA c st.pre) base
    if relaxedAnyOf then { name, regEnum := false, values := none }
    else match ek with
      | some k => { name, regEnum := true, values := some k }
      | none => { name, regEnum := false, values := none }

/-- `commit_registration` -/
def St.commit (st : St) (c : Key) (r : Reg) : St :=
  let st := st.reserve r.name
  let st := { st with s2t := insertA c r.name st.s2t }
  match r.regEnum, r.values with
  | true, some k => { st with e2t := insertA k r.name st.e2t }
  | _, _ => st

inductive Step
  | top (c : Key) (name : List Char)
  | getTypeName (c : Key)
  | getEnumName (k : EKey)
  | getGeneratedEnumName (k : EKey)
  | precomputedKey (c : Key)
  | preferred (c : Key) (base : List Char)
  | reg (c : Key) (relaxed relaxedAnyOf : Bool) (base : List Char) (ek : Option EKey)
  | unique (base : List Char)
  | mark (n : Name)
  | registerEnum (k : EKey) (n : Name)
  | getUnion (refs : List Name) (disc : Option Name)
  | registerUnion (refs : List Name) (disc : Option Name) (n : Name)
  | conflicts (n : Name) (c : Key)
  deriving Repr

inductive Out
  | unit
  | name (n : Option Name)
  | key (k : Option EKey)
  | reg (r : Reg)
  | flag (b : Bool)
  deriving DecidableEq, Repr

def step (f : NameFns) (st : St) : Step → St × Out
  | .top c name => ((({ st with s2t := insertA c (f.mkName name) st.s2t } : St).reserve (f.mkName name)), .unit)
  | .getTypeName c => (st, .name (lookupA c st.s2t))
  | .getEnumName k => (st, .name (st.enumLookup k))
  | .getGeneratedEnumName k => (st, .name (st.generatedEnumName k))
  | .precomputedKey c => (st, .key ((lookupA c st.metaK).join))
  | .preferred c base => (st, .name (some (match lookupA c st.pre with | some p => p | none => st.makeUnique f base)))
  | .reg c rx ra base ek => let r := st.prepare f c rx ra base ek; (st.commit c r, .reg r)
  | .unique base => (st, .name (some (st.makeUnique f base)))
  | .mark n => (st.reserve n, .unit)
  | .registerEnum k n => ({ st with e2t := insertA k n st.e2t }, .unit)
  | .getUnion refs disc => (st, .name (lookupA (sortDedup refs, disc) st.u2t))
  | .registerUnion refs disc n => ({ st with u2t := insertA (sortDedup refs, disc) n st.u2t }, .unit)
  | .conflicts n c => (st, .flag (st.used.contains n && !(lookupA c st.s2t == some n)))

def run (f : NameFns) : St → List Step → St × List Out
  | st, [] => (st, [])
  | st, s :: r => let (st', o) := step f st s; let (st'', os) := run f st' r; (st'', o :: os)

/-- `resolve_with_cache` (inline struct / enum / union after the union look-ups): the composition
of the cache API that `inline_resolver.rs` performs for one inline occurrence.  Returns the type
name the use site gets.  `ekCheck` is the key of the `cached_name_check` closure (for an inline union
it is `none` when the schema is a relaxed-enum pattern), `ek` the key handed to `prepare_registration`. -/
def resolveInline (f : NameFns) (st : St) (c : Key) (relaxed relaxedAnyOf : Bool) (base : List Char)
    (forced : Option Name) (ekCheck ek : Option EKey) : St × Name :=
  match lookupA c st.s2t with
  | some n => (st, n)
  | none =>
    match (ekCheck.bind fun k => st.generatedEnumName k) with
    | some n => (st, n)
    | none =>
      let name := match forced with
        | some n => n
        | none => match lookupA c st.pre with | some p => p | none => st.makeUnique f base
      let r := st.prepare f c relaxed relaxedAnyOf name ek
      (st.commit c r, r.name)

/-! ### which type identity each occurrence gets (feature grammar of the C13 check) -/

inductive Kind | enum | object | union | other
  deriving DecidableEq, Repr

/-- one schema occurrence, already abstracted to what the sharing logic looks at -/
structure Occ where
  named : Option Name            -- `some N` for a component schema, `none` for an inline use site
  kind : Kind
  canon : Key
  ekey : EKey := []              -- enums: `enumKey`
  refs : List Name := []         -- unions: `refsOf`
  disc : Option Name := none     -- unions: discriminator property
  ord : List Char := []          -- inline: processing order key `Holder.prop` (holders and properties are BTreeMaps)
  /-- a type-less inline schema that carries a `title`: `TypeResolver::try_type_ref_by_title` types it as the component
  whose KEY is that title, if there is one (finding F-C13-8) -/
  title : Option Name := none
  deriving Repr

/-- identity token of the Rust type an occurrence is given -/
inductive Tok
  | named (n : Name)
  | enumK (k : EKey)
  | unionK (refs : List Name) (disc : Option Name)
  | canonK (c : Key)
  deriving DecidableEq, Repr

def lastSome {α} (l : List (Option α)) : Option α := l.foldl (fun acc x => match x with | some v => some v | none => acc) none

/-- component schemas in registration order: enums first, each group in name order (the caller
passes them sorted by name; `List.filter` keeps that order) -/
def regOrder (named : List Occ) : List Occ := named.filter (·.kind == .enum) ++ named.filter (·.kind != .enum)

/-- last registered component schema with this canonical form -/
def namedByCanon (named : List Occ) (c : Key) : Option Name :=
  lastSome ((regOrder named).map fun o => if o.canon == c then o.named else none)

/-- `compute_best_name` for an enum key that has schema-derived candidates: the smallest name -/
def namedByEnumKey (named : List Occ) (k : EKey) : Option Name :=
  match sortStrs ((named.filter fun o => o.kind == .enum && o.ekey == k).filterMap (·.named)) with
  | n :: _ => some n
  | [] => none

/-- `build_union_fingerprints`: last component union (in name order) with this ref set -/
def namedByRefs (named : List Occ) (refs : List Name) : Option Name :=
  if refs.length < 2 then none
  else lastSome (named.map fun o => if o.kind == .union && o.refs == refs then o.named else none)

def token (named : List Occ) (o : Occ) : Tok :=
  match o.named with
  | some n => .named n
  | none =>
    match o.title.bind (fun t => (named.find? fun c => c.named == some t).bind (·.named)) with
    | some n => .named n
    | none =>
    match o.kind with
    | .enum =>
      match namedByCanon named o.canon with
      | some n => .named n
      | none => match namedByEnumKey named o.ekey with
        | some n => .named n
        | none => .enumK o.ekey
    | .union =>
      match namedByRefs named o.refs with
      | some n => .named n
      | none =>
        if o.refs.length < 2 then
          match namedByCanon named o.canon with
          | some n => .named n
          | none => .canonK o.canon
        else .unionK o.refs o.disc
    | _ =>
      match namedByCanon named o.canon with
      | some n => .named n
      | none => .canonK o.canon

/-- first (in processing order) inline occurrence among the candidates -/
def firstByOrd (occs : List Occ) (cands : List Nat) : Option Nat :=
  cands.foldl (fun best i =>
    match best, occs[i]? with
    | none, some _ => some i
    | some b, some o => match occs[b]? with
      | some ob => if sLe ob.ord o.ord then some b else some i
      | none => some i
    | b, none => b) none

/-- index of the occurrence whose own rendering a token class takes: the component schema if the
token is named, else the first inline occurrence (in processing order) with that token -/
def representative (named : List Occ) (occs : List Occ) (t : Tok) : Option Nat :=
  match t with
  | .named n => occs.findIdx? fun o => o.named == some n
  | _ => firstByOrd occs ((List.range occs.length).filter fun i =>
      match occs[i]? with | some o => o.named.isNone && token named o == t | none => false)

end Oas3.Cache
