import Oas3Model.Model.Defaults
/-!
C17 — documents with SEVERAL sites under a usage and a generation target.

A *site* is a schema that becomes one struct: a component object schema, an inline object schema at a
property (plain or as array items), or the parameter struct of one location of an operation.  The model
of what the generator emits for a site is computed from THAT SITE'S OWN schema, the generation target and
the direction(s) the site is used in — never from other sites:

* `converter/structs.rs : build_struct`, `ast/fields.rs : struct_serde_attrs`  → `siteSerdeDefault`
  (the container `#[serde(default)]` is added to SCHEMA structs as soon as one member has a default;
  parameter structs are assembled elsewhere and never get it);
* `postprocess/serde_usage.rs : TypeUsage::from_flags / to_serde_mode / struct_serde_mode` → `serdeMode`;
* `converter/fields.rs : convert_field` … (per member)                                   → `convert` (Model/Defaults).
* `converter/hashing.rs : CanonicalSchema` + `SharedSchemaCache` (inline objects of equal canonical schema
  are ONE type)                                                                            → `shareClass`.
-/
namespace Oas3.Defaults

inductive Target | client | server
  deriving DecidableEq, Repr

/-- the directions a type is used in: (appears in a request, appears in a response).  An unreferenced
component generated with `--all-schemas` counts as used in both. -/
structure Usage where
  inReq : Bool
  inResp : Bool
  deriving DecidableEq, Repr

def Usage.req : Usage := ⟨true, false⟩
def Usage.resp : Usage := ⟨false, true⟩
def Usage.both : Usage := ⟨true, true⟩
def Usage.join (a b : Usage) : Usage := ⟨a.inReq || b.inReq, a.inResp || b.inResp⟩

inductive SiteKind
  /-- `StructKind::Schema` -/
  | schema
  /-- `StructKind::QueryParams` -/
  | query
  /-- `StructKind::HeaderParams` -/
  | header
  deriving DecidableEq, Repr

/-- which serde traits the struct derives -/
structure Serde where
  ser : Bool
  de : Bool
  deriving DecidableEq, Repr

/-- `TypeUsage::from_flags` ∘ `to_serde_mode` for schema structs, `struct_serde_mode` for parameter structs -/
def serdeMode (t : Target) (k : SiteKind) (u : Usage) : Serde :=
  match k with
  | .header => ⟨false, false⟩
  | .query => (match t with | .client => ⟨true, false⟩ | .server => ⟨false, true⟩)
  | .schema =>
    match u.inReq, u.inResp with
    | true, false => (match t with | .client => ⟨true, false⟩ | .server => ⟨false, true⟩)     -- RequestOnly
    | false, true => (match t with | .client => ⟨false, true⟩ | .server => ⟨true, false⟩)     -- ResponseOnly
    | _, _ => ⟨true, true⟩                                                                     -- Bidirectional

/-- one site: its kind and its members (name, schema of the member) — all that the expectation may depend on,
next to target and usage -/
structure Site where
  kind : SiteKind
  members : List (List Char × Member)
  deriving DecidableEq, Repr

/-- builders are derived for schema structs only (`build_struct`: `enable_builders` ∧ `StructKind::Schema`) -/
def Site.member (s : Site) (m : Member) : Member :=
  match s.kind with
  | .schema => m
  | _ => { m with builders := false }

/-- `converter/parameters.rs : convert_parameter`: a parameter is `Option<_>` iff it is not required (a `default`
keyword does NOT make a required parameter optional, unlike `convert_field`); the default attribute is produced
by the same `json_to_rust_literal`; no builder attributes -/
def convertParam (m : Member) : Facts :=
  let resolved := m.resolved
  let finalTy := if !m.required && !resolved.nullable then resolved.withOption else resolved
  let dv := m.default?
  { ty := finalTy, defaultAttr := dv.map (fun v => jsonToRustLiteral v finalTy), builderAttr := none,
    structSerdeDefault := false, fieldSkipsSerializing := false, deriveDefault := true, deriveBuilder := false }

def convertMember (k : SiteKind) (m : Member) : Facts :=
  match k with
  | .schema => convert m
  | _ => convertParam m

/-- `struct_serde_attrs`: `#[serde(default)]` on the container iff some member carries a default value;
only `build_struct` (schema structs) calls it -/
def siteSerdeDefault (s : Site) : Bool :=
  match s.kind with
  | .schema => s.members.any fun nm => nm.2.default?.isSome
  | _ => false

structure SiteFacts where
  serde : Serde
  serdeDefault : Bool
  members : List (List Char × Facts)
  deriving DecidableEq, Repr

/-- THE MODEL for one site: a function of the site's own schema, the target and the usage only -/
def convertSite (t : Target) (u : Usage) (s : Site) : SiteFacts :=
  let sd := siteSerdeDefault s
  { serde := serdeMode t s.kind u, serdeDefault := sd,
    members := s.members.map fun nm => (nm.1, { convertMember s.kind (s.member nm.2) with structSerdeDefault := sd }) }

/-! ### documents -/

/-- a site of a document: the site, the usage of the component / operation that holds it, and the key under
which inline object schemas are shared (`none`: a named component or a parameter struct — never shared) -/
structure DocSite (κ : Type) where
  site : Site
  usage : Usage
  key : Option κ

/-- the sites that end up in the same generated type as site `i`: itself, and — for inline objects — every
site with the same canonical schema -/
def sameType {κ : Type} [BEq κ] (a b : DocSite κ) : Bool :=
  match a.key, b.key with
  | some x, some y => x == y
  | _, _ => false

/-- the usage of the generated type of site `d`: the join over the sites that share the type -/
def effUsage {κ : Type} [BEq κ] (sites : List (DocSite κ)) (d : DocSite κ) : Usage :=
  (sites.filter (sameType d)).foldl (fun u e => u.join e.usage) d.usage

/-- index of the first site with the same type (the partition of the sites into generated types) -/
def shareClass {κ : Type} [BEq κ] (sites : List (DocSite κ)) (d : DocSite κ) (i : Nat) : Nat :=
  match (sites.zipIdx.find? fun e => sameType d e.1) with
  | some e => min e.2 i
  | none => i

def convertDoc {κ : Type} [BEq κ] (t : Target) (sites : List (DocSite κ)) : List SiteFacts :=
  sites.map fun d => convertSite t (effUsage sites d) d.site

end Oas3.Defaults
