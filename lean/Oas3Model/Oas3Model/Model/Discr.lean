/-!
# Discriminator kernel (property C14) — model `F`

Hand model of the decision logic that turns a schema carrying a `discriminator` into a
tag-dispatching Rust enum and that decides how the tag property of each child struct is treated.
Rust anchors (all under `crates/oas3-gen/src/generator/`):

* `schema_registry.rs`: `build_discriminator_cache`, `synthesize_implicit_mappings`,
  `extract_const_discriminator_value`, `effective_mapping`, `merge_schema` / `MergeAccumulator`,
  `build_discriminator_parents`, `collect`, `reachable`;
* `converter/discriminator.rs`: `build_variants_from_mapping`, `build_base_discriminated_enum`,
  `try_upgrade_to_discriminated`, `all_mappings_have_variants`, `convert_to_discriminated_variants`;
* `converter/mod.rs::convert_schema` (routing), `converter/structs.rs` (`convert_all_of_schema`,
  `struct_name`, `finalize_struct_types`), `converter/unions.rs::collect_union_variants`;
* `converter/fields.rs::convert_field` + `ast/fields.rs::with_discriminator_behavior`;
* `utils/schema_ext.rs::is_discriminated_base_type`, `utils/refs.rs::build_union_fingerprints`.

`BTreeMap<String, _>` is an association list kept in Rust `String` order (`ins`, `pushAt`).
Everything is structural recursion over lists (fuel only for the allOf hierarchy / reachability
closure), so `decide +kernel` evaluates concrete specs.

Scope of the abstraction (`Sch`): union members and allOf parents are `$ref`s to components
(inline allOf parts carry only properties), property schemas are primitives / string `const` /
string `enum` / a `$ref`, `additionalProperties` is absent or `false`, and schema names are already
valid Rust type names (`to_rust_type_name` is the identity on them).
-/
namespace Oas3.Discr

abbrev Str := List Char

/-- Rust `String` order (bytewise = code-point order). -/
def ltS : Str → Str → Bool
  | [], [] => false
  | [], _ :: _ => true
  | _ :: _, [] => false
  | a :: as, b :: bs => if a.toNat < b.toNat then true else if b.toNat < a.toNat then false else ltS as bs

def look {β : Type} (k : Str) : List (Str × β) → Option β
  | [] => none
  | (a, b) :: r => if a = k then some b else look k r

/-- `BTreeMap::insert` -/
def ins {β : Type} (k : Str) (v : β) : List (Str × β) → List (Str × β)
  | [] => [(k, v)]
  | (a, b) :: r => if a = k then (k, v) :: r else if ltS k a then (k, v) :: (a, b) :: r else (a, b) :: ins k v r

/-- `map.entry(k).or_default().push(t)` on a `BTreeMap<String, Vec<String>>` -/
def pushAt (k t : Str) : List (Str × List Str) → List (Str × List Str)
  | [] => [(k, [t])]
  | (a, ts) :: r => if a = k then (a, ts ++ [t]) :: r else if ltS k a then (k, [t]) :: (a, ts) :: r else (a, ts) :: pushAt k t r

/-- `BTreeSet::insert` -/
def insSet (k : Str) : List Str → List Str
  | [] => [k]
  | a :: r => if a = k then a :: r else if ltS k a then k :: a :: r else a :: insSet k r

def mkSet (l : List Str) : List Str := l.foldl (fun a x => insSet x a) []

/-- a JSON object read into a `BTreeMap` (document order, later duplicates win) -/
def mkMap {β : Type} (l : List (Str × β)) : List (Str × β) := l.foldl (fun a (kv : Str × β) => ins kv.1 kv.2 a) []

-- ------------------------------------------------------------------------------------------
-- abstract schemas

/-- what the decision logic reads from a property schema (after `$ref` resolution) -/
structure PInfo where
  ref : Option Str := none          -- the property is `$ref` to this component
  const : Option Str := none        -- string `const`
  enumVals : List Str := []         -- string `enum`
  deriving DecidableEq, Repr, Inhabited

structure Disc where
  prop : Str
  /-- `mapping`: tag ↦ target component name (`parse_schema_ref_path` of the value), `BTreeMap` order -/
  mapping : Option (List (Str × Str)) := none
  deriving DecidableEq, Repr, Inhabited

inductive Part where
  | ref (n : Str)
  | inl (props : List (Str × PInfo)) (deny : Bool)
  deriving DecidableEq, Repr, Inhabited

structure Sch where
  props : List (Str × PInfo) := []
  oneOf : List Str := []
  anyOf : List Str := []
  allOf : List Part := []
  disc : Option Disc := none
  deny : Bool := false              -- `additionalProperties: false`
  deriving DecidableEq, Repr, Inhabited

structure Spec where
  schemas : List (Str × Sch)        -- `BTreeMap` order
  roots : List Str                  -- components referenced by the selected operations
  all : Bool                        -- `--all-schemas`
  deriving DecidableEq, Repr, Inhabited

/-- `SchemaExt::union_variants`: anyOf first, then oneOf -/
def unionVariants (s : Sch) : List Str := s.anyOf ++ s.oneOf

-- ------------------------------------------------------------------------------------------
-- the tag cache  (child schema name ↦ (property, value)); ONE entry per child

structure DM where
  field : Str
  value : Str
  deriving DecidableEq, Repr, Inhabited

/-- `extract_const_discriminator_value` on the RAW variant schema -/
def constOf (s : Sch) (p : Str) : Option Str :=
  match look p s.props with
  | some pi => if pi.ref.isSome then none else pi.const
  | none => none

/-- `synthesize_implicit_mappings`: all-or-nothing -/
def synthGo (schemas : List (Str × Sch)) (p : Str) : List Str → List (Str × DM) → List Str → Option (List (Str × DM))
  | [], staged, _ => some staged
  | v :: vs, staged, seen =>
    match look v schemas with
    | none => none
    | some vsch =>
      match constOf vsch p with
      | none => none
      | some c => if seen.contains c then none else synthGo schemas p vs (ins v ⟨p, c⟩ staged) (c :: seen)

/-- writes of one explicit mapping, in `BTreeMap` (tag) order: later tags overwrite earlier ones -/
def writeMapping (p : Str) (m : List (Str × Str)) (cache : List (Str × DM)) : List (Str × DM) :=
  m.foldl (fun c (e : Str × Str) => ins e.2 ⟨p, e.1⟩ c) cache

def cacheStep (schemas : List (Str × Sch)) (cache : List (Str × DM)) (s : Sch) : List (Str × DM) :=
  match s.disc with
  | none => cache
  | some d =>
    match d.mapping with
    | some m => writeMapping d.prop m cache
    | none =>
      match synthGo schemas d.prop (unionVariants s) [] [] with
      | some st => st.foldl (fun c (e : Str × DM) => ins e.1 e.2 c) cache
      | none => cache

/-- `build_discriminator_cache` -/
def discCache (schemas : List (Str × Sch)) : List (Str × DM) :=
  schemas.foldl (fun c (e : Str × Sch) => cacheStep schemas c e.2) []

def effGo (cache : List (Str × DM)) (p : Str) : List Str → List (Str × Str) → Option (List (Str × Str))
  | [], acc => some acc
  | v :: vs, acc =>
    match look v cache with
    | none => none
    | some dm => if dm.field = p then effGo cache p vs (ins dm.value v acc) else none

/-- `effective_mapping` (reads `disc` and the union members of the schema it is given) -/
def effective (cache : List (Str × DM)) (disc : Option Disc) (variants : List Str) : Option (List (Str × Str)) :=
  match disc with
  | none => none
  | some d =>
    match d.mapping with
    | some m => some m
    | none =>
      match effGo cache d.prop variants [] with
      | some [] => none
      | r => r

-- ------------------------------------------------------------------------------------------
-- allOf flattening

structure MSch where
  props : List (Str × PInfo)
  disc : Option Disc
  deny : Bool
  dparent : Option Str
  deriving DecidableEq, Repr, Inhabited

/-- `is_discriminated_base_type` -/
def isBaseType (props : List (Str × PInfo)) (disc : Option Disc) : Bool :=
  match disc with
  | some d => (match d.mapping with | some m => !m.isEmpty | none => false) && !props.isEmpty
  | none => false

def mergeProps (acc src : List (Str × PInfo)) : List (Str × PInfo) :=
  src.foldl (fun a (e : Str × PInfo) => ins e.1 e.2 a) acc

def mergeOpt (acc src : List (Str × PInfo)) : List (Str × PInfo) :=
  src.foldl (fun a (e : Str × PInfo) => if (look e.1 a).isSome then a else ins e.1 e.2 a) acc

def rawM (s : Sch) : MSch := ⟨s.props, s.disc, s.deny, none⟩

/-- `merge_schema`, parents taken from the already merged map (fuel = inheritance depth bound) -/
def merged (schemas : List (Str × Sch)) : Nat → Sch → MSch
  | 0, s => rawM s
  | fuel + 1, s =>
    if s.allOf.isEmpty then rawM s else
    let acc0 : MSch := ⟨[], none, false, none⟩
    let acc1 := s.allOf.foldl (fun (acc : MSch) part =>
      match part with
      | .ref n =>
        match look n schemas with
        | none => acc
        | some ps =>
          let pm := merged schemas fuel ps
          { props := mergeProps acc.props pm.props,
            disc := (match pm.disc with | some d => some d | none => acc.disc),
            deny := acc.deny || pm.deny,
            dparent := if isBaseType pm.props pm.disc then some n else acc.dparent }
      | .inl props deny => { acc with props := mergeProps acc.props props, deny := acc.deny || deny }) acc0
    let acc2 := (s.anyOf ++ s.oneOf).foldl (fun (acc : MSch) n =>
      match look n schemas with
      | none => acc
      | some ps => { acc with props := mergeOpt acc.props (merged schemas fuel ps).props }) acc1
    { props := mergeProps acc2.props s.props,
      disc := (match s.disc with | some d => some d | none => acc2.disc),
      deny := s.deny || acc2.deny,
      dparent := acc2.dparent }

-- ------------------------------------------------------------------------------------------
-- reachability (`collect` + `reachable`)

def fingerprints (schemas : List (Str × Sch)) : List (List Str × Str) :=
  schemas.foldl (fun fps (e : Str × Sch) =>
    [e.2.oneOf, e.2.anyOf].foldl (fun fps vs =>
      let fp := mkSet vs
      if fp.length ≥ 2 then (fp, e.1) :: fps.filter (fun x => x.1 ≠ fp) else fps) fps) []

def lookFp (fp : List Str) : List (List Str × Str) → Option Str
  | [] => none
  | (a, b) :: r => if a = fp then some b else lookFp fp r

def propRefs (props : List (Str × PInfo)) : List Str := props.filterMap (fun e => e.2.ref)

def deps (fps : List (List Str × Str)) (s : Sch) : List Str :=
  propRefs s.props ++ unionVariants s
    ++ s.allOf.flatMap (fun p => match p with | .ref n => [n] | .inl props _ => propRefs props)
    ++ [s.oneOf, s.anyOf].filterMap (fun vs => let fp := mkSet vs; if fp.isEmpty then none else lookFp fp fps)

def closure (schemas : List (Str × Sch)) (fps : List (List Str × Str)) : Nat → List Str → List Str
  | 0, acc => acc
  | fuel + 1, acc =>
    let next := acc.foldl (fun a n =>
      match look n schemas with
      | none => a
      | some s => (deps fps s).foldl (fun a d => insSet d a) a) acc
    closure schemas fps fuel next

/-- `None` = no filter (`--all-schemas`) -/
def reachOf (sp : Spec) : Option (List Str) :=
  if sp.all then none else some (closure sp.schemas (fingerprints sp.schemas) sp.schemas.length (mkSet sp.roots))

def isReach (reach : Option (List Str)) (n : Str) : Bool :=
  match reach with | none => true | some r => r.contains n

-- ------------------------------------------------------------------------------------------
-- emitted facts

inductive FMode where
  | fixed (v : Str)     -- `#[serde(default, skip_deserializing)]` + `#[default(Some(v))]`
  | skip                -- `#[serde(skip)]`
  | plain               -- ordinary field
  deriving DecidableEq, Repr, Inhabited

structure StructF where
  name : Str
  deny : Bool
  fields : List (Str × FMode)
  deriving DecidableEq, Repr, Inhabited

structure EnumF where
  name : Str
  untagged : Bool
  tag : Str
  arms : List (Str × Str)           -- (tag literal, type of the variant), in emitted order
  fallback : Option Str             -- type of the variant of the `None` arm; none = `missing_field` error
  types : List Str                  -- payload types of all variants, in order
  deriving DecidableEq, Repr, Inhabited

structure Facts where
  cache : List (Str × DM)
  effective : List (Str × Option (List (Str × Str)))
  parents : List (Str × Str)
  reach : Option (List Str)
  enums : List EnumF
  structs : List StructF
  deriving DecidableEq, Repr, Inhabited

/-- `convert_field` + `with_discriminator_behavior`, restricted to what decides the serde treatment -/
def fieldMode (entry : Option DM) (disc : Option Disc) (p : Str) (pi : PInfo) : FMode :=
  let dv : Option Str := match entry with | some dm => if dm.field = p then some dm.value else none | none => none
  let isBaseDisc := match disc with | some d => d.prop = p | none => false
  let isDisc := dv.isSome || isBaseDisc
  let hasEnum := isDisc && decide (pi.enumVals.length > 1)
  if isDisc && !hasEnum then (match dv with | some v => .fixed v | none => .skip) else .plain

def buildStruct (cache : List (Str × DM)) (schemaName rustName : Str) (props : List (Str × PInfo)) (disc : Option Disc) (deny : Bool) : StructF :=
  { name := rustName, deny := deny, fields := props.map (fun e => (e.1, fieldMode (look schemaName cache) disc e.1 e.2)) }

/-- tags grouped by target (`BTreeMap<String, Vec<String>>` fold) -/
def group (m : List (Str × Str)) : List (Str × List Str) :=
  m.foldl (fun g (e : Str × Str) => pushAt e.2 e.1 g) []

/-- the `Some("tag") => …Self::V` arms, in emitted order -/
def armsOf (g : List (Str × List Str)) : List (Str × Str) :=
  g.flatMap (fun e => e.2.map (fun t => (t, e.1)))

def baseSuffix : Str := "Base".toList

/-- `build_base_discriminated_enum` (fallback variant wraps the `…Base` struct) -/
def baseEnum (cache : List (Str × DM)) (reach : Option (List Str)) (name : Str) (disc : Option Disc) (variants : List Str) (fallbackTy : Str) : List EnumF :=
  match disc with
  | none => []      -- "missing discriminator property": conversion error, nothing emitted
  | some d =>
    let g := match effective cache disc variants with
      | none => []
      | some m => group (m.filter (fun e => isReach reach e.2))
    [{ name := name, untagged := false, tag := d.prop, arms := armsOf g, fallback := some fallbackTy, types := g.map (·.1) ++ [fallbackTy] }]

/-- `try_upgrade_to_discriminated` on the payload types of the union's variants -/
def upgrade (variantTypes : List Str) (m : List (Str × Str)) : Option (List (Str × List Str)) :=
  if variantTypes.isEmpty || m.isEmpty then none
  else if m.all (fun e => variantTypes.contains e.2) then some ((group m).filter (fun e => variantTypes.contains e.1))
  else none

def unionEnum (cache : List (Str × DM)) (name : Str) (s : Sch) : EnumF :=
  let members := if s.oneOf.isEmpty then s.anyOf else s.oneOf
  let untagged : EnumF := { name := name, untagged := true, tag := [], arms := [], fallback := none, types := members }
  match s.disc with
  | none => untagged
  | some d =>
    match effective cache s.disc (unionVariants s) with
    | none => untagged
    | some m =>
      match upgrade members m with
      | none => untagged
      | some g => { name := name, untagged := false, tag := d.prop, arms := armsOf g, fallback := none, types := g.map (·.1) }

structure Env where
  schemas : List (Str × Sch)
  cache : List (Str × DM)
  reach : Option (List Str)
  fuel : Nat

def Env.merged (e : Env) (s : Sch) : MSch := Oas3.Discr.merged e.schemas e.fuel s

/-- `build_discriminator_parents` -/
def parentOf (e : Env) (n : Str) (s : Sch) : Option Str :=
  match (e.merged s).dparent with
  | some p => if (look n e.cache).isSome then some p else none
  | none => none

/-- `SchemaConverter::convert_schema` for one reachable component -/
def convert (e : Env) (n : Str) (s : Sch) : List EnumF × List StructF :=
  if !s.allOf.isEmpty then
    let m := e.merged s
    match parentOf e n s with
    | some p =>
      match look p e.schemas with
      | none => ([], [])
      | some ps => if (e.merged ps).disc.isNone then ([], []) else ([], [buildStruct e.cache n n m.props m.disc m.deny])
    | none =>
      let base := isBaseType m.props m.disc
      let sname := if base then n ++ baseSuffix else n
      ((if base then baseEnum e.cache e.reach n m.disc (unionVariants s) sname else []), [buildStruct e.cache n sname m.props m.disc m.deny])
  else if !(s.oneOf.isEmpty && s.anyOf.isEmpty) then
    if (if s.oneOf.isEmpty then s.anyOf else s.oneOf).all (fun m => (look m e.schemas).isSome) then ([unionEnum e.cache n s], []) else ([], [])
  else if !s.props.isEmpty || s.deny then
    let base := isBaseType s.props s.disc
    let sname := if base then n ++ baseSuffix else n
    ((if base then baseEnum e.cache e.reach n s.disc (unionVariants s) sname else []), [buildStruct e.cache n sname s.props s.disc s.deny])
  else ([], [])

def envOf (sp : Spec) : Env :=
  { schemas := sp.schemas, cache := discCache sp.schemas, reach := reachOf sp, fuel := sp.schemas.length }

/-- the model of the whole pipeline, as far as the property observes it -/
def F (sp : Spec) : Facts :=
  let e := envOf sp
  let conv := (sp.schemas.filter (fun x => isReach e.reach x.1)).map (fun x => convert e x.1 x.2)
  { cache := e.cache,
    effective := (sp.schemas.filter (fun x => x.2.disc.isSome)).map (fun x => (x.1, effective e.cache x.2.disc (unionVariants x.2))),
    parents := sp.schemas.filterMap (fun x => (parentOf e x.1 x.2).map (fun p => (x.1, p))),
    reach := e.reach,
    enums := conv.flatMap (·.1),
    structs := conv.flatMap (·.2) }

-- ------------------------------------------------------------------------------------------
-- use sites: WHERE and HOW a union is written (property level of C14)
--
-- Rust anchors: `converter/mod.rs::convert_schema` (component / request body / response payload),
-- `type_resolver.rs`: `resolve_property`, `inline_union`, `try_nullable_union`, `try_inline_array`,
-- `resolve_type_uncached`, `try_union`, `try_flatten_nested_union`; `inline_resolver.rs::resolve_inline_union`
-- (`find_union_by_refs`, union registry keyed by (member refs, discriminator property)); `responses.rs::resolve_inline_schema`.
-- The schema-hash cache (`get_type_name`) is not modelled: it only ever substitutes a type converted from an
-- IDENTICAL schema, which has the same decoding discipline.

inductive Pos where
  | named   -- the component schema itself
  | field   -- property of an object component
  | body    -- request body of an operation
  | resp    -- response payload of an operation
  deriving DecidableEq, Repr, Inhabited

/-- the spelling at a site: `[wrap [array-of]] union` -/
structure SiteSch where
  arr : Bool := false               -- `type: array, items: U`
  wrap : Option Bool := none        -- nullable wrapper `oneOf|anyOf: [·, {type: null}]` (`some true` = oneOf)
  outerDisc : Option Disc := none   -- discriminator written on the wrapper
  u : Sch                           -- the union: `oneOf`/`anyOf` of component refs + the discriminator written on it
  deriving DecidableEq, Repr, Inhabited

structure Site where
  id : Str
  pos : Pos
  holder : Str                      -- component name (named/field) or operation id (body/resp)
  field : Str := []
  s : SiteSch
  deriving DecidableEq, Repr, Inhabited

/-- the schema a site's type is converted FROM -/
inductive Origin where
  | own (s : Sch)        -- its own (flattened) union
  | named (n : Str)      -- the enum of component `n` (`find_union_by_refs`: same set of member refs)
  | earlier (s : Sch)    -- an inline union converted earlier (same member refs, same discriminator property)
  | value                -- `serde_json::Value`
  deriving DecidableEq, Repr, Inhabited

/-- `union_variants_with_kind` -/
def unionRefs (s : Sch) : List Str := if s.oneOf.isEmpty then s.anyOf else s.oneOf

def fpOf (s : Sch) : List Str := mkSet (unionRefs s)

abbrev UReg := List ((List Str × Option Str) × Sch)

def regLook (k : List Str × Option Str) : UReg → Option Sch
  | [] => none
  | (a, b) :: r => if a = k then some b else regLook k r

/-- `resolve_inline_union` -/
def resolveInline (fps : List (List Str × Str)) (reg : UReg) (u : Sch) : Origin × UReg :=
  let fp := fpOf u
  if fp.length ≥ 2 then
    match lookFp fp fps with
    | some n => (.named n, reg)
    | none =>
      let key := (fp, u.disc.map (·.prop))
      match regLook key reg with
      | some s => (.earlier s, reg)
      | none => (.own u, reg ++ [(key, u)])
  else (.own u, reg)

/-- `resolve_type_uncached` on an inline union: only `oneOf` is looked at, and only a component with the same refs gives a type -/
def resolveTypeInline (fps : List (List Str × Str)) (u : Sch) : Origin :=
  if u.oneOf.isEmpty then .value else
  let fp := mkSet u.oneOf
  if fp.length ≥ 2 then (match lookFp fp fps with | some n => .named n | none => .value) else .value

/-- the discriminator a wrapper spelling declares for its union -/
def siteCore (s : SiteSch) : Sch :=
  { s.u with disc := match s.u.disc with | some d => some d | none => s.outerDisc }

/-- `convert_schema` (component, request body, object-like response): `try_flatten_nested_union`, array alias -/
def topRoute (fps : List (List Str × Str)) (reg : UReg) (s : SiteSch) : (Origin × Bool) × UReg :=
  match s.wrap with
  | some _ =>
    -- the variants of the inner union are promoted; for `[array-of-union, null]` the ITEMS' variants (the array is dropped)
    if s.arr then ((.own s.u, false), reg) else ((.own (siteCore s), false), reg)
  | none =>
    if s.arr then let r := resolveInline fps reg s.u; ((r.1, true), r.2)
    else ((.own s.u, false), reg)

/-- `resolve_property` on an inline schema -/
def fieldRoute (fps : List (List Str × Str)) (reg : UReg) (s : SiteSch) : (Origin × Bool) × UReg :=
  match s.wrap with
  | some _ => ((resolveTypeInline fps s.u, s.arr), reg)      -- `try_nullable_union` → `resolve_type` of the inner schema
  | none => let r := resolveInline fps reg s.u; ((r.1, s.arr), r.2)

/-- `ResponseConverter::resolve_inline_schema`: an array payload is `resolve_type`d first -/
def respRoute (fps : List (List Str × Str)) (reg : UReg) (s : SiteSch) : (Origin × Bool) × UReg :=
  if s.arr && s.wrap.isNone then ((resolveTypeInline fps s.u, true), reg) else topRoute fps reg s

def route (fps : List (List Str × Str)) (reg : UReg) (pos : Pos) (s : SiteSch) : (Origin × Bool) × UReg :=
  match pos with
  | .named | .body => topRoute fps reg s
  | .field => fieldRoute fps reg s
  | .resp => respRoute fps reg s

/-- conversion order: components in name order (properties in name order), then operations (body, responses) -/
def posRank : Pos → Nat
  | .named => 0 | .field => 0 | .body => 1 | .resp => 2

def siteLt (a b : Site) : Bool :=
  let ca := if posRank a.pos = 0 then 0 else 1
  let cb := if posRank b.pos = 0 then 0 else 1
  if ca ≠ cb then decide (ca < cb)
  else if a.holder ≠ b.holder then ltS a.holder b.holder
  else if posRank a.pos ≠ posRank b.pos then decide (posRank a.pos < posRank b.pos)
  else ltS a.field b.field

def insertSite (x : Site) : List Site → List Site
  | [] => [x]
  | a :: r => if siteLt x a then x :: a :: r else a :: insertSite x r

def orderSites (l : List Site) : List Site := l.foldl (fun acc x => insertSite x acc) []

/-- THE dispatch function of the model: what `convert_union` makes of a union schema.  It has no position argument. -/
def dispatchOf (cache : List (Str × DM)) (s : Sch) : EnumF := unionEnum cache [] s

structure SiteTy where
  vec : Nat                -- number of `Vec<…>` layers around the core type
  value : Bool             -- the core type is `serde_json::Value`
  en : Option EnumF        -- the enum of the core type (name erased)
  deriving DecidableEq, Repr, Inhabited

def originEnum (e : Env) : Origin → Option EnumF
  | .own s => some (dispatchOf e.cache s)
  | .earlier s => some (dispatchOf e.cache s)
  | .named n => (look n e.schemas).map (dispatchOf e.cache)
  | .value => none

def siteTyOf (e : Env) (o : Origin) (vec : Bool) : SiteTy :=
  { vec := if vec then 1 else 0, value := decide (o = .value), en := originEnum e o }

/-- origins of all sites, in conversion order -/
def siteOrigins (fps : List (List Str × Str)) : List Site → UReg → List (Site × Origin × Bool)
  | [], _ => []
  | st :: r, reg =>
    let x := route fps reg st.pos st.s
    (st, x.1.1, x.1.2) :: siteOrigins fps r x.2

/-- the model's prediction for every use site -/
def FSites (sp : Spec) (sites : List Site) : List (Site × Origin × SiteTy) :=
  let e := envOf sp
  (siteOrigins (fingerprints sp.schemas) (orderSites sites) []).map (fun x => (x.1, x.2.1, siteTyOf e x.2.1 x.2.2))

end Oas3.Discr
