/-
C01 — generated code compiles against its documented dependencies.

Part F (model of the generator's decision logic that decides trait-bound closure):
* `postprocess/serde_usage.rs: SerdeUsage::{build_graph, propagate_from_seeds, propagate_from_orphans,
   drain_worklist, get_usage, struct_serde_mode, update_enum}`      → `succ`, `relax`, `drain`, `propagate`, `serdeMode`
* `TypeUsage::{from_flags, to_serde_mode}`                             → `fromFlags`, `toSerdeMode`
* `ast/derives.rs: DerivesProvider for StructDef / EnumDef`            → `derives`, `serOf`, `deOf`
* `postprocess/validation.rs: NestedValidationProcessor::process`      → `nestedSet` (checked closure, as in C16)
* `postprocess/uses.rs: ModuleImports::process`                        → `uses`

Part J (the judge): a well-formedness judgement `violations` on a digest of the EMITTED files, and the
characterised ways in which today's generator breaks it (`classOf`).  rustc itself is not modelled: it is the
oracle of tie A, and `explains` says which rustc error a characterised violation accounts for.
-/
namespace Oas3.Comp

abbrev Name := List Char

/-! ## F — the type graph and the usage propagation -/

inductive Kind | schema | request | path | query | header | enum | alias
deriving DecidableEq, Repr, Inhabited

/-- a member type as `SerdeUsage::dependencies` sees it: `TypeRef.base_type = Custom(atom)`.  For a map member the
atom is the WHOLE text `std::collections::HashMap<String, X>` (`type_resolver::try_map_type`), so the edge ends in
a node that is no type; `Vec<X>` / `Option<X>` / `Box<X>` keep `base_type = Custom(X)`. -/
structure Dep where
  to : Name
  map : Bool := false
  arr : Bool := false        -- member `array of (array of X)`: the base atom is the text `Vec<X>` (array_item_type().to_rust_type())
deriving DecidableEq, Repr, Inhabited

structure Node where
  name : Name
  kind : Kind
  deps : List Dep
  attrs : Bool := false      -- has a validation attribute of its own
  ci : Bool := false         -- enum with the hand-written case-insensitive Deserialize
deriving Repr, Inhabited

def mapAtom (n : Name) : Name := "std::collections::HashMap<String, ".toList ++ n ++ ">".toList

def arrAtom (n : Name) : Name := "Vec<".toList ++ n ++ ">".toList

def Dep.atom (d : Dep) : Name := if d.map then mapAtom d.to else if d.arr then arrAtom d.to else d.to

/-- the member's base atom is the type name itself (so `build_graph` has an edge to it) -/
def Dep.plain (d : Dep) : Bool := !d.map && !d.arr

abbrev Graph := List Node

/-- out-neighbours of a graph node (`graph.neighbors(idx)`; one petgraph node per NAME) -/
def succ (g : Graph) (n : Name) : List Name :=
  (g.filter (·.name == n)).flatMap fun nd => nd.deps.map (·.atom)

/-- `indices.keys()`: every type name and every dependency atom -/
def dedup : List Name → List Name
  | [] => []
  | a :: t => if t.contains a then dedup t else a :: dedup t

def indices (g : Graph) : List Name :=
  dedup (g.flatMap fun nd => nd.name :: nd.deps.map (·.atom))

abbrev Flags := Bool × Bool                 -- (in_request, in_response)
abbrev Usage := List (Name × Flags)          -- BTreeMap<EnumToken, UsageFlags>

def getU (u : Usage) (n : Name) : Flags := (u.lookup n).getD (false, false)
def hasU (u : Usage) (n : Name) : Bool := (u.lookup n).isSome

def setU (u : Usage) (n : Name) (f : Flags) : Usage :=
  match u with
  | [] => [(n, f)]
  | (k, v) :: t => if k == n then (k, f) :: t else (k, v) :: setU t n f

def orF (a b : Flags) : Flags := (a.1 || b.1, a.2 || b.2)
def leF (a b : Flags) : Bool := (!a.1 || b.1) && (!a.2 || b.2)

abbrev Work := List (Name × Flags)

/-- one neighbour inside `drain_worklist`: `entry(dep).or_insert((false,false))`, OR the popped flags in, push when changed -/
def relax (fl : Flags) (st : Usage × Work) (dep : Name) : Usage × Work :=
  let prev := getU st.1 dep
  let new := orF prev fl
  (setU st.1 dep new, if new != prev then st.2 ++ [(dep, new)] else st.2)

/-- `drain_worklist` with fuel; returns the work that is left when the fuel runs out -/
def drain (g : Graph) : Nat → Usage → Work → Usage × Work
  | 0, u, w => (u, w)
  | _ + 1, u, [] => (u, [])
  | f + 1, u, (n, fl) :: rest =>
    let st := (succ g n).foldl (relax fl) (u, rest)
    drain g f st.1 st.2

def fuelFor (g : Graph) (seeds : Usage) : Nat := seeds.length + 3 * (indices g).length + 1

/-- `SerdeUsage::propagate`: seeds that name a graph node, then every node without usage as (true, true).
`none` = the fuel did not suffice (never observed; the driver reports it as a broken correspondence). -/
def propagate (g : Graph) (seeds : Usage) : Option Usage :=
  let ix := indices g
  let fuel := fuelFor g seeds
  let r1 := drain g fuel seeds (seeds.filter fun e => ix.contains e.1)
  let orphans := ix.filter fun n => !hasU r1.1 n
  let u2 := orphans.foldl (fun u n => setU u n (true, true)) r1.1
  let r2 := drain g fuel u2 (orphans.map fun n => (n, (true, true)))
  if r1.2.isEmpty && r2.2.isEmpty then some r2.1 else none

/-- closure of a usage map under the graph edges: flags only grow along an edge -/
def closedU (g : Graph) (u : Usage) : Bool :=
  (indices g).all fun a => (succ g a).all fun b => leF (getU u a) (getU u b)

inductive TypeUsage | requestOnly | responseOnly | bidirectional
deriving DecidableEq, Repr
inductive SerdeMode | both | serOnly | deOnly | none
deriving DecidableEq, Repr

def fromFlags : Flags → TypeUsage
  | (true, false) => .requestOnly
  | (false, true) => .responseOnly
  | _ => .bidirectional

/-- `to_serde_mode`; `server = true` for GenerationTarget::Server -/
def toSerdeMode (server : Bool) : TypeUsage → SerdeMode
  | .bidirectional => .both
  | .requestOnly => if server then .deOnly else .serOnly
  | .responseOnly => if server then .serOnly else .deOnly

/-- `get_usage`: a name without entry is Bidirectional -/
def usageOf (u : Usage) (n : Name) : TypeUsage :=
  match u.lookup n with
  | some f => fromFlags f
  | none => .bidirectional

/-- `struct_serde_mode` / `update_enum` -/
def serdeMode (server : Bool) (u : Usage) (nd : Node) : SerdeMode :=
  match nd.kind with
  | .schema | .enum => toSerdeMode server (usageOf u nd.name)
  | .request | .header => .none
  | .path => if server then .deOnly else .none
  | .query => if server then .deOnly else .serOnly
  | .alias => .none

def SerdeMode.ser : SerdeMode → Bool
  | .both | .serOnly => true
  | _ => false
def SerdeMode.de : SerdeMode → Bool
  | .both | .deOnly => true
  | _ => false

/-! ### nested validation (checked closure, same shape as C16's model) -/

def structKind (k : Kind) : Bool := k != .enum && k != .alias

/-- structs having a member whose base type is `t` (plain edges only: a map atom never names a struct) -/
def preds (g : Graph) (t : Name) : List Name :=
  (g.filter fun nd => structKind nd.kind && nd.deps.any fun d => d.plain && d.to == t).map (·.name)

def stepSet (sc : Name → List Name) (R : List Name) : List Name :=
  R ++ ((R.flatMap sc).filter fun b => !R.contains b).eraseDups

def iter (sc : Name → List Name) : Nat → List Name → List Name
  | 0, R => R
  | n + 1, R => iter sc n (stepSet sc R)

/-- `validated_structs` at the fixed point of `NestedValidationProcessor::process` -/
def nestedSet (g : Graph) : List Name :=
  iter (preds g) (g.length + 1) ((g.filter fun nd => structKind nd.kind && nd.attrs).map (·.name))

def isStruct (g : Graph) (n : Name) : Bool := g.any fun nd => nd.name == n && structKind nd.kind

/-- which members get `ValidationAttribute::Nested` -/
def nestedFlags (g : Graph) (nd : Node) : List Bool :=
  let R := nestedSet g
  nd.deps.map fun d => d.plain && R.contains d.to

/-- `update_struct`: a Schema struct that is ResponseOnly loses all validation attributes -/
def cleared (u : Usage) (nd : Node) : Bool := nd.kind == .schema && usageOf u nd.name == .responseOnly

/-- `has_validation_attrs` after the post-processing -/
def hasAttrsAfter (g : Graph) (u : Usage) (nd : Node) : Bool :=
  !cleared u nd && (nd.attrs || (nestedFlags g nd).any id)

/-! ### derives and imports -/

structure TypeOut where
  name : Name
  ser : Name
  de : Name
  derives : List Name
  nested : List Bool
deriving DecidableEq, Repr

def implName (b : Bool) (custom : Bool := false) : Name := if !b then "none".toList else if custom then "custom".toList else "derive".toList

/-- `DerivesProvider::derives` (BTreeSet order = declaration order of `DeriveTrait`) -/
def derives (g : Graph) (server : Bool) (u : Usage) (nd : Node) : List Name :=
  let m := serdeMode server u nd
  match nd.kind with
  | .alias => []
  | .enum =>
    let simple := nd.deps.isEmpty
    ["Debug".toList, "Clone".toList, "PartialEq".toList] ++ (if simple then ["Eq".toList, "Hash".toList] else []) ++
      (if m.ser then ["Serialize".toList] else []) ++ (if m.de && !nd.ci then ["Deserialize".toList] else []) ++
      ["oas3_gen_support::Default".toList]
  | _ =>
    ["Debug".toList, "Clone".toList] ++ (if nd.kind != .request then ["PartialEq".toList] else []) ++
      (if m.ser then ["Serialize".toList] else []) ++ (if m.de then ["Deserialize".toList] else []) ++
      (if nd.kind == .request || hasAttrsAfter g u nd then ["validator::Validate".toList] else []) ++
      ["oas3_gen_support::Default".toList]

def typeOut (g : Graph) (server : Bool) (u : Usage) (nd : Node) : TypeOut :=
  let m := serdeMode server u nd
  { name := nd.name, ser := implName m.ser, de := implName m.de (nd.kind == .enum && nd.ci),
    derives := derives g server u nd,
    nested := if structKind nd.kind then (if cleared u nd then nd.deps.map fun _ => false else nestedFlags g nd) else [] }

/-- `ModuleImports::process` -/
def uses (g : Graph) (server : Bool) (u : Usage) : List Name :=
  let outs := g.map (typeOut g server u)
  (if server then ["axum::response::IntoResponse".toList] else []) ++
  (if outs.any (fun o => o.de == "derive".toList) then ["serde::Deserialize".toList] else []) ++
  (if outs.any (fun o => o.ser == "derive".toList) then ["serde::Serialize".toList] else []) ++
  (if g.any (fun nd => structKind nd.kind && !cleared u nd && (nestedFlags g nd).any id) then ["validator::Validate".toList] else [])

/-! ## J — well-formedness of the emitted module -/

structure Ref where
  to : Name
  map : Bool
  vec : Bool
  wrap : Bool := false       -- the mention is not the whole type (it sits below Option / Vec / EventStream / a map)
  arr : Bool := false        -- below a Vec/Option that is itself inside a Vec: part of an opaque `Vec<X>` / `Option<X>` atom
deriving DecidableEq, Repr, Inhabited

structure Fld where
  name : Name
  refs : List Ref
  nested : Bool := false
  len : Bool := false
  sep : Bool := false
  sepStr : Bool := false
  opt : Bool := false        -- the member type is `Option<..>`
  serdeAsAttr : Bool := false -- the member carries `#[serde_as(as = "..")]`
  asOpt : Bool := false      -- … whose adapter is `Option<..>`
  hdrOpt : Bool := false     -- `impl TryFrom<&X> for http::HeaderMap` reads the member with `if let Some(value) = &headers.f`
  hdrParse : Bool := false   -- `impl TryFrom<&http::HeaderMap> for X` builds the member with `value.parse()` (needs `FromStr`)
  validated : Bool := false  -- the member carries a `#[validate(..)]` attribute of any kind
  dur : Bool := false
deriving Repr, Inhabited

structure Item where
  file : Name
  kind : Name            -- struct | enum | alias | ctor | fn | trait | const | static
  name : Name
  vis : Name
  ser : Bool := false
  de : Bool := false
  val : Bool := false
  bare : List Name := []
  fields : List Fld := []
  variants : List Name := []
  evstream : Bool := false
  serdeAs : Bool := false    -- the struct carries `#[serde_with::serde_as]`
  reqStruct : Bool := false  -- an operation request struct (derives no PartialEq): its `body` member is sent (client) / extracted (server)
  respEnum : Bool := false   -- a response enum (derives neither PartialEq nor serde): its payloads are decoded (client) / sent as Json (server)
  intoResp : Bool := false
  params : List Name := []
  bytesBody : Bool := false
  optBody : Bool := false
  fromStr : Bool := false                   -- the type has an `impl FromStr`
  vboxed : List (Name × Bool) := []         -- enum: one-payload variants, is the payload type `Box<..>`
  helperCtors : List (Name × Bool) := []    -- enum: inherent `fn f(..) -> Self { Self::V(e) }`, is `e` a `Box::new(..)`
deriving Repr, Inhabited

structure Mod where
  mode : Name
  visFile : Bool := false               -- `--visibility file`
  schemas : List Name                   -- component schema names of the spec
  refd : Option (List Name) := none     -- component schemas that some `$ref` of the document points to (none: not given)
  items : List Item
  imports : List (Name × List Name)     -- per file: identifiers of its `use` trees
  mentions : List (Name × List Name)    -- per file: capitalised single-segment type names mentioned
  constMentions : List (Name × List Name) := []   -- per file: bare SCREAMING_SNAKE identifiers in expression position
deriving Repr, Inhabited

inductive Viol
  | undefinedType (name : Name)
  | privateAcross (file name : Name)
  | serde (item target : Name) (ser viaMap viaArr viaResp : Bool)
  | bodyCap (item target : Name) (ser viaMap viaArr viaWrap : Bool)
  | headerOptMismatch (item : Name)
  | serdeAsMismatch (item member : Name)
  | nestedNoValidate (item target : Name)
  | lengthNeedsSer (item target : Name)
  | dupParam (item : Name)
  | dupMember (item : Name)
  | dupItem (name : Name)
  | sepNonString (item : Name)
  | evstreamJson (item : Name)
  | serverBytesBody (item : Name)
  | serverOptBody (item : Name)
  | serverDurationHeader (item : Name)
  | aliasCycle (item : Name)
  | missingImport (name : Name)
  | undefinedConst (name : Name)
  | headerParseNoFromStr (item target : Name)
  | ctorBoxMismatch (item variant : Name)
  | fnShadowsImport (file name : Name)
  | validatorBinderShadowed (item member : Name)
deriving DecidableEq, Repr

def typeKind (k : Name) : Bool := k == "struct".toList || k == "enum".toList || k == "alias".toList

def Mod.types (m : Mod) : List Item := m.items.filter fun i => typeKind i.kind
def Mod.find (m : Mod) (n : Name) : Option Item := m.types.find? (·.name == n)

def hasDup : List Name → Bool
  | [] => false
  | a :: t => t.contains a || hasDup t

/-- capability of a type name, looking through aliases (`type X = Vec<Y>` serialises iff `Y` does) -/
def capable (m : Mod) (sel : Item → Bool) : Nat → Name → Bool
  | 0, _ => true
  | f + 1, n =>
    match m.find n with
    | none => true                          -- undefined names are the name-closure clause's business
    | some it =>
      if it.kind == "alias".toList then it.fields.all fun fd => fd.refs.all fun r => capable m sel f r.to
      else sel it

/-- the types below `n` (looking through aliases) that lack a capability, each with "was a map / a nested array crossed
on the way" — `type R = HashMap<String, E>` is an alias NODE whose target atom is opaque, so the break is at `E` -/
def incapable (m : Mod) (sel : Item → Bool) : Nat → Name → Bool → Bool → List (Name × Bool × Bool)
  | 0, _, _, _ => []
  | f + 1, n, mp, ar =>
    match m.find n with
    | none => []
    | some it =>
      if it.kind == "alias".toList then
        it.fields.flatMap fun fd => fd.refs.flatMap fun r => incapable m sel f r.to (mp || r.map) (ar || r.arr)
      else if sel it then [] else [(n, mp, ar)]

def serdeViols (m : Mod) : List Viol :=
  m.types.flatMap fun it =>
    if it.kind == "alias".toList then [] else
    it.fields.flatMap fun fd => fd.refs.flatMap fun r =>
      -- a response enum needs its payload types decodable (client: parse_response) / encodable (server: axum::Json)
      let server := m.mode == "server-mod".toList
      (if it.ser || (it.respEnum && server) then (incapable m (·.ser) 4 r.to r.map r.arr).map fun (t, mp, ar) => Viol.serde it.name t true mp ar (it.respEnum && r.wrap) else []) ++
      (if it.de || (it.respEnum && !server) then (incapable m (·.de) 4 r.to r.map r.arr).map fun (t, mp, ar) => Viol.serde it.name t false mp ar (it.respEnum && r.wrap) else [])

/-- the `body` member of a request struct is handed to `.json(..)` / `.form(..)` (client: needs Serialize) or comes out
of `axum::Json<..>` / `Form<..>` (server: needs Deserialize) -/
def bodyViols (m : Mod) : List Viol :=
  let server := m.mode == "server-mod".toList
  m.types.flatMap fun it =>
    -- `generate types` writes no client / server half: nothing sends or extracts the body there
    if !(it.kind == "struct".toList && it.reqStruct) || m.mode == "types".toList then [] else
    (it.fields.filter (·.name == "body".toList)).flatMap fun fd => fd.refs.flatMap fun r =>
      (incapable m (fun x => if server then x.de else x.ser) 4 r.to r.map r.arr).map fun (t, mp, ar) => Viol.bodyCap it.name t (!server) mp ar r.wrap

def nameViols (m : Mod) : List Viol :=
  (m.mentions.flatMap fun (file, names) =>
    let imported := ((m.imports.filter (·.1 == file)).flatMap (·.2))
    names.flatMap fun n =>
      if m.items.any (fun i => i.file == file && i.name == n) then []
      else if file != "types".toList && m.items.any (fun i => i.file == "types".toList && i.name == n) then
        (if m.items.any (fun i => i.file == "types".toList && i.name == n && typeKind i.kind && i.vis.isEmpty) then [Viol.privateAcross file n] else [])
      else if imported.contains n then []
      -- client.rs / server.rs / mod.rs are mostly fixed text over framework types: only spec schema names are judged there
      else if file != "types".toList && !m.schemas.contains n then []
      else [Viol.undefinedType n]).eraseDups

/-- every constant named in an expression is defined by a `const` / `static` item of the module (the files of a module
import each other's items with `use super::types::*`) -/
def constViols (m : Mod) : List Viol :=
  let defined := (m.items.filter fun i => i.kind == "const".toList || i.kind == "static".toList).map (·.name)
  ((m.constMentions.flatMap (·.2)).filter fun n => !defined.contains n).eraseDups.map Viol.undefinedConst

def validateViols (m : Mod) : List Viol :=
  m.types.flatMap fun it => it.fields.flatMap fun fd =>
    (if fd.nested then fd.refs.flatMap fun r => if !r.map && !r.arr && !capable m (·.val) 4 r.to then [Viol.nestedNoValidate it.name r.to] else [] else []) ++
    (if fd.len then fd.refs.flatMap fun r => if r.vec && !r.map && !capable m (·.ser) 4 r.to then [Viol.lengthNeedsSer it.name r.to] else [] else [])

def endsWith (s suf : Name) : Bool := (s.drop (s.length - suf.length)) == suf && suf.length ≤ s.length

def isHeaderStruct (n : Name) : Bool := endsWith n "RequestHeader".toList

/-- does the alias chain starting at `n` lead back to `target`? -/
def aliasReach (m : Mod) (target : Name) : Nat → Name → Bool
  | 0, _ => false
  | f + 1, n =>
    n == target ||
    match m.find n with
    | some it => it.kind == "alias".toList && it.fields.any fun fd => fd.refs.any fun r => aliasReach m target f r.to
    | none => false

/-- a header member built with `value.parse()` needs `FromStr` on its (custom) type -/
def hdrParseViols (m : Mod) (it : Item) : List Viol :=
  if it.kind == "struct".toList then (it.fields.filter (·.hdrParse)).flatMap (fun fd => fd.refs.flatMap fun r =>
    if !r.map && !r.vec && !capable m (·.fromStr) 4 r.to then [Viol.headerParseNoFromStr it.name r.to] else []) else []

/-- a helper constructor wraps its payload in `Box::new(..)` exactly when the variant's payload type is `Box<..>` -/
def ctorBoxViols (it : Item) : List Viol :=
  if it.kind == "enum".toList then it.helperCtors.flatMap (fun (v, b) =>
    match it.vboxed.lookup v with
    | some pb => if pb != b then [Viol.ctorBoxMismatch it.name v] else []
    | none => []) else []

/-- an `Option` member whose name is one of the validator derive's own locals -/
def binderShadowed (fd : Fld) : Bool :=
  fd.opt && ((fd.validated && fd.name == "errors".toList) || (fd.nested && fd.name == "entry".toList))

def shapeViols (m : Mod) : List Viol :=
  (m.items.flatMap fun it =>
    -- a free function named like an identifier its own file imports (`fn get` next to `use axum::routing::{get, ..}`)
    (if it.kind == "fn".toList && ((m.imports.filter (·.1 == it.file)).flatMap (·.2)).contains it.name then [Viol.fnShadowsImport it.file it.name] else []) ++
    -- validator_derive 0.20 unwraps an `Option` member with `if let Some(ref <member>) = self.<member>` and refers to its own
    -- locals `errors` (every validator) and `entry` (nested) inside: a member of that name captures them
    (if it.kind == "struct".toList && it.val then (it.fields.filter (binderShadowed ·)).map (fun fd => Viol.validatorBinderShadowed it.name fd.name) else []) ++
    (if it.kind == "ctor".toList && hasDup it.params then [Viol.dupParam it.name] else []) ++
    (if it.kind == "struct".toList && hasDup (it.fields.map (·.name)) then [Viol.dupMember it.name] else []) ++
    (if it.kind == "enum".toList && hasDup it.variants then [Viol.dupMember it.name] else []) ++
    (if it.kind == "struct".toList && it.fields.any (fun fd => fd.hdrOpt && !fd.opt) then [Viol.headerOptMismatch it.name] else []) ++
    -- attribute / type agreement: a `serde_as` adapter wraps in `Option<..>` exactly when the member type does, and the
    -- member attribute needs `#[serde_as]` on the struct
    (if it.kind == "struct".toList then (it.fields.filter fun fd => fd.serdeAsAttr && (fd.asOpt != fd.opt || !it.serdeAs)).map (fun fd => Viol.serdeAsMismatch it.name fd.name) else []) ++
    (if it.kind == "struct".toList && it.fields.any (fun fd => fd.sep && !fd.sepStr) then [Viol.sepNonString it.name] else []) ++
    (if it.kind == "enum".toList && it.intoResp && it.evstream then [Viol.evstreamJson it.name] else []) ++
    (if it.kind == "fn".toList && it.file == "server".toList && it.bytesBody then [Viol.serverBytesBody it.name] else []) ++
    (if it.kind == "fn".toList && it.file == "server".toList && it.optBody then [Viol.serverOptBody it.name] else []) ++
    (if it.kind == "struct".toList && m.mode == "server-mod".toList && isHeaderStruct it.name && it.fields.any (·.dur) then [Viol.serverDurationHeader it.name] else []) ++
    (if it.kind == "alias".toList && it.fields.any (fun fd => fd.refs.any fun r => aliasReach m it.name 6 r.to) then [Viol.aliasCycle it.name] else []) ++
    hdrParseViols m it ++ ctorBoxViols it) ++
  ((m.types.map (·.name)).filter (fun n => (m.types.filter (·.name == n)).length > 1)).eraseDups.map Viol.dupItem ++
  (((m.types.filter (·.file == "types".toList)).flatMap (·.bare)).eraseDups.filter
    (fun d => (d == "Serialize".toList || d == "Deserialize".toList || d == "Validate".toList) &&
      !((m.imports.filter (·.1 == "types".toList)).flatMap (·.2)).contains d)).map Viol.missingImport

/-- the well-formedness judgement: the list of violated closure obligations (empty = well-formed) -/
def violations (m : Mod) : List Viol := nameViols m ++ serdeViols m ++ bodyViols m ++ validateViols m ++ shapeViols m ++ constViols m

def WF (m : Mod) : Bool := (violations m).isEmpty

/-! ### characterised defect classes -/

def routingFns : List Name := ["get", "post", "put", "delete", "patch", "head", "options", "trace"].map String.toList

/-- the class a violation falls in, if it has one of the characterised SHAPES (everything else is unlisted) -/
def classOf (m : Mod) : Viol → Option String
  -- F01-3: a component that the document REFERENCES through an edge the dependency collector misses. A component that no
  -- `$ref` points to can only be named by the output through structural identification — that is not this class.
  | .undefinedType n => if m.schemas.contains n && (match m.refd with | some r => r.contains n | none => true) then some "KnownSchemaNotEmitted" else none
  | .privateAcross _ _ => if m.visFile then some "KnownFileVisModule" else none
  | .serde _ _ _ viaMap viaArr viaResp =>
      if viaMap then some "KnownSerdeMapEdge" else if viaArr then some "KnownSerdeNestedArrayEdge"
      -- a response variant's payload type is rebuilt from its TEXT (`TypeRef::new(schema.to_rust_type())` in responses.rs):
      -- `Option<T>` / `Vec<T>` / `EventStream<T>` are opaque atoms of the response enum's node
      else if viaResp then some "KnownResponseWrapperPayload" else none
  | .bodyCap _ _ _ viaMap viaArr viaWrap =>
      if viaMap then some "KnownSerdeMapEdge" else if viaArr then some "KnownSerdeNestedArrayEdge"
      -- a nullable-wrapped body `oneOf/anyOf [$ref T, null]` (`Option<T>`): T is not recorded as a request type
      else if viaWrap then some "KnownRequestWrapperBody" else none
  | .headerOptMismatch _ => some "KnownRequiredHeaderDefault"
  | .lengthNeedsSer _ _ => some "KnownLengthNeedsSerialize"
  | .dupParam _ => some "KnownRequestParamClash"
  | .sepNonString _ => some "KnownSeparatorNonString"
  | .evstreamJson _ => some "KnownServerEventStreamJson"
  | .serverBytesBody _ => some "KnownServerBinaryBody"
  | .serverOptBody _ => some "KnownServerOptionalBody"
  | .serverDurationHeader _ => some "KnownServerDurationHeader"
  | .aliasCycle _ => some "KnownAliasCycle"
  -- F01-17: common-affix trimming of the operation ids leaves a server handler called like an HTTP verb
  | .fnShadowsImport f n => if f == "server".toList && routingFns.contains n then some "KnownHandlerShadowsRouting" else none
  | .validatorBinderShadowed _ _ => some "KnownValidatorBinderShadowed"
  | _ => none

structure RErr where
  code : Name
  file : Name
  ikind : Name
  iname : Name
  name : Name
  trait : Name
deriving Repr, Inhabited

/-- `get_a` and `GetA` name the same operation: compare without underscores and case -/
def handlerKey (n : Name) : Name := (n.filter (· != '_')).map Char.toLower

def codeIn (c : Name) (l : List String) : Bool := l.any fun s => s.toList == c

/-- which rustc error a violation accounts for -/
def explains : Viol → RErr → Bool
  | .undefinedType n, e => codeIn e.code ["E0425", "E0412", "E0433", "E0422"] && e.name == n
  | .privateAcross f n, e => codeIn e.code ["E0425", "E0412", "E0433", "E0422", "E0603"] && e.file == f && e.name == n
  | .serdeAsMismatch it _, e => e.ikind == "struct".toList && e.iname == it && codeIn e.code ["E0308", "E0277", "E0271"]
  | .bodyCap it tgt ser _ _ _, e =>
      (codeIn e.code ["E0277"] && e.name == tgt && e.trait == (if ser then "Serialize".toList else "Deserialize".toList) &&
        (e.ikind == "impl".toList || e.ikind == "fn".toList)) ||
      -- server: the handler whose body extractor cannot decode is no `Handler` (reported in `router`, naming the handler `op_x` of `OpXRequest`)
      (!ser && codeIn e.code ["E0277"] && e.file == "server".toList && e.iname == "router".toList &&
        handlerKey e.name ++ "request".toList == handlerKey it)
  | .headerOptMismatch it, e => e.ikind == "impl".toList && e.iname == it && codeIn e.code ["E0308"]
  | .serde it tgt ser _ _ _, e =>
      -- at the holder itself, or DOWNSTREAM at a use site (parse_response / handler / IntoResponse bodies) that needs the same bound
      (codeIn e.code ["E0277"] && e.name == tgt && e.trait == (if ser then "Serialize".toList else "Deserialize".toList) &&
        (e.iname == it || e.ikind == "impl".toList || e.ikind == "fn".toList)) ||
      (ser && codeIn e.code ["E0599"] && e.ikind == "impl".toList && e.iname == it && e.name == "into_response".toList) ||
      -- client: `<EventStream<T>>::from_response(req)` needs `T: DeserializeOwned` (reported as unsatisfied bounds of the method)
      (!ser && codeIn e.code ["E0599"] && e.ikind == "impl".toList && e.name == tgt && e.trait == "from_response".toList)
  | .lengthNeedsSer it tgt, e => codeIn e.code ["E0277"] && e.iname == it && e.name == tgt && e.trait == "Serialize".toList
  | .nestedNoValidate it tgt, e => codeIn e.code ["E0277", "E0599"] && e.iname == it && e.name == tgt
  | .dupParam it, e => e.ikind == "impl".toList && e.iname == it && codeIn e.code ["E0308", "E0428", "E0415", "E0201", "E0119", "E0592", "E0382", "E0124"]
  | .dupMember it, e => e.iname == it && codeIn e.code ["E0124", "E0428"]
  | .dupItem n, e => e.iname == n && codeIn e.code ["E0428", "E0119"]
  | .sepNonString it, e => e.ikind == "struct".toList && e.iname == it && codeIn e.code ["E0277", "E0271"]
  | .evstreamJson it, e => e.ikind == "impl".toList && e.iname == it && codeIn e.code ["E0599"]
  | .serverBytesBody it, e => e.ikind == "fn".toList && e.file == "server".toList && e.iname == it && codeIn e.code ["E0308"]
  | .serverOptBody it, e => e.ikind == "fn".toList && e.file == "server".toList && e.iname == "router".toList && e.name == it && codeIn e.code ["E0277"]
  | .serverDurationHeader it, e => e.ikind == "impl".toList && e.iname == it && e.name == "TimeDelta".toList && codeIn e.code ["E0277"]
  | .aliasCycle it, e => e.ikind == "type".toList && e.iname == it && codeIn e.code ["E0391"]
  | .missingImport n, e => codeIn e.code ["E0404", "E0405", "E0432", "cannot find derive macro"] && e.name == n
  | .undefinedConst n, e => codeIn e.code ["E0425"] && e.name == n
  | .headerParseNoFromStr it tgt, e => e.ikind == "impl".toList && e.iname == it && e.name == tgt && codeIn e.code ["E0277"]
  | .ctorBoxMismatch it _, e => e.ikind == "impl".toList && e.iname == it && codeIn e.code ["E0308"]
  -- reported at the `derive(Validate)` of the struct: the macro's `errors.add(..)` / `entry` now mean the member
  | .validatorBinderShadowed it _, e => codeIn e.code ["E0599", "E0308", "E0277", "E0609", "E0614"] && e.iname == it
  -- the name is defined twice in the value namespace (E0255); every use of it in `router` is then ambiguous / ill-typed
  | .fnShadowsImport f n, e => e.file == f && (codeIn e.code ["E0255"] || (e.iname == "router".toList) || e.iname == n || e.name == n)

structure Verdict where
  ok : Bool
  known : List String
deriving DecidableEq, Repr

/-- E judge (no rustc): well-formedness alone -/
def judgeWF (m : Mod) : Verdict :=
  let vs := violations m
  if vs.isEmpty then ⟨true, []⟩
  else if vs.all (fun v => (classOf m v).isSome) then ⟨false, (vs.filterMap (classOf m)).eraseDups⟩
  else ⟨false, []⟩

/-- A judge: rustc is the oracle; a rejected module is attributed to classes only when EVERY error is
accounted for by a violation of a characterised shape -/
def judgeA (m : Mod) (errs : List RErr) : Verdict :=
  if errs.isEmpty then ⟨true, []⟩ else
  let vs := (violations m).filter fun v => (classOf m v).isSome
  -- every WF violation must have a class AND every rustc error must be accounted for by one of them
  if (violations m).all (fun v => (classOf m v).isSome) && errs.all (fun e => vs.any fun v => explains v e) then
    ⟨false, ((vs.filter fun v => errs.any (explains v)).filterMap (classOf m)).eraseDups⟩
  else ⟨false, []⟩

end Oas3.Comp
