/-
Graph kernel: model of `schema_registry.rs` collect / build_dependencies / detect_cycles /
collect_refs_from_operation / reachable, plus the spec-level notions the properties use
(transitive closure `TC`, `OnCycle`) and an executable CHECKED closure `close` (fuel; `none` means
"fuel exhausted" and is reported, never defaulted).
-/
namespace Oas3.Graph

abbrev Name := List Char

/-- schema tree as far as dependency collection looks at it -/
inductive S
  | ref (name : Name)                 -- `$ref: #/components/schemas/name`
  | extRef                            -- a `$ref` that is not an internal component reference
  | obj (props : List S) (oneOf anyOf allOf : List S) (items : Option S) (addl : Option S)

def refName : S → Option Name
  | .ref n => some n
  | _ => none

/-- `extract_union_fingerprint`: the named refs among the variants, as a sorted duplicate-free list -/
def insertSortedName (n : Name) : List Name → List Name
  | [] => [n]
  | m :: r => if n == m then m :: r else if n.map Char.toNat < m.map Char.toNat then n :: m :: r else m :: insertSortedName n r

def fingerprint (vs : List S) : List Name := (vs.filterMap refName).foldl (fun acc n => insertSortedName n acc) []

abbrev Fps := List (List Name × Name)      -- union fingerprint ↦ schema name (BTreeMap: later insert wins)

def fpLookup (fps : Fps) (fp : List Name) : Option Name :=
  match fps.reverse.find? (fun p => p.1 == fp) with
  | some p => some p.2
  | none => none

mutual
/-- `SchemaRegistry::collect` (NOT additionalProperties, NOT discriminator mappings — as in the code) -/
def collect (fps : Fps) : S → List Name
  | .ref _ => []
  | .extRef => []
  | .obj props oneOf anyOf allOf items _addl =>
    collectRefs fps props ++ collectRefs fps oneOf ++ collectRefs fps anyOf ++ collectRefs fps allOf ++
    (let fp := fingerprint oneOf; if fp.isEmpty then [] else (fpLookup fps fp).toList) ++
    (let fp := fingerprint anyOf; if fp.isEmpty then [] else (fpLookup fps fp).toList) ++
    (match items with | some i => collectRef fps i | none => [])
/-- `collect_ref`: the name of a reference, or the refs inside an inline schema -/
def collectRef (fps : Fps) : S → List Name
  | .ref n => [n]
  | .extRef => []
  | .obj props oneOf anyOf allOf items _addl =>
    collectRefs fps props ++ collectRefs fps oneOf ++ collectRefs fps anyOf ++ collectRefs fps allOf ++
    (let fp := fingerprint oneOf; if fp.isEmpty then [] else (fpLookup fps fp).toList) ++
    (let fp := fingerprint anyOf; if fp.isEmpty then [] else (fpLookup fps fp).toList) ++
    (match items with | some i => collectRef fps i | none => [])
def collectRefs (fps : Fps) : List S → List Name
  | [] => []
  | s :: r => collectRef fps s ++ collectRefs fps r
end

/-- `build_union_fingerprints`: schemas whose oneOf/anyOf name ≥ 2 refs -/
def unionFps (schemas : List (Name × S)) : Fps :=
  schemas.flatMap fun (n, s) =>
    match s with
    | .obj _ oneOf anyOf _ _ _ =>
      ([oneOf, anyOf].filterMap fun vs => let fp := fingerprint vs; if fp.length ≥ 2 then some (fp, n) else none)
    | _ => []

def dedup (l : List Name) : List Name := l.eraseDups

/-- dependency map -/
def depsOf (schemas : List (Name × S)) : List (Name × List Name) :=
  let fps := unionFps schemas
  schemas.map fun (n, s) => (n, dedup (collect fps s))

def succ (deps : List (Name × List Name)) (v : Name) : List Name :=
  match deps.find? (fun p => p.1 == v) with
  | some p => p.2
  | none => []

/-- one closure step: everything reachable in one edge from `R` -/
def step (deps : List (Name × List Name)) (R : List Name) : List Name := R.flatMap (succ deps)

/-- checked closure: stop when `step R ⊆ R` -/
def close (deps : List (Name × List Name)) : Nat → List Name → Option (List Name)
  | 0, _ => none
  | fuel + 1, R =>
    let new := (step deps R).filter (fun x => !R.contains x)
    if new.isEmpty then some R else close deps fuel (R ++ dedup new)

def nodes (deps : List (Name × List Name)) : List Name := dedup (deps.map (·.1) ++ deps.flatMap (·.2))

/-- `reachable`: DFS from the seeds over the dependency graph (seeds that are not graph nodes stay) -/
def reachable (deps : List (Name × List Name)) (seeds : List Name) : Option (List Name) :=
  close deps ((nodes deps).length + seeds.length + 1) (dedup seeds)

/-- `detect_cycles`: members of a non-trivial SCC or with a self-loop = nodes that reach themselves -/
def cyclic (deps : List (Name × List Name)) (v : Name) : Option Bool :=
  match close deps ((nodes deps).length + 2) (dedup (succ deps v)) with
  | some R => some (R.contains v)
  | none => none

/-! spec-level notions -/

inductive TC {α : Type} (r : α → α → Prop) : α → α → Prop
  | base {a b} : r a b → TC r a b
  | step {a b c} : r a b → TC r b c → TC r a c

def OnCycle {α : Type} (r : α → α → Prop) (v : α) : Prop := TC r v v

def Edge (deps : List (Name × List Name)) (a b : Name) : Prop := b ∈ succ deps a

/-! ### the EMITTED type graph (C10): who holds whom, through which wrappers

`graph.emit` reads every field / variant payload type of the emitted items as a target name plus the chain of
wrappers on the way (`Option<Vec<Box<T>>>` = `[option, vec, box]`).  An edge is BY VALUE when the chain has
nothing but `Option`s: the holder's size then includes the target's size.  `Box`, `Vec`, maps put the target on
the heap (an indirection); every other generic is counted as an indirection only because nothing of that sort is
emitted around a schema type (the harness reports them as `generic`). -/

inductive Via | value | option | box | vec | map | other
  deriving DecidableEq, Repr

structure EEdge where
  target : Name
  via : List Via
  deriving DecidableEq, Repr

def Via.byValue : Via → Bool
  | .value => true
  | .option => true
  | _ => false

def EEdge.byValue (e : EEdge) : Bool := e.via.all Via.byValue

abbrev EGraph := List (Name × List EEdge)

/-- by-value containment: holder ↦ the types whose size is part of its own -/
def valueDeps (g : EGraph) : List (Name × List Name) :=
  g.map fun p => (p.1, dedup ((p.2.filter EEdge.byValue).map (·.target)))

/-- the emitted types that lie on a cycle of by-value edges (infinite size, rustc E0072); an exhausted
closure counts as a failure, never as a pass -/
def sizeCycles (g : EGraph) : List Name :=
  (g.map (·.1)).filter fun n => cyclic (valueDeps g) n != some false

def lookupRank (t : List (Name × Nat)) (w : Name) : Nat :=
  match t.find? (fun p => p.1 == w) with
  | some p => p.2
  | none => 0

/-- `k` rounds of "my rank = 1 + the largest rank among what I hold by value" -/
def rankTable (d : List (Name × List Name)) : Nat → List (Name × Nat)
  | 0 => d.map fun p => (p.1, 0)
  | k + 1 => let t := rankTable d k
             d.map fun p => (p.1, p.2.foldl (fun m w => max m (lookupRank t w + 1)) 0)

/-- a layout order for the emitted types: after as many rounds as there are types the ranks of an acyclic graph
are stable (longest by-value chain below a type) -/
def layoutRank (g : EGraph) : Name → Nat := lookupRank (rankTable (valueDeps g) g.length)

/-- certificate check: along every by-value edge the rank goes strictly down -/
def rankOk (d : List (Name × List Name)) (r : Name → Nat) : Bool :=
  d.all fun p => p.2.all fun b => r b < r p.1

/-- C10 on the emitted items: every cycle of the emitted type graph passes through an indirection, i.e. the
by-value edges alone admit a strictly decreasing rank (decidable; sound for finite size, see
`Props/C10.emitted_cycle_has_indirection_sound`) -/
def emittedCycleHasIndirection (g : EGraph) : Bool := rankOk (valueDeps g) (layoutRank g)

/-- the generator's boxing rule (`TypeResolver::type_ref`, `InlineTypeResolver::type_ref`,
`VariantBuilder::build_ref_variant`): a reference BY NAME to component schema `t` is boxed iff `t` is flagged
cyclic by `detect_cycles`; the payloads of a discriminated base's variants are boxed always
(`DiscriminatorConverter`) -/
def expectBoxed (deps : List (Name × List Name)) (discVariant : Bool) (t : Name) : Option Bool :=
  if discVariant then some true else cyclic deps t

/-- … except for the element type of an array (`Vec<T>`: the container is the indirection, `type_ref` is not
consulted); the value type of a map goes through `type_ref` like a member (`HashMap<String, Box<T>>`) -/
def expectBoxedAt (deps : List (Name × List Name)) (discVariant : Bool) (via : List Via) (t : Name) : Option Bool :=
  if via.contains .vec then some false else expectBoxed deps discVariant t

/-! ### `#[serde(untagged)]` unions of object members (C10, round trip of recursive documents)

Trusted semantics (serde_derive): an untagged enum is read by trying the variants IN DECLARATION ORDER; a struct
variant accepts an object iff every member that serde may not omit is present (unknown keys are ignored unless
`deny_unknown_fields`); what is written back are the members of the variant that was chosen.  Documents are
abstracted to their key sets: the members of one union use different member names, nested union values are
documents of the same union and are judged on their own. -/

structure UVariant where
  payload : Name                 -- the struct the variant wraps
  required : List Name           -- wire names serde insists on
  wires : List Name              -- every wire name of the struct
  closed : Bool := false         -- `deny_unknown_fields`
  deriving DecidableEq, Repr

def UVariant.accepts (v : UVariant) (keys : List Name) : Bool :=
  v.required.all keys.contains && (!v.closed || keys.all v.wires.contains)

/-- the variant an object with these keys is decoded as -/
def chooseVariant (vs : List UVariant) (keys : List Name) : Option UVariant := vs.find? (·.accepts keys)

/-- does the object come back with all its keys? -/
def keysPreserved (vs : List UVariant) (keys : List Name) : Bool :=
  match chooseVariant vs keys with
  | some v => keys.all v.wires.contains
  | none => false

/-- the order of the payload types as they should be declared: the order of the `$ref` members in the spec -/
def expectedVariantOrder (specMembers : List Name) (emitted : List Name) : List Name :=
  specMembers.filter emitted.contains

/-! ### duplicate response enums (postprocess/response_enum.rs): operations with the same response signature
share ONE response enum — the canonical one (shortest name, then alphabetical); the others are removed from the
type list by index -/

def strLe : List Char → List Char → Bool
  | [], _ => true
  | _ :: _, [] => false
  | a :: r, b :: s => if a.toNat < b.toNat then true else if b.toNat < a.toNat then false else strLe r s

/-- `a.name.len().cmp(&b.name.len()).then(a.name.cmp(&b.name))` -/
def nameLe (a b : Name) : Bool := a.length < b.length || (a.length == b.length && strLe a b)

def canonicalOf : List Name → Option Name
  | [] => none
  | n :: r => match canonicalOf r with
    | none => some n
    | some m => if nameLe n m then some n else some m

/-- (enum name, signature) of every selected operation ↦ the enum names that stay -/
def dedupSurvivors (ops : List (Name × Name)) : List Name :=
  (ops.filter fun p => canonicalOf ((ops.filter fun q => q.2 == p.2).map (·.1)) == some p.1).map (·.1)

/-- removal by index, one after the other, in the given order (`types.remove(idx)`) -/
def removeIdxs {α : Type} (idxs : List Nat) (l : List α) : List α := idxs.foldl (fun acc i => acc.eraseIdx i) l

end Oas3.Graph
