import Oas3Model.Model.Path
import Oas3Model.Model.Naming
import Oas3Model.Model.Responses
import Oas3Model.Gen.Naming
/-
Model of what the client method of ONE operation looks like (codegen/client.rs:
HttpInitFragment, UrlConstructionFragment, Query/HeaderParamsFragment, RequestBodyFragment) given the
operation's description (converter/parameters.rs::collect_parameters, converter/requests.rs::BodyInfo).
Parameter names are ASCII here (transliteration = identity).
-/
namespace Oas3.Client
open Oas3.Path Oas3.Naming

inductive Loc | path | query | header | cookie
  deriving DecidableEq, Repr

structure Param where
  name : List Char
  loc : Loc
  pathLevel : Bool := false
  deriving DecidableEq, Repr

def idTr : Tr := fun c => [c]
def fieldName (n : List Char) : List Char := toRustFieldName Oas3.Gen.forbidden idTr n

/-- `collect_parameters`: path-item parameters first, then operation parameters; an operation
parameter removes every earlier one with the same (location, name). -/
def collectParams (ps : List Param) : List Param :=
  let pathLevel := ps.filter (·.pathLevel)
  let opLevel := ps.filter (!·.pathLevel)
  opLevel.foldl (fun acc p => acc.filter (fun q => q.loc != p.loc || q.name != p.name) ++ [p]) pathLevel

/-- template parameter names in order of appearance (`extract_template_params`); fuel = length + 1 -/
def tparams : Nat → List Char → List (List Char)
  | 0, _ => []
  | _, [] => []
  | fuel + 1, c :: r =>
    if c == '{' then
      if r.contains '}' then
        let name := r.takeWhile (· != '}')
        let rest := (r.dropWhile (· != '}')).drop 1
        if name.isEmpty then tparams fuel rest else name :: tparams fuel rest
      else []
    else tparams fuel r

/-- declared path params (after merge) + synthesized ones for undeclared template names -/
def pathDecl (path : List Char) (ps : List Param) : List (List Char × List Char) :=
  let declared := ((collectParams ps).filter (·.loc == .path)).map (·.name)
  let missing := ((tparams (path.length + 1) path).filter (fun n => !declared.contains n)).eraseDups
  (declared ++ missing).map fun n => (n, fieldName n)

inductive HttpInit
  | builtin (m : List Char)          -- `.get(url)` …
  | request (m : List Char)          -- `.request(reqwest::Method::X, url)`
  deriving DecidableEq, Repr

def httpInit (method : List Char) : HttpInit :=
  let m := method.map Char.toLower
  if ["get", "post", "put", "delete", "patch", "head"].map String.toList |>.contains m then .builtin m
  else .request (method.map Char.toUpper)

/-- body encoder call chosen from the FIRST declared content type -/
def bodyEnc (firstCt : List Char) : List Char :=
  match Oas3.Resp.catOf firstCt with
  | .json => "json".toList
  | .form => "form".toList
  | .text | .eventStream => "body".toList
  | .binary => "body".toList
  | .xml => "xml".toList
  | .multipart => "multipart".toList

end Oas3.Client
