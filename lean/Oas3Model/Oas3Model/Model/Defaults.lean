/-
Model of the generator's default-value pipeline (property C17), read from
  converter/fields.rs   : extract_default_value, convert_field (optionality), build_struct_fields
  ast/fields.rs         : with_builder_attrs, struct_serde_attrs
  codegen/coercion.rs   : json_to_rust_literal, coerce_to_{string,static_str,int,uint,float,bool}
  codegen/attributes.rs : generate_field_default_attr, generate_builder_attrs
  converter/type_resolver.rs : primitive / format_or_default, ast/types.rs : RustPrimitive::from_format
This file models the code that EXISTS (e.g. `is_array` is ignored by the coercion, every
non-primitive base type becomes `Default::default()`).  Core Lean only, total, executable.
-/
namespace Oas3.Defaults

/-! ## JSON values (flat: scalars, arrays of scalars, objects of scalars) -/

/-- serde_json scalars.  `int i` is a JSON integer literal (serde `PosInt`/`NegInt`, i.e.
`-2^63 ≤ i < 2^64`); `dec m e` is the non-integral decimal `m · 10^-e` (`e > 0`, `10 ∤ m`),
which serde_json holds as an `f64`. -/
inductive Scalar
  | null
  | bool (b : Bool)
  | int (i : Int)
  | dec (m : Int) (e : Nat)
  | str (s : List Char)
  deriving DecidableEq, Repr

inductive JVal
  | sc (s : Scalar)
  | arr (xs : List Scalar)
  | obj (kvs : List (List Char × Scalar))
  deriving DecidableEq, Repr

/-! ## Rust primitive types (`RustPrimitive`) -/

inductive Prim
  | string | staticStr
  | i8 | i16 | i32 | i64 | i128 | isize
  | u8 | u16 | u32 | u64 | u128 | usize
  | f32 | f64
  | bool
  | other (name : List Char)      -- Custom(..), Date, DateTime, Uuid, Bytes, Value, Unit, …
  deriving DecidableEq, Repr

def Prim.isSInt : Prim → Bool
  | .i8 | .i16 | .i32 | .i64 | .i128 | .isize => true
  | _ => false

def Prim.isUInt : Prim → Bool
  | .u8 | .u16 | .u32 | .u64 | .u128 | .usize => true
  | _ => false

def Prim.isFloat : Prim → Bool
  | .f32 | .f64 => true
  | _ => false

def Prim.name : Prim → List Char
  | .string => "String".toList | .staticStr => "&'static str".toList
  | .i8 => "i8".toList | .i16 => "i16".toList | .i32 => "i32".toList | .i64 => "i64".toList
  | .i128 => "i128".toList | .isize => "isize".toList
  | .u8 => "u8".toList | .u16 => "u16".toList | .u32 => "u32".toList | .u64 => "u64".toList
  | .u128 => "u128".toList | .usize => "usize".toList
  | .f32 => "f32".toList | .f64 => "f64".toList
  | .bool => "bool".toList
  | .other n => n

def primTable : List (List Char × Prim) :=
  [("String".toList, .string), ("&'static str".toList, .staticStr),
   ("i8".toList, .i8), ("i16".toList, .i16), ("i32".toList, .i32), ("i64".toList, .i64), ("i128".toList, .i128), ("isize".toList, .isize),
   ("u8".toList, .u8), ("u16".toList, .u16), ("u32".toList, .u32), ("u64".toList, .u64), ("u128".toList, .u128), ("usize".toList, .usize),
   ("f32".toList, .f32), ("f64".toList, .f64), ("bool".toList, .bool)]

/-- `RustPrimitive::from_str` restricted to what matters here: everything that is not one of the
17 names is a non-primitive (`other`). -/
def Prim.ofName (n : List Char) : Prim :=
  match primTable.lookup n with
  | some p => p
  | none => .other n

/-- inclusive range of the values an integer literal with this suffix may take (rustc's
deny-by-default `overflowing_literals` lint rejects anything else; isize/usize are 64 bit). -/
def Prim.range : Prim → Option (Int × Int)
  | .i8 => some (-128, 127) | .i16 => some (-32768, 32767) | .i32 => some (-2147483648, 2147483647)
  | .i64 | .isize => some (-9223372036854775808, 9223372036854775807)
  | .i128 => some (-170141183460469231731687303715884105728, 170141183460469231731687303715884105727)
  | .u8 => some (0, 255) | .u16 => some (0, 65535) | .u32 => some (0, 4294967295)
  | .u64 | .usize => some (0, 18446744073709551615)
  | .u128 => some (0, 340282366920938463463374607431768211455)
  | _ => none

def Prim.inRange (p : Prim) (v : Int) : Bool :=
  match p.range with
  | some (lo, hi) => decide (lo ≤ v) && decide (v ≤ hi)
  | none => false

def i64Min : Int := -9223372036854775808
def i64Max : Int := 9223372036854775807
def u64Max : Int := 18446744073709551615

/-! ## Emitted expressions -/

/-- the shapes `json_to_rust_literal` can produce (numeric literals carry their VALUE; the
decimal rendering `format!("{v}{suffix}")` / rustc's lexer round trip is checked by the harness,
which reads the emitted token back). -/
inductive Expr
  | none
  | some (e : Expr)
  | strToString (s : List Char)       -- "s".to_string()
  | stringNew                          -- String::new()
  | staticStr (s : List Char)          -- "s"
  | ilit (v : Int) (suffix : Prim)     -- 5i64, -7i32
  | flit (m : Int) (e : Nat) (suffix : Prim)  -- 1.5f64  (value m·10^-e)
  | blit (b : Bool)
  | dflt                               -- Default::default()
  deriving DecidableEq, Repr

/-! ## Rust's `str::parse` for integers and (plain decimal) floats -/

def digitVal (c : Char) : Option Nat :=
  if '0'.toNat ≤ c.toNat ∧ c.toNat ≤ '9'.toNat then some (c.toNat - '0'.toNat) else Option.none

def parseDigits : Nat → List Char → Option Nat
  | acc, [] => some acc
  | acc, c :: r => match digitVal c with
    | some d => parseDigits (acc * 10 + d) r
    | none => Option.none

/-- one or more ASCII digits -/
def parseNat : List Char → Option Nat
  | [] => Option.none
  | cs => parseDigits 0 cs

/-- `s.parse::<i64>()` -/
def parseI64 (s : List Char) : Option Int :=
  match s with
  | '-' :: r => match parseNat r with
    | some n => if (n : Int) ≤ -i64Min then some (-(n : Int)) else Option.none
    | none => Option.none
  | '+' :: r => match parseNat r with
    | some n => if (n : Int) ≤ i64Max then some n else Option.none
    | none => Option.none
  | r => match parseNat r with
    | some n => if (n : Int) ≤ i64Max then some n else Option.none
    | none => Option.none

/-- `s.parse::<u64>()` (a leading `-` is an invalid digit for unsigned types) -/
def parseU64 (s : List Char) : Option Int :=
  match s with
  | '+' :: r => match parseNat r with
    | some n => if (n : Int) ≤ u64Max then some n else Option.none
    | none => Option.none
  | r => match parseNat r with
    | some n => if (n : Int) ≤ u64Max then some n else Option.none
    | none => Option.none

/-- strip trailing zeros of the mantissa: canonical form of `m · 10^-e` -/
def normDec : Nat → Int → Nat → Int × Nat
  | 0, m, e => (m, e)
  | fuel + 1, m, e =>
    if e = 0 then (m, 0)
    else if m % 10 = 0 then normDec fuel (m / 10) (e - 1)
    else (m, e)

def norm (m : Int) (e : Nat) : Int × Nat := normDec e m e

/-- unsigned `digits [ '.' digits ]` / `'.' digits` with at least one digit (no exponent, no
inf/nan: the check never generates those). -/
def parseUDec (s : List Char) : Option (Nat × Nat) :=
  let ip := s.takeWhile (· != '.')
  let rest := s.dropWhile (· != '.')
  match rest with
  | [] => (parseNat ip).map (fun n => (n, 0))
  | _ :: fp =>
    if ip.isEmpty && fp.isEmpty then Option.none
    else match parseDigits 0 ip, parseDigits 0 fp with
      | some a, some b => some (a * 10 ^ fp.length + b, fp.length)
      | _, _ => Option.none

/-- `s.parse::<f64>()` on that sub-grammar: value as a canonical decimal -/
def parseF64 (s : List Char) : Option (Int × Nat) :=
  match s with
  | '-' :: r => (parseUDec r).map (fun p => norm (-(p.1 : Int)) p.2)
  | '+' :: r => (parseUDec r).map (fun p => norm (p.1 : Int) p.2)
  | r => (parseUDec r).map (fun p => norm (p.1 : Int) p.2)

/-! ## Display of numbers (`Number::to_string`, `bool::to_string`) -/

def showNat (n : Nat) : List Char := Nat.toDigits 10 n

def showInt (i : Int) : List Char :=
  if i < 0 then '-' :: showNat i.natAbs else showNat i.natAbs

def padLeft (n : Nat) (cs : List Char) : List Char := List.replicate (n - cs.length) '0' ++ cs

/-- ryu's rendering of a non-integral `f64` of moderate magnitude -/
def showDec (m : Int) (e : Nat) : List Char :=
  let n := m.natAbs
  (if m < 0 then ['-'] else []) ++ showNat (n / 10 ^ e) ++ ['.'] ++ padLeft e (showNat (n % 10 ^ e))

def showBool (b : Bool) : List Char := if b then "true".toList else "false".toList

def lowerAscii (c : Char) : Char := if 'A'.toNat ≤ c.toNat ∧ c.toNat ≤ 'Z'.toNat then Char.ofNat (c.toNat + 32) else c

/-! ## `coerce_to_*` -/

def coerceString : JVal → Expr
  | .sc (.str s) => if s.isEmpty then .stringNew else .strToString s
  | .sc (.int i) => .strToString (showInt i)
  | .sc (.dec m e) => .strToString (showDec m e)
  | .sc (.bool b) => .strToString (showBool b)
  | _ => .dflt

def coerceStaticStr : JVal → Expr
  | .sc (.str s) => .staticStr s
  | .sc (.int i) => .staticStr (showInt i)
  | .sc (.dec m e) => .staticStr (showDec m e)
  | .sc (.bool b) => .staticStr (showBool b)
  | _ => .staticStr []

def coerceBool : JVal → Expr
  | .sc (.bool b) => .blit b
  | .sc (.int i) => .blit (decide (i64Min ≤ i) && decide (i ≤ i64Max) && decide (i ≠ 0))   -- as_i64().is_some_and(|i| i != 0)
  | .sc (.dec _ _) => .blit false
  | .sc (.str s) =>
    let l := s.map lowerAscii
    .blit (l == "true".toList || l == "1".toList || l == "yes".toList)
  | _ => .dflt

def coerceInt (p : Prim) : JVal → Expr
  | .sc (.int i) => if i64Min ≤ i ∧ i ≤ i64Max then .ilit i p else .dflt      -- as_i64
  | .sc (.str s) => match parseI64 s with | some i => .ilit i p | none => .dflt
  | _ => .dflt

def coerceUint (p : Prim) : JVal → Expr
  | .sc (.int i) => if 0 ≤ i ∧ i ≤ u64Max then .ilit i p else .dflt           -- as_u64
  | .sc (.str s) => match parseU64 s with | some i => .ilit i p | none => .dflt
  | _ => .dflt

def coerceFloat (p : Prim) : JVal → Expr
  | .sc (.int i) => .flit i 0 p                                                -- as_f64 (exact for |i| ≤ 2^53)
  | .sc (.dec m e) => .flit m e p
  | .sc (.str s) => match parseF64 s with | some (m, e) => .flit m e p | none => .dflt
  | _ => .dflt

/-- `coerce_to_rust_type` -/
def coerce (v : JVal) (p : Prim) : Expr :=
  match p with
  | .string => coerceString v
  | .staticStr => coerceStaticStr v
  | .i8 | .i16 | .i32 | .i64 | .i128 | .isize => coerceInt p v
  | .u8 | .u16 | .u32 | .u64 | .u128 | .usize => coerceUint p v
  | .f32 | .f64 => coerceFloat p v
  | .bool => coerceBool v
  | .other _ => .dflt

/-- `TypeRef` (boxed / unique_items play no role here) -/
structure FTy where
  base : Prim
  isArray : Bool
  nullable : Bool
  deriving DecidableEq, Repr

def FTy.withOption (t : FTy) : FTy := { t with nullable := true }

/-- `TypeRef::to_rust_type` -/
def FTy.render (t : FTy) : List Char :=
  let b := t.base.name
  let a := if t.isArray then "Vec<".toList ++ b ++ ">".toList else b
  if t.nullable then "Option<".toList ++ a ++ ">".toList else a

/-- `json_to_rust_literal`: `is_array` is NOT consulted. -/
def jsonToRustLiteral (v : JVal) (t : FTy) : Expr :=
  if v = .sc .null then .none
  else
    let b := coerce v t.base
    if t.nullable then .some b else b

/-! ## The member grammar and `convert_field` -/

inductive STy | string | integer | number | boolean
  deriving DecidableEq, Repr

inductive Kind
  /-- `type: T` (+ `format`) -/
  | scalar (ty : STy) (format : Option (List Char))
  /-- string enum with ≥ 2 values (inline, or a named schema reached through `allOf:[$ref]`): a
  generated unit-variant enum type -/
  | enumStr (vals : List (List Char))
  /-- inline object whose members (`keys`) are all optional strings without defaults: a generated
  struct type -/
  | object (keys : List (List Char))
  deriving DecidableEq, Repr

/-- `RustPrimitive::from_format` -/
def fromFormat (f : List Char) : Option Prim :=
  [("int8".toList, Prim.i8), ("int16".toList, .i16), ("int32".toList, .i32), ("int64".toList, .i64),
   ("uint8".toList, .u8), ("uint16".toList, .u16), ("uint32".toList, .u32), ("uint64".toList, .u64),
   ("float".toList, .f32), ("double".toList, .f64),
   ("date".toList, .other "chrono::NaiveDate".toList), ("date-time".toList, .other "chrono::DateTime<chrono::Utc>".toList),
   ("time".toList, .other "chrono::NaiveTime".toList), ("duration".toList, .other "chrono::Duration".toList),
   ("byte".toList, .other "Vec<u8>".toList), ("binary".toList, .other "Vec<u8>".toList),
   ("uuid".toList, .other "uuid::Uuid".toList)].lookup f

/-- `TypeResolver::primitive` / `format_or_default` for the four scalar types -/
def scalarPrim (ty : STy) (format : Option (List Char)) : Prim :=
  match ty with
  | .boolean => .bool
  | .string => (format.bind fromFormat).getD .string
  | .number => (format.bind fromFormat).getD .f64
  | .integer => (format.bind fromFormat).getD .i64

/-- one property of an object schema, as far as defaults are concerned -/
structure Member where
  kind : Kind
  /-- `type: array, items: <kind>` -/
  isArray : Bool
  /-- `type: [T, "null"]` -/
  nullable : Bool
  /-- listed in the parent's `required` -/
  required : Bool
  /-- the three places a default can come from -/
  dflt : Option JVal
  const : Option JVal
  /-- the single value of a one-element `enum` -/
  enumOne : Option JVal
  /-- `--enable-builders` -/
  builders : Bool
  /-- name of the generated enum/struct type for `enumStr`/`object` kinds (naming is C09's
  business; passed in) -/
  customName : List Char
  deriving DecidableEq, Repr

/-- `FieldConverter::extract_default_value`: default > const > single enum value.  (`default: null`
is read by the `oas3` parser as "no default".) -/
def extractDefault {α : Type} (d c e : Option α) : Option α :=
  (d.orElse fun _ => c).orElse fun _ => e

def Member.default? (m : Member) : Option JVal := extractDefault m.dflt m.const m.enumOne

def Member.basePrim (m : Member) : Prim :=
  match m.kind with
  | .scalar ty f => scalarPrim ty f
  | .enumStr _ => .other m.customName
  | .object _ => .other m.customName

/-- the type `resolve_property` returns -/
def Member.resolved (m : Member) : FTy := { base := m.basePrim, isArray := m.isArray, nullable := m.nullable }

inductive BuilderAttr
  | default (e : Expr)
  | skip (e : Expr)
  deriving DecidableEq, Repr

/-- what the generator emits for the member (the observables of tie E) -/
structure Facts where
  ty : FTy
  defaultAttr : Option Expr          -- #[default(e)]
  builderAttr : Option BuilderAttr   -- #[builder(default = e)] / #[builder(skip = e)]
  structSerdeDefault : Bool          -- #[serde(default)] on the struct
  fieldSkipsSerializing : Bool       -- a field-level serde skip attribute
  deriveDefault : Bool               -- #[derive(oas3_gen_support::Default)] (= better_default::Default)
  deriveBuilder : Bool               -- #[derive(bon::Builder)]
  deriving DecidableEq, Repr

/-- `convert_field` (no discriminator, no OData) + `with_builder_attrs` + `struct_serde_attrs` +
the two attribute generators. -/
def convert (m : Member) : Facts :=
  let shouldBeOptional := !m.required || m.dflt.isSome
  let resolved := m.resolved
  let finalTy := if shouldBeOptional && !resolved.nullable then resolved.withOption else resolved
  let dv := m.default?
  let attr := dv.map (fun v => jsonToRustLiteral v finalTy)
  let battr :=
    if m.builders then
      match dv with
      | some v => if !finalTy.nullable then some (BuilderAttr.default (jsonToRustLiteral v finalTy)) else none
      | none => none
    else none
  { ty := finalTy, defaultAttr := attr, builderAttr := battr, structSerdeDefault := dv.isSome, fieldSkipsSerializing := false,
    deriveDefault := true, deriveBuilder := m.builders }

end Oas3.Defaults
