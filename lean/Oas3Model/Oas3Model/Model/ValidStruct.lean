/-
C16 — struct-level part of the validation pipeline.

* `postprocess/validation.rs: NestedValidationProcessor`   → `nestedFix` (least fixed point, as a CHECKED closure)
* `postprocess/serde_usage.rs: SerdeUsage::{propagate,update_struct}` → `usage`, `clearResponseOnly`
* `codegen/constants.rs: RegexConstantsResult::from_types` + `ast/constants.rs: From<&RegexKey> for ConstToken`
                                                           → `hoist`, `regexConstName`
* `converter/{parameters,requests,operations}.rs` (request struct assembly, fragment) → `assemble`
-/
import Oas3Model.Model.Validation
import Oas3Model.Model.Naming
namespace Oas3.Valid

/-! ### checked closure (shared by the nested fix point and the usage propagation) -/

def stepSet (succ : Name → List Name) (R : List Name) : List Name :=
  R ++ ((R.flatMap succ).filter fun b => !R.contains b).eraseDups

def iter (succ : Name → List Name) : Nat → List Name → List Name
  | 0, R => R
  | n + 1, R => iter succ n (stepSet succ R)

def closedB (succ : Name → List Name) (R : List Name) : Bool :=
  R.all fun a => (succ a).all fun b => R.contains b

/-- forward closure of `seeds` under `succ`; `none` when `fuel` rounds did not reach a fixed point
(the Rust loops run "until nothing changes", i.e. they only ever return closed sets) -/
def reach (succ : Name → List Name) (fuel : Nat) (seeds : List Name) : Option (List Name) :=
  let R := iter succ fuel seeds
  if closedB succ R then some R else none

/-! ### structs -/

inductive SKind | schema | request | params
deriving DecidableEq, Repr, Inhabited

/-- a member as DECLARED (spec side) -/
structure MField where
  name : Name
  req : Bool
  s : FS
  isParam : Bool := false
deriving DecidableEq, Repr, Inhabited

structure MStruct where
  name : Name
  kind : SKind
  fields : List MField
deriving Repr, Inhabited

/-- a member as EMITTED -/
structure EField where
  name : Name
  attrs : List VAttr
  target : Option Name       -- `RustPrimitive::Custom(atom)` of the field type, through Option / Vec / Box
deriving DecidableEq, Repr, Inhabited

structure EStruct where
  name : Name
  kind : SKind
  fields : List EField
deriving Repr, Inhabited

def MField.attrs (compiles : List Char → Bool) (f : MField) : List VAttr :=
  if f.isParam then paramAttrs compiles f.req f.s else memberAttrs compiles f.req f.s

def baseStruct (compiles : List Char → Bool) (s : MStruct) : EStruct :=
  { name := s.name, kind := s.kind,
    fields := s.fields.map fun f => { name := f.name, attrs := f.attrs compiles, target := f.s.target } }

def EStruct.hasAttrs (s : EStruct) : Bool := s.fields.any fun f => !f.attrs.isEmpty

/-- structs having a field whose type mentions `t` -/
def preds (ss : List EStruct) (t : Name) : List Name :=
  (ss.filter fun s => s.fields.any fun f => f.target == some t).map (·.name)

/-- the set `validated_structs` at the fixed point: structs with own attributes, closed under
"has a member whose type is a validated struct" -/
def validatedSet (ss : List EStruct) : Option (List Name) :=
  reach (preds ss) (ss.length + 1) ((ss.filter (·.hasAttrs)).map (·.name))

def markNested (R : List Name) (f : EField) : EField :=
  match f.target with
  | some t => if R.contains t && !f.attrs.contains .nested then { f with attrs := f.attrs ++ [.nested] } else f
  | none => f

/-- `NestedValidationProcessor::process` -/
def nestedFix (ss : List EStruct) : Option (List EStruct) :=
  (validatedSet ss).map fun R => ss.map fun s => { s with fields := s.fields.map (markNested R) }

/-! ### usage propagation and clearing -/

/-- dependency edges of `SerdeUsage::build_graph`: struct → member types, alias → target, response enum → payloads -/
structure Deps where
  structs : List EStruct
  extra : List (Name × List Name)      -- aliases and response enums

def Deps.succ (d : Deps) (n : Name) : List Name :=
  ((d.structs.filter (·.name == n)).flatMap fun s => s.fields.filterMap (·.target)) ++
  ((d.extra.filter (·.1 == n)).flatMap (·.2))

def Deps.size (d : Deps) : Nat := d.structs.length + d.extra.length + 1

/-- `update_struct`: a Schema struct whose usage is ResponseOnly loses every validation attribute -/
def clearResponseOnly (inReq inResp : List Name) (s : EStruct) : EStruct :=
  if s.kind == .schema && inResp.contains s.name && !inReq.contains s.name then
    { s with fields := s.fields.map fun f => { f with attrs := [] } }
  else s

/-! ### regex constants -/

def idTr : Oas3.Naming.Tr := fun c => [c]

/-- `ConstToken::from(&RegexKey)` -/
def regexConstName (st fld : Name) : Name :=
  let joined := Oas3.Naming.sanitize idTr st ++ ['_'] ++ Oas3.Naming.sanitize idTr fld
  let ident := Oas3.Naming.toConstant joined
  "REGEX_".toList ++ Oas3.Naming.prefixIfDigit '_' ident

def fieldPattern (f : EField) : Option (List Char) :=
  f.attrs.findSome? fun a => match a with | .regex p => some p | _ => none

structure HoistSt where
  constDefs : List (Name × List Char) := []        -- const token ↦ pattern (BTreeMap insert = overwrite)
  patToConst : List (List Char × Name) := []       -- pattern ↦ const token
  lookup : List ((Name × Name) × Name) := []       -- (struct, field) ↦ const token

def upsert [BEq α] (k : α) (v : β) : List (α × β) → List (α × β)
  | [] => [(k, v)]
  | (k', v') :: t => if k' == k then (k, v) :: t else (k', v') :: upsert k v t

def hoistField (st : Name) (h : HoistSt) (f : EField) : HoistSt :=
  match fieldPattern f with
  | none => h
  | some p =>
    match h.patToConst.lookup p with
    | some tok => { h with lookup := upsert (st, f.name) tok h.lookup }
    | none =>
      let tok := regexConstName st f.name
      { constDefs := upsert tok p h.constDefs, patToConst := upsert p tok h.patToConst,
        lookup := upsert (st, f.name) tok h.lookup }

/-- `RegexConstantsResult::from_types` over the types in emission order -/
def hoist (ss : List EStruct) : HoistSt :=
  ss.foldl (fun h s => s.fields.foldl (hoistField s.name) h) {}

/-- the pattern a field is actually validated against: the text of the constant its attribute names -/
def effectivePattern (h : HoistSt) (st fld : Name) (declared : List Char) : Name × List Char :=
  match h.lookup.lookup (st, fld) with
  | some tok => (tok, (h.constDefs.lookup tok).getD declared)
  | none => ([], declared)

/-- after hoisting, `regex(p)` stands for "validated against the text of the constant" -/
def hoistAttr (h : HoistSt) (st fld : Name) : VAttr → VAttr
  | .regex p => .regex (effectivePattern h st fld p).2
  | a => a

def applyHoist (ss : List EStruct) : List EStruct :=
  let h := hoist ss
  ss.map fun s => { s with fields := s.fields.map fun f => { f with attrs := f.attrs.map (hoistAttr h s.name f.name) } }

/-! ### assembling the types of the fragment -/

inductive Loc | path | query | header
deriving DecidableEq, Repr, Inhabited

structure Param where
  name : Name
  loc : Loc
  req : Bool
  s : FS
deriving Repr, Inhabited

/-- primary description of a generated spec (fragment): object schemas, array aliases, one operation `op`
(parameters, optional body, optional response type) and optionally `GET /echo` returning a type. -/
structure Desc where
  schemas : List (Name × List MField)      -- BTreeMap order (names and members sorted)
  aliases : List (Name × Name)             -- `Name: {type: array, items: $ref}`
  params : List Param
  body : Option Name
  resp : Option Name
  echo : Option Name
deriving Repr, Inhabited

def strLt : List Char → List Char → Bool
  | [], [] => false
  | [], _ :: _ => true
  | _ :: _, [] => false
  | a :: as, b :: bs => if a.toNat < b.toNat then true else if b.toNat < a.toNat then false else strLt as bs

def insertSorted (s : MStruct) : List MStruct → List MStruct
  | [] => [s]
  | h :: t => if strLt s.name h.name then s :: h :: t else h :: insertSorted s t

def sortStructs (l : List MStruct) : List MStruct := l.foldl (fun acc s => insertSorted s acc) []

def groupStruct (d : Desc) (loc : Loc) (nm : String) : List MStruct :=
  let ps := d.params.filter (·.loc == loc)
  if ps.isEmpty then []
  else [{ name := nm.toList, kind := .params,
          fields := ps.map fun p => { name := p.name, req := p.loc == .path || p.req, s := p.s, isParam := true } }]

def refField (nm tgt : String) : MField := { name := nm.toList, req := true, s := .ref tgt.toList }

/-- all structs, in emission order (sorted by type name) -/
def assemble (d : Desc) : List MStruct :=
  let path := groupStruct d .path "OpRequestPath"
  let query := groupStruct d .query "OpRequestQuery"
  let header := groupStruct d .header "OpRequestHeader"
  let bodyF : List MField := match d.body with
    | some b => [MField.mk "body".toList true (FS.ref b) false]
    | none => []
  let mainFields : List MField :=
    (path.map fun _ => refField "path" "OpRequestPath") ++ (query.map fun _ => refField "query" "OpRequestQuery") ++
      (header.map fun _ => refField "header" "OpRequestHeader") ++ bodyF
  let main : MStruct := MStruct.mk "OpRequest".toList SKind.request mainFields
  let echo : List MStruct := match d.echo with
    | some _ => [MStruct.mk "EchoRequest".toList SKind.request []]
    | none => []
  sortStructs ((d.schemas.map fun (n, fs) => MStruct.mk n SKind.schema fs) ++ path ++ query ++ header ++ [main] ++ echo)

def depsOf (d : Desc) (ss : List EStruct) : Deps :=
  { structs := ss,
    extra := (d.aliases.map fun (a, t) => (a, [t])) ++
      [("OpResponse".toList, d.resp.toList)] ++ (match d.echo with | some t => [("EchoResponse".toList, [t])] | none => []) }

def reqSeeds (d : Desc) : List Name := ["OpRequest".toList] ++ d.body.toList ++ (d.echo.map fun _ => "EchoRequest".toList).toList
def respSeeds (d : Desc) : List Name :=
  ["OpResponse".toList] ++ d.resp.toList ++ (match d.echo with | some t => ["EchoResponse".toList, t] | none => [])

/-- THE MODEL of the pipeline on the fragment: emitted structs with their validation attributes -/
def genPre (compiles : List Char → Bool) (d : Desc) : Option (List EStruct) := do
  let base := (assemble d).map (baseStruct compiles)
  let nested ← nestedFix base
  let deps := depsOf d nested
  let inReq ← reach deps.succ deps.size (reqSeeds d)
  let inResp ← reach deps.succ deps.size (respSeeds d)
  pure (nested.map (clearResponseOnly inReq inResp))

/-- … with every `regex(p)` replaced by the pattern of the constant it ends up naming -/
def genModel (compiles : List Char → Bool) (d : Desc) : Option (List EStruct) :=
  (genPre compiles d).map applyHoist

/-! ### struct-level judges (evaluated on EMITTED structs) -/

/-- declared side: does struct `n` (transitively, through members / array items / optional / boxed members of
struct type) declare any constraint the property lists?  `declared` = the structs as declared. -/
def FS.declaresConstraint : FS → Bool
  | .prim c => c.hasNumericKw || c.hasStringKw || c.isEmailFmt || c.isUrlFmt
  | .arrP c i => c.hasArrayKw || i.hasNumericKw || i.hasStringKw || i.isEmailFmt || i.isUrlFmt
  | .arrR c _ => c.hasArrayKw
  | .ref _ => false

/-- nested-reachability judge: every EMITTED member whose type is a struct that (per the emitted code) carries
validation must itself carry `nested`; and every struct that carries attributes derives `Validate`
(the latter is a fact supplied by the harness as `validates`). -/
def nestedJ (ss : List EStruct) : Bool :=
  match validatedSet (ss.map fun s => { s with fields := s.fields.map fun f => { f with attrs := f.attrs.filter (· != .nested) } }) with
  | some R => ss.all fun s => s.fields.all fun f =>
      match f.target with
      | some t => !R.contains t || f.attrs.contains .nested
      | none => true
  | none => false

end Oas3.Valid
