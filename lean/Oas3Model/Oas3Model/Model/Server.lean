import Oas3Model.Model.Client
import Oas3Model.Model.Responses
/-
Model of the server side: `codegen/server.rs` RouterFragment (routes grouped per axum path, one
method router per operation; HttpMethodFragment arms, `_ => get`), AxumIntoResponseVariant
(variant ↦ status via HttpStatusCode, `axum::Json(data)` iff the variant has a payload), and the
matching semantics of axum/matchit routing at the level the property needs (`Sem/Route`).
-/
namespace Oas3.Server
open Oas3.Path Oas3.Client Oas3.Status Oas3.Resp

/-- `HttpMethodFragment`: routing function chosen for an HTTP method (upper-case). -/
def routerFn (method : List Char) : List Char :=
  let m := method.map Char.toUpper
  if m == "POST".toList then "post".toList
  else if m == "PUT".toList then "put".toList
  else if m == "DELETE".toList then "delete".toList
  else if m == "PATCH".toList then "patch".toList
  else if m == "HEAD".toList then "head".toList
  else if m == "OPTIONS".toList then "options".toList
  else if m == "TRACE".toList then "trace".toList
  else "get".toList

/-- the eight methods an OpenAPI path item can carry -/
def oasMethods : List (List Char) := ["GET", "PUT", "POST", "DELETE", "OPTIONS", "HEAD", "PATCH", "TRACE"].map String.toList

/-- route pattern shape: parameters erased (matchit treats `{a}` and `{b}` in the same position as conflicting) -/
def shape (p : List Char) : List Char :=
  let rec go : Nat → List Char → List Char
    | 0, _ => []
    | _, [] => []
    | f + 1, c :: r => if c == '{' then '{' :: '}' :: go f ((r.dropWhile (· != '}')).drop 1) else c :: go f r
  go (p.length + 1) p

/-- status + body of one IntoResponse arm -/
structure Arm where
  variant : List Char
  status : Nat
  json : Bool
  deriving DecidableEq, Repr

def armsOf (responses : List (List Char × List MediaDecl)) : List Arm :=
  (variantsOf responses).map fun v => { variant := v.name, status := httpStatus v.tok, json := v.schemaType.isSome }

/-- property reference: is `n` an acceptable status for a variant declared under `key`? -/
def statusOkFor (key : List Char) (n : Nat) : Bool :=
  match exactKey key with
  | some c => n == c
  | none => match rangeKey key with
    | some k => k * 100 ≤ n && n < (k + 1) * 100
    | none => 100 ≤ n && n ≤ 599       -- `default`: any status is "declared"

end Oas3.Server
