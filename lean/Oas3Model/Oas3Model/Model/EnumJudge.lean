/-
Judge (J) of property C15: the statement as a decidable predicate on (mode, shape, declared values,
what was EMITTED), evaluated through `Sem/SerdeEnum`.  The driver runs it on the implementation's
emitted facts; the theorems in `Props/C15.lean` are about `J … (F …)`.
-/
import Oas3Model.Sem.SerdeEnum

namespace Oas3.Enum

/-- the first declared value whose variant name collides with `v`'s -/
def firstOf (nm : Str → Str) (values : List Str) (v : Str) : Option Str := values.find? fun w => nm w == nm v

/-- merge: every declared value is accepted; values whose names collide decode to ONE variant (same
identifier) that encodes as the first of them -/
def mergeOk (nm : Str → Str) (values : List Str) (e : Emitted) (v : Str) : Bool :=
  match decode e v with
  | some x =>
    some (encode x) == firstOf nm values v &&
    values.all fun w => nm w != nm v || (decode e w).map (·.name) == some x.name
  | none => false

def Jmerge (nm : Str → Str) (values : List Str) (e : Emitted) : Bool := values.all (mergeOk nm values e)

/-- preserve: every declared value decodes to a variant that encodes back to exactly itself (hence two
different values never share a variant) -/
def preserveOk (e : Emitted) (v : Str) : Bool := (decode e v).map encode == some v

def Jpreserve (values : List Str) (e : Emitted) : Bool := values.all (preserveOk e)

/-- relaxed: every `s ∈ cands` that equals a declared value up to ASCII letter-case is accepted and
encodes as a declared value -/
def relaxedOk (values cands : List Str) (e : Emitted) (v : Str) : Bool :=
  (cands.filter fun s => lowerS s == lowerS v).all fun s =>
    match decode e s with
    | some x => values.contains (encode x)
    | none => false

def Jrelaxed (values cands : List Str) (e : Emitted) : Bool := values.all (relaxedOk values cands e)

/-- "a string that is not a declared value (up to case when the decoder lower-cases) is rejected by the
enum", decided on the emitted facts: everything the decoder accepts is declared (derive: every rename and
alias is declared; hand-written: no `_ => Ok(..)` arm and every arm key is a declared value / the
lower-casing of one).  Soundness w.r.t. `Sem`: `acceptsOnlyDeclared_sound` in `Props/C15.lean`. -/
def acceptsOnlyDeclared (values : List Str) (e : Emitted) : Bool :=
  match e.de with
  | .derive => e.variants.all fun x => values.contains x.rename && x.aliases.all values.contains
  | .custom lower arms fb =>
    fb.isNone && arms.all fun a =>
      if lower then values.any (fun v => lowerS v == a.key) else values.contains a.key

/-- the declared values for which the mode's clause fails (driver: failures are attributed per value) -/
def modeFailures (nm : Str → Str) (m : Mode) (values cands : List Str) (e : Emitted) : List Str :=
  values.filter fun v => !(match m with
    | .merge => mergeOk nm values e v
    | .preserve => preserveOk e v
    | .relaxed => relaxedOk values cands e v)

/-- the undeclared strings the decoder demonstrably accepts; `none` stands for "every string" -/
def undeclaredAccepted (values : List Str) (e : Emitted) : List (Option Str) :=
  match e.de with
  | .derive => ((e.variants.flatMap fun x => x.rename :: x.aliases).filter fun s => !values.contains s).map some
  | .custom lower arms fb =>
    (if fb.isSome then [none] else []) ++
    ((arms.map (·.key)).filter fun k => !(if lower then values.any (fun v => lowerS v == k) else values.contains k)).map some

def namesDistinct (e : Emitted) : Bool := decide (e.variants.map (·.name)).Nodup

def modeClause (nm : Str → Str) (m : Mode) (values cands : List Str) (e : Emitted) : Bool :=
  match m with
  | .merge => Jmerge nm values e
  | .preserve => Jpreserve values e
  | .relaxed => Jrelaxed values cands e

/-- the emitted enum is wrapped in `Known/Other` exactly when the schema has an open-string alternative
(then an undeclared string is preserved verbatim by `Sem`, otherwise it is rejected) -/
def wrapClause (sh : Shape) (e : Emitted) : Bool := e.wrapped == (sh == .open)

def J (nm : Str → Str) (m : Mode) (sh : Shape) (values cands : List Str) (e : Emitted) : Bool :=
  namesDistinct e && wrapClause sh e && modeClause nm m values cands e && acceptsOnlyDeclared values e

/-- ASCII letter-case variants of a string (all of them; the driver caps the length) -/
def caseVariants : Str → List Str
  | [] => [[]]
  | c :: cs =>
    let r := caseVariants cs
    if c.isAlpha then r.map (c.toLower :: ·) ++ r.map (c.toUpper :: ·) else r.map (c :: ·)

def lettersLe (s : Str) (n : Nat) : Bool := (s.filter Char.isAlpha).length ≤ n

/-- candidate spellings the relaxed clause is evaluated on by the driver: every letter-case variant of
every declared value (values with more than 6 letters: as declared, all lower, all upper) -/
def candsOf (values : List Str) : List Str :=
  values.flatMap fun v =>
    if lettersLe v 6 then caseVariants v else [v, lowerS v, v.map Char.toUpper]

/-! ### the known defect classes, as predicates of the INPUT (through the model) -/

/-- a value normalises to the type name `r#Self`: the generator panics -/
def KnownSelfVariantPanics (nm : Str → Str) (m : Mode) (sh : Shape) (es : List (Option Str)) : Bool :=
  selfPanics nm (strategyOf m sh) es

/-- open-string alternative and a value whose variant name lower-cases to a keyword (`in`, `as`, `do`,
`if`, `true`, …): the helper constructor `pub fn in()` makes the emitted file unparsable, generation fails -/
def KnownOpenHelperKeyword (nm : Str → Str) (_m : Mode) (sh : Shape) (es : List (Option Str)) : Bool :=
  helperKeyword nm sh es

/-- nothing is generated -/
def GenFails (nm : Str → Str) (m : Mode) (sh : Shape) (es : List (Option Str)) : Bool :=
  KnownSelfVariantPanics nm m sh es || KnownOpenHelperKeyword nm m sh es

/-- the index-suffixed name of a colliding value is already taken: two variants with one identifier -/
def KnownPreserveSuffixClash (nm : Str → Str) (m : Mode) (sh : Shape) (es : List (Option Str)) : Bool :=
  strategyOf m sh == .preserve && preserveClash nm es

/-- relaxed mode, no fallback: a declared value that was merged as an `alias` is not an arm of the
hand-written `Deserialize` (arms are the lower-cased renames only) -/
def KnownRelaxedAliasRejected (nm : Str → Str) (m : Mode) (sh : Shape) (es : List (Option Str)) : Bool :=
  m == .relaxed &&
  let vs := build (strategyOf m sh) nm es
  (fallbackVariant vs).isNone && (strs es).any fun v => !(vs.map fun x => lowerS x.rename).contains (lowerS v)

/-- relaxed mode and a variant is called `Unknown`/`Other`: the `_` arm returns it, every string is accepted -/
def KnownRelaxedFallbackAcceptsAll (nm : Str → Str) (m : Mode) (sh : Shape) (es : List (Option Str)) : Bool :=
  m == .relaxed && (fallbackVariant (build (strategyOf m sh) nm es)).isSome

/-- merge mode with an open-string alternative: the known-values enum is built with `Preserve`, so two
different colliding values keep separate variants and the later one encodes as itself, not as the first -/
def KnownOpenShapePreserves (nm : Str → Str) (m : Mode) (sh : Shape) (es : List (Option Str)) : Bool :=
  m == .merge && sh == .open && strategyOf m sh == .preserve &&
  (strs es).any fun v => (strs es).any fun w => v != w && nm v == nm w

end Oas3.Enum
