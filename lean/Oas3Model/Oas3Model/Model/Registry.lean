import Oas3Model.Model.Naming
import Oas3Model.Model.Client
/-
Model of `operation_registry.rs` (filter on the BASE id during ingestion, uniquifying suffixes,
then common-affix trimming over whatever was ingested) and `naming/operations.rs`
(`compute_stable_id`, `generate_operation_id`, `trim_common_affixes`).
-/
namespace Oas3.Registry
open Oas3.Naming

abbrev Id := List Char

structure Op where
  method : List Char          -- upper-case, as `http::Method::as_str`
  path : List Char
  operationId : Option (List Char)
  deriving DecidableEq, Repr

def splitOn (sep : Char) : List Char → List (List Char)
  | [] => [[]]
  | c :: r =>
    if c == sep then [] :: splitOn sep r
    else match splitOn sep r with
      | h :: t => (c :: h) :: t
      | [] => [[c]]

def joinWith (sep : List Char) : List (List Char) → List Char
  | [] => []
  | [a] => a
  | a :: r => a ++ sep ++ joinWith sep r

/-- `generate_operation_id` -/
def generateOperationId (method path : List Char) : List Char :=
  let parts := ((splitOn '/' path).filter (!·.isEmpty)).map fun s =>
    if s.head? == some '{' && s.getLast? == some '}' then "by_id".toList else s
  let lower (s : List Char) := s.map Char.toLower
  if parts.isEmpty then lower method else lower (method ++ ['_'] ++ joinWith ['_'] parts)

/-- `compute_stable_id` (ASCII ids: transliteration is the identity) -/
def baseId (o : Op) : Id :=
  Oas3.Client.fieldName (match o.operationId with | some s => s | none => generateOperationId o.method o.path)

def splitSnake (s : Id) : List (List Char) := (splitOn '_' s).filter (!·.isEmpty)

def commonPrefixLen (first : List (List Char)) (rest : List (List (List Char))) : Nat :=
  let rec go (i : Nat) : List (List Char) → Nat
    | [] => 0
    | seg :: more => if rest.all (fun o => o[i]? == some seg) then go (i + 1) more + 1 else 0
  go 0 first

def commonSuffixLen (first : List (List Char)) (rest : List (List (List Char))) : Nat :=
  commonPrefixLen first.reverse (rest.map List.reverse)

/-- the `while prefix_len + suffix_len >= min_len && (prefix_len > 0 || suffix_len > 0)` loop -/
def shrink (minLen : Nat) : Nat → Nat → Nat → Nat × Nat
  | 0, p, s => (p, s)
  | fuel + 1, p, s =>
    if p + s ≥ minLen && (p > 0 || s > 0) then
      if s > 0 then shrink minLen fuel p (s - 1) else shrink minLen fuel (p - 1) s
    else (p, s)

def extractMiddle (segs : List (List Char)) (p s : Nat) : Id :=
  let e := segs.length - s
  let parts := if p < e then (segs.take e).drop p else segs
  joinWith ['_'] parts

def allNonEmptyUnique (l : List Id) : Bool := l.all (!·.isEmpty) && l.eraseDups.length == l.length

/-- `trim_common_affixes` -/
def trim (ids : List Id) : List Id :=
  match ids with
  | [] => ids
  | [_] => ids
  | _ =>
    let segs := ids.map splitSnake
    match segs with
    | [] => ids
    | first :: rest =>
      let p0 := commonPrefixLen first rest
      let s0 := commonSuffixLen first rest
      if p0 == 0 && s0 == 0 then ids else
      let minLen := (segs.map List.length).foldl min first.length
      let (p, s) := shrink minLen (p0 + s0 + 1) p0 s0
      if p == 0 && s == 0 then ids else
      let simplified := segs.map fun sg => extractMiddle sg p s
      if allNonEmptyUnique simplified then simplified else ids

structure Filter where
  only : Option (List Id)
  excluded : Option (List Id)

def accepts (f : Filter) (b : Id) : Bool :=
  (match f.only with | some l => l.contains b | none => true) &&
  (match f.excluded with | some l => !l.contains b | none => true)

/-- ingestion: (stable id, op) in registration order; `none` if the uniquifier ran out of fuel (never) -/
def ingest (f : Filter) : List Op → List (Id × Op) → Option (List (Id × Op))
  | [], acc => some acc
  | o :: r, acc =>
    let b := baseId o
    if !accepts f b then ingest f r acc
    else match ensureUniqueSnake b (acc.map (·.1)) with
      | some sid => ingest f r (acc ++ [(sid, o)])
      | none => none

/-- `Spec::operations()`: paths in `BTreeMap` order, methods in the fixed order of `PathItem::methods()` -/
def methodRank (m : List Char) : Nat :=
  (["GET", "PUT", "POST", "DELETE", "OPTIONS", "HEAD", "PATCH", "TRACE"].map String.toList).findIdx (· == m)

def strLt : List Char → List Char → Bool
  | [], [] => false
  | [], _ :: _ => true
  | _ :: _, [] => false
  | a :: r, b :: s => if a.toNat < b.toNat then true else if b.toNat < a.toNat then false else strLt r s

/-- webhooks (display path `webhooks/<name>`) are a second source, ingested after all HTTP operations -/
def isWebhook (o : Op) : Bool := "webhooks/".toList.isPrefixOf o.path

def opLt (a b : Op) : Bool :=
  if isWebhook a != isWebhook b then isWebhook b
  else strLt a.path b.path || (a.path == b.path && methodRank a.method < methodRank b.method)

def insertOp (o : Op) : List Op → List Op
  | [] => [o]
  | x :: r => if opLt o x then o :: x :: r else x :: insertOp o r

def specOrder (ops : List Op) : List Op := ops.foldl (fun acc o => insertOp o acc) []

/-- `OperationRegistry::with_filters`: final (stable id, op) list -/
def build (f : Filter) (ops : List Op) : Option (List (Id × Op)) :=
  match ingest f (specOrder ops) [] with
  | some es => some ((trim (es.map (·.1))).zip (es.map (·.2)))
  | none => none

/-- what `list operations` prints -/
def listIds (ops : List Op) : Option (List (Id × Op)) := build { only := none, excluded := none } ops

end Oas3.Registry

/-! ### identifiers of the types derived from one operation
(`converter/operations.rs::convert`, `naming/operations.rs::generate_unique_{request,response}_name`,
`converter/parameters.rs` nested structs, `converter/cache.rs::initialize_from_schemas`) -/
namespace Oas3.Registry
open Oas3.Naming

/-- `to_rust_type_name` on ASCII names -/
def typeName (s : List Char) : List Char := toRustTypeName Oas3.Gen.prelude Oas3.Client.idTr s

/-- `initialize_from_schemas`: every component key is reserved raw AND as its Rust type name -/
def reserved (keys : List (List Char)) : List (List Char) := keys.flatMap fun k => [k, typeName k]

def sfxRequest : List Char := "Request".toList
def sfxResponse : List Char := "Response".toList
def sfxParams : List Char := "Params".toList
def sfxEnum : List Char := "Enum".toList

/-- request struct: `<Base>Request`, or `<Base>RequestParams` when the Rust form of the first is reserved
(`StructToken::new`: used as is) -/
def requestName (taken : List (List Char)) (id : Id) : List Char :=
  let n := typeName id ++ sfxRequest
  if taken.contains (typeName n) then n ++ sfxParams else n

/-- response enum before the final conversion -/
def responseRaw (taken : List (List Char)) (id : Id) : List Char :=
  let n := typeName id ++ sfxResponse
  if taken.contains (typeName n) then n ++ sfxEnum else n

/-- response enum: `ResponseConverter::build_enum` converts the chosen name once more -/
def responseName (taken : List (List Char)) (id : Id) : List Char := typeName (responseRaw taken id)

/-- nested parameter structs `<Request>Query|Path|Header` -/
def paramStructName (taken : List (List Char)) (id : Id) (sfx : List Char) : List Char := requestName taken id ++ sfx

/-- all module-level identifiers the operations with these stable ids claim -/
def opTypeNames (taken : List (List Char)) (ids : List Id) : List (List Char) :=
  ids.flatMap fun i => [requestName taken i, responseName taken i]

/-- the spec entities that end up under one identifier: (identifier, number of claimants) with ≥ 2 claimants,
among the component schemas (`typeName key`) and the operations' request / response types -/
def claims (keys : List (List Char)) (ids : List Id) : List (List Char) :=
  keys.map typeName ++ opTypeNames (reserved keys) ids

def contested (keys : List (List Char)) (ids : List Id) : List (List Char) :=
  let c := claims keys ids
  (c.filter fun n => (c.filter (· == n)).length > 1).eraseDups

end Oas3.Registry
