import Oas3Model.Model.Naming
/-
Model of `naming/name_index.rs`: how the whole-spec scan turns the NAME CANDIDATES of every inline schema / enum
value set into one pre-computed type name (`compute_best_name`, `longest_common_suffix`, `is_valid_common_name`,
`resolve_names`).  The candidates of a key are a `BTreeSet<(String, bool)>` (name, "comes from a component schema"), so
the model takes them as a list in that order (by name, then `false < true`); the keys are walked in `BTreeMap` order.
`char::is_uppercase` (Unicode) is the parameter `isUpper`; `FORBIDDEN_IDENTIFIERS` is the translated table.
Core Lean only, total, executable.
-/
namespace Oas3.NameIndex
open Oas3.Naming

abbrev Name := List Char

/-- longest common prefix of two strings -/
def lcp : List Char → List Char → List Char
  | a :: r, b :: s => if a = b then a :: lcp r s else []
  | _, _ => []

/-- `longest_common_suffix`: compare from the last character backwards while all strings agree -/
def longestCommonSuffix : List Name → Name
  | [] => []
  | f :: rest => (rest.foldl (fun acc s => lcp acc s.reverse) f.reverse).reverse

/-- `str::len()`: bytes of the UTF-8 encoding -/
def utf8Len (s : Name) : Nat := (s.map Char.utf8Size).sum

def reservedTypeNames : List Name := ["Enum", "Struct", "Type", "Object"].map String.toList

/-- `is_valid_common_name` -/
def isValidCommonName (forbidden : List Name) (isUpper : Char → Bool) (n : Name) : Bool :=
  decide (utf8Len n ≥ 4) && !reservedTypeNames.contains n &&
  (match n with | c :: _ => isUpper c | [] => false) && !forbidden.contains n

def unknownType : Name := "UnknownType".toList

/-- `compute_best_name`; `none` only if `ensure_unique` ran out of fuel (it never does: `best_name_total`) -/
def computeBestName (forbidden : List Name) (isUpper : Char → Bool) (cands : List (Name × Bool)) (used : List Name) : Option Name :=
  match cands.find? (fun c => c.2) with
  | some c => some c.1
  | none =>
    match cands.map (·.1) with
    | [] => some unknownType
    | [single] => ensureUnique single used
    | first :: rest =>
      if isValidCommonName forbidden isUpper (longestCommonSuffix (first :: rest)) then
        ensureUnique (longestCommonSuffix (first :: rest)) used
      else ensureUnique first used

/-- `resolve_names`: keys in map order; every chosen name is added to `used` before the next key -/
def resolveNames {K} (forbidden : List Name) (isUpper : Char → Bool) :
    List (K × List (Name × Bool)) → List Name → Option (List (K × Name) × List Name)
  | [], used => some ([], used)
  | (k, cs) :: rest, used =>
    match computeBestName forbidden isUpper cs used with
    | none => none
    | some n =>
      match resolveNames forbidden isUpper rest (n :: used) with
      | none => none
      | some (out, used') => some ((k, n) :: out, used')

/-- `scan_and_compute_names`: enum value sets first, then schemas, over one `used` set that starts as the Rust names of
the component schemas -/
def scan {K₁ K₂} (forbidden : List Name) (isUpper : Char → Bool) (enums : List (K₁ × List (Name × Bool)))
    (schemas : List (K₂ × List (Name × Bool))) (existing : List Name) : Option (List (K₁ × Name) × List (K₂ × Name)) :=
  match resolveNames forbidden isUpper enums existing with
  | none => none
  | some (en, used) =>
    match resolveNames forbidden isUpper schemas used with
    | none => none
    | some (sn, _) => some (en, sn)

/-- a key has a candidate that comes from a component schema (its name is then taken over unchecked) -/
def fromSchema (cs : List (Name × Bool)) : Bool := cs.any (·.2)

end Oas3.NameIndex
