/-
C16 — documents with SEVERAL inline-object sites.

A site is an inline object schema at a property (plain or as array items) whose members are leaves (scalars and
arrays of scalars).  What the generator must emit for a site — the validators of its members — is computed from
THAT SITE'S OWN schema (`MField.attrs`, i.e. `extract_all_validation` on each member's schema) and from the
direction(s) the generated type is used in (`clearResponseOnly`), never from another site.  Inline objects with
equal canonical schema are one generated type (`converter/hashing.rs`, `SharedSchemaCache`): `shareClassV`.
-/
import Oas3Model.Model.ValidStruct
namespace Oas3.Valid

structure VSite where
  fields : List MField
deriving Repr, Inhabited

structure VUsage where
  inReq : Bool
  inResp : Bool
deriving DecidableEq, Repr, Inhabited

def VUsage.join (a b : VUsage) : VUsage := ⟨a.inReq || b.inReq, a.inResp || b.inResp⟩

/-- `SerdeUsage::update_struct`: a schema struct used in responses only loses its validators -/
def VUsage.respOnly (u : VUsage) : Bool := u.inResp && !u.inReq

structure DocVSite (κ : Type) where
  site : VSite
  usage : VUsage
  key : κ

def effUsageV {κ : Type} [BEq κ] (sites : List (DocVSite κ)) (d : DocVSite κ) : VUsage :=
  (sites.filter fun e => e.key == d.key).foldl (fun u e => u.join e.usage) d.usage

def shareClassV {κ : Type} [BEq κ] (sites : List (DocVSite κ)) (d : DocVSite κ) (i : Nat) : Nat :=
  match sites.zipIdx.find? fun e => e.1.key == d.key with
  | some e => min e.2 i
  | none => i

/-- THE MODEL for one site: the validators of each member, from the member's own schema -/
def siteAttrs (compiles : List Char → Bool) (u : VUsage) (s : VSite) : List (Name × List VAttr) :=
  s.fields.map fun f => (f.name, if u.respOnly then [] else f.attrs compiles)

def convertVDoc {κ : Type} [BEq κ] (compiles : List Char → Bool) (sites : List (DocVSite κ)) : List (List (Name × List VAttr)) :=
  sites.map fun d => siteAttrs compiles (effUsageV sites d) d.site

/-- the property at one site: on every probed value, every leaf member's validators (`attrs`, as emitted for the
struct the site resolved to) accept exactly what THIS site's schema allows (`leafJ`) -/
def siteJ (rx : Rx) (s : VSite) (attrs : List (Name × List VAttr)) (vals : Name → List LV) : Bool :=
  s.fields.all fun f =>
    match f.s.leaf with
    | none => true
    | some l =>
      match attrs.lookup f.name with
      | none => false
      | some as => (vals f.name).all fun v => !lvTyped l v || leafJ rx f.req l f.s.base (as.filter (· != .nested)) v

def docJ {κ : Type} (rx : Rx) (sites : List (DocVSite κ)) (attrs : List (List (Name × List VAttr))) (vals : Nat → Name → List LV) : List Bool :=
  (sites.zip attrs).zipIdx.map fun ((d, a), i) => d.usage.respOnly || siteJ rx d.site a (vals i)

end Oas3.Valid
