import Oas3Model.Driver.Util
import Oas3Model.Driver.Path
import Oas3Model.Driver.Client
import Oas3Model.Model.ReqInterop
import Oas3Model.Model.Client
import Oas3Model.Model.Server
import Oas3Model.Model.Responses
open Lean Oas3.Driver Oas3.Path Oas3.Client Oas3.ReqInterop

/-! Driver for the request side of C06: `interop.req` (facts of the two emitted halves → `OpFacts` → judge
`reqInteropOk`, model expectation recomputed from the operation description) and `interop.req.route` (the Lean
route matcher against the real `matchit`). -/
namespace Oas3.Driver.ReqInterop

def gs (j : Json) (k : String) : String := (fieldD j k (Json.str "")).getStr?.toOption.getD ""
def ga (j : Json) (k : String) : List Json := match fieldD j k Json.null with | .arr a => a.toList | _ => []
def gb (j : Json) (k : String) : Bool := (fieldD j k (Json.bool false)).getBool?.toOption.getD false
def go (j : Json) (k : String) : Json := fieldD j k Json.null
def isNull (j : Json) : Bool := j == Json.null
def sortStrs (l : List String) : List String := (l.toArray.qsort (· < ·)).toList

/-- `{lit}` | `{param}` | `{fmt:"pre{}", args:[f]}` -/
def csegOf (j : Json) : Option CSeg :=
  match Oas3.Driver.Path.segOfJson j with
  | some (.literal l) => some (.lit l)
  | some (.param f) => some (.param f)
  | some (.mixed fmt [f]) =>
    let n := fmt.length
    if n ≥ 2 && fmt.drop (n - 2) == ['{', '}'] && !(fmt.take (n - 2)).contains '{' && !(fmt.take (n - 2)).contains '}' then some (.pre (fmt.take (n - 2)) f) else none
  | _ => none

def trOf : String → Option (Option Tr)
  | "as_str" | "as_ref" | "to_string" | "to_owned" | "clone" | "borrow" => some none
  | "to_ascii_lowercase" => some (some .asciiLower)
  | "to_lowercase" => some (some .lower)
  | "to_ascii_uppercase" => some (some .asciiUpper)
  | "to_uppercase" => some (some .upper)
  | "trim" => some (some .trim)
  | _ => none

/-- a string `match` read by the harness → decoder; `none` = a scrutinee form without modelled semantics -/
def decoderOf (j : Json) : Option Decoder := do
  let sc := go j "scrutinee"
  if gs sc "base" != gs j "arg" || gs sc "base" == "" then none
  let chain := (ga sc "chain").map fun x => x.getStr?.toOption.getD "?"
  let trs ← chain.mapM trOf
  let arms ← (ga j "arms").mapM fun a => match a with
    | .arr #[.str k, t] => match (go t "ok").getStr?.toOption with
      | some v => some (k.toList, v.toList)
      | none => none
    | _ => none
  let fb := match go j "fallback" with
    | .str "err" => some none
    | t => match (go t "ok").getStr?.toOption with | some v => some (some v.toList) | none => none
  let fb ← fb
  pure { trs := trs.filterMap id, arms := arms, fallback := fb }

/-- serde-derived `Deserialize` of a unit-variant enum: exact match on rename (or the variant name) and aliases -/
def derivedDecoder (e : Json) : Option Decoder :=
  let vs := ga e "variants"
  if !(ga e "serde_other").isEmpty then none else
  let arms := vs.flatMap fun v =>
    let nm := (gs v "name").toList
    let key := match (go v "rename").getStr?.toOption with | some r => r.toList | none => nm
    (key, nm) :: ((ga v "aliases").filterMap fun a => a.getStr?.toOption.map fun s => (s.toList, nm))
  let other := vs.find? fun v => (ga v "serde_other").any (· == Json.str "other")
  if vs.any (fun v => !(ga v "serde_other").all (· == Json.str "other")) then none
  else some { trs := [], arms := arms, fallback := other.map fun v => (gs v "name").toList }

def serdeEncoder (e : Json) : Option Encoder :=
  if gs (go e "serialize") "mode" != "derive" || !(ga e "serde_other").isEmpty then none
  else some ((ga e "variants").map fun v =>
    let nm := (gs v "name").toList
    (nm, match (go v "rename").getStr?.toOption with | some r => r.toList | none => nm))

def displayEncoder (e : Json) : Option Encoder :=
  let d := go e "display"
  if isNull d || !(isNull (go d "other")) then none
  else (ga d "arms").mapM fun a => match (go a "str").getStr?.toOption with
    | some s => some ((gs a "variant").toList, s.toList)
    | none => none

def kindOf (f : Json) : Kind :=
  match gs f "kind" with
  | "string" => .string
  | "int" | "float" | "bool" => .scalar
  | "enum" => .enum (gs f "inner").toList
  | _ => .other (gs f "ty").toList

def bodyOfStr : String → Body
  | "none" => .none | "json" => .json | "form" => .form | "text" => .text | "bytes" => .bytes | s => .other s.toList

def showC : CSeg → String
  | .lit l => s!"literal `{String.ofList l}`"
  | .param f => s!"parameter field `{String.ofList f}`"
  | .pre p f => s!"`{String.ofList p}` + parameter field `{String.ofList f}`"

def showP : PSeg → String
  | .lit l => s!"literal `{String.ofList l}`"
  | .cap pre n => s!"`{String.ofList pre}` + capture `{String.ofList n}`"

def showForm : Form → String
  | .str => "as-is" | .display => "Display/parse" | .joined s => s!"joined by `{String.ofList s}`"
  | .sepAs a => s!"serde_as {String.ofList a}" | .other t => s!"unmodelled({String.ofList t})"

def showKind : Kind → String
  | .string => "string" | .scalar => "scalar" | .enum n => s!"enum {String.ofList n}" | .other t => s!"unmodelled type {String.ofList t}"

def showSide (p : ParamSide) : String :=
  s!"name `{String.ofList p.wire}`, {showKind p.kind}{if p.array then " array" else ""}{if p.optional then ", optional" else ""}, {showForm p.form}"

def showBody (b : Body × Bool) : String :=
  (match b.1 with | .none => "none" | .json => "json" | .form => "form" | .text => "text" | .bytes => "bytes" | .other s => String.ofList s) ++ (if b.2 then " (optional)" else "")

/-- pattern with capture names erased -/
def shapeOf (p : List PSeg) : List PSeg := p.map fun s => match s with | .lit l => .lit l | .cap pre _ => .cap pre []

structure Built where
  facts : OpFacts
  /-- clause failures found while assembling the facts: (tag, text) -/
  problems : List (String × String)
  /-- per failing query/header parameter: field names -/
  badQuery : List String
  patternText : String
  chainJson : Json
  headerNames : List String
  queryKeys : List String

def lowerS (s : String) : String := String.ofList (s.toList.map Char.toLower)

/-- assemble the facts of the operation documented as `METHOD template` -/
def build (impl : Json) (method template : String) : Except String Built := do
  let client := go impl "client"
  let server := go impl "server"
  let some cop := (ga client "ops").find? (fun o => go o "route" == Json.arr #[Json.str method, Json.str template])
    | throw s!"client has no method documented as {method} {template}"
  let some sop := (ga server "ops").find? (fun o => go o "route" == Json.arr #[Json.str method, Json.str template])
    | throw s!"server has no handler documented as {method} {template}"
  let mut problems : List (String × String) := []
  -- route entries
  let entries := (ga server "routes").filter fun r => gs r "handler" == gs sop "name"
  let entry := entries.head?.getD Json.null
  let patText := gs entry "pattern"
  let pat := parsePattern patText.toList
  if pat.isNone then problems := problems ++ [("pattern", s!"route pattern {patText} is rejected by matchit (text after a parameter in one segment)")]
  let others := (ga server "routes").filter fun r => gs r "handler" != gs sop "name" && gs r "fn" == gs entry "fn"
  let clashes := (others.filter fun r => match parsePattern (gs r "pattern").toList, pat with
    | some a, some b => shapeOf a == shapeOf b | _, _ => gs r "pattern" == patText).length
  -- chain
  let pushes := ga cop "pushes"
  let chainO := pushes.mapM csegOf
  if chainO.isNone then problems := problems ++ [("chain", "the client's push chain has a segment form without wire semantics in the model (parameter followed by text / several parameters in one segment)")]
  -- path structs
  let cpf := ga (go cop "path") "fields"
  let spf := ga (go sop "path") "fields"
  if cpf.map (fun f => (gs f "field", gs f "ty")) != spf.map (fun f => (gs f "field", gs f "ty")) then
    problems := problems ++ [("pathfields", "client and server path structs differ")]
  if spf.any (fun f => !(ga f "serde_other").isEmpty || !(isNull (go f "serde_as"))) then
    problems := problems ++ [("pathfields", "server path struct has serde attributes outside the model")]
  -- enums
  let cen := go client "enums"
  let sen := go server "enums"
  let mut enums : List EnumUse := []
  let enumUse (loc : String) (name : String) : Except String (Option EnumUse) := do
    let ce := go cen name
    let se := go sen name
    if isNull ce || isNull se then throw s!"enum {name} missing on one side"
    let vars := (ga ce "variants").map fun v => (gs v "name").toList
    if vars != (ga se "variants").map (fun v => (gs v "name").toList) then throw s!"enum {name}: variant lists differ between the two runs"
    if (ga ce "variants").any (fun v => !gb v "unit") then throw s!"enum {name}: non-unit variant as a parameter value"
    let enc := if loc == "query" then serdeEncoder ce else displayEncoder ce
    let dec := if loc == "header" then (if isNull (go se "from_str") then none else decoderOf (go se "from_str"))
      else match gs (go se "deserialize") "mode" with
        | "custom" => decoderOf (go se "deserialize")
        | "derive" => derivedDecoder se
        | _ => none
    match enc, dec with
    | some e, some d => pure (some { name := name.toList, loc := loc.toList, vars, enc := e, dec := d })
    | none, _ => throw s!"enum {name}: the client has no readable encoder for location {loc}"
    | _, none => throw s!"enum {name}: the server has no readable decoder for location {loc}"
  for f in cpf do
    if gs f "kind" == "enum" then
      match enumUse "path" (gs f "inner") with
      | .ok (some u) => enums := enums ++ [u]
      | .ok none => pure ()
      | .error e => problems := problems ++ [("enum", e)]
    if gs f "kind" == "other" || gb f "array" || gb f "optional" then problems := problems ++ [("pathfields", s!"path field {gs f "field"} has a type outside the model: {gs f "ty"}")]
  -- headers
  let ch := go cop "headers"
  let sh := go sop "headers"
  let mut headers : List ParamFact := []
  let cconst := go client "consts"
  let sconst := go server "consts"
  let cenc := ga ch "encode"
  let sdec := ga sh "decode"
  let chf := ga ch "fields"
  let shf := ga sh "fields"
  if gb ch "used" != !(isNull sh) then problems := problems ++ [("headers", "header parameters are sent / extracted on one side only")]
  if !gb ch "used" && !(isNull (go ch "declared")) then problems := problems ++ [("headers", "the client declares header parameters but never sends them")]
  if (cenc.map fun e => gs e "field") != (chf.map fun f => gs f "field") then problems := problems ++ [("headers", "the client's header map does not insert exactly the header struct's fields")]
  if (sdec.map fun e => gs e "field") != (shf.map fun f => gs f "field") then problems := problems ++ [("headers", "the server's header extraction does not fill exactly the header struct's fields")]
  if (chf.map fun f => gs f "field") != (shf.map fun f => gs f "field") then problems := problems ++ [("headers", "client and server header structs have different fields")]
  if !(isNull sh) && gs (go sop "ctor") "header" != "(&headers).try_into().unwrap_or_default()" then problems := problems ++ [("headers", s!"unexpected header construction: {gs (go sop "ctor") "header"}")]
  for e in cenc do
    let fld := gs e "field"
    match chf.find? (fun f => gs f "field" == fld), shf.find? (fun f => gs f "field" == fld), sdec.find? (fun d => gs d "field" == fld) with
    | some cf, some sf, some d =>
      let cform : Form := match gs e "form" with | "str" => .str | "to_string" => .display | "join" => .joined (gs e "sep").toList | s => .other s.toList
      let sform : Form := match gs d "form" with
        | "to_string" => .str
        | "parse" => if gs d "on_err" == "default" then .display else .other "parse".toList
        | "split_parse" => .joined (gs d "sep").toList
        | s => .other s.toList
      let cw := match (go cconst (gs e "const")).getStr?.toOption with | some w => w | none => "?client-const:" ++ gs e "const"
      let sw := match (go sconst (gs d "const")).getStr?.toOption with | some w => w | none => "?server-const:" ++ gs d "const"
      let cside : ParamSide := { wire := cw.toList, kind := kindOf cf, array := gb cf "array", optional := gb e "optional", form := cform }
      let sside : ParamSide := { wire := sw.toList, kind := kindOf sf, array := gb sf "array", optional := gs d "on_missing" == "none", form := sform }
      let pf : ParamFact := { field := fld.toList, client := cside, server := sside }
      headers := headers ++ [pf]
      if gb e "optional" != gb cf "optional" then problems := problems ++ [("header-const", s!"header {fld}: the field is a plain `{gs cf "ty"}` but its insertion is conditional (`if let Some(value) = &headers.{fld}`) and its extraction yields an Option: neither half compiles")]
      if gs cf "kind" == "enum" then
        match enumUse "header" (gs cf "inner") with
        | .ok (some u) => if !enums.contains u then enums := enums ++ [u]
        | .ok none => pure ()
        | .error er => problems := problems ++ [("enum", er)]
    | _, _, _ => problems := problems ++ [("headers", s!"header field {fld} is not present on both sides")]
  -- query
  let cq := go cop "query"
  let sq := go sop "query"
  let mut query : List ParamFact := []
  let mut badQuery : List String := []
  let cqf := if gs cq "mode" == "struct" then ga cq "fields" else []
  let sqf := ga sq "fields"
  if gs cq "mode" == "other" then problems := problems ++ [("query", "the client builds its query in a form outside the model")]
  if (gs cq "mode" == "struct") != !(isNull sq) then problems := problems ++ [("query", "query parameters are sent / extracted on one side only")]
  if (cqf.map fun f => gs f "field") != (sqf.map fun f => gs f "field") then problems := problems ++ [("query", "client and server query structs have different fields")]
  if !(isNull sq) && gs (go sop "ctor") "query" != "query" then problems := problems ++ [("query", "unexpected query construction")]
  for cf in cqf do
    let fld := gs cf "field"
    match sqf.find? (fun f => gs f "field" == fld) with
    | some sf =>
      let formOf (f : Json) : Form :=
        if !(ga f "serde_other").isEmpty then .other "serde".toList
        else match (go f "serde_as").getStr?.toOption with
          | some a => .sepAs a.toList
          | none => if gb f "array" then .other "exploded-array".toList else if gs f "kind" == "string" then .str else .display
      let cside : ParamSide := { wire := (gs cf "key").toList, kind := kindOf cf, array := gb cf "array", optional := gb cf "optional", form := formOf cf }
      let sside : ParamSide := { wire := (gs sf "key").toList, kind := kindOf sf, array := gb sf "array", optional := gb sf "optional", form := formOf sf }
      let p : ParamFact := { field := fld.toList, client := cside, server := sside }
      query := query ++ [p]
      if !paramOk false p then badQuery := badQuery ++ [fld]
      if gb cf "optional" && !gb cf "skip_none" then problems := problems ++ [("query", s!"query field {fld}: an absent optional value is serialised")]
      if gs cf "kind" == "enum" then
        match enumUse "query" (gs cf "inner") with
        | .ok (some u) => if !enums.contains u then enums := enums ++ [u]
        | .ok none => pure ()
        | .error er => problems := problems ++ [("enum", er)]
    | none => pure ()
  -- bodies
  let cb := go cop "body"
  let sb := go sop "body"
  let cbTy := if gb cb "optional" && (gs cb "ty").startsWith "Option<" then ((gs cb "ty").drop 7).dropEnd 1 else gs cb "ty"
  if !(isNull (go cb "ty")) && !(isNull (go sb "ty")) && gs sb "kind" != "text" && gs sb "kind" != "bytes" && cbTy != gs sb "ty" then
    problems := problems ++ [("body", s!"body payload types differ: {gs cb "ty"} / {gs sb "ty"}")]
  if gs cb "enc" == "none" && !(isNull (go cb "declared")) then problems := problems ++ [("body", "the client declares a body but never sends it")]
  let sctorBody := gs (go sop "ctor") "body"
  if gs sb "kind" != "none" && !(sctorBody == "body" || (sctorBody == "body.map(|b|b.0)" && gb sb "optional" && (gs sb "kind" == "json" || gs sb "kind" == "form"))) then
    problems := problems ++ [("body", s!"unexpected body construction: {sctorBody}")]
  if !(isNull (go sop "path")) && gs (go sop "ctor") "path" != "path" then problems := problems ++ [("pathfields", "unexpected path construction")]
  if !gb cop "validates_first" then problems := problems ++ [("chain", "the client does not validate the request before building it")]
  let facts : OpFacts := {
    cMethod := (gs cop "http").toList.map Char.toUpper
    sMethod := (gs entry "fn").toList.map Char.toUpper
    chain := (match chainO.getD [] with | [] => [CSeg.lit []] | c => c)
    pattern := pat.getD []
    pathKeys := spf.map fun f => ((gs f "field").toList, (gs f "key").toList)
    registered := entries.length
    clashes := clashes
    headers, query, enums
    cBody := (bodyOfStr (gs cb "enc"), gb cb "optional")
    sBody := (bodyOfStr (gs sb "kind"), gb sb "optional") }
  pure { facts, problems, badQuery, patternText := patText, chainJson := Json.arr pushes.toArray,
         headerNames := sortStrs (headers.map fun p => String.ofList p.client.wire), queryKeys := sortStrs (query.map fun p => String.ofList p.client.wire) }

/-- spec-side description of one parameter -/
structure PIn where
  name : String
  loc : String
  ty : String
  style : Option String
  explode : Option Bool
  pathLevel : Bool

def pinOf (p : Json) : PIn :=
  { name := gs p "name", loc := gs p "in", ty := gs p "type",
    style := (go p "style").getStr?.toOption, explode := (go p "explode").getBool?.toOption,
    pathLevel := gs p "level" == "path" }

/-- template segments (query part cut off, empty segments dropped as `ParsedPath::parse` does) -/
def templateSegs (path : List Char) : List (List Char) := (splitOn '/' (splitOnce '?' path).1).filter (!·.isEmpty)

def literalPartsOf (seg : List Char) : List (List Char) :=
  match tokenize seg with
  | .ok ps => ps.filterMap fun p => match p with | .lit l => some l | _ => none
  | .error _ => []

/-- KnownParamSuffixSegment: a segment that is not literal / `{p}` / `pre{p}` -/
def knownSuffix (path : List Char) : Bool := (templateSegs path).any fun s => (parsePSeg s).isNone

def nonAscii (l : List Char) : Bool := l.any fun c => c.toNat ≥ 128

/-- KnownLiteralNeedsEncoding: literal template text that `push` percent-encodes -/
def knownLiteral (path : List Char) : Bool := (templateSegs path).any fun s => (literalPartsOf s).any fun l => nonAscii l || !urlSafe l

/-- KnownRawIdentCapture: a template parameter whose Rust field is a raw identifier -/
def knownRawIdent (decl : List (List Char × List Char)) (path : List Char) : Bool :=
  (tparams (path.length + 1) path).any fun n => ("r#".toList).isPrefixOf (fieldOf decl n)

/-- KnownExplodedQueryArray: an array-valued query parameter without a delimiter adapter (explode = true, the
default of style form) -/
def knownExploded (ps : List PIn) : Bool := ps.any fun p =>
  p.loc == "query" && (p.ty == "array" || p.ty == "intarray" || p.ty == "enumarray") &&
    (p.explode == some true || (p.explode == none && (p.style == none || p.style == some "form")))

/-- KnownSingleValueHeader: a header parameter whose schema is an enum with exactly one value (a constant with a
default): the field is typed `String`, never optional, but inserted / extracted as if it were `Option` -/
def knownConstHeader (ps : List (PIn × Nat)) : Bool := ps.any fun (p, n) => p.loc == "header" && p.ty == "enum" && n == 1

def uniq (l : List String) : List String := l.foldl (fun acc s => if acc.contains s then acc else acc ++ [s]) []

def run : Handler := fun req => do
  let inp ← field req "in"
  let impl ← field req "impl"
  let opsJ ← arr (← field inp "ops")
  let failed := (impl.getObjVal? "panic").toOption.isSome || (impl.getObjVal? "err").toOption.isSome || (impl.getObjVal? "abort").toOption.isSome
  let unread := ga impl "unreadable"
  let mut modelOps : List Json := []
  let mut implOps : List Json := []
  let mut known : List String := []
  let mut unlisted : List String := []
  let mut whys : List String := []
  let mut branch : List String := []
  for d in opsJ do
    let method := (gs d "method").toUpper
    let path := gs d "path"
    let ps ← Oas3.Driver.Client.paramsOf (fieldD d "params" (Json.arr #[]))
    let pins := (ga d "params").map pinOf
    let pinsN := (ga d "params").map fun p => (pinOf p, (ga p "enum").length)
    let n0 := unlisted.length + known.length
    let cps := collectParams ps
    let decl := pathDecl path.toList ps
    -- model expectation ------------------------------------------------------
    let bodyJ := go d "body"
    let firstCt : Option (List Char) := match bodyJ.getObjVal? "content" with
      | .ok (.arr cs) =>
        let pairs := cs.toList.filterMap fun c => match c with | .arr #[.str ct, k] => some (ct.toList, k) | _ => none
        match (Oas3.Resp.sortKeys pairs).head? with
        | some (ct, k) => if k == Json.null then none else some ct
        | none => none
      | _ => none
    let bodyM : String := match firstCt with
      | none => "none"
      | some ct => match Oas3.Resp.catOf ct with
        | .json => "json" | .form => "form" | .text | .eventStream => "text" | .binary => "bytes" | .xml => "xml" | .multipart => "multipart"
    let bodyOpt := firstCt.isSome && !gb bodyJ "required"
    let parsed := parsePath decl path.toList
    let hdrM := sortStrs (((cps.filter (·.loc == .header)).map fun p => lowerS (String.ofList p.name)))
    let qryM := sortStrs ((cps.filter (·.loc == .query)).map fun p => String.ofList p.name)
    let modelOp := match parsed with
      | .ok p => Json.mkObj [("route", Json.arr #[Json.str method, Json.str path]), ("http", Json.str method),
          ("pushes", Json.arr (p.segments.map Oas3.Driver.Path.segJson).toArray), ("pattern", str (Oas3.Driver.Path.axumPattern decl path.toList p)),
          ("headers", Json.arr (hdrM.map Json.str).toArray), ("query", Json.arr (qryM.map Json.str).toArray),
          ("body", Json.arr #[Json.str bodyM, Json.bool bodyOpt])]
      | .error _ => Json.mkObj [("route", Json.arr #[Json.str method, Json.str path]), ("error", Json.str "template")]
    modelOps := modelOps ++ [modelOp]
    branch := branch ++ [(if decl.isEmpty then "" else "p") ++ (if hdrM.isEmpty then "" else "h") ++ (if qryM.isEmpty then "" else "q") ++ (if bodyM == "none" then "" else "b")]
    if failed then
      implOps := implOps ++ [Json.null]
      continue
    -- implementation -----------------------------------------------------------
    match build impl method path with
    | .error e =>
      implOps := implOps ++ [Json.mkObj [("route", Json.arr #[Json.str method, Json.str path]), ("missing", Json.str e)]]
      unlisted := unlisted ++ [e]
    | .ok b =>
      let f := b.facts
      implOps := implOps ++ [Json.mkObj [("route", Json.arr #[Json.str method, Json.str path]), ("http", str f.cMethod),
        ("pushes", b.chainJson), ("pattern", Json.str b.patternText),
        ("headers", Json.arr (b.headerNames.map Json.str).toArray), ("query", Json.arr (b.queryKeys.map Json.str).toArray),
        ("body", Json.arr #[Json.str (match f.cBody.1 with | .none => "none" | .json => "json" | .form => "form" | .text => "text" | .bytes => "bytes" | .other s => String.ofList s), Json.bool f.cBody.2])]]
      -- clause by clause, so that every failure is either attributed to a class or unlisted
      let here := s!"{method} {path}: "
      for (tag, text) in b.problems do
        let cls : Option String :=
          if (tag == "pattern" || tag == "chain") && knownSuffix path.toList then some "KnownParamSuffixSegment"
          else if tag == "header-const" && knownConstHeader pinsN then some "KnownSingleValueHeader" else none
        match cls with
        | some c => known := known ++ [c]; whys := whys ++ [here ++ text]
        | none => unlisted := unlisted ++ [here ++ text]
      if f.cMethod != f.sMethod then unlisted := unlisted ++ [here ++ s!"client sends {String.ofList f.cMethod}, handler is registered for {String.ofList f.sMethod}"]
      if f.registered != 1 then unlisted := unlisted ++ [here ++ s!"handler is registered {f.registered} times"]
      if f.clashes != 0 then unlisted := unlisted ++ [here ++ "another handler is registered under the same pattern shape and method"]
      -- path, segment by segment
      if b.problems.all (fun p => p.1 != "pattern" && p.1 != "chain") then
        if f.chain.length != f.pattern.length then
          unlisted := unlisted ++ [here ++ s!"the client emits {f.chain.length} path segments, the route pattern {b.patternText} has {f.pattern.length}"]
        else
          for (c, p) in f.chain.zip f.pattern do
            if !segAgree f.key c p then
              let cls : Option String := match c, p with
                | .lit l, .lit m => if l == m && knownLiteral path.toList then some "KnownLiteralNeedsEncoding" else none
                | .param fl, .cap pre n => if pre.isEmpty && n == fl && ("r#".toList).isPrefixOf fl && f.key fl == some (fl.drop 2) && knownRawIdent decl path.toList then some "KnownRawIdentCapture" else none
                | .pre q fl, .cap pre n =>
                  if q == pre && !urlSafe q && f.key fl == some n && knownLiteral path.toList then some "KnownLiteralNeedsEncoding"
                  else if q == pre && urlSafe q && n == fl && ("r#".toList).isPrefixOf fl && f.key fl == some (fl.drop 2) && knownRawIdent decl path.toList then some "KnownRawIdentCapture"
                  else none
                | _, _ => none
              let text := here ++ s!"client segment {showC c} does not agree with pattern segment {showP p} of {b.patternText}"
              match cls with
              | some cl => known := known ++ [cl]; whys := whys ++ [text]
              | none => unlisted := unlisted ++ [text]
        if !((f.pathKeys.map (·.1)).all fun fld => (f.chain.flatMap CSeg.fields).count fld == 1) then
          unlisted := unlisted ++ [here ++ "a field of the server's path struct is not bound by exactly one capture"]
        if !nodupStr (f.pathKeys.map (·.2)) then unlisted := unlisted ++ [here ++ "two path fields deserialise under one key"]
      for p in f.headers do
        if !paramOk true p then unlisted := unlisted ++ [here ++ s!"header {String.ofList p.field}: client writes [{showSide p.client}], server reads [{showSide p.server}]"]
      if !nodupStr (f.headers.map fun p => lowerAscii p.server.wire) then unlisted := unlisted ++ [here ++ "two header parameters share one wire name"]
      for p in f.query do
        if !paramOk false p then
          let exploded := p.client.form == .other "exploded-array".toList && p.server.form == .other "exploded-array".toList && p.client.wire == p.server.wire
          let text := here ++ s!"query {String.ofList p.field}: client writes [{showSide p.client}], server reads [{showSide p.server}]"
          if exploded && knownExploded pins then known := known ++ ["KnownExplodedQueryArray"]; whys := whys ++ [text]
          else unlisted := unlisted ++ [text]
      if !nodupStr (f.query.map (·.server.wire)) then unlisted := unlisted ++ [here ++ "two query parameters share one key"]
      for u in f.enums do
        if !enumOk u.vars u.enc u.dec then
          let bad := u.vars.filter fun v => match display u.enc v with | some s => fromStr u.dec s != some v | none => true
          unlisted := unlisted ++ [here ++ s!"enum {String.ofList u.name} in {String.ofList u.loc}: variant(s) {bad.map String.ofList} do not survive the client's encoder followed by the server's decoder (transforms {reprStr u.dec.trs}, arms {u.dec.arms.map fun a => String.ofList a.1})"]
      if !bodyOk f then unlisted := unlisted ++ [here ++ s!"body: client sends {showBody f.cBody}, server extracts {showBody f.sBody}"]
      -- the clause-wise evaluation above and the proved judge must agree
      let clauseOk := unlisted.length + known.length == n0
      if b.problems.isEmpty && clauseOk != reqInteropOk f then unlisted := unlisted ++ [here ++ "internal: clause-wise evaluation disagrees with reqInteropOk"]
  let model := Json.mkObj [("ops", Json.arr modelOps.toArray)]
  let implP := Json.mkObj [("ops", Json.arr implOps.toArray)]
  let judge :=
    if failed then verdict false [] "generation failed/panicked on one side"
    else if !unread.isEmpty then verdict false [] s!"unreadable emitted code: {unread.map fun u => u.getStr?.toOption.getD ""}"
    else if !unlisted.isEmpty then verdict false [] (unlisted.head!)
    else if !known.isEmpty then verdict false (uniq known) (whys.head?.getD "")
    else verdict true []
  pure (Json.mkObj [("model", model), ("match", Json.bool (model == implP)), ("judge", judge),
    ("branch", Json.str (if opsJ.isEmpty then "trivial" else s!"ops{opsJ.length}:" ++ ",".intercalate branch)), ("impl_proj", implP)])

/-- the Lean matcher against the real matchit: patterns (one router), one path -/
def runRoute : Handler := fun req => do
  let inp ← field req "in"
  let impl ← field req "impl"
  let pats := (ga inp "patterns").map fun p => (p.getStr?.toOption.getD "").toList
  let path := (gs inp "path").toList
  let parsed := pats.map parsePattern
  let insert := Json.arr (parsed.map fun p => if p.isSome then Json.null else Json.str "invalid-param-segment").toArray
  -- first pattern (insertion order) that matches; the generator of cases keeps patterns non-overlapping
  let hits := (parsed.zipIdx.filterMap fun (p, i) => match p, segsOfPath path with
    | some ps, some xs => (routeMatch ps xs).map fun c => (i, c)
    | _, _ => none)
  let hit := match hits with
    | [(i, c)] => Json.mkObj [("index", Json.num i), ("params", Json.arr (c.map fun (k, v) => Json.arr #[str k, str v]).toArray)]
    | [] => Json.null
    | _ => Json.str "ambiguous"
  let model := Json.mkObj [("insert", insert), ("at", hit)]
  let implP := Json.mkObj [("insert", go impl "insert"), ("at", go impl "at")]
  let ok := model == implP
  pure (Json.mkObj [("model", model), ("match", Json.bool ok), ("judge", verdict ok [] (if ok then "" else "the modelled route semantics differ from matchit")),
    ("branch", Json.str (if hits.isEmpty then "nomatch" else "match"))])

def ops : List (String × Handler) := [("interop.req", run), ("interop.req.route", runRoute)]

end Oas3.Driver.ReqInterop
