import Oas3Model.Driver.Util
import Oas3Model.Model.Path
import Oas3Model.Sem.Url
import Oas3Model.Model.Client
open Lean Oas3.Driver Oas3.Path Oas3.Url

namespace Oas3.Driver.Path

def segJson : Segment → Json
  | .literal l => Json.mkObj [("lit", str l)]
  | .param f => Json.mkObj [("param", str f)]
  | .mixed f ps => Json.mkObj [("fmt", str f), ("args", strList ps)]

def errName : TokErr → String
  | .unclosed => "unclosed" | .emptyParam => "emptyParam" | .unmatchedClose => "unmatchedClose" | .nested => "nested"

def declOf (j : Json) : Except String (List (List Char × List Char)) := do
  let a ← arr j
  a.mapM fun p => match p with
    | .arr #[o, f] => do pure ((← chars o), (← chars f))
    | _ => throw "decl"

def segOfJson (j : Json) : Option Segment :=
  match j.getObjVal? "lit", j.getObjVal? "param", j.getObjVal? "fmt", j.getObjVal? "args" with
  | .ok (.str l), _, _, _ => some (.literal l.toList)
  | _, .ok (.str p), _, _ => some (.param p.toList)
  | _, _, .ok (.str f), .ok (.arr a) => some (.mixed f.toList (a.toList.filterMap fun x => match x with | .str s => some s.toList | _ => none))
  | _, _, _, _ => none

/-- marker of finding F03-9 (`ParsedPath::parse` filters empty segments out): the only deviation is that they are missing -/
def emptySegmentDroppedWhy : String := "empty template segments (a trailing slash, `//`) are dropped: the request goes to another path than the template names"

/-- J for one parsed template: the emitted pushes, rendered back, are the template's segments; every
format template is brace-safe with as many `{}` as arguments; no literal holds a brace. -/
def judgeParsed (path : List Char) (segs : List Segment) (decl : List (List Char × List Char)) : Bool × String :=
  let want := templateSegments path
  let inv (f : List Char) : List Char := match decl.find? (fun p => p.2 == f) with | some p => p.1 | none => f
  let render : Segment → List Char
    | .literal l => l
    | .param f => '{' :: inv f ++ ['}']
    | .mixed fmt ps => fillFormat fmt (ps.map inv)
  let okShape := segs.all fun s => match s with
    | .literal l => !l.contains '{' && !l.contains '}'
    | .param f => !f.isEmpty
    | .mixed fmt ps => formatSafe fmt && countPlaceholders fmt == ps.length && ps.all (!·.isEmpty)
  if !okShape then (false, "a literal holds a brace, or a format template is not brace-safe / has the wrong number of placeholders")
  else if segs.map render != want then
    (false, if segs.map render == want.filter (fun s => !s.isEmpty) then emptySegmentDroppedWhy else "segments rendered back differ from the template")
  else (true, "")

/-- the axum route pattern of a template: the captures carry the SERDE names of the path struct's members, i.e. the Rust field
names without the raw-identifier prefix (`PathSegment::to_axum_segment`, since the repair of F05-7) -/
def axumPattern (decl : List (List Char × List Char)) (path : List Char) (fallback : Oas3.Path.Parsed) : List Char :=
  match Oas3.Path.parsePath (decl.map fun (n, f) => (n, match f with | 'r' :: '#' :: r => r | i => i)) path with
  | .ok p' => Oas3.Path.axumPath p'
  | .error _ => Oas3.Path.axumPath fallback

def parse : Handler := fun req => do
  let inp ← field req "in"
  let path ← chars (← field inp "path")
  let decl0 ← declOf (fieldD inp "decl" (Json.arr #[]))
  -- undeclared template parameters are synthesised (`synthesize_missing_fields`), as in the converter
  let missing := ((Oas3.Client.tparams (path.length + 1) path).filter (fun n => !(decl0.map (·.1)).contains n)).eraseDups
  let decl := decl0 ++ missing.map (fun n => (n, Oas3.Client.fieldName n))
  let impl ← field req "impl"
  let m := parsePath decl path
  let model := match m with
    | .ok p => Json.mkObj [("ok", Json.mkObj [("segments", Json.arr (p.segments.map segJson).toArray),
        ("query", match p.query with | some q => str q | none => Json.null), ("axum", str (axumPattern decl path p))])]
    | .error e => Json.mkObj [("err", errName e)]
  -- judge the implementation's own answer
  let injective := (decl.map (·.2)).eraseDups.length == decl.length && (decl.map (·.1)).eraseDups.length == decl.length
  let judge := match impl.getObjVal? "ok" with
    | .ok o =>
      let segsJ := (arr (fieldD o "segments" (Json.arr #[]))).toOption.getD []
      let segs := segsJ.filterMap segOfJson
      if segs.length != segsJ.length then verdict false [] "unreadable segment"
      else
        let (ok, why) := judgeParsed path segs (if injective then decl else [])
        -- a well-formed template must be accepted; an accepted one must be faithful
        if ok || !injective then verdict true [] else verdict false (if why == emptySegmentDroppedWhy then ["KnownEmptySegmentDropped"] else []) why
    | .error _ =>
      -- rejected: fine only if the template really has unbalanced/nested/empty braces (the model's tokenizer is the spec here)
      match m with
      | .error _ => verdict true []
      | .ok _ => verdict false [] "a well-formed template was rejected"
  let branch := match m with
    | .error e => "err-" ++ errName e
    | .ok p => (if p.segments.any (fun s => match s with | .mixed .. => true | _ => false) then "mixed" else if p.segments.any (fun s => match s with | .param .. => true | _ => false) then "param" else "lit") ++ (if p.query.isSome then "+q" else "")
  pure (answer model impl judge branch)

def bytesOf (j : Json) : Except String (List UInt8) := do
  let a ← arr j
  let ns ← a.mapM natOf
  pure (ns.map UInt8.ofNat)

def bytesJson (b : List UInt8) : Json := Json.arr (b.map fun x => Json.num x.toNat).toArray

def pushOp : Handler := fun req => do
  let inp ← field req "in"
  let basePath ← chars (← field inp "base_path")
  let segs ← (← arr (← field inp "segs")).mapM bytesOf
  let impl ← field req "impl"
  let path := segs.foldl push basePath
  let decoded := ((splitOn '/' path).drop 1).map pctDecode
  let model := Json.mkObj [("path", str path), ("segs", Json.arr (decoded.map bytesJson).toArray)]
  let baseSegs := if basePath.length ≤ 1 then [] else ((splitOn '/' basePath).drop 1).map pctDecode
  let want := baseSegs ++ segs
  let judge := match impl.getObjVal? "segs" with
    | .ok got =>
      if got == Json.arr (want.map bytesJson).toArray then verdict true []
      else
        let known :=
          (if segs.any (fun s => s == [0x2E] || s == [0x2E, 0x2E]) then ["KnownDotSegment"] else []) ++
          (if segs.any (fun s => s.any isTabNl) then ["KnownCtlStripped"] else []) ++
          (if segs.any (·.isEmpty) then ["KnownEmptySegment"] else [])
        verdict false known "decoded path segments differ from the pushed values"
    | .error _ => verdict false [] "no result"
  let branch := (if segs.any (fun s => s.any mustEncode) then "enc" else "plain") ++ (if segs.any (fun s => s.any (· ≥ 0x80)) then "+utf8" else "")
  pure (answer model impl judge branch)

def ops : List (String × Handler) := [("path.parse", parse), ("path.push", pushOp)]

end Oas3.Driver.Path
