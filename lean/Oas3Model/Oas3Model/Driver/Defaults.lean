import Oas3Model.Driver.Util
import Oas3Model.Sem.Defaults
open Lean Oas3.Driver Oas3.Defaults

namespace Oas3.Driver.Defaults

/-! JSON <-> model -/

def scalarOf (j : Json) : Except String Scalar :=
  match j with
  | .null => pure .null
  | .bool b => pure (.bool b)
  | .str s => pure (.str s.toList)
  | .num n =>
    let (m, e) := norm n.mantissa n.exponent
    pure (if e = 0 then .int m else .dec m e)
  | _ => throw "nested value (not in the model's flat JSON)"

def jvalOf (j : Json) : Except String JVal :=
  match j with
  | .arr a => do pure (.arr (← a.toList.mapM scalarOf))
  | .obj _ => do
    let kvs ← match j with | .obj o => pure (o.toList) | _ => throw "obj"
    pure (.obj (← kvs.mapM fun (k, v) => do pure (k.toList, ← scalarOf v)))
  | _ => do pure (.sc (← scalarOf j))

def decStr (m : Int) (e : Nat) : List Char := if e = 0 then showInt m else showDec m e

def numJson (m : Int) (e : Nat) : Json := Json.num ⟨m, e⟩

def scalarJson : Scalar → Json
  | .null => Json.null
  | .bool b => Json.bool b
  | .int i => numJson i 0
  | .dec m e => numJson m e
  | .str s => str s

def jvalJson : JVal → Json
  | .sc s => scalarJson s
  | .arr xs => Json.arr (xs.map scalarJson).toArray
  | .obj kvs => Json.mkObj (kvs.map fun (k, v) => (String.ofList k, scalarJson v))

def exprJson : Expr → Json
  | .none => Json.mkObj [("k", "none")]
  | .some x => Json.mkObj [("k", "some"), ("x", exprJson x)]
  | .strToString s => Json.mkObj [("k", "to_string"), ("s", str s)]
  | .stringNew => Json.mkObj [("k", "string_new")]
  | .staticStr s => Json.mkObj [("k", "static"), ("s", str s)]
  | .ilit v p => Json.mkObj [("k", "ilit"), ("v", str (showInt v)), ("p", str p.name)]
  | .flit m e p => Json.mkObj [("k", "flit"), ("v", str (decStr m e)), ("p", str p.name)]
  | .blit b => Json.mkObj [("k", "bool"), ("b", Json.bool b)]
  | .dflt => Json.mkObj [("k", "default")]

def parseSigned (s : List Char) : Option Int :=
  match s with
  | '-' :: r => (parseNat r).map (fun n => -(n : Int))
  | r => (parseNat r).map (fun n => (n : Int))

/-- an emitted expression as reported by the harness; `none` = a shape outside `Expr` ("other") -/
partial def exprOf (j : Json) : Option Expr :=
  match j.getObjVal? "k" with
  | .ok (.str "none") => some .none
  | .ok (.str "some") => match j.getObjVal? "x" with | .ok x => (exprOf x).map .some | _ => none
  | .ok (.str "to_string") => match j.getObjVal? "s" with | .ok (.str s) => some (.strToString s.toList) | _ => none
  | .ok (.str "string_new") => some .stringNew
  | .ok (.str "static") => match j.getObjVal? "s" with | .ok (.str s) => some (.staticStr s.toList) | _ => none
  | .ok (.str "ilit") =>
    match j.getObjVal? "v", j.getObjVal? "p" with
    | .ok (.str v), .ok (.str p) => (parseSigned v.toList).map (fun i => .ilit i (Prim.ofName p.toList))
    | _, _ => none
  | .ok (.str "flit") =>
    match j.getObjVal? "v", j.getObjVal? "p" with
    | .ok (.str v), .ok (.str p) => (parseF64 v.toList).map (fun me => .flit me.1 me.2 (Prim.ofName p.toList))
    | _, _ => none
  | .ok (.str "bool") => match j.getObjVal? "b" with | .ok (.bool b) => some (.blit b) | _ => none
  | .ok (.str "default") => some .dflt
  | _ => none

def optJ {α : Type} (f : α → Json) : Option α → Json
  | some x => f x
  | none => Json.null

def isNullJ (j : Json) : Bool := match j with | .null => true | _ => false

/-! ### dflt.literal -/

def ftyOf (inp : Json) : Except String FTy := do
  let base ← chars (← field inp "base")
  let nullable := (fieldD inp "nullable" (Json.bool false)).getBool?.toOption.getD false
  let isArray := (fieldD inp "array" (Json.bool false)).getBool?.toOption.getD false
  pure { base := Prim.ofName base, isArray, nullable }

def valueClass : JVal → String
  | .sc .null => "null" | .sc (.bool _) => "bool" | .sc (.int _) => "int" | .sc (.dec ..) => "dec"
  | .sc (.str _) => "str" | .arr _ => "arr" | .obj _ => "obj"

def primClass (p : Prim) : String :=
  if p.isSInt then "sint" else if p.isUInt then "uint" else if p.isFloat then "float"
  else match p with | .string => "string" | .staticStr => "static" | .bool => "bool" | _ => "other"

def exprClass : Expr → String
  | .none => "None" | .some x => "Some(" ++ exprClass x ++ ")" | .strToString _ => "to_string" | .stringNew => "String::new"
  | .staticStr _ => "static" | .ilit .. => "ilit" | .flit .. => "flit" | .blit _ => "bool" | .dflt => "Default"

def literal : Handler := fun req => do
  let inp ← field req "in"
  let t ← ftyOf inp
  let v ← jvalOf (← field inp "value")
  let impl ← field req "impl"
  let e := jsonToRustLiteral v t
  let model := Json.mkObj [("expr", exprJson e), ("ty", str t.render)]
  let judge :=
    match impl.getObjVal? "expr" with
    | .ok ej =>
      match exprOf ej with
      | some ie =>
        if JLit t v ie then verdict true []
        else verdict false [] "the emitted literal does not evaluate to the declared default at the member's type"
      | none =>
        if (expectLit t v).isSome then verdict false [] "the emitted default expression has an unknown shape" else verdict true []
    | .error _ => verdict false [] "no result"
  let branch := primClass t.base ++ (if t.isArray then "[]" else "") ++ (if t.nullable then "?" else "") ++ "/" ++ valueClass v ++ "->" ++ exprClass e
    ++ (if (expectLit t v).isSome then "" else "/unjudged")
  pure (answer model impl judge branch)

/-! ### dflt.extract -/

def extract : Handler := fun req => do
  let inp ← field req "in"
  let schema ← field inp "schema"
  let impl ← field req "impl"
  let nn (k : String) : Option Json := match schema.getObjVal? k with | .ok v => if isNullJ v then none else some v | .error _ => none
  let enumOne : Option Json := match schema.getObjVal? "enum" with | .ok (.arr #[v]) => some v | _ => none
  let r := extractDefault (nn "default") (nn "const") enumOne
  let model := match r with | some v => Json.mkObj [("some", v)] | none => Json.mkObj [("none", Json.bool true)]
  -- the property's precedence rule is the same function: default > const > single enum value
  let judge := if impl == model then verdict true [] else verdict false [] "default is not taken from default > const > single enum value"
  let branch := (if (nn "default").isSome then "d" else "") ++ (if (nn "const").isSome then "c" else "") ++ (if enumOne.isSome then "e" else "")
  pure (answer model impl judge (if branch.isEmpty then "trivial" else branch))

/-! ### dflt.member / dflt.run -/

def styOf (s : String) : Except String STy :=
  match s with
  | "string" => pure .string | "integer" => pure .integer | "number" => pure .number | "boolean" => pure .boolean
  | _ => throw "scalar type"

def optVal (inp : Json) (k : String) : Except String (Option JVal) :=
  match inp.getObjVal? k with
  | .ok v => if isNullJ v then pure none else do pure (some (← jvalOf v))
  | .error _ => pure none

def memberOf (inp : Json) : Except String Member := do
  let kj ← field inp "kind"
  let kind ←
    match kj.getObjVal? "scalar", kj.getObjVal? "enum", kj.getObjVal? "object" with
    | .ok s, _, _ => do
      let ty ← styOf (← (← field s "ty").getStr?)
      let f := match s.getObjVal? "format" with | .ok (.str f) => some f.toList | _ => none
      pure (Kind.scalar ty f)
    | _, .ok e, _ => do pure (Kind.enumStr (← charsList e))
    | _, _, .ok o => do pure (Kind.object (← charsList o))
    | _, _, _ => throw "kind"
  let b (k : String) := (fieldD inp k (Json.bool false)).getBool?.toOption.getD false
  -- a single-value enum `[null]` is Some(Null) for the generator
  let enumOne ← match inp.getObjVal? "enum1" with | .ok v => do pure (some (← jvalOf v)) | .error _ => pure none
  pure { kind, isArray := b "array", nullable := b "nullable", required := b "required",
         dflt := (← optVal inp "default"), const := (← optVal inp "const"), enumOne,
         builders := b "builders", customName := (← chars (fieldD inp "custom" (Json.str ""))) }

def battrJson : Option BuilderAttr → Json
  | some (.default e) => Json.mkObj [("default", exprJson e)]
  | some (.skip e) => Json.mkObj [("skip", exprJson e)]
  | none => Json.null

def factsJson (nat : JVal) (f : Facts) (unreadable : Bool := false) : Json :=
  Json.mkObj [("unreadable_attr", Json.bool unreadable), ("ty", str f.ty.render), ("default", optJ exprJson f.defaultAttr), ("builder", battrJson f.builderAttr),
    ("struct_serde_default", Json.bool f.structSerdeDefault), ("field_skips_serializing", Json.bool f.fieldSkipsSerializing),
    ("derive_default", Json.bool f.deriveDefault), ("derive_builder", Json.bool f.deriveBuilder), ("nat", jvalJson nat)]

def stripPrefixSuffix (pre : List Char) (s : List Char) : Option (List Char) :=
  if pre.isPrefixOf s ∧ s.getLast? = some '>' then some ((s.drop pre.length).dropLast) else none

/-- `Option<Vec<X>>` ↦ FTy -/
def ftyOfRendered (s : List Char) : FTy :=
  let (s1, nullable) := match stripPrefixSuffix "Option<".toList s with | some r => (r, true) | none => (s, false)
  let (s2, isArray) := match stripPrefixSuffix "Vec<".toList s1 with
    | some r => if s1 = "Vec<u8>".toList then (s1, false) else (r, true)
    | none => (s1, false)
  { base := Prim.ofName s2, isArray, nullable }

def strListOf (j : Json) : List String :=
  match j with | .arr a => a.toList.filterMap (fun x => match x with | .str s => some s | _ => none) | _ => []

/-- the implementation's facts, read into the model's `Facts` shape (+ its own view of what
`Default::default()` of the base type is).  `none` for an expression means "unknown shape". -/
def implFacts (impl : Json) : Except String (Facts × JVal × Bool) := do
  let ty := ftyOfRendered (← chars (← field impl "ty"))
  let dj := fieldD impl "default" Json.null
  let (dattr, okD) := if isNullJ dj then ((none : Option Expr), true) else match exprOf dj with | some e => (some e, true) | none => (none, false)
  let bj := fieldD impl "builder" Json.null
  let (battr, okB) : Option BuilderAttr × Bool :=
    if isNullJ bj then (none, true)
    else match bj.getObjVal? "default", bj.getObjVal? "skip" with
      | .ok e, _ => (match exprOf e with | some x => (some (.default x), true) | none => (none, false))
      | _, .ok e => (match exprOf e with | some x => (some (.skip x), true) | none => (none, false))
      | _, _ => (none, false)
  let fserde := strListOf (fieldD impl "field_serde" (Json.arr #[]))
  let sserde := strListOf (fieldD impl "struct_serde" (Json.arr #[]))
  let b (k : String) := (fieldD impl k (Json.bool false)).getBool?.toOption.getD false
  let custom := fieldD impl "custom" Json.null
  let natBase : JVal :=
    match custom.getObjVal? "kind" with
    | .ok (.str "enum") =>
      (match custom.getObjVal? "default_wire", custom.getObjVal? "derive_default" with
       | .ok (.str w), .ok (.bool true) => .sc (.str w.toList)
       | _, _ => .sc .null)
    | .ok (.str "struct") =>
      (match custom.getObjVal? "fields_with_default", custom.getObjVal? "non_option_fields", custom.getObjVal? "derive_default" with
       | .ok (.arr #[]), .ok (.arr #[]), .ok (.bool true) => .obj []
       | _, _, _ => .sc .null)
    | _ => naturalPrim ty.base
  let nat := if ty.isArray then JVal.arr [] else natBase
  let okAttrs := okD && okB && (fieldD impl "default_attrs" (Json.num 0)).getNat?.toOption.getD 0 ≤ 1 && strListOf (fieldD impl "builder_other" (Json.arr #[])) == []
    -- a conditional skip cannot be evaluated without its predicate: unreadable, not "skipped"
    && !fserde.contains "skip_serializing_if"
  pure ({ ty, defaultAttr := dattr, builderAttr := battr, structSerdeDefault := sserde.contains "default",
          fieldSkipsSerializing := fserde.any (fun s => s == "skip" || s == "skip_serializing"),
          deriveDefault := b "derive_default", deriveBuilder := b "derive_builder" }, nat, okAttrs)

def memberBranch (m : Member) : String :=
  (match m.kind with
   | .scalar ty f => primClass (scalarPrim ty f)
   | .enumStr _ => "enum" | .object _ => "object") ++
  (if m.isArray then "[]" else "") ++ (if m.nullable then "?" else "") ++ (if m.required then "!" else "") ++
  (if m.dflt.isSome then "/default" else if m.const.isSome then "/const" else if m.enumOne.isSome then "/enum1" else "/none") ++
  (match m.default? with | some v => ":" ++ valueClass v | none => "") ++ (if m.builders then "+b" else "")

def judgeObs (m : Member) (o : Obs) (why : String) : Json :=
  if !(WF m) then verdict true []             -- outside the property's quantifier (ill-typed default, odd grammar): nothing is claimed
  else if J m o then verdict true []
  else verdict false (knownClasses m) why

def member : Handler := fun req => do
  let inp ← field req "in"
  let m ← memberOf inp
  let impl ← field req "impl"
  -- a member written as a bare `$ref` with SIBLING keywords (`{"$ref": …, "default": …}`, legal in 3.1): the oas3 reader
  -- keeps `$ref`, `summary` and `description` only, so the generator never sees the default (finding F17-7). `mSeen` is what
  -- the generator works from (model F); the JUDGE keeps the declared member `m`.
  let bare := fieldD inp "ref" Json.null == Json.str "bare"
  let mSeen : Member := if bare then { m with dflt := none, const := none, enumOne := none } else m
  let f := convert mSeen
  let model := factsJson (natural mSeen) f
  match impl.getObjVal? "ty" with
  | .error _ =>
    -- generation failed / struct missing: the property cannot hold for a well-formed member
    pure (answer model impl (if WF m then verdict false [] "no type was generated for a well-formed member" else verdict true []) (memberBranch m))
  | .ok _ =>
    let (fi, nat, okAttrs) ← implFacts impl
    let proj := factsJson nat fi (!okAttrs)
    let judge :=
      -- an attribute of a shape the semantics does not know cannot be judged here: it is reported as a
      -- broken correspondence (model never predicts it), not as a property violation; tie A judges it by running it
      if !okAttrs then verdict true []
      else if bare && WF m && !(J m (observeN nat m.builders fi)) then
        verdict false (if model == proj && (m.dflt.isSome || m.const.isSome) then ["KnownRefSiblingDropped"] else [])
          "the member is a `$ref` with a sibling `default` / `const`: the emitted member carries no default at all"
      else judgeObs m (observeN nat m.builders fi) "per the emitted attributes, decode-omitted / Default / builder-unset / encode do not all give the declared default"
    pure (answer model proj judge (memberBranch m ++ (if bare then "+bare-ref" else "")))

def obsValJson : Option JVal → Json
  | some v => jvalJson v
  | none => Json.str "$ERR"

def obsJson (o : Obs) : Json :=
  Json.mkObj [("dec", obsValJson o.dec), ("dflt", obsValJson o.dflt),
    ("bld", match o.bld with | some b => obsValJson b | none => Json.str "$OFF"),
    ("enc", match o.enc with | some v => jvalJson v | none => Json.str "$ABSENT")]

def obsValOf (j : Json) : Except String (Option JVal) :=
  match j with
  | .str "$ERR" => pure none
  | _ => do pure (some (← jvalOf j))

def obsOf (j : Json) : Except String Obs := do
  let bj ← field j "bld"
  let ej ← field j "enc"
  pure { dec := (← obsValOf (← field j "dec")), dflt := (← obsValOf (← field j "dflt")),
         bld := (← match bj with | .str "$OFF" => pure none | _ => do pure (some (← obsValOf bj))),
         enc := (← match ej with | .str "$ABSENT" => pure none | _ => do pure (some (← jvalOf ej))) }

/-- tie A: `impl` = what the COMPILED generated type did; `model` = Sem applied to the model's facts -/
def run : Handler := fun req => do
  let inp ← field req "in"
  let m ← memberOf inp
  let impl ← field req "impl"
  -- a bare `$ref` member with sibling keywords: the generator works from the member WITHOUT them (finding F17-7, as in tie E);
  -- the judge keeps the declared member
  let bare := fieldD inp "ref" Json.null == Json.str "bare"
  let mSeen : Member := if bare then { m with dflt := none, const := none, enumOne := none } else m
  let model := obsJson (observe mSeen (convert mSeen))
  let o ← obsOf impl
  -- canonical re-rendering of the implementation's observation (numbers normalised)
  let implC := obsJson o
  let judge :=
    if bare && WF m && !(J m o) then
      verdict false (if model == implC && (m.dflt.isSome || m.const.isSome) then ["KnownRefSiblingDropped"] else [])
        "the member is a `$ref` with a sibling `default` / `const`: the compiled member has no default at all"
    else judgeObs m o "on the compiled type, decode-omitted / Default / builder-unset / encode do not all give the declared default"
  pure (answer model implC judge (memberBranch m ++ (if bare then "+bare-ref" else "")))

def ops : List (String × Handler) :=
  [("dflt.literal", literal), ("dflt.extract", extract), ("dflt.member", member), ("dflt.run", run)]

end Oas3.Driver.Defaults
