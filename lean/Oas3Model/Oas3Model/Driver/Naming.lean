import Oas3Model.Driver.Util
import Oas3Model.Model.Naming
import Oas3Model.Gen.Naming
import Oas3Model.Model.Registry
open Lean Oas3.Driver Oas3.Naming

namespace Oas3.Driver.Naming

/-- transliteration table shipped with the case: object {"é": "e", …}; ASCII is the identity. -/
def trOf (j : Json) : Except String Tr := do
  let tbl := fieldD j "tr" (Json.mkObj [])
  let kvs ← match tbl with
    | .obj m => pure (m.toList.map fun (k, v) => (k, v))
    | _ => throw "tr: not an object"
  let pairs ← kvs.mapM fun (k, v) => do
    let vs ← chars v
    match k.toList with
    | [c] => pure (c, vs)
    | _ => throw "tr: key is not one char"
  pure fun c => match pairs.lookup c with
    | some r => r
    | none => [c]

def missingTr (j : Json) (s : List Char) : Bool :=
  let tbl := fieldD j "tr" (Json.mkObj [])
  s.any fun c => c.toNat ≥ 128 && (tbl.getObjVal? (String.singleton c)).toOption.isNone

def knownField (name out : List Char) : List String :=
  (if out == ['_'] then ["KnownUnderscoreField"] else []) ++
  (if rawPassthrough name then ["KnownRawPassthrough"] else [])

def knownType (out : List Char) : List String :=
  if out == "r#Self".toList then ["KnownRawSelf"] else []

def sanitizer (pos : Pos) (f : Tr → List Char → List Char) (known : List Char → List Char → List String) : Handler := fun req => do
  let inp ← field req "in"
  let name ← chars (← field inp "s")
  if missingTr inp name then throw "tr-missing"
  let tr ← trOf inp
  let impl ← field req "impl"
  let m := f tr name
  let judge ← match impl.getStr? with
    | .ok s =>
      let out := s.toList
      let ok := legal pos out
      pure (verdict ok (if ok then [] else known name out) (if ok then "" else s!"illegal identifier in {repr pos} position"))
    | .error _ => pure (verdict false [] "implementation did not return a string (panic?)")
  let branch :=
    if rawPassthrough name then "raw" else
    if (stripMinus (stripRaw name)).1 then "neg" else
    if m.take 2 == ['r', '#'] then "kw" else
    if name.any (fun c => c.toNat ≥ 128) then "unicode" else
    if (sanitize tr name).isEmpty then "empty" else
    if startsDigit (sanitize tr name) then "digit" else "plain"
  pure (answer (str m) impl judge branch)

def ensureUniqueH (f : List Char → List (List Char) → Option (List Char)) : Handler := fun req => do
  let inp ← field req "in"
  let base ← chars (← field inp "base")
  let used ← charsList (← field inp "used")
  let impl ← field req "impl"
  let m := f base used
  let judge := match impl.getStr? with
    | .ok s => verdict (!used.contains s.toList) [] "result is already used"
    | .error _ => verdict false [] "no result"
  pure (answer (optStr m) impl judge (if used.contains base then "probe" else "free"))

/-- scope-level judge on EMITTED code: within a struct's fields, an enum's variants and the module's type
items, all identifiers are legal and pairwise distinct, and no declared member was dropped. -/
def scopes : Handler := fun req => do
  let inp ← field req "in"
  let impl ← field req "impl"
  if (impl.getObjVal? "err").toOption.isSome || (impl.getObjVal? "panic").toOption.isSome then
    return Json.mkObj [("model", Json.null), ("match", true), ("judge", verdict false [] "generation failed on a collision spec"), ("branch", "failed")]
  let defs := (arr (fieldD impl "defs" (Json.arr #[]))).toOption.getD []
  let sOf (j : Json) (k : String) : String := (fieldD j k (Json.str "")).getStr?.toOption.getD ""
  let dupOf (l : List String) : List String := (l.filter fun x => (l.filter (· == x)).length > 1).eraseDups
  let expectFields := fieldD inp "expect_fields" (Json.mkObj [])
  let expectVariants := fieldD inp "expect_variants" (Json.mkObj [])
  let judge := Id.run do
    if !((arr (fieldD impl "parse_errors" (Json.arr #[]))).toOption.getD []).isEmpty then return verdict false [] "emitted code does not parse"
    let typeNames := defs.map (sOf · "name")
    if !(dupOf typeNames).isEmpty then return verdict false [] s!"two type items share a name: {dupOf typeNames}"
    for d in defs do
      let nm := sOf d "name"
      if !legal .type nm.toList then return verdict false [] s!"illegal type identifier {nm}"
      let fields := ((arr (fieldD d "fields" (Json.arr #[]))).toOption.getD []).map (sOf · "name")
      let variants := ((arr (fieldD d "variants" (Json.arr #[]))).toOption.getD []).map (sOf · "name")
      let isParam := nm.endsWith "Path" || nm.endsWith "Query" || nm.endsWith "Header"
      if !(dupOf fields).isEmpty then
        -- F09-9: a property spelled like the flattened map member `additional_properties` of typed additionalProperties
        let schF := fieldD (fieldD (fieldD (fieldD inp "spec" Json.null) "components" Json.null) "schemas" Json.null) nm Json.null
        let addlTyped := match schF.getObjVal? "additionalProperties" with | .ok (.obj _) => true | _ => false
        if dupOf fields == ["additional_properties"] && addlTyped then
          return verdict false ["KnownAddlPropsFieldClash"] s!"struct {nm}: duplicate field {dupOf fields}"
        return verdict false (if isParam then ["KnownParamFieldClash"] else if fields.any (fun f => (f.toList.reverse.takeWhile Char.isDigit).length > 0) then ["KnownDedupSuffixClash"] else []) s!"struct {nm}: duplicate field {dupOf fields}"
      if !(dupOf variants).isEmpty then
        -- F09-8: the variants of a discriminated base are its children's names with the base's name stripped, plus a fall-back
        -- variant named after the base's last word; nothing keeps them apart (`BillingEvent` + `Event`; `Pet` + `Cat`, `PetCat`)
        let sch := fieldD (fieldD (fieldD (fieldD inp "spec" Json.null) "components" Json.null) "schemas" Json.null) nm Json.null
        let isDiscBase := (sch.getObjVal? "discriminator").toOption.isSome
        return verdict false (if isDiscBase then ["KnownDiscVariantNameClash"] else []) s!"enum {nm}: duplicate variant {dupOf variants}"
      for f in fields do
        if !legal .field f.toList then return verdict false [] s!"struct {nm}: illegal field identifier {f}"
      for v in variants do
        if !legal .type v.toList && v != "r#Self" then return verdict false [] s!"enum {nm}: illegal variant identifier {v}"
      match expectFields.getObjVal? nm with
      | .ok n => if (n.getNat?.toOption.getD fields.length) != fields.length then return verdict false [] s!"struct {nm}: {fields.length} fields emitted for {n.compress} declared properties (one was dropped or invented)"
      | .error _ => pure ()
      match expectVariants.getObjVal? nm with
      | .ok n => if (n.getNat?.toOption.getD variants.length) != variants.length then return verdict false [] s!"enum {nm}: {variants.length} variants emitted for {n.compress} declared members"
      | .error _ => pure ()
    return verdict true []
  pure (Json.mkObj [("model", Json.null), ("match", true), ("judge", judge), ("branch", (fieldD inp "kind" (Json.str "scopes")).getStr?.toOption.getD "scopes")])


/-! ### names the generator derives itself: request / response / parameter structs of every operation (HTTP paths
and webhooks), inline member types — next to the component schemas of the same document -/

def httpMethods : List String := ["get", "put", "post", "delete", "options", "head", "patch", "trace"]

/-- operations of a document: `paths`, then `webhooks` (display path `webhooks/<name>`) -/
def specOps (spec : Json) : List (Oas3.Registry.Op × Json) :=
  let of (pfx k : String) : List (Oas3.Registry.Op × Json) := match spec.getObjVal? k with
    | .ok (.obj m) => m.toList.flatMap fun (p, item) => httpMethods.filterMap fun me => match item.getObjVal? me with
        | .ok o => some ({ method := me.toUpper.toList, path := (pfx ++ p).toList,
                           operationId := match o.getObjVal? "operationId" with | .ok (.str s) => some s.toList | _ => none }, o)
        | .error _ => none
    | _ => []
  of "" "paths" ++ of "webhooks/" "webhooks"

def sortJ (l : List Json) : List Json := (l.toArray.qsort (fun a b => a.compress < b.compress)).toList

/-- E: scope-level judge for documents whose component keys coincide with derived names.  On the emitted code:
every operation keeps a stable id of its own, every HTTP operation a client method, every operation a request
struct and a response enum of its own (not shared with another operation, not the type of a component schema),
every parameter group a nested struct with exactly its parameters, every component schema and every inline
member type an item with exactly its members.  `model` = the identifiers `Model/Registry.lean` predicts. -/
def opScopes (old : Handler) : Handler := fun req => do
  let inp ← field req "in"
  let impl ← field req "impl"
  let basic ← old req
  if (fieldD (fieldD basic "judge" Json.null) "ok" (Json.bool true)) != Json.bool true then return basic
  let spec := fieldD inp "spec" (Json.mkObj [])
  let schemaKeys : List String := match (fieldD (fieldD spec "components" (Json.mkObj [])) "schemas" (Json.mkObj [])) with
    | .obj m => m.toList.map (·.1) | _ => []
  let keysC := schemaKeys.map String.toList
  let taken := Oas3.Registry.reserved keysC
  let sops := specOps spec
  let some built := Oas3.Registry.build { only := none, excluded := none } (sops.map (·.1)) | throw "model-fuel-exhausted"
  let S (c : List Char) : String := String.ofList c
  let tn (k : String) : String := S (Oas3.Registry.typeName k.toList)
  let mReq (id : String) : String := S (Oas3.Registry.requestName taken id.toList)
  let mResp (id : String) : String := S (Oas3.Registry.responseName taken id.toList)
  -- ---------- model
  let mRows := built.map fun (id, o) => Json.arr #[str id, str o.method, str o.path, Json.str (mReq (S id)), Json.str (mResp (S id))]
  let mMethods := (built.filter fun e => !Oas3.Registry.isWebhook e.2).map fun e => str (Oas3.Client.fieldName e.1)
  let model := Json.mkObj [("ops", Json.arr (sortJ mRows).toArray), ("methods", Json.arr (sortJ mMethods).toArray),
    ("schemas", Json.arr (schemaKeys.map fun k => Json.arr #[Json.str k, Json.str (tn k)]).toArray)]
  -- ---------- what the implementation emitted
  let sOf (j : Json) (k : String) : String := (fieldD j k (Json.str "")).getStr?.toOption.getD ""
  let defs := (arr (fieldD impl "defs" (Json.arr #[]))).toOption.getD []
  let defOf (n : String) : Option Json := defs.find? fun d => sOf d "name" == n
  let kindOf (n : String) : String := match defOf n with | some d => sOf d "kind" | none => ""
  let stripRaw (f : String) : String := if f.startsWith "r#" then (f.drop 2).toString else f
  let fieldsOf (n : String) : List String := match defOf n with
    | some d => ((arr (fieldD d "fields" (Json.arr #[]))).toOption.getD []).map fun f => stripRaw (sOf f "name")
    | none => []
  let variantsOf (n : String) : List String := match defOf n with
    | some d => ((arr (fieldD d "variants" (Json.arr #[]))).toOption.getD []).map (sOf · "name")
    | none => []
  /- the locally defined types a field's type mentions -/
  let fieldTargets (n f : String) : List String := match defOf n with
    | some d => ((((arr (fieldD d "fields" (Json.arr #[]))).toOption.getD []) ++ ((arr (fieldD d "variants" (Json.arr #[]))).toOption.getD [])).filter fun x => stripRaw (sOf x "name") == f).flatMap fun x =>
        ((arr (fieldD x "edges" (Json.arr #[]))).toOption.getD []).filterMap fun e => match e with
          | .arr #[.str t, _] => if (defOf t).isSome then some t else none
          | _ => none
    | none => []
  let rows : List (String × String × String) := ((arr (fieldD impl "registry" (Json.arr #[]))).toOption.getD []).filterMap fun r => match r with
    | .arr #[.str i, .str m, .str p] => some (i, m, p) | _ => none
  let methods : List (String × String × String) := ((arr (fieldD impl "client_methods" (Json.arr #[]))).toOption.getD []).map fun m =>
    let out := sOf m "output"
    let inner := String.ofList (((((out.toList.dropWhile (· != '<')).drop 1).reverse.dropWhile (· != '>')).drop 1).reverse)
    (sOf m "name", (sOf m "request_ty").replace " " "", inner.replace " " "")
  let isHook (p : String) : Bool := p.startsWith "webhooks/"
  let schemaNames := schemaKeys.map tn
  /- the request struct / response enum the implementation gave an operation: HTTP operations say it in their
  client method; webhook operations have no method — theirs is the candidate of the naming scheme that is
  defined and is not the type of a component schema -/
  let methodOf (id : String) : Option (String × String × String) := methods.find? fun m => m.1 == S (Oas3.Client.fieldName id.toList)
  let hookPick (cands : List String) (kind : String) : String :=
    match cands.find? (fun c => kindOf c == kind && !schemaNames.contains c) with | some c => c | none => "<none>"
  let reqOf (id p : String) : String := if isHook p then hookPick [tn id ++ "Request", tn id ++ "RequestParams"] "struct"
    else match methodOf id with | some m => m.2.1 | none => "<no method>"
  let respOf (id p : String) : String := if isHook p then hookPick [tn (tn id ++ "Response"), tn (tn id ++ "ResponseEnum")] "enum"
    else match methodOf id with | some m => m.2.2 | none => "<no method>"
  let iRows := rows.map fun (i, m, p) => Json.arr #[Json.str i, Json.str m, Json.str p, Json.str (reqOf i p), Json.str (respOf i p)]
  let implJ := Json.mkObj [("ops", Json.arr (sortJ iRows).toArray), ("methods", Json.arr (sortJ (methods.map fun m => Json.str m.1)).toArray),
    ("schemas", Json.arr (schemaKeys.map fun k => Json.arr #[Json.str k, Json.str (if (defOf (tn k)).isSome then tn k else "<none>")]).toArray)]
  -- ---------- classes the model predicts for this document
  let ids := built.map (·.1)
  let opNames := (Oas3.Registry.opTypeNames taken ids).map S
  let declares (o : Json) (loc : String) : Bool := ((arr (fieldD o "parameters" (Json.arr #[]))).toOption.getD []).any fun q => sOf q "in" == loc
  let paramNames : List String := built.flatMap fun (id, op) =>
    match sops.find? (fun so => so.1 == op) with
    | some so => [("query", "Query"), ("path", "Path"), ("header", "Header")].filterMap fun (loc, sfx) =>
        if declares so.2 loc then some (mReq (S id) ++ sfx) else none
    | none => []
  let classOf (culprit : String) : List String :=
    if (opNames.filter (· == culprit)).length ≥ 2 then ["KnownOpTypeNameMerge"]
    else if schemaNames.contains culprit && opNames.contains culprit then ["KnownFallbackNameTaken"]
    else if schemaNames.contains culprit && paramNames.contains culprit then ["KnownParamStructNameTaken"]
    else []
  let fail (why culprit : String) : Json := verdict false (classOf culprit) why
  let dupOf (l : List String) : List String := (l.filter fun x => (l.filter (· == x)).length > 1).eraseDups
  let sameSet (a b : List String) : Bool := a.all b.contains && b.all a.contains && a.length == b.length
  let ents := fieldD inp "entities" (Json.mkObj [])
  let strs (j : Json) : List String := ((arr j).toOption.getD []).filterMap fun x => x.getStr?.toOption
  let judge := Id.run do
    -- operations: none lost, none merged
    if rows.length != sops.length then return fail s!"{sops.length} operations in the document (paths + webhooks), {rows.length} registered: {rows.map (·.1)}" ""
    if !(dupOf (rows.map (·.1))).isEmpty then return fail s!"two operations share a stable id: {dupOf (rows.map (·.1))}" ""
    let httpRows := rows.filter fun r => !isHook r.2.2
    if !(dupOf (methods.map (·.1))).isEmpty then return fail s!"two client methods share a name: {dupOf (methods.map (·.1))}" ""
    for m in methods do
      if !legal .field m.1.toList then return fail s!"illegal method identifier {m.1}" ""
    for r in httpRows do
      if (methodOf r.1).isNone then return fail s!"operation {r.1} ({r.2.1} {r.2.2}) has no client method" ""
    if methods.length != httpRows.length then return fail s!"{httpRows.length} HTTP operations, {methods.length} client methods" ""
    -- every operation has a request struct and a response enum of its own
    for r in rows do
      let rq := reqOf r.1 r.2.2
      let rs := respOf r.1 r.2.2
      if kindOf rq != "struct" then return fail s!"operation {r.1}: no request struct of its own (found {rq})" (tn r.1 ++ "Request")
      if kindOf rs != "enum" then return fail s!"operation {r.1}: no response enum of its own (found {rs})" (tn (tn r.1 ++ "Response"))
      if schemaNames.contains rq then return fail s!"operation {r.1}: its request struct and a component schema share the identifier {rq}" rq
      if schemaNames.contains rs then return fail s!"operation {r.1}: its response enum and a component schema share the identifier {rs}" rs
    let reqs := rows.map fun r => reqOf r.1 r.2.2
    let resps := rows.map fun r => respOf r.1 r.2.2
    match dupOf reqs with
    | d :: _ => return fail s!"two operations share the request struct {d}" d
    | [] => pure ()
    match dupOf resps with
    | d :: _ => return fail s!"two operations with different responses share the response enum {d}" d
    | [] => pure ()
    -- parameter groups: a nested struct per declared location, holding exactly those parameters
    for e in (arr (fieldD ents "ops" (Json.arr #[]))).toOption.getD [] do
      match rows.find? (fun r => r.2.1 == sOf e "method" && r.2.2 == sOf e "path") with
      | none => return fail s!"operation {sOf e "method"} {sOf e "path"} is not registered" ""
      | some r =>
        let rq := reqOf r.1 r.2.2
        let main := strs (fieldD e "main" (Json.arr #[]))
        if !sameSet (fieldsOf rq) main then return fail s!"request struct {rq} of {r.1}: fields {fieldsOf rq}, expected {main}" rq
        for loc in ["query", "path", "header"] do
          let want := strs (fieldD e (if loc == "path" then "path_" else loc) (Json.arr #[]))
          if !want.isEmpty then
            match fieldTargets rq loc with
            | [t] => if !sameSet (fieldsOf t) want then return fail s!"{rq}.{loc}: struct {t} has fields {fieldsOf t}, the operation declares {want}" t
            | ts => return fail s!"{rq}.{loc}: expected one nested struct, found {ts}" rq
    -- component schemas: present under their own identifier with their own members
    for e in (arr (fieldD ents "schemas" (Json.arr #[]))).toOption.getD [] do
      let n := tn (sOf e "key")
      if kindOf n != sOf e "kind" then return fail s!"component schema {sOf e "key"}: expected a {sOf e "kind"} named {n}, found '{kindOf n}'" n
      if sOf e "kind" == "struct" then
        let want := strs (fieldD e "fields" (Json.arr #[]))
        if !sameSet (fieldsOf n) want then return fail s!"component schema {sOf e "key"}: struct {n} has fields {fieldsOf n}, the schema declares {want}" n
      else
        let want := (fieldD e "members" (Json.num 0)).getNat?.toOption.getD 0
        if (variantsOf n).length != want then return fail s!"component schema {sOf e "key"}: enum {n} has {(variantsOf n).length} variants for {want} members" n
    -- inline member types: reached through the parent's field, with their own members
    for e in (arr (fieldD ents "inline" (Json.arr #[]))).toOption.getD [] do
      let pn := tn (sOf e "parent")
      match fieldTargets pn (sOf e "prop") with
      | [t] =>
        if kindOf t != sOf e "kind" then return fail s!"{pn}.{sOf e "prop"}: expected an inline {sOf e "kind"}, found {kindOf t} {t}" t
        if sOf e "kind" == "struct" then
          let want := strs (fieldD e "fields" (Json.arr #[]))
          if !sameSet (fieldsOf t) want then return fail s!"{pn}.{sOf e "prop"}: struct {t} has fields {fieldsOf t}, the inline schema declares {want}" t
        else
          let want := (fieldD e "members" (Json.num 0)).getNat?.toOption.getD 0
          if (variantsOf t).length != want then return fail s!"{pn}.{sOf e "prop"}: enum {t} has {(variantsOf t).length} variants for {want} values" t
      | ts => return fail s!"{pn}.{sOf e "prop"}: expected one inline type, found {ts}" pn
    return verdict true []
  let branch := (fieldD inp "kind" (Json.str "opnames")).getStr?.toOption.getD "opnames"
  pure (Json.mkObj [("model", model), ("match", model == implJ), ("judge", judge), ("branch", branch), ("impl_view", implJ)])

def scopesAny : Handler := fun req => do
  let inp ← field req "in"
  if (inp.getObjVal? "entities").toOption.isSome then opScopes scopes req else scopes req

def ops : List (String × Handler) := [
  ("naming.scopes", scopesAny),
  ("naming.field", sanitizer .field (toRustFieldName Oas3.Gen.forbidden) knownField),
  ("naming.type", sanitizer .type (toRustTypeName Oas3.Gen.prelude) (fun _ o => knownType o)),
  ("naming.const", sanitizer .const toRustConstName (fun _ _ => [])),
  ("naming.ensure_unique", ensureUniqueH ensureUnique),
  ("naming.ensure_unique_snake", ensureUniqueH ensureUniqueSnake)
]

end Oas3.Driver.Naming
