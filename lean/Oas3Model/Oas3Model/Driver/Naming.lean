import Oas3Model.Driver.Util
import Oas3Model.Model.Naming
import Oas3Model.Gen.Naming
open Lean Oas3.Driver Oas3.Naming

namespace Oas3.Driver.Naming

/-- transliteration table shipped with the case: object {"é": "e", …}; ASCII is the identity. -/
def trOf (j : Json) : Except String Tr := do
  let tbl := fieldD j "tr" (Json.mkObj [])
  let kvs ← match tbl with
    | .obj m => pure (m.toList.map fun (k, v) => (k, v))
    | _ => throw "tr: not an object"
  let pairs ← kvs.mapM fun (k, v) => do
    let vs ← chars v
    match k.toList with
    | [c] => pure (c, vs)
    | _ => throw "tr: key is not one char"
  pure fun c => match pairs.lookup c with
    | some r => r
    | none => [c]

def missingTr (j : Json) (s : List Char) : Bool :=
  let tbl := fieldD j "tr" (Json.mkObj [])
  s.any fun c => c.toNat ≥ 128 && (tbl.getObjVal? (String.singleton c)).toOption.isNone

def knownField (name out : List Char) : List String :=
  (if out == ['_'] then ["KnownUnderscoreField"] else []) ++
  (if rawPassthrough name then ["KnownRawPassthrough"] else [])

def knownType (out : List Char) : List String :=
  if out == "r#Self".toList then ["KnownRawSelf"] else []

def sanitizer (pos : Pos) (f : Tr → List Char → List Char) (known : List Char → List Char → List String) : Handler := fun req => do
  let inp ← field req "in"
  let name ← chars (← field inp "s")
  if missingTr inp name then throw "tr-missing"
  let tr ← trOf inp
  let impl ← field req "impl"
  let m := f tr name
  let judge ← match impl.getStr? with
    | .ok s =>
      let out := s.toList
      let ok := legal pos out
      pure (verdict ok (if ok then [] else known name out) (if ok then "" else s!"illegal identifier in {repr pos} position"))
    | .error _ => pure (verdict false [] "implementation did not return a string (panic?)")
  let branch :=
    if rawPassthrough name then "raw" else
    if (stripMinus (stripRaw name)).1 then "neg" else
    if m.take 2 == ['r', '#'] then "kw" else
    if name.any (fun c => c.toNat ≥ 128) then "unicode" else
    if (sanitize tr name).isEmpty then "empty" else
    if startsDigit (sanitize tr name) then "digit" else "plain"
  pure (answer (str m) impl judge branch)

def ensureUniqueH (f : List Char → List (List Char) → Option (List Char)) : Handler := fun req => do
  let inp ← field req "in"
  let base ← chars (← field inp "base")
  let used ← charsList (← field inp "used")
  let impl ← field req "impl"
  let m := f base used
  let judge := match impl.getStr? with
    | .ok s => verdict (!used.contains s.toList) [] "result is already used"
    | .error _ => verdict false [] "no result"
  pure (answer (optStr m) impl judge (if used.contains base then "probe" else "free"))

/-- scope-level judge on EMITTED code: within a struct's fields, an enum's variants and the module's type
items, all identifiers are legal and pairwise distinct, and no declared member was dropped. -/
def scopes : Handler := fun req => do
  let inp ← field req "in"
  let impl ← field req "impl"
  if (impl.getObjVal? "err").toOption.isSome || (impl.getObjVal? "panic").toOption.isSome then
    return Json.mkObj [("model", Json.null), ("match", true), ("judge", verdict false [] "generation failed on a collision spec"), ("branch", "failed")]
  let defs := (arr (fieldD impl "defs" (Json.arr #[]))).toOption.getD []
  let sOf (j : Json) (k : String) : String := (fieldD j k (Json.str "")).getStr?.toOption.getD ""
  let dupOf (l : List String) : List String := (l.filter fun x => (l.filter (· == x)).length > 1).eraseDups
  let expectFields := fieldD inp "expect_fields" (Json.mkObj [])
  let expectVariants := fieldD inp "expect_variants" (Json.mkObj [])
  let judge := Id.run do
    if !((arr (fieldD impl "parse_errors" (Json.arr #[]))).toOption.getD []).isEmpty then return verdict false [] "emitted code does not parse"
    let typeNames := defs.map (sOf · "name")
    if !(dupOf typeNames).isEmpty then return verdict false [] s!"two type items share a name: {dupOf typeNames}"
    for d in defs do
      let nm := sOf d "name"
      if !legal .type nm.toList then return verdict false [] s!"illegal type identifier {nm}"
      let fields := ((arr (fieldD d "fields" (Json.arr #[]))).toOption.getD []).map (sOf · "name")
      let variants := ((arr (fieldD d "variants" (Json.arr #[]))).toOption.getD []).map (sOf · "name")
      let isParam := nm.endsWith "Path" || nm.endsWith "Query" || nm.endsWith "Header"
      if !(dupOf fields).isEmpty then
        return verdict false (if isParam then ["KnownParamFieldClash"] else if fields.any (fun f => (f.toList.reverse.takeWhile Char.isDigit).length > 0) then ["KnownDedupSuffixClash"] else []) s!"struct {nm}: duplicate field {dupOf fields}"
      if !(dupOf variants).isEmpty then return verdict false [] s!"enum {nm}: duplicate variant {dupOf variants}"
      for f in fields do
        if !legal .field f.toList then return verdict false [] s!"struct {nm}: illegal field identifier {f}"
      for v in variants do
        if !legal .type v.toList && v != "r#Self" then return verdict false [] s!"enum {nm}: illegal variant identifier {v}"
      match expectFields.getObjVal? nm with
      | .ok n => if (n.getNat?.toOption.getD fields.length) != fields.length then return verdict false [] s!"struct {nm}: {fields.length} fields emitted for {n.compress} declared properties (one was dropped or invented)"
      | .error _ => pure ()
      match expectVariants.getObjVal? nm with
      | .ok n => if (n.getNat?.toOption.getD variants.length) != variants.length then return verdict false [] s!"enum {nm}: {variants.length} variants emitted for {n.compress} declared members"
      | .error _ => pure ()
    return verdict true []
  pure (Json.mkObj [("model", Json.null), ("match", true), ("judge", judge), ("branch", (fieldD inp "kind" (Json.str "scopes")).getStr?.toOption.getD "scopes")])

def ops : List (String × Handler) := [
  ("naming.scopes", scopes),
  ("naming.field", sanitizer .field (toRustFieldName Oas3.Gen.forbidden) knownField),
  ("naming.type", sanitizer .type (toRustTypeName Oas3.Gen.prelude) (fun _ o => knownType o)),
  ("naming.const", sanitizer .const toRustConstName (fun _ _ => [])),
  ("naming.ensure_unique", ensureUniqueH ensureUnique),
  ("naming.ensure_unique_snake", ensureUniqueH ensureUniqueSnake)
]

end Oas3.Driver.Naming
