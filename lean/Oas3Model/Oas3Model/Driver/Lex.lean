import Oas3Model.Driver.Util
import Oas3Model.Model.Lexical
open Lean Oas3.Driver Oas3.Lex

/-! Driver ops of the lexical carriers (C19): `lex.escape`, `lex.lit`, `lex.doc`, `lex.opdoc`.
`model` = what Model/Lexical.lean predicts; `judge` = the property on the IMPLEMENTATION's output: the emitted
literal / comment, read by the model of the Rust lexer, gives the text back and ends where it should. -/
namespace Oas3.Driver.Lex

def optChars (j : Json) (k : String) : Option (List Char) :=
  match j.getObjVal? k with
  | .ok (Json.str s) => some s.toList
  | _ => none

def tableOf (j : Json) (k : String) : Char → Bool :=
  let l := (optChars j k).getD []
  fun c => l.contains c

def strsOf (j : Json) (k : String) : List (List Char) :=
  match j.getObjVal? k with
  | .ok (Json.arr a) => a.toList.filterMap fun x => match x with | Json.str s => some s.toList | _ => none
  | _ => []

/-- a block of `///` lines as prettyplease prints it: the texts, `none` if a line is not a well-formed line comment -/
def lexDocBlock : Nat → List Char → Option (List (List Char))
  | 0, _ => none
  | _, [] => some []
  | f + 1, '/' :: '/' :: '/' :: r =>
    match lexDocLine r with
    | some (t, rest) => (lexDocBlock f rest).map (t :: ·)
    | none => none
  | _, _ => none

def trimSeg (l : List Char) : List Char := trimTrailingSpaces l

def escape : Handler := fun req => do
  let inp ← field req "in"
  let impl ← field req "impl"
  let s ← chars (← field inp "s")
  let want := '"' :: (escapeStringLiteral s ++ ['"'])
  let model := Json.mkObj [("text", str want), ("lexed", str s)]
  let got := (optChars impl "text").getD []
  let judge :=
    match lexStr got with
    | some (v, []) => if v == s then verdict true [] else verdict false [] s!"the escaped text is a literal with ANOTHER value: {String.ofList v}"
    | some (v, rest) => verdict false [] s!"the literal ends early (value {String.ofList v}); the rest would be read as code: {String.ofList rest}"
    | none => verdict false [] "the escaped text is not a string literal"
  let branch := if s.any (fun c => c == '"' || c == '\\') then "quote/backslash" else if s.any (fun c => c.toNat < 32) then "control" else "plain"
  pure (answer model impl judge branch)

def lit : Handler := fun req => do
  let inp ← field req "in"
  let impl ← field req "impl"
  let s ← chars (← field inp "s")
  let pr := tableOf inp "pr"
  let want := strLit pr s
  let model := Json.mkObj [("lit", str want), ("lexed", str s), ("first_token", str want)]
  let got := (optChars impl "lit").getD []
  let judge :=
    match lexStr (got ++ "; tail()".toList) with
    | some (v, rest) =>
      if v != s then verdict false [] s!"the literal carries ANOTHER value: {String.ofList v}"
      else if rest != "; tail()".toList then verdict false [] s!"the literal ends early; read as code: {String.ofList rest}"
      else if optChars impl "lexed" != some s then verdict false [] "syn reads another value from the literal than the text"
      else if optChars impl "first_token" != some got then verdict false [] "followed by other tokens the literal is not ONE token"
      else verdict true []
    | none => verdict false [] "what is emitted for the text is not a string literal"
  let branch := if s.any (fun c => !(pr c) && c.toNat ≥ 128) then "unicode-escape" else if s.any (fun c => c.toNat == 0) then "nul" else if s.any (fun c => c == '"' || c == '\\') then "quote/backslash" else if s.any (fun c => c.toNat < 32) then "control" else "plain"
  pure (answer model impl judge branch)

def printedOf (attrs : List (List Char)) : Option (List Char) :=
  attrs.foldr (fun a acc => match ppDocLine a, acc with
    | some t, some r => some ("///".toList ++ t ++ '\n' :: r)
    | _, _ => none) (some [])

/-- judge of a doc block, on the implementation's output: the printed block is a run of `///` comments that the lexer
reads back, they carry the attribute values (trailing blanks trimmed), and the non-empty pieces of the source text
between its line breaks are all there, in order -/
def judgeDoc (impl : Json) (wantSegs : List (List Char)) (norm : List Char → List Char := id) : Json :=
  let attrs := strsOf impl "attrs"
  match optChars impl "printed" with
  | none => verdict false [] "the documentation block is not printed in front of the item"
  | some printed =>
    match lexDocBlock (printed.length + 1) printed with
    | none => verdict false [] s!"the printed documentation is not a run of well-formed `///` comments (bare carriage return / text outside a comment): {String.ofList (printed.take 120)}"
    | some texts =>
      if texts != attrs.map trimSeg then verdict false [] "the comments do not carry the attribute values"
      else
        let relexed := strsOf impl "relexed"
        if relexed.map trimSeg != texts then verdict false [] "syn reads other doc values back from the printed text"
        else
          let gotSegs := (texts.map fun t => norm (match t with | ' ' :: r => r | r => r)).filter (fun l => !l.isEmpty)
          if gotSegs != ((wantSegs.map trimSeg).filter (fun l => !l.isEmpty)) then
            verdict false [] s!"the doc lines are not the pieces of the text between its line breaks: {gotSegs.map String.ofList}"
          else verdict true []

def doc : Handler := fun req => do
  let inp ← field req "in"
  let impl ← field req "impl"
  let s ← chars (← field inp "s")
  let ls := docLinesOf s
  let attrs := docAttrs ls
  let model := Json.mkObj [("lines_joined", str (unlines ls)), ("attrs", strList attrs), ("printed", optStr (printedOf attrs))]
  let implCmp := Json.mkObj [("lines_joined", fieldD impl "lines_joined" Json.null), ("attrs", fieldD impl "attrs" Json.null), ("printed", fieldD impl "printed" Json.null)]
  let judge := judgeDoc impl (segments (unescapeNl s))
  let branch := if hasCr (unescapeNl s) then "cr" else if hasNl (unescapeNl s) then "multi-line" else "one-line"
  pure (Json.mkObj [("model", model), ("match", Json.bool (model == implCmp)), ("judge", judge), ("branch", Json.str branch)])

def opdoc : Handler := fun req => do
  let inp ← field req "in"
  let impl ← field req "impl"
  let ws := tableOf inp "ws"
  let summary := optChars inp "summary"
  let description := optChars inp "description"
  let m := (optChars inp "method").getD "GET".toList
  let p := (optChars inp "path").getD "/x".toList
  let ls := opDocLines ws summary description (some (m, p))
  let attrs := docAttrs ls
  let model := Json.mkObj [("lines_joined", str (unlines ls)), ("attrs", strList attrs), ("printed", optStr (printedOf attrs))]
  let implCmp := Json.mkObj [("lines_joined", fieldD impl "lines_joined" Json.null), ("attrs", fieldD impl "attrs" Json.null), ("printed", fieldD impl "printed" Json.null)]
  -- what must survive: the trimmed non-blank pieces of summary and description, then the path line
  let pieces (t : Option (List Char)) : List (List Char) := ((segments (t.getD [])).map (trimWs ws)).filter (fun l => !l.isEmpty)
  let want := pieces summary ++ pieces description ++ ["* Path: `".toList ++ m ++ [' '] ++ p ++ ['`']]
  -- leading / trailing white space of a doc line is not content (the builder trims; a part after a lone CR is not re-trimmed)
  let judge := judgeDoc impl want (trimWs ws)
  let branch := (if summary.isSome then "s" else "-") ++ (if description.isSome then "d" else "-")
  pure (Json.mkObj [("model", model), ("match", Json.bool (model == implCmp)), ("judge", judge), ("branch", Json.str branch)])

/-- `lex.decode` (C04, decoding clause): the support crate's `json_with_diagnostics` must answer `Ok` only for a body that IS a
JSON text (one value, white space around it) — the reference is Lean's own strict JSON parser; for the typed target
`Pet { name: String }` (unknown members denied) the value must moreover be exactly such an object -/
def decode : Handler := fun req => do
  let inp ← field req "in"
  let impl ← field req "impl"
  let body := (fieldD inp "body" (Json.str "")).getStr?.toOption.getD ""
  let typed := fieldD inp "ty" (Json.str "value") == Json.str "pet"
  let parsed := (Json.parse body).toOption
  let fits (j : Json) : Bool :=
    if !typed then true
    else match j with
      | .obj kvs => (kvs.toList.map (·.1)) == ["name"] && (match j.getObjVal? "name" with | .ok (.str _) => true | _ => false)
      | _ => false
  let want : Option Json := match parsed with | some j => if fits j then some j else none | none => none
  let model := match want with | some j => Json.mkObj [("ok", j)] | none => Json.mkObj [("err", Json.null)]
  let got := (impl.getObjVal? "ok").toOption
  let implNorm := match got with | some j => Json.mkObj [("ok", j)] | none => Json.mkObj [("err", Json.null)]
  let judge :=
    match got, want with
    | some _, none => verdict false [] s!"a body that is not a JSON text of the declared shape is decoded as if it were: {body.take 80}"
    | none, some _ => verdict false [] s!"a well-formed body of the declared shape is refused: {body.take 80}"
    | _, _ => verdict true []
  let branch := (if parsed.isSome then "json" else "not-json") ++ (if typed then "/typed" else "")
  pure (Json.mkObj [("model", model), ("match", Json.bool (model == implNorm)), ("judge", judge), ("branch", Json.str branch)])

def ops : List (String × Handler) := [("lex.escape", escape), ("lex.lit", lit), ("lex.doc", doc), ("lex.opdoc", opdoc), ("lex.decode", decode)]

end Oas3.Driver.Lex
