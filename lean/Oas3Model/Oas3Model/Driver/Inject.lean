import Oas3Model.Driver.Util
import Oas3Model.Model.Fmt
open Lean Oas3.Driver Oas3.Fmt

namespace Oas3.Driver.Inject

def sOf (j : Json) (k : String) : String := (fieldD j k (Json.str "")).getStr?.toOption.getD ""
def lOf (j : Json) (k : String) : List Json := (arr (fieldD j k (Json.arr #[]))).toOption.getD []

/-- documented normalisation of doc text: literal `\n` becomes a newline, text is split on lines (a lone carriage return
ends a line too, see `Lex.docAttrs`), each line trimmed -/
def docLines (s : String) : List String :=
  ((((s.replace "\\n" "\n").replace "\r\n" "\n").replace "\r" "\n").splitOn "\n").map (fun l => l.trimAscii.toString) |>.filter (!·.isEmpty)

/-- undo Rust string-literal escaping (`escape_default`-style) as used when a value is shown inside a doc example -/
def unescape : List Char → List Char
  | '\\' :: 'n' :: r => '\n' :: unescape r
  | '\\' :: 't' :: r => '\t' :: unescape r
  | '\\' :: 'r' :: r => '\r' :: unescape r
  | '\\' :: '0' :: r => Char.ofNat 0 :: unescape r
  | '\\' :: c :: r => c :: unescape r
  | c :: r => c :: unescape r
  | [] => []

def isInfixS (pat s : String) : Bool := (s.splitOn pat).length > 1 || pat.isEmpty

def run : Handler := fun req => do
  let inp ← field req "in"
  let impl ← field req "impl"
  let payload := sOf inp "payload"
  let pos := sOf inp "position"
  let derivesIdent := (fieldD inp "derives_ident" (Json.bool false)) == Json.bool true
  let carrier := sOf inp "carrier"      -- "doc" | "lit" | "either"
  -- an annotation of one of two same-shaped INLINE object schemas: the schema-identity key contains the annotations
  -- (finding F19-3), so the edit splits the shared struct in two
  let inlineTwin := sOf inp "twin" == "inline"
  if (impl.getObjVal? "both_failed").toOption.isSome then
    return Json.mkObj [("model", Json.null), ("match", true), ("judge", verdict true [] "both the inert and the payload spec are rejected"), ("branch", "both-failed")]
  if (impl.getObjVal? "panic").toOption.isSome || (impl.getObjVal? "payload_failed").toOption.isSome then
    let msg := (fieldD impl "payload_failed" (fieldD impl "panic" (Json.str ""))).compress
    let known := if isInfixS "expected identifier" msg || isInfixS "is not a valid Ident" msg || isInfixS "cannot be a raw identifier" msg || isInfixS "Ident" msg then (if derivesIdent then ["KnownIdentFromText"] else []) else []
    return Json.mkObj [("model", Json.null), ("match", true), ("judge", verdict false known s!"the payload makes generation fail/panic: {msg.take 200}"), ("branch", "payload-failed")]
  let files := lOf impl "files"
  let wholeText : List String := files.flatMap fun f => ((lOf f "lits").filterMap fun x => x.getStr?.toOption)
  let docText : List String := files.flatMap fun f => ((lOf f "docs").filterMap fun x => x.getStr?.toOption)
  let fmtLits : List String := files.flatMap fun f => ((lOf f "fmt_lits").filterMap fun x => x.getStr?.toOption)
  let judge := Id.run do
    for f in files do
      if (f.getObjVal? "payload_parse_error").toOption.isSome then return verdict false [] s!"emitted {sOf f "file"} does not parse with the payload"
      if (f.getObjVal? "missing_in_payload").toOption.isSome then return verdict false [] "a file disappeared"
      if derivesIdent then
        if (fieldD f "shape_equal" (Json.bool true)) != Json.bool true then
          return verdict false [] s!"payload at {pos} changes the SHAPE of {sOf f "file"} (items/members/attributes), not only names and literals: {(fieldD f "shape_diff" Json.null).compress.take 400}"
      else
        if (fieldD f "skel_equal" (Json.bool true)) != Json.bool true then
          return verdict false (if inlineTwin then ["KnownAnnotationSplitsInlineType"] else []) s!"payload at {pos} changes code outside literals/docs in {sOf f "file"}: {(fieldD f "first_diff" Json.null).compress.take 300}"
    -- format-string positions: a literal used as a format string must print itself
    -- (the literal carries the payload raw or brace-escaped; what it PRINTS must contain the payload)
    let escaped := String.ofList (escapeBraces payload.toList)
    let badFmt := fmtLits.filter fun l => (isInfixS payload l || isInfixS escaped l) &&
      (match fmtRender l.toList with | some x => !isInfixS payload (String.ofList x) | none => true)
    if !badFmt.isEmpty then
      return verdict false ["KnownDisplayFormatString"] s!"spec text is used as a FORMAT STRING and is not brace-safe: {badFmt.take 2}"
    -- recoverable: byte-for-byte in a string literal, or (doc carrier) modulo the documented line normalisation
    let inLit := wholeText.any (isInfixS payload ·)
    let want := docLines payload
    let allDoc := (docText.flatMap docLines)
    let inDocEscaped := docText.any fun d => isInfixS payload (String.ofList (unescape d.toList))
    let inDoc := (!want.isEmpty && want.all fun w => allDoc.any (isInfixS w ·)) || inDocEscaped
    let found := match carrier with
      | "lit" => inLit
      | "doc" => inDoc || inLit
      | "none" => true
      | _ => inLit || inDoc
    if !found then return verdict false (if carrier == "doc" && payload.any (fun c => c.toNat < 32 && c != '\n') then ["KnownDocControlChars"] else []) s!"payload at {pos} is not recoverable from the output's literals/docs"
    return verdict true []
  let branch := pos ++ (if derivesIdent then "+id" else "")
  pure (Json.mkObj [("model", Json.null), ("match", true), ("judge", judge), ("branch", branch)])

def ops : List (String × Handler) := [("inject.pair", run)]

end Oas3.Driver.Inject
