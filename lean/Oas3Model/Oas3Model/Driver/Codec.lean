import Oas3Model.Driver.Util
import Oas3Model.Sem.Codec
import Oas3Model.Sem.Union
import Oas3Model.Model.Naming
import Oas3Model.Gen.Naming
open Lean Oas3.Driver Oas3.Codec

/-! Driver ops of property C02: `codec.type` (tie E: the emitted type, judged through `Sem`) and
`codec.run` (tie A: observed behaviour of the compiled type, judged directly). -/
namespace Oas3.Driver.Codec

/-- canonical decimal: strip trailing zeros of the mantissa -/
partial def normNum (m : Int) (e : Nat) : Int × Nat :=
  if e = 0 then (m, 0) else if m % 10 = 0 then normNum (m / 10) (e - 1) else (m, e)

partial def ofJson : Json → J
  | .null => .null
  | .bool b => .bool b
  | .num n => let p := normNum n.mantissa n.exponent; .num p.1 p.2
  | .str s => .str s.toList
  | .arr a => .arr (a.toList.map ofJson)
  | .obj m => .obj (m.toList.map fun (k, v) => (k.toList, ofJson v))

partial def toJson : J → Json
  | .null => .null
  | .bool b => .bool b
  | .num m e => .num ⟨m, e⟩
  | .str s => str s
  | .arr xs => Json.arr (xs.map toJson).toArray
  | .obj kvs => Json.mkObj (kvs.map fun (k, v) => (String.ofList k, toJson v))

def intFmtOf : String → Option IntFmt
  | "int8" => some .i8 | "int16" => some .i16 | "int32" => some .i32 | "int64" => some .i64
  | "uint8" => some .u8 | "uint16" => some .u16 | "uint32" => some .u32 | "uint64" => some .u64
  | _ => none

mutual
partial def schemaOf (j : Json) : Except String S := do
  match (← (← field j "k").getStr?) with
  | "str" =>
    match fieldD j "f" Json.null with
    | .str "float" => pure (.strFloat true)
    | .str "double" => pure (.strFloat false)
    | .str "byte" => pure .strBytes
    | .str "binary" => pure .strBytes
    | .str f => pure (match intFmtOf f with | some i => .strNum i | none => .str)
    | _ => pure .str
  | "int" => pure (.int (match fieldD j "f" Json.null with | .str f => intFmtOf f | _ => none))
  | "num" => pure (.num (fieldD j "f32" (Json.bool false) == Json.bool true))
  | "bool" => pure .bool
  | "single" => pure (.single (← chars (← field j "v")))
  | "enum" => pure (.enum ((← arr (← field j "vals")).map ofJson))
  | "arr" => pure (.arr (← schemaOf (← field j "s")))
  | "map" => pure (.map (← schemaOf (← field j "s")))
  | "nullable" => pure (.nullable (← schemaOf (← field j "s")))
  | "obj" =>
    let ps ← propsOf (← arr (← field j "props"))
    let addl ← match ← field j "addl" with
      | .str "closed" => pure Addl.closed
      | .str "absent" => pure Addl.absent
      | a => do pure (Addl.typed (← schemaOf a))
    pure (.obj ps addl)
  | k => throw s!"schema kind {k}"
partial def propsOf : List Json → Except String Props
  | [] => pure .nil
  | p :: r => do
    let n ← chars (← field p "n")
    let s ← schemaOf (← field p "s")
    let req ← boolOf (← field p "req")
    let d := match s with
      | .single v => some v          -- the single value IS the member's default
      | _ => match fieldD p "d" Json.null with | .str x => some x.toList | _ => none
    pure (.cons n s req d (← propsOf r))
end

def primRanges : List (String × (Int × Int)) :=
  [("i8", IntFmt.i8.range), ("i16", IntFmt.i16.range), ("i32", IntFmt.i32.range), ("i64", IntFmt.i64.range),
   ("u8", IntFmt.u8.range), ("u16", IntFmt.u16.range), ("u32", IntFmt.u32.range), ("u64", IntFmt.u64.range)]

def variantJson (v : Variant) : Json :=
  Json.mkObj [("name", str v.name), ("wire", str v.wire), ("aliases", strList v.aliases)]

mutual
partial def tyJson : Ty → Json
  | .string => Json.mkObj [("k", "string")]
  | .int lo hi =>
    let p := match primRanges.find? (fun x => x.2 == (lo, hi)) with | some x => x.1 | none => s!"int[{lo},{hi}]"
    Json.mkObj [("k", "int"), ("p", Json.str p)]
  | .float f => Json.mkObj [("k", "float"), ("f32", Json.bool f)]
  | .bool => Json.mkObj [("k", "bool")]
  | .option t => Json.mkObj [("k", "option"), ("t", tyJson t)]
  | .vec t => Json.mkObj [("k", "vec"), ("t", tyJson t)]
  | .map t => Json.mkObj [("k", "map"), ("t", tyJson t)]
  | .enum vs => Json.mkObj [("k", "enum"), ("vs", Json.arr (vs.map variantJson).toArray)]
  | .struct fs flat deny cdef skip =>
    Json.mkObj [("k", "struct"), ("fs", Json.arr (fieldsJson fs).toArray),
      ("flat", match flat with | .none => Json.null | .some t => tyJson t),
      ("deny", Json.bool deny), ("cdefault", Json.bool cdef), ("skipNone", Json.bool skip)]
  | .other => Json.mkObj [("k", "other")]
partial def fieldsJson : Fields → List Json
  | .nil => []
  | .cons i w t d r =>
    Json.mkObj [("ident", str i), ("wire", str w), ("t", tyJson t), ("d", optStr d)] :: fieldsJson r
end

mutual
partial def tyOf (j : Json) : Except String Ty := do
  match (← (← field j "k").getStr?) with
  | "string" => pure .string
  | "int" =>
    let p ← (← field j "p").getStr?
    match primRanges.lookup p with
    | some r => pure (.int r.1 r.2)
    | none => pure .other
  | "float" => pure (.float (fieldD j "f32" (Json.bool false) == Json.bool true))
  | "bool" => pure .bool
  | "option" => pure (.option (← tyOf (← field j "t")))
  | "vec" => pure (.vec (← tyOf (← field j "t")))
  | "map" => pure (.map (← tyOf (← field j "t")))
  | "enum" =>
    let vs ← (← arr (← field j "vs")).mapM fun v => do
      pure (Variant.mk (← chars (← field v "name")) (← chars (← field v "wire")) (← charsList (← field v "aliases")))
    pure (.enum vs)
  | "struct" =>
    let fs ← fieldsOfJson (← arr (← field j "fs"))
    let flat ← match ← field j "flat" with
      | .null => pure Flat.none
      | t => do pure (Flat.some (← tyOf t))
    pure (.struct fs flat (← boolOf (← field j "deny")) (← boolOf (← field j "cdefault")) (← boolOf (← field j "skipNone")))
  | _ => pure .other
partial def fieldsOfJson : List Json → Except String Fields
  | [] => pure .nil
  | f :: r => do
    let d := match fieldD f "d" Json.null with | .str x => some x.toList | _ => none
    pure (.cons (← chars (← field f "ident")) (← chars (← field f "wire")) (← tyOf (← field f "t")) d (← fieldsOfJson r))
end

/-- `to_rust_field_name` (ASCII names: `any_ascii` is the identity) -/
def fnameReal : Str → Str := Oas3.Naming.toRustFieldName Oas3.Gen.forbidden (fun c => [c])

/-- `NormalizedVariant::name` -/
def vnameReal : J → Str
  | .str s => Oas3.Naming.toRustTypeName Oas3.Gen.prelude (fun c => [c]) s
  | .num m 0 => "Value".toList ++ (showInt m).map (fun c => if c == '-' || c == '.' then '_' else c)
  | .bool true => "True".toList
  | .bool false => "False".toList
  | _ => []

def dedupStr (l : List String) : List String := l.foldl (fun acc x => if acc.contains x then acc else acc ++ [x]) []

structure DocCase where
  doc : J
  pyValid : Bool
  deriving Inhabited

def docsOf (inp : Json) : Except String (List DocCase) := do
  (← arr (← field inp "docs")).mapM fun d => do
    pure ⟨ofJson (← field d "doc"), ← boolOf (← field d "valid")⟩

/-- evaluate the judge on every document; `res i` = what the implementation does with document `i`
(through `Sem` for tie E, observed for tie A) -/
def judgeAll (s : S) (docs : List DocCase) (res : DocCase → Option J) : Json :=
  let bad := docs.filter fun d => !(judgeRun s d.doc (res d)) || (valid false s d.doc != d.pyValid)
  match bad with
  | [] => verdict true []
  | _ =>
    let disagree := bad.filter fun d => valid false s d.doc != d.pyValid
    let per := bad.map fun d => ((classes fnameReal vnameReal s d.doc).map Known.name)
    -- a failing document without a class makes the whole case an unlisted failure
    let known := if !disagree.isEmpty || per.any List.isEmpty then [] else dedupStr per.flatten
    let d0 := bad.head!
    let why := if !disagree.isEmpty then s!"validator disagreement (model valid={valid false s disagree.head!.doc}) on {(toJson disagree.head!.doc).compress}"
      else s!"{bad.length} document(s) fail, e.g. {(toJson d0.doc).compress} (valid={valid false s d0.doc}) -> {match res d0 with | some o => (toJson o).compress | none => "Err"}"
    verdict false known why

def branchOf (s : S) (docs : List DocCase) : String :=
  let cls := dedupStr ((docs.map fun d => (classes fnameReal vnameReal s d.doc).map Known.name).flatten)
  if cls.isEmpty then "clean" else String.intercalate "+" cls

def typeH : Handler := fun req => do
  let inp ← field req "in"
  let s ← schemaOf (← field inp "schema")
  let docs ← docsOf inp
  let impl ← field req "impl"
  let m := typeOf fnameReal vnameReal s
  let model := Json.mkObj [("ty", tyJson m)]
  let judge ← match impl.getObjVal? "ty" with
    | .ok tj => do
      let t ← tyOf tj
      pure (judgeAll s docs (fun d => rt t d.doc))
    | .error _ => pure (verdict false [] s!"no type emitted: {impl.compress}")
  pure (answer model impl judge (branchOf s docs))

def runJson (pyValid : Bool) (r : Option J) : Json :=
  match r with
  | some o => if pyValid then Json.mkObj [("ok", true), ("out", toJson o)] else Json.mkObj [("ok", true)]
  | none => Json.mkObj [("ok", false)]

def runH : Handler := fun req => do
  let inp ← field req "in"
  let s ← schemaOf (← field inp "schema")
  let docs ← docsOf inp
  let impl ← field req "impl"
  let t := typeOf fnameReal vnameReal s
  let model := Json.mkObj [("runs", Json.arr (docs.map fun d => runJson d.pyValid (rt t d.doc)).toArray)]
  let judge ← match impl.getObjVal? "runs" with
    | .ok rj => do
      let rs ← arr rj
      if rs.length != docs.length then pure (verdict false [] "run count differs")
      else
        let obs : List (Option J) := rs.map fun r =>
          if fieldD r "ok" (Json.bool false) == Json.bool true then some (ofJson (fieldD r "out" Json.null)) else none
        let idx := (List.range docs.length).zip (docs.zip obs)
        -- judge document by document on the OBSERVED result
        let bad := idx.filter fun (_, d, o) =>
          (if d.pyValid then !(judgeRun s d.doc o) else (!valid true s d.doc && o.isSome)) || (valid false s d.doc != d.pyValid)
        match bad with
        | [] => pure (verdict true [])
        | (_, d0, o0) :: _ =>
          let per := bad.map fun (_, d, _) => ((classes fnameReal vnameReal s d.doc).map Known.name)
          let disagree := bad.any fun (_, d, _) => valid false s d.doc != d.pyValid
          let known := if disagree || per.any List.isEmpty then [] else dedupStr per.flatten
          pure (verdict false known s!"{bad.length} document(s) fail on the compiled type, e.g. {(toJson d0.doc).compress} -> {match o0 with | some o => (toJson o).compress | none => "Err"}")
    | .error _ => pure (verdict false [] s!"no runs: {impl.compress}")
  -- numbers are compared as canonical decimals (`3.0` = `3`)
  let implCanon := match impl.getObjVal? "runs" with
    | .ok (.arr rs) => Json.mkObj [("runs", Json.arr (rs.map fun r =>
        match r.getObjVal? "out" with
        | .ok o => Json.mkObj [("ok", fieldD r "ok" Json.null), ("out", toJson (ofJson o))]
        | .error _ => r))]
    | _ => impl
  pure (answer model implCanon judge (branchOf s docs))


/-! ### untagged unions: `codec.union` (tie E) and `codec.urun` (tie A) -/

def altOf (j : Json) : Except String Alt := do
  match j.getObjVal? "free" with
  | .ok (.str "obj") => pure (.free .obj)
  | .ok (.str "objNull") => pure (.free .objNull)
  | .ok (.str "objClosed") => pure (.free .objClosed)
  | .ok (.str "any") => pure (.free .any)
  | .ok x => throw s!"free kind {x.compress}"
  | .error _ =>
  match j.getObjVal? "const" with
  | .ok c => pure (.const (← chars c))
  | .error _ =>
    match j.getObjVal? "s" with
    | .ok s => do pure (.sch (← schemaOf s))
    | .error _ => pure .null

def uvarJson : UVar → Json
  | .unit w => Json.mkObj [("unit", str w)]
  | .newtype t => Json.mkObj [("newtype", tyJson t)]
  | .value => Json.mkObj [("newtype", Json.mkObj [("k", "value")])]

def uvarOf (j : Json) : Except String UVar := do
  match j.getObjVal? "unit" with
  | .ok w => pure (.unit (← chars w))
  | .error _ => do
    let t ← field j "newtype"
    if fieldD t "k" Json.null == Json.str "value" then pure .value else pure (.newtype (← tyOf t))

def classNamesU (oneOf : Bool) (alts : List Alt) (d : J) : List String :=
  (classesU fnameReal vnameReal oneOf alts d).map KnownU.name ++
  (alts.flatMap fun a => match a with
    | .sch s => if valid true s d || (rt (typeOf fnameReal vnameReal s) d).isSome then (classes fnameReal vnameReal s d).map Known.name else []
    | _ => [])

def judgeAllU (oneOf : Bool) (alts : List Alt) (docs : List DocCase) (res : DocCase → Option J) (strictOut : Bool) : Json :=
  let fails := fun (d : DocCase) =>
    if strictOut || d.pyValid then !(judgeRunU oneOf alts d.doc (res d))
    else (!(alts.any fun a => validAlt true a d.doc) && (res d).isSome)
  let bad := docs.filter fun d => fails d || (validU oneOf false alts d.doc != d.pyValid)
  match bad with
  | [] => verdict true []
  | d0 :: _ =>
    let disagree := bad.filter fun d => validU oneOf false alts d.doc != d.pyValid
    let per := bad.map fun d => classNamesU oneOf alts d.doc
    let known := if !disagree.isEmpty || per.any List.isEmpty then [] else dedupStr per.flatten
    let why := if !disagree.isEmpty then s!"validator disagreement (model valid={validU oneOf false alts disagree.head!.doc}) on {(toJson disagree.head!.doc).compress}"
      else s!"{bad.length} document(s) fail: " ++ String.intercalate "; " ((bad.take 6).map fun d =>
        s!"{(toJson d.doc).compress} (valid={validU oneOf false alts d.doc}) -> {match res d with | some o => (toJson o).compress | none => "Err"} {classNamesU oneOf alts d.doc}")
    let _ := d0
    verdict false known why

def branchOfU (oneOf : Bool) (alts : List Alt) (docs : List DocCase) : String :=
  let cls := dedupStr ((docs.map fun d => classNamesU oneOf alts d.doc).flatten)
  "union:" ++ (if cls.isEmpty then "clean" else String.intercalate "+" cls)

def unionInputs (req : Json) : Except String (Bool × List Alt × List DocCase) := do
  let inp ← field req "in"
  let alts ← (← arr (← field inp "alts")).mapM altOf
  pure (← boolOf (← field inp "oneOf"), alts, ← docsOf inp)

/-- the Known enum of a Known/Other pair may be an enum the document already has with the same value SET (type sharing, C13):
its variants then come in that enum's order.  Without aliases the order of unit variants has no effect on the codec: both sides are
compared with the variants of that enum sorted by wire name. -/
def canonKnown (j : Json) : Json :=
  match j.getObjVal? "ty" with
  | .ok ty =>
    match ty.getObjVal? "k", ty.getObjVal? "vs" with
    | .ok (.str "untagged"), .ok (.arr vs) =>
      match vs.toList with
      | [a, b] =>
        match a.getObjVal? "newtype" with
        | .ok en =>
          match en.getObjVal? "k", en.getObjVal? "vs" with
          | .ok (.str "enum"), .ok (.arr evs) =>
            let noAlias := evs.all fun v => match v.getObjVal? "aliases" with | .ok (.arr x) => x.isEmpty | _ => false
            if !noAlias then j else
            let sorted := evs.qsort (fun x y => (fieldD x "wire" Json.null).compress < (fieldD y "wire" Json.null).compress)
            let en' := Json.mkObj [("k", "enum"), ("vs", Json.arr sorted)]
            Json.mkObj [("ty", Json.mkObj [("k", "untagged"), ("vs", Json.arr #[Json.mkObj [("newtype", en')], b])])]
          | _, _ => j
        | .error _ => j
      | _ => j
    | _, _ => j
  | .error _ => j

def unionH : Handler := fun req => do
  let (oneOf, alts, docs) ← unionInputs req
  let impl ← field req "impl"
  let model := Json.mkObj [("ty", match rootOf fnameReal vnameReal oneOf alts with
    | .untagged m => Json.mkObj [("k", "untagged"), ("vs", Json.arr (m.map uvarJson).toArray)]
    | .plain vs => tyJson (.enum vs))]
  let judge ← match impl.getObjVal? "ty" with
    | .ok tj =>
      match tj.getObjVal? "vs", tj.getObjVal? "k" with
      | .ok (.arr vs), .ok (.str "untagged") => do
        let t ← vs.toList.mapM uvarOf
        pure (judgeAllU oneOf alts docs (fun d => rtU t d.doc) true)
      | .ok _, .ok (.str "enum") => do
        let t ← tyOf tj
        pure (judgeAllU oneOf alts docs (fun d => rt t d.doc) true)
      | _, _ => pure (verdict false [] s!"the root type is not an enum: {tj.compress}")
    | .error _ => pure (verdict false [] s!"no type emitted: {impl.compress}")
  let relaxed := !oneOf && relaxedPattern alts
  pure (if relaxed then answer (canonKnown model) (canonKnown impl) judge (branchOfU oneOf alts docs)
        else answer model impl judge (branchOfU oneOf alts docs))

def urunH : Handler := fun req => do
  let (oneOf, alts, docs) ← unionInputs req
  let impl ← field req "impl"
  let t := rootOf fnameReal vnameReal oneOf alts
  let model := Json.mkObj [("runs", Json.arr (docs.map fun d => runJson d.pyValid (rtRoot t d.doc)).toArray)]
  let judge ← match impl.getObjVal? "runs" with
    | .ok rj => do
      let rs ← arr rj
      if rs.length != docs.length then pure (verdict false [] "run count differs")
      else
        let obs : List (Option J) := rs.map fun r =>
          if fieldD r "ok" (Json.bool false) == Json.bool true then some (ofJson (fieldD r "out" Json.null)) else none
        let table := docs.zip obs
        let lookupObs := fun (d : DocCase) => match table.find? (fun p => (toJson p.1.doc).compress == (toJson d.doc).compress) with
          | some p => p.2 | none => none
        pure (judgeAllU oneOf alts docs lookupObs false)
    | .error _ => pure (verdict false [] s!"no runs: {impl.compress}")
  let implCanon := match impl.getObjVal? "runs" with
    | .ok (.arr rs) => Json.mkObj [("runs", Json.arr (rs.map fun r =>
        match r.getObjVal? "out" with
        | .ok o => Json.mkObj [("ok", fieldD r "ok" Json.null), ("out", toJson (ofJson o))]
        | .error _ => r))]
    | _ => impl
  pure (answer model implCanon judge (branchOfU oneOf alts docs))

def ops : List (String × Handler) := [("codec.type", typeH), ("codec.run", runH), ("codec.union", unionH), ("codec.urun", urunH)]

end Oas3.Driver.Codec
