import Oas3Model.Driver.Util
import Oas3Model.Model.Flags
open Lean Oas3.Driver Oas3.Flags

namespace Oas3.Driver.Flags

def sOf (j : Json) (k : String) : String := (fieldD j k (Json.str "")).getStr?.toOption.getD ""
def lOf (j : Json) (k : String) : List Json := (arr (fieldD j k (Json.arr #[]))).toOption.getD []
def strs (l : List Json) : List String := l.filterMap fun x => x.getStr?.toOption

def isBuilderAttrS (a : String) : Bool := a.startsWith "builder(" || a == "builder" || a == "bon::bon" || a.startsWith "bon("

/-- the wire skeleton of a struct/enum/type item as JSON (visibility, builder derive/attrs erased) -/
def skeleton (it : Json) : Json :=
  let kind := sOf it "kind"
  Json.mkObj [
    ("kind", kind), ("name", sOf it "name"),
    ("derives", Json.arr (((strs (lOf it "derives")).filter (· != "bon::Builder")).map Json.str).toArray),
    ("attrs", Json.arr (((strs (lOf it "attrs")).filter (!isBuilderAttrS ·)).map Json.str).toArray),
    ("ty", sOf it "ty"),
    ("fields", Json.arr ((lOf it "fields").map fun f => Json.mkObj [("name", sOf f "name"), ("ty", sOf f "ty"),
        ("attrs", Json.arr (((strs (lOf f "attrs")).filter (!isBuilderAttrS ·)).map Json.str).toArray)]).toArray),
    ("variants", Json.arr ((lOf it "variants").map fun v => Json.mkObj [("name", sOf v "name"), ("fields", fieldD v "fields" (Json.arr #[])), ("attrs", fieldD v "attrs" (Json.arr #[]))]).toArray)]


/-- rename identifiers (maximal runs of letters, digits, `_`) of a text -/
def renameIdents (m : List (String × String)) (s : String) : String :=
  let isId (c : Char) : Bool := c.isAlphanum || c == '_'
  let flush (cur : List Char) (out : List Char) : List Char :=
    if cur.isEmpty then out else
      let w := String.ofList cur.reverse
      let w' := (m.lookup w).getD w
      w'.toList.reverse ++ out
  let (cur, out) := s.toList.foldl (fun (acc : List Char × List Char) c =>
    if isId c then (c :: acc.1, acc.2) else ([], c :: flush acc.1 acc.2)) ([], [])
  String.ofList (flush cur out).reverse

/-- finding F18-2: a renaming of INLINE types (not component schemas) under which the two settings' type definitions
are identical — `some pairs` when the structs only in the base and only in the variant can be matched one to one so -/
def renamedInline (bSk vSk : List Json) : Option (List (String × String)) :=
  let nameOf (j : Json) : String := sOf j "name"
  let onlyB := bSk.filter fun b => !(vSk.any fun v => nameOf v == nameOf b && sOf v "kind" == sOf b "kind")
  let onlyV := vSk.filter fun v => !(bSk.any fun b => nameOf v == nameOf b && sOf v "kind" == sOf b "kind")
  if onlyB.isEmpty || onlyB.length != onlyV.length then none else
  let bn := onlyB.map nameOf
  let vn := onlyV.map nameOf
  let blank (names : List String) (j : Json) : String := renameIdents (names.map fun n => (n, "§")) j.compress
  -- pair each base-only type with the first unused variant-only type of the same shape (names blanked)
  let pairs := onlyB.foldl (fun (acc : List (String × String)) b =>
    match onlyV.find? (fun v => !(acc.any fun p => p.2 == nameOf v) && blank vn v == blank bn b) with
    | some v => acc ++ [(nameOf b, nameOf v)]
    | none => acc) []
  if pairs.length != onlyB.length then none else
  let renamedB := (bSk.map fun b => renameIdents pairs b.compress)
  let vS := vSk.map (·.compress)
  if renamedB.all (vS.contains ·) && vS.all (renamedB.contains ·) then some pairs else none

def isTypeItem (it : Json) : Bool := ["struct", "enum", "type"].contains (sOf it "kind")

def run : Handler := fun req => do
  let inp ← field req "in"
  let impl ← field req "impl"
  let cfg := fieldD inp "cfg" (Json.mkObj [])
  let baseCfg := fieldD inp "base_cfg" (Json.mkObj [])
  let flag (c : Json) (k : String) : Bool := fieldD c k (Json.bool false) == Json.bool true
  let wantVis := match sOf cfg "vis" with | "crate" => "pub(crate)" | "file" => "" | _ => "pub"
  if (impl.getObjVal? "err").toOption.isSome || (impl.getObjVal? "panic").toOption.isSome then
    return Json.mkObj [("model", Json.null), ("match", true), ("judge", verdict true [] "generation failed for this spec under both settings (judged by C12)"), ("branch", "failed")]
  let base := fieldD impl "base" Json.null
  let var := fieldD impl "var" Json.null
  let bItems := lOf base "items"
  let vItems := lOf var "items"
  -- (1) visibility of every item / field / inherent method / associated const in the variant
  let visBad : List String := vItems.flatMap fun it =>
    let kind := sOf it "kind"
    let nm := sOf it "name"
    let isHeaderConst := kind == "const" && sOf it "ty" == "http::HeaderName"
    -- F18-3: the `static REGEX_…: LazyLock<regex::Regex>` behind `#[validate(regex(path = …))]` is emitted without any visibility
    let isRegexStatic := kind == "static" && ((sOf it "ty").splitOn "regex::Regex").length > 1 && sOf it "vis" == ""
    (if ["struct", "enum", "type", "const", "static", "fn", "trait"].contains kind && sOf it "vis" != wantVis then [(if isHeaderConst then "HEADERCONST:" else if isRegexStatic then "REGEXSTATIC:" else "") ++ s!"{kind} {nm}: `{sOf it "vis"}`"] else []) ++
    (if kind == "struct" then (lOf it "fields").filterMap fun f => if sOf f "vis" != wantVis then some s!"field {nm}.{sOf f "name"}: `{sOf f "vis"}`" else none else []) ++
    (if kind == "impl" && (fieldD it "trait" Json.null) == Json.null then
      ((lOf it "methods").filterMap fun m => if sOf m "vis" != wantVis then some s!"method {nm}::{sOf m "name"}: `{sOf m "vis"}`" else none) ++
      ((strs (lOf it "assoc")).filterMap fun a => if wantVis == "" then (if a.startsWith "pub" then some s!"assoc {nm}: {a.take 30}" else none) else (if a.startsWith (wantVis ++ " const") || a.startsWith (wantVis ++ "const") then none else some s!"assoc {nm}: {a.take 40}"))
     else [])
  -- (2) wire skeletons identical
  let bSk := (bItems.filter isTypeItem).map skeleton
  let vSk := (vItems.filter isTypeItem).map skeleton
  let skDiff : List String := (bSk.filterMap fun b => match vSk.find? (fun v => sOf v "name" == sOf b "name" && sOf v "kind" == sOf b "kind") with
    | some v => if v == b then none else some s!"{sOf b "kind"} {sOf b "name"} differs"
    | none => some s!"{sOf b "kind"} {sOf b "name"} missing") ++
    (vSk.filterMap fun v => if bSk.any (fun b => sOf v "name" == sOf b "name" && sOf v "kind" == sOf b "kind") then none else some s!"{sOf v "kind"} {sOf v "name"} added")
  -- (2b) constants (header names, regexes) that exist under the base setting keep their type and value
  let consts (items : List Json) : List (String × String × String) := (items.filter fun it => sOf it "kind" == "const" || sOf it "kind" == "static").map fun it => (sOf it "name", sOf it "ty", sOf it "expr")
  let cV := consts vItems
  let constDiff : List String := (consts bItems).filterMap fun c => if cV.contains c then none else some s!"const {c.1}: {c.2.2} is no longer defined with this value"
  -- (3) items added/removed other than documented ones
  let key (it : Json) : String := s!"{sOf it "kind"} {sOf it "name"} {(fieldD it "trait" Json.null).compress}"
  let keysB := bItems.map key
  let keysV := vItems.map key
  let documentedExtra (it : Json) : Bool :=
    let kind := sOf it "kind"
    kind == "use" || (kind == "const" && sOf it "ty" == "http::HeaderName") || (kind == "impl" && (fieldD it "trait" Json.null) == Json.null) || kind == "other"
  let added := (vItems.filter fun it => !keysB.contains (key it) && !documentedExtra it).map key
  let removed := (bItems.filter fun it => !keysV.contains (key it) && !documentedExtra it).map key
  -- inherent impl methods: only helper constructors / builder constructors may differ
  let methodsOf (items : List Json) : List String := items.flatMap fun it =>
    if sOf it "kind" == "impl" && (fieldD it "trait" Json.null) == Json.null then (lOf it "methods").map fun m => s!"{sOf it "name"}::{sOf m "name"}" else []
  let mB := methodsOf bItems
  let mV := methodsOf vItems
  let helpersDiffer := flag cfg "no_helpers" != flag baseCfg "no_helpers"
  let buildersDiffer := flag cfg "builders" != flag baseCfg "builders"
  let mDiff := (mV.filter (!mB.contains ·)) ++ (mB.filter (!mV.contains ·))
  let mBad := if mDiff.isEmpty then [] else if helpersDiffer || buildersDiffer then [] else mDiff
  let headerOnly := !visBad.isEmpty && visBad.all (·.startsWith "HEADERCONST:")
  let regexOnly := !visBad.isEmpty && visBad.all (·.startsWith "REGEXSTATIC:")
  let judge :=
    if (fieldD var "parse_error" Json.null) != Json.null then verdict false [] "variant output does not parse"
    else if !skDiff.isEmpty then
      -- F18-2: with helper constructors the member structs of a union are converted EARLIER, and an inline array-item
      -- type shared by several holders takes its name from whichever holder is converted first
      let comps := strs (lOf inp "component_names")
      let cls := match renamedInline bSk vSk with
        | some pairs => if helpersDiffer && pairs.all (fun p => !comps.contains p.1 && !comps.contains p.2) then ["KnownHelperOrderRenamesInlineType"] else []
        | none => []
      verdict false cls s!"type definitions differ between the settings: {skDiff.take 4}"
    else if !constDiff.isEmpty then verdict false [] s!"constants change between the settings: {constDiff.take 3}"
    else if !added.isEmpty || !removed.isEmpty then verdict false [] s!"items added {added.take 3} / removed {removed.take 3} beyond the documented ones"
    else if !mBad.isEmpty then verdict false [] s!"inherent methods differ although helper/builder flags are equal: {mBad.take 4}"
    else if !visBad.isEmpty then verdict false (if headerOnly then ["KnownHeaderConstPub"] else if regexOnly then ["KnownRegexStaticPrivate"] else []) s!"items not carrying the requested visibility `{wantVis}`: {visBad.take 4}"
    else verdict true []
  let branch := s!"{sOf cfg "vis"}" ++ (if flag cfg "no_helpers" then "+nh" else "") ++ (if flag cfg "builders" then "+b" else "") ++ (if flag cfg "all_headers" then "+ah" else "") ++ "/" ++ sOf inp "mode"
  pure (Json.mkObj [("model", Json.null), ("match", true), ("judge", judge), ("branch", branch)])

/-- `flags.cli` (real binary, tie E-cli): `generate types` and the `types.rs` of `generate client-mod` under ONE flag setting
must be the same text once the crate-level `#![allow(..)]` lines of the single-file form are dropped; both runs succeed or
both fail -/
def cli : Handler := fun req => do
  let inp ← field req "in"
  let impl ← field req "impl"
  let rcT := (fieldD impl "rc_types" (Json.num 0)).compress
  let rcM := (fieldD impl "rc_mod" (Json.num 0)).compress
  let strip (t : String) : List String := (t.splitOn "\n").filter fun l => !(l.startsWith "#![allow(") 
  let a := strip (sOf impl "types")
  let b := strip (sOf impl "mod_types")
  let firstDiff := (a.zip b).find? fun p => p.1 != p.2
  let judge :=
    if rcT != rcM then verdict false [] s!"`generate types` exits {rcT}, `generate client-mod` exits {rcM} on the same document and flags"
    else if rcT != "0" then verdict true [] "both runs fail (judged by C12)"
    else if a == b then verdict true []
    else verdict false [] s!"`types` and client-mod/types.rs differ under {(fieldD inp "flags" Json.null).compress}: {a.length} vs {b.length} lines; first difference {match firstDiff with | some p => (p.1.take 100).toString ++ " <> " ++ (p.2.take 100).toString | none => "(one is a prefix of the other)"}"
  pure (Json.mkObj [("model", Json.null), ("match", true), ("judge", judge), ("branch", Json.str ((fieldD inp "flags" Json.null).compress ++ "/" ++ sOf inp "shape"))])

def ops : List (String × Handler) := [("flags.pair", run), ("flags.cli", cli)]

end Oas3.Driver.Flags
