import Oas3Model.Driver.Util
import Oas3Model.Driver.Resp
import Oas3Model.Driver.Server
import Oas3Model.Model.Server
open Lean Oas3.Driver Oas3.Resp Oas3.Status Oas3.Server

namespace Oas3.Driver.Interop

/-- what the server puts on the wire for a variant: (status, content-type the client will see) -/
def wireOf (json : Bool) : List Char := if json then "application/json".toList else []

/-- the client reads an absent Content-Type as application/json -/
def seenCt (ct : List Char) : List Char := if ct.isEmpty then "application/json".toList else ct

def run : Handler := fun req => do
  let inp ← field req "in"
  let responses ← Oas3.Driver.Resp.responsesOf (← field inp "responses")
  let impl ← field req "impl"
  let keys := (sortKeys responses).map (·.1)
  -- model: both halves from the one responses object
  let mch := chainOf responses
  let marms := armsOf responses
  let modelRound := match mch with
    | some ch => Json.arr (marms.map fun a =>
        let got := evalChain ch a.status (seenCt (wireOf a.json))
        Json.arr #[str a.variant, Json.num a.status, str got.variant]).toArray
    | none => Json.null
  -- implementation: the two separately generated halves
  let ich := (Oas3.Driver.Resp.chainOfJson (fieldD impl "chain" Json.null)).toOption
  let tableJ := (arr (fieldD impl "table" (Json.arr #[]))).toOption.getD []
  let iarms : List (List Char × Option Nat × Bool) := tableJ.map fun a =>
    ((Oas3.Driver.Server.strOf a "variant").toList, Oas3.Driver.Server.statusNum (fieldD a "status" Json.null), Oas3.Driver.Server.strOf a "body" == "json")
  let implRound := match ich with
    | some ch => Json.arr (iarms.map fun (v, st, js) =>
        match st with
        | some n => Json.arr #[str v, Json.num n, str (evalChain ch n (seenCt (wireOf js))).variant]
        | none => Json.arr #[str v, Json.null, Json.null]).toArray
    | none => Json.null
  let shapesEq := fieldD impl "client_shape" Json.null == fieldD impl "server_shape" Json.null
  let matched := modelRound == implRound
  let vs := variantsOf responses
  let judge := Id.run do
    if (impl.getObjVal? "panic").toOption.isSome || (impl.getObjVal? "err").toOption.isSome then
      return verdict false (if keys.any (fun k => !canonicalKey k) then ["KnownNonCanonicalKey"] else []) "generation failed/panicked on one side"
    if responses.isEmpty then return verdict true []
    let some ch := ich | return verdict false [] "client has no parse_response chain"
    if !shapesEq then return verdict false [] "client and server type files define different wire shapes (fields/renames/variants)"
    let mut known : List String := []
    let mut why := ""
    for (v, st, js) in iarms do
      let some n := st | return verdict false [] "unreadable status in IntoResponse"
      let got := evalChain ch n (seenCt (wireOf js))
      let mv := vs.find? (fun x => x.name == v)
      if got.variant != v then
        why := s!"server variant {String.ofList v} is sent as {n} and parsed by the client as {String.ofList got.variant}"
        let cls := match mv with
          | some x =>
            if vs.any (fun y => y.name != x.name && y.tok == x.tok && (primaryCat y.medias == primaryCat x.medias || x.schemaType.isSome)) && got.variant != v && (vs.find? (fun y => y.name == got.variant)).map (·.tok) == some x.tok then "KnownSameStatusVariants"
            else if isDefault x.tok then "KnownDefaultIs200"
            else if (code x.tok).isNone &&
                (match x.tok with | .named t => statusOkFor ((lookup t Oas3.Gen.Status.asStrTbl).getD "default".toList) n | _ => false) then "KnownRangeIsFirstCode"
            else if !(keys.all canonicalKey) then "KnownNonCanonicalKey"
            else if x.medias.length > 0 && primaryCat x.medias != .json then "KnownAlwaysJson"
            else ""
          | none => ""
        if cls == "" then return verdict false [] why
        if !known.contains cls then known := known ++ [cls]
      else
        -- same variant: the payload must be decoded the way it was encoded
        if js && got.extract != "json".toList then
          why := s!"variant {String.ofList v}: server encodes the payload as JSON, client reads it as {String.ofList got.extract}"
          if !known.contains "KnownAlwaysJson" then known := known ++ ["KnownAlwaysJson"]
        if js != got.payload then return verdict false [] s!"variant {String.ofList v}: payload present on one side only"
    if known.isEmpty then return verdict true [] else return verdict false known why
  let branch := s!"k{keys.length}" ++ (if vs.any (fun v => isDefault v.tok) then "+d" else "") ++ (if vs.any (fun v => (code v.tok).isNone && !isDefault v.tok) then "+r" else "")
  pure (Json.mkObj [("model", modelRound), ("match", matched), ("judge", judge), ("branch", if keys.isEmpty then "trivial" else branch), ("impl_proj", implRound)])

def ops : List (String × Handler) := [("interop.resp", run)]

end Oas3.Driver.Interop
