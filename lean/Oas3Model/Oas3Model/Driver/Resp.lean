import Oas3Model.Driver.Util
import Oas3Model.Model.Responses
open Lean Oas3.Driver Oas3.Status Oas3.Resp

namespace Oas3.Driver.Resp

def condOfJson (j : Json) : Except String CondE := do
  let k ← (← field j "k").getStr?
  match k with
  | "true" => pure .tt
  | "false" => pure .ff
  | "range" => pure (.range (← chars (← field j "p")))
  | "const" => pure (.const (← chars (← field j "name")))
  | "u16" => pure (.u16 (← natOf (← field j "n")))
  | _ => pure (.other (← chars (fieldD j "text" (Json.str ""))))

partial def checkOfJson (j : Json) : Except String CheckE := do
  match j with
  | .obj _ =>
    if let .ok v := j.getObjVal? "contains" then return .contains (← chars v)
    if let .ok v := j.getObjVal? "starts_with" then return .startsWith (← chars v)
    if let .ok v := j.getObjVal? "not" then return .not (← checkOfJson v)
    if let .ok (.arr #[a, b]) := j.getObjVal? "and" then return .and (← checkOfJson a) (← checkOfJson b)
    if let .ok (.arr #[a, b]) := j.getObjVal? "or" then return .or (← checkOfJson a) (← checkOfJson b)
    if let .ok v := j.getObjVal? "other" then return .other (← chars v)
    throw "check shape"
  | _ => throw "check shape"

def caseOfJson (j : Json) : Except String Case := do
  let v := match j.getObjVal? "variant" with | .ok (.str s) => s.toList | _ => []
  pure { variant := v, payload := (← boolOf (← field j "payload")), extract := (← chars (← field j "extract")), ty := (← chars (← field j "ty")) }

def chainOfJson (j : Json) : Except String Chain := do
  let hs ← arr (← field j "handlers")
  let handlers ← hs.mapM fun h => do
    let c ← condOfJson (← field h "cond")
    match h.getObjVal? "single" with
    | .ok s => pure (c, Body.single (← caseOfJson s))
    | .error _ =>
      let ds ← arr (← field h "dispatch")
      let cases ← ds.mapM fun d => do pure ((← checkOfJson (← field d "check")), (← caseOfJson d))
      pure (c, Body.dispatch cases)
  pure { handlers, fallback := (← caseOfJson (← field j "fallback")) }

def condJson : CondE → Json
  | .tt => Json.mkObj [("k", "true")]
  | .ff => Json.mkObj [("k", "false")]
  | .range p => Json.mkObj [("k", "range"), ("p", str p)]
  | .const n => Json.mkObj [("k", "const"), ("name", str n)]
  | .u16 n => Json.mkObj [("k", "u16"), ("n", n)]
  | .other t => Json.mkObj [("k", "other"), ("text", str t)]

def checkJson : CheckE → Json
  | .contains s => Json.mkObj [("contains", str s)]
  | .startsWith s => Json.mkObj [("starts_with", str s)]
  | .and a b => Json.mkObj [("and", Json.arr #[checkJson a, checkJson b])]
  | .or a b => Json.mkObj [("or", Json.arr #[checkJson a, checkJson b])]
  | .not a => Json.mkObj [("not", checkJson a)]
  | .other t => Json.mkObj [("other", str t)]

def caseJson (c : Case) : List (String × Json) :=
  [("variant", str c.variant), ("payload", c.payload), ("extract", str c.extract), ("ty", str c.ty)]

def chainJson (ch : Chain) : Json :=
  Json.mkObj [
    ("handlers", Json.arr (ch.handlers.map fun (c, b) =>
      match b with
      | .single k => Json.mkObj [("cond", condJson c), ("single", Json.mkObj (caseJson k))]
      | .dispatch cs => Json.mkObj [("cond", condJson c), ("dispatch", Json.arr (cs.map fun (chk, k) => Json.mkObj (caseJson k ++ [("check", checkJson chk)])).toArray)]).toArray),
    ("fallback", Json.mkObj (caseJson ch.fallback))]

def mediaDeclOf (j : Json) : Except String MediaDecl := do
  match j with
  | .arr #[ct, sch] =>
    let ct ← chars ct
    match sch with
    | .null => pure { ct, schema := none }
    | .str "string" => pure { ct, schema := some "String".toList, stringLike := true }
    | .str "integer" => pure { ct, schema := some "i64".toList }
    | .str "boolean" => pure { ct, schema := some "bool".toList }
    | .str "number" => pure { ct, schema := some "f64".toList }
    | .str s => if s.startsWith "ref:" then pure { ct, schema := some (s.drop 4).toString.toList, custom := true } else throw "schema kind"
    | _ => throw "schema kind"
  | _ => throw "media decl"

def responsesOf (j : Json) : Except String (List (List Char × List MediaDecl)) := do
  let rs ← arr j
  rs.mapM fun r => match r with
    | .arr #[k, ms] => do pure ((← chars k), (← (← arr ms).mapM mediaDeclOf))
    | _ => throw "response entry"

def probes : List (List Char) :=
  ["application/json", "text/plain", "application/xml", "application/octet-stream", "text/event-stream", "image/png",
   "application/x-www-form-urlencoded", "multipart/form-data", "application/problem+json; charset=utf-8", "weird",
   "application/json; charset=utf-8", "application/vnd.api+json", "application/vnd.api+json;v=2", "text/plain; charset=utf-8",
   "application/soap+xml; charset=utf-8", "text/event-stream; charset=utf-8", "application/octet-stream; x=1"].map String.toList

/-- declared key of a variant: first doc line up to the first ':' -/
def docKey (docs : List Json) : List Char :=
  match docs with
  | .str d :: _ => (d.toList.takeWhile (· != ':')).dropWhile (· == ' ')
  | _ => []

def run : Handler := fun req => do
  let inp ← field req "in"
  let responses ← responsesOf (← field inp "responses")
  let impl ← field req "impl"
  let keys := (sortKeys responses).map (·.1)
  let modelChain := chainOf responses
  let modelJson := match modelChain with | some ch => chainJson ch | none => Json.null
  let implChainJ := fieldD impl "chain" Json.null
  let implChain := (chainOfJson implChainJ).toOption
  let matched := match modelChain, implChain with
    | some a, some b => a == b
    | none, none => implChainJ == Json.null
    | _, _ => false
  -- variant -> declared key (from the enum's doc comments, a different emission site than the chain)
  let variants := (arr (fieldD impl "variants" (Json.arr #[]))).toOption.getD []
  let vkey (name : List Char) : Option (List Char) :=
    (variants.find? fun v => (v.getObjValAs? String "name").toOption == some (String.ofList name)).map fun v =>
      docKey ((arr (fieldD v "docs" (Json.arr #[]))).toOption.getD [])
  let nonCanon := keys.any (fun k => !canonicalKey k)
  let identOk (s : List Char) : Bool := match s with | c :: r => c.isAlpha && r.all (fun c => c.isAlphanum || c == '_') | [] => false
  let modelBadIdent := match modelChain with
    | some mch => (mch.handlers.any fun (_, b) => match b with
        | .single k => !identOk k.variant
        | .dispatch cs => cs.any fun (_, k) => !identOk k.variant) || !identOk mch.fallback.variant
    | none => false
  -- the panic comes from building the ENUM: every variant counts, also the ones the chain never reaches
  let modelBadIdent := modelBadIdent || (variantsOf responses).any fun v => !identOk v.name
  let matched := matched || (modelBadIdent && (impl.getObjVal? "panic").toOption.isSome)
  let judge := Id.run do
    if (impl.getObjVal? "panic").toOption.isSome then
      return verdict false (if modelBadIdent then ["KnownVariantSuffixPanic"] else []) "generator panicked while emitting the response enum"
    let some ch := implChain | return (if responses.isEmpty && implChainJ == Json.null then verdict true [] else verdict false [] "no parse_response chain emitted for an operation with responses")
    -- every wrong (status, content type) pair is looked at on its own: it is the known content-type fall-through
    -- only if the MODEL chain gives the same wrong answer for that very pair, through a dispatch block without a hit
    let mut bad : Option (Nat × List Char × List Char × List Char) := none          -- first unexplained pair
    let mut badKnown : Option (Nat × List Char × List Char × List Char) := none     -- first explained pair
    for n in List.range 500 do
      let n := n + 100
      let want := specKey keys n
      for ct in probes do
        let got := evalChain ch n ct
        let gk := (vkey got.variant).getD []
        -- synthetic Unknown variant documents itself as `default`
        if lowerAscii gk != lowerAscii want then
          let explained := match modelChain with
            | some mch =>
              evalChain mch n ct == got &&
                mch.handlers.any fun (c, b) => evalCond n c && (match b with | .dispatch cs => (firstCase ct cs).isNone | _ => false)
            | none => false
          if explained then
            if badKnown.isNone then badKnown := some (n, ct, want, got.variant)
          else
            if bad.isNone then bad := some (n, ct, want, got.variant)
    -- second clause, WITHIN a status: an answer carrying a declared media type (bare or with a parameter) is given
    -- the variant declared for that media type. Expected variant = the model's variant of that key whose payload
    -- group contains the declaration; only canonical keys, only concrete media types.
    let vsM := variantsOf responses
    let mut badV : Option String := none
    let mut badVKnown : Option String := none
    if bad.isNone then
      for (key, decls) in sortKeys responses do
        if canonicalKey key && badV.isNone then
          let tok := fromStr key
          let ns := ((List.range 500).map (· + 100)).filter fun n => specKey keys n == key
          match ns.head? with
          | none => pure ()
          | some n =>
            for d in decls do
              if !d.ct.contains '*' && (parseMedia d.ct).isSome then
                -- (a media type declared without a schema belongs to no payload group: nothing is declared for it)
                let gk := groupKey (resolveMedia tok d)
                let wantV := if gk.isNone then none else vsM.find? fun v => v.tok == tok && v.schemaType == gk
                match wantV with
                | none => pure ()
                | some wv =>
                  for ct in [d.ct, d.ct ++ "; charset=utf-8".toList] do
                    let got := evalChain ch n ct
                    if got.variant != wv.name then
                      let msg := s!"status {n} content-type {String.ofList ct}: declared under {String.ofList key} as variant {String.ofList wv.name}, parser picks {String.ofList got.variant}"
                      -- explained only if the model gives the same answer AND two variants of this key are told apart
                      -- by one and the same content check (same media category), or no check of the block hits
                      let same := match modelChain with | some mch => evalChain mch n ct == got | none => false
                      let mine := vsM.filter fun v => v.tok == tok
                      let catsOf (v : Variant) : List Cat := (v.medias.map (·.cat)).eraseDups
                      let dupCat := mine.any fun a => mine.any fun b => a.name != b.name && (catsOf a).any fun c => (catsOf b).contains c
                      let miss := match modelChain with
                        | some mch => mch.handlers.any fun (c, b) => evalCond n c && (match b with | .dispatch cs => (firstCase ct cs).isNone | _ => false)
                        | none => false
                      -- `default` with several variants: the fall-back arm decodes the FIRST one whatever the content type
                      let dfltMany := isDefault tok && (vsM.filter fun v => isDefault v.tok).length > 1
                      -- F04-6: the arm of ANOTHER category of this key also matches the declared media type and comes first
                      -- (`image/svg+xml` is an XML payload, but the Binary arm tests `starts_with("image/")`)
                      let overlap := mine.any fun v => v.name == got.variant && v.name != wv.name &&
                        (catsOf v).any fun c => !(catsOf wv).contains c && evalCheck ct (checkOf c)
                      if same && (dfltMany || dupCat || miss || overlap) then
                        if badVKnown.isNone then badVKnown := some ((if dfltMany then "F" else if dupCat then "D" else if overlap then "O" else "M") ++ msg)
                      else
                        if badV.isNone then badV := some msg
    match badV with
    | some msg => return verdict false (if nonCanon then ["KnownNonCanonicalKey"] else []) msg
    | none => pure ()
    -- a listed within-status failure is reported next to a listed across-status one (both are seen, none hides the other)
    let vClass : List String := match badVKnown with
      | some msg => [if msg.startsWith "F" then "KnownDefaultFirstVariantOnly" else if msg.startsWith "D" then "KnownSameCategoryVariants" else if msg.startsWith "O" then "KnownCrossCategoryOverlap" else "KnownContentFallthrough"]
      | none => []
    match bad, badKnown with
    | none, none =>
      match badVKnown with
      | some msg => return verdict false ((if nonCanon then ["KnownNonCanonicalKey"] else []) ++ [if msg.startsWith "F" then "KnownDefaultFirstVariantOnly" else if msg.startsWith "D" then "KnownSameCategoryVariants" else if msg.startsWith "O" then "KnownCrossCategoryOverlap" else "KnownContentFallthrough"]) (msg.drop 1).toString
      | none => return verdict true []
    | some (n, ct, want, gotv), _ =>
      let known := (if nonCanon then ["KnownNonCanonicalKey"] else [])
      return verdict false known s!"status {n} content-type {String.ofList ct}: expected a variant declared for key {String.ofList want}, parser picks {String.ofList gotv}"
    | none, some (n, ct, want, gotv) =>
      let known := ((if nonCanon then ["KnownNonCanonicalKey"] else []) ++ ["KnownContentFallthrough"] ++ vClass).eraseDups
      return verdict false known s!"status {n} content-type {String.ofList ct}: expected a variant declared for key {String.ofList want}, parser picks {String.ofList gotv}"
  let nmulti := (responses.filter fun r => r.2.length > 1).length
  let branch := s!"k{keys.length}m{nmulti}" ++ (if nonCanon then "+noncanon" else "")
  pure (Json.mkObj [("model", modelJson), ("match", matched), ("judge", judge), ("branch", if keys.isEmpty then "trivial" else branch)])

def tok : Handler := fun req => do
  let inp ← field req "in"
  let s ← chars (← field inp "s")
  let impl ← field req "impl"
  let t := fromStr s
  let model := Json.mkObj [
    ("code", match code t with | some c => Json.num c | none => Json.null),
    ("variant", str (variantName t)), ("as_str", str (asStr t)),
    ("is_success", isSuccess t), ("is_default", isDefault t)]
  pure (answer model impl (verdict true []) (match t with | .unknown _ => "unknown" | .named n => if isDefault t then "default" else if (lookup n Oas3.Gen.Status.condTbl).isSome then "range" else "exact"))

def httpConsts : Handler := fun req => do
  let impl ← field req "impl"
  let model := Json.mkObj (httpConstValue.map fun (k, v) => (String.ofList k, Json.num v))
  -- every constant the generator can emit must have the value the model assumes
  let ok := Oas3.Gen.Status.httpConstTbl.all fun (_, c) =>
    (impl.getObjVal? (String.ofList c)).toOption == ((lookup c httpConstValue).map fun v => Json.num v)
  pure (Json.mkObj [("model", model), ("match", ok), ("judge", verdict true []), ("branch", "table")])

def ops : List (String × Handler) := [("resp.chain", run), ("resp.tok", tok), ("resp.http_consts", httpConsts)]

end Oas3.Driver.Resp
