import Oas3Model.Driver.Util
import Oas3Model.Driver.Graph
import Oas3Model.Model.Client
import Oas3Model.Model.Depth
open Lean Oas3.Driver Oas3.Graph

namespace Oas3.Driver.Cli

/-- all keys of `properties` objects, parameter names and schema names of a document -/
partial def namesIn (j : Json) : List String :=
  match j with
  | .obj m =>
    m.toList.flatMap fun (k, v) =>
      (if k == "properties" || k == "schemas" then (match v with | .obj mm => mm.toList.map (·.1) | _ => []) else []) ++
      (if k == "operationId" || k == "propertyName" then (match v with | .str x => [x] | _ => []) else []) ++
      (if k == "parameters" then (match v with | .arr a => a.toList.filterMap fun p => (p.getObjValAs? String "name").toOption | _ => []) else []) ++
      namesIn v
  | .arr a => a.toList.flatMap namesIn
  | _ => []

def methodsIn (spec : Json) : List String :=
  match spec.getObjVal? "paths" with
  | .ok (.obj ps) => ps.toList.flatMap fun (_, item) => match item with | .obj m => m.toList.map (·.1) | _ => []
  | _ => []

/-- allOf parent graph of the component schemas -/
def allOfGraph (spec : Json) : List (Oas3.Depth.Name × List Oas3.Depth.Name) :=
  match (fieldD (fieldD spec "components" (Json.mkObj [])) "schemas" (Json.mkObj [])) with
  | .obj m => m.toList.map fun (k, v) =>
      (k.toList, match v.getObjVal? "allOf" with
        | .ok (.arr a) => a.toList.filterMap fun x => match x.getObjVal? "$ref" with
            | .ok (.str r) => if r.startsWith Oas3.Driver.Graph.refPrefix then some (r.drop Oas3.Driver.Graph.refPrefix.length).toString.toList else none
            | _ => none
        | _ => [])
  | _ => []

/-- `#/components/<kind>/<name>` with non-empty kind and name: the only shape oas3 0.20's `Ref::from_str` survives -/
def refShapeOk (r : String) : Bool :=
  match r.splitOn "/" with
  | ["#", "components", kind, name] => !kind.isEmpty && !name.isEmpty
  | _ => false

/-- alias-like parent graph: `A: {$ref B}`, `A: {type: array, items: {$ref B}}`, `A: {allOf: [{$ref B}…]}` -/
def aliasGraph (spec : Json) : List (Oas3.Depth.Name × List Oas3.Depth.Name) :=
  let refOf (x : Json) : Option Oas3.Depth.Name := match x.getObjVal? "$ref" with
    -- `parse_schema_ref_path`: ANY `#/components/<kind>/<name>` is read as the schema `<name>`
    | .ok (.str r) => if r.startsWith "#/components" && refShapeOk r then some ((r.splitOn "/").getLast!.toList) else none
    | _ => none
  match (fieldD (fieldD spec "components" (Json.mkObj [])) "schemas" (Json.mkObj [])) with
  | .obj m => m.toList.map fun (k, v) =>
      (k.toList,
        (refOf v).toList ++
        (match v.getObjVal? "items" with | .ok it => (refOf it).toList | _ => []) ++
        (match v.getObjVal? "allOf" with | .ok (.arr a) => a.toList.filterMap refOf | _ => []))
  | _ => []

/-- every `$ref` string of the document -/
partial def refsIn (j : Json) : List String :=
  match j with
  | .obj m => m.toList.flatMap fun (k, v) => (if k == "$ref" then (match v with | .str r => [r] | _ => []) else []) ++ refsIn v
  | .arr a => a.toList.flatMap refsIn
  | _ => []

def promised (mode : String) : List String :=
  match mode with
  | "client-mod" => ["types.rs", "client.rs", "mod.rs"]
  | "server-mod" => ["types.rs", "server.rs", "mod.rs"]
  | _ => ["<file>"]

def outcome : Handler := fun req => do
  let inp ← field req "in"
  let impl ← field req "impl"
  let spec := fieldD inp "spec" Json.null
  let mode := (fieldD inp "mode" (Json.str "types")).getStr?.toOption.getD "types"
  let target := (fieldD inp "target" (Json.str "ok")).getStr?.toOption.getD "ok"
  let rc := match (fieldD impl "rc" (Json.num 0)) with | .num n => n.mantissa | _ => 0
  let timedOut := fieldD impl "timeout" (Json.bool false) == Json.bool true
  let before := fieldD impl "before" (Json.arr #[])
  let after := fieldD impl "after" (Json.arr #[])
  let written : List String := ((arr (fieldD impl "written" (Json.arr #[]))).toOption.getD []).filterMap fun x => x.getStr?.toOption
  let stderr := (fieldD impl "stderr" (Json.str "")).getStr?.toOption.getD ""
  let has (s : String) : Bool := (stderr.splitOn s).length > 1
  -- spec-side predicates for the known classes
  let g := allOfGraph spec
  let ag := aliasGraph spec
  let allOfCycle := (g.any fun p => Oas3.Graph.cyclic g p.1 == some true) || (ag.any fun p => Oas3.Graph.cyclic ag p.1 == some true)
  let badRef := (refsIn spec).any fun r => !refShapeOk r
  let names := namesIn spec
  let fieldOf (n : String) : List Char := Oas3.Client.fieldName n.toList
  let badField := names.any fun n => n.toList.all (fun c => c.toNat < 128) &&
    (let f := fieldOf n; f == ['_'] || (Oas3.Naming.rawPassthrough n.toList && !Oas3.Naming.legal .field n.toList))
  let selfType := names.any fun n => n.toList.all (fun c => c.toNat < 128) && Oas3.Naming.toRustTypeName Oas3.Gen.prelude Oas3.Client.idTr n.toList == "r#Self".toList
  let nonAscii := names.any fun n => n.toList.any (fun c => c.toNat ≥ 128)
  let methods := (methodsIn spec).map String.toLower
  let optTrace := methods.contains "options" || methods.contains "trace"
  let panicked := rc == 101 || has "panicked at"
  let signalled := rc < 0 || rc == 134 || rc == 139 || has "stack overflow"
  let judge :=
    if timedOut then verdict false [] "the command did not terminate within the time limit"
    else if signalled then verdict false (if allOfCycle then ["KnownAllOfCycle"] else []) s!"killed by a signal / abort (rc={rc})"
    else if panicked then
      let known :=
        (if optTrace && mode != "types" && has "reqwest::Method::" then ["KnownOptionsTrace"] else []) ++
        (if badField && (has "cannot be a raw identifier" || has "is not a valid Ident" || has "Ident is not allowed to be empty" || has "Ident cannot be a number") then ["KnownBadIdentPanic"] else []) ++
        (if has "is not a valid Ident" && (has "Vec<u8>" || has "EventStream<") then ["KnownVariantSuffixPanic"] else []) ++
        (if selfType && has "r#Self" then ["KnownBadIdentPanic"] else []) ++
        (if badRef && has "oas3-" && has "src/spec/ref.rs" then ["KnownRefParsePanic"] else [])
      verdict false known s!"the generator panicked (rc={rc})"
    else if rc == 0 then
      if target != "ok" then verdict false [] "exit status 0 although the output target cannot be written"
      else if (promised mode).all (fun f => f == "<file>" && !written.isEmpty || written.contains f) then verdict true []
      else verdict false [] s!"exit 0 but not every promised file was written: {written}"
    else
      -- failure: must leave the output location untouched
      if before == after then verdict true []
      else verdict false (if target == "blocked-second-file" then ["KnownPartialModuleWrite"] else []) "generation failed but output files were created or modified"
  let branch := (if rc == 0 then "ok" else if panicked then "panic" else if signalled then "signal" else "error") ++ "-" ++ target
  let _ := nonAscii
  pure (Json.mkObj [("model", Json.null), ("match", true), ("judge", judge), ("branch", branch)])

def ops : List (String × Handler) := [("cli.outcome", outcome)]

end Oas3.Driver.Cli
