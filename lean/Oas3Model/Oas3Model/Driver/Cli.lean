import Oas3Model.Driver.Util
import Oas3Model.Driver.Graph
import Oas3Model.Model.Client
import Oas3Model.Model.Depth
import Oas3Model.Model.Registry
open Lean Oas3.Driver Oas3.Graph

namespace Oas3.Driver.Cli

/-- all keys of `properties` objects, parameter names and schema names of a document -/
partial def namesIn (j : Json) : List String :=
  match j with
  | .obj m =>
    m.toList.flatMap fun (k, v) =>
      (if k == "properties" || k == "schemas" then (match v with | .obj mm => mm.toList.map (·.1) | _ => []) else []) ++
      (if k == "operationId" || k == "propertyName" then (match v with | .str x => [x] | _ => []) else []) ++
      (if k == "parameters" then (match v with | .arr a => a.toList.filterMap fun p => (p.getObjValAs? String "name").toOption | _ => []) else []) ++
      namesIn v
  | .arr a => a.toList.flatMap namesIn
  | _ => []

/-- every string among `enum` / `const` values of the document (they become variant / type names) -/
partial def enumStringsIn (j : Json) : List String :=
  match j with
  | .obj m => m.toList.flatMap fun (k, v) =>
      (if k == "enum" then (match v with | .arr a => a.toList.filterMap fun x => x.getStr?.toOption | _ => []) else []) ++
      (if k == "const" then (match v with | .str x => [x] | _ => []) else []) ++ enumStringsIn v
  | .arr a => a.toList.flatMap enumStringsIn
  | _ => []

def methodsIn (spec : Json) : List String :=
  match spec.getObjVal? "paths" with
  | .ok (.obj ps) => ps.toList.flatMap fun (_, item) => match item with | .obj m => m.toList.map (·.1) | _ => []
  | _ => []

/-- allOf parent graph of the component schemas -/
def allOfGraph (spec : Json) : List (Oas3.Depth.Name × List Oas3.Depth.Name) :=
  match (fieldD (fieldD spec "components" (Json.mkObj [])) "schemas" (Json.mkObj [])) with
  | .obj m => m.toList.map fun (k, v) =>
      (k.toList, match v.getObjVal? "allOf" with
        | .ok (.arr a) => a.toList.filterMap fun x => match x.getObjVal? "$ref" with
            | .ok (.str r) => if r.startsWith Oas3.Driver.Graph.refPrefix then some (r.drop Oas3.Driver.Graph.refPrefix.length).toString.toList else none
            | _ => none
        | _ => [])
  | _ => []

/-- `#/components/<kind>/<name>` with non-empty kind and name: the only shape oas3 0.20's `Ref::from_str` survives -/
def refShapeOk (r : String) : Bool :=
  match r.splitOn "/" with
  | ["#", "components", kind, name] => !kind.isEmpty && !name.isEmpty
  | _ => false

/-- alias-like parent graph: `A: {$ref B}`, `A: {type: array, items: {$ref B}}`, `A: {allOf: [{$ref B}…]}` -/
def aliasGraph (spec : Json) : List (Oas3.Depth.Name × List Oas3.Depth.Name) :=
  let refOf (x : Json) : Option Oas3.Depth.Name := match x.getObjVal? "$ref" with
    -- `parse_schema_ref_path`: ANY `#/components/<kind>/<name>` is read as the schema `<name>`
    | .ok (.str r) => if r.startsWith "#/components" && refShapeOk r then some ((r.splitOn "/").getLast!.toList) else none
    | _ => none
  match (fieldD (fieldD spec "components" (Json.mkObj [])) "schemas" (Json.mkObj [])) with
  | .obj m => m.toList.map fun (k, v) =>
      (k.toList,
        (refOf v).toList ++
        (match v.getObjVal? "items" with | .ok it => (refOf it).toList | _ => []) ++
        (match v.getObjVal? "allOf" with | .ok (.arr a) => a.toList.filterMap refOf | _ => []))
  | _ => []

/-- every `$ref` string of the document -/
partial def refsIn (j : Json) : List String :=
  match j with
  | .obj m => m.toList.flatMap fun (k, v) => (if k == "$ref" then (match v with | .str r => [r] | _ => []) else []) ++ refsIn v
  | .arr a => a.toList.flatMap refsIn
  | _ => []


/-! ### spec-side predicates of the cycle shapes that overflow the stack on today's binary (finding F12-1, F12-7)

Every predicate below was written from a shape REPRODUCED on the unchanged binary (corpus/C12.jsonl); a cycle
through any other keyword / nesting (inline allOf members, `not`, `prefixItems`, `additionalProperties: {$ref}`,
`properties: {f: {$ref}}` …) generates fine today and is therefore NOT excused. -/

def componentSchemas (spec : Json) : List (String × Json) :=
  match (fieldD (fieldD spec "components" (Json.mkObj [])) "schemas" (Json.mkObj [])) with
  | .obj m => m.toList
  | _ => []

def schemaRefName (x : Json) : Option Oas3.Depth.Name := match x.getObjVal? "$ref" with
  | .ok (.str r) => if r.startsWith "#/components" && refShapeOk r then some ((r.splitOn "/").getLast!.toList) else none
  | _ => none

def hasType (v : Json) (t : String) : Bool :=
  match v.getObjVal? "type" with
  | .ok (.str s) => s == t
  | .ok (.arr a) => a.toList.any (· == Json.str t)
  | _ => false

def nonEmptyMember (v : Json) (k : String) : Bool :=
  match v.getObjVal? k with
  | .ok (.obj m) => !m.toList.isEmpty
  | .ok (.arr a) => !a.isEmpty
  | _ => false

def memberList (v : Json) (k : String) : List Json :=
  match v.getObjVal? k with | .ok (.arr a) => a.toList | _ => []

/-- `SchemaExt::is_primitive`: nothing that would make the schema a named struct / enum / union -/
def primLike (v : Json) : Bool :=
  !nonEmptyMember v "properties" && !nonEmptyMember v "oneOf" && !nonEmptyMember v "anyOf" && !nonEmptyMember v "allOf" &&
  (memberList v "enum").length ≤ 1

/-- the component names `TypeResolver::primitive` reaches WITHOUT stopping at a named type: array → `items`
(`array_item_type`: a `$ref` goes to `resolve_ref`, which resolves the target in place when it is primitive; an
inline schema goes to `resolve_type`), map → INLINE `additionalProperties` (`additional_properties_type` stops at
`type_ref` for a `$ref`). -/
partial def primRefs (v : Json) : List Oas3.Depth.Name :=
  (if hasType v "array" then
    match v.getObjVal? "items" with
    | .ok it => (match schemaRefName it with | some n => [n] | none => (match it with | .obj _ => primRefs it | _ => []))
    | _ => []
   else []) ++
  (if hasType v "object" && !nonEmptyMember v "properties" then
    match v.getObjVal? "additionalProperties" with
    | .ok ap => (match schemaRefName ap with | some _ => [] | none => (match ap with | .obj _ => primRefs ap | _ => []))
    | _ => []
   else []) ++
  -- an inline union on the way (`resolve_type_uncached` → `try_union` → `union_fallback` → `try_simple_fallback_type`):
  -- an inline ARRAY variant is followed into `array_item_type`
  ((memberList v "oneOf" ++ memberList v "anyOf").flatMap fun x =>
    if (schemaRefName x).isNone && hasType x "array" then primRefs x else [])

def isNullSchema (x : Json) : Bool := match x.getObjVal? "type" with | .ok (.str t) => t == "null" | _ => false

/-- `is_wrapper_union` with an INLINE variant: a component that is nothing but a oneOf/anyOf with exactly one non-null
variant, that variant an inline primitive schema without `additionalProperties` (`resolve_ref` → `try_union` →
`union_fallback` → `try_simple_fallback_type`, which follows an ARRAY variant into `array_item_type`) -/
def wrapperVariant (v : Json) : Option Json :=
  if nonEmptyMember v "properties" || nonEmptyMember v "allOf" then none else
  match (memberList v "oneOf" ++ memberList v "anyOf").filter (fun x => !isNullSchema x) with
  | [x] => if (schemaRefName x).isNone && primLike x && (x.getObjVal? "additionalProperties").toOption.isNone && hasType x "array" then some x else none
  | _ => none

/-- alias graph of the type resolver: `A: array of array of $ref A`, `A: map of array of $ref A`,
`A: array of $ref B` + `B: array of array of $ref A`, `A: anyOf[array of $ref B]` + `B: array of $ref A` … -/
def primAliasGraph (spec : Json) : List (Oas3.Depth.Name × List Oas3.Depth.Name) :=
  (componentSchemas spec).map fun (k, v) =>
    (k.toList, if primLike v then primRefs v else match wrapperVariant v with | some x => primRefs x | none => [])

/-- the components at which the resolver ENTERS such a chain (`resolve_ref` resolves a primitive target in place) -/
def primComponents (spec : Json) : List Oas3.Depth.Name :=
  ((componentSchemas spec).filter fun kv => primLike kv.2).map (·.1.toList)

/-- the components one variant of an inline union leads to: a `$ref`, an inline array of it, a nested inline union / allOf -/
partial def variantRefs (x : Json) : List Oas3.Depth.Name :=
  match schemaRefName x with
  | some n => [n]
  | none =>
    (match x.getObjVal? "items" with | .ok (.obj m) => variantRefs (.obj m) | _ => []) ++
    ((memberList x "oneOf" ++ memberList x "anyOf" ++ memberList x "allOf").flatMap variantRefs)

/-- the `$ref` variants of the INLINE oneOf/anyOf unions of one property schema (also below inline array items and
inline object properties); the nullable wrapper `[X, null]` is no union (it becomes `Option<Box<X>>`). -/
partial def inlineUnionRefs (p : Json) : List Oas3.Depth.Name :=
  if (schemaRefName p).isSome then [] else
  let variants := memberList p "oneOf" ++ memberList p "anyOf"
  let nonNull := variants.filter (fun x => !isNullSchema x)
  (if variants.length != nonNull.length && nonNull.length == 1 then [] else variants.flatMap variantRefs) ++
  (match p.getObjVal? "items" with | .ok (.obj m) => inlineUnionRefs (.obj m) | _ => []) ++
  (match p.getObjVal? "properties" with | .ok (.obj m) => m.toList.flatMap (fun kv => inlineUnionRefs kv.2) | _ => [])

/-- helper-constructor graph (`MethodGenerator::build_constructors` → `resolve_struct_def` → `convert_struct` → the
struct's inline unions → `build_constructors` …): struct `X` → struct `Y` when a property of `X` is an inline union
with the variant `$ref Y` -/
def helperCtorGraph (spec : Json) : List (Oas3.Depth.Name × List Oas3.Depth.Name) :=
  let cs := componentSchemas spec
  let objLike (v : Json) : Bool := hasType v "object" || nonEmptyMember v "properties"
  let structs := (cs.filter fun kv => objLike kv.2).map (·.1.toList)
  cs.map fun (k, v) =>
    (k.toList, if objLike v then
      (match v.getObjVal? "properties" with
       | .ok (.obj m) => (m.toList.flatMap fun kv => inlineUnionRefs kv.2).filter structs.contains
       | _ => [])
     else [])

/-- operations of the document as the registry sees them -/
def opsOf (spec : Json) : List Oas3.Registry.Op :=
  match spec.getObjVal? "paths" with
  | .ok (.obj ps) => ps.toList.flatMap fun (path, item) => match item with
      | .obj m => m.toList.filterMap fun (meth, o) =>
          if ["get", "put", "post", "delete", "options", "head", "patch", "trace"].contains meth then
            some { method := meth.toUpper.toList, path := path.toList,
                   operationId := match o.getObjVal? "operationId" with | .ok (.str s) => some s.toList | _ => none }
          else none
      | _ => []
  | _ => []

/-- value of `--flag v` / `--flag=v` in the command line of the run -/
def flagValue (flags : List String) (name : String) : Option String :=
  match flags.dropWhile (· != name) with
  | _ :: v :: _ => some v
  | _ => (flags.find? (·.startsWith (name ++ "="))).map (·.drop (name.length + 1) |>.toString)

def identLike (s : List Char) : Bool := match s with
  | c :: r => (c.isAlpha || c == '_') && r.all (fun c => c.isAlphanum || c == '_')
  | [] => false

/-- some response (or request body) of the document offers two or more media types -/
partial def multiContent (j : Json) : Bool :=
  match j with
  | .obj m => m.toList.any fun (k, v) => (k == "content" && (match v with | .obj c => c.toList.length ≥ 2 | _ => false)) || multiContent v
  | .arr a => a.toList.any multiContent
  | _ => false

def promised (mode : String) : List String :=
  match mode with
  | "client-mod" => ["types.rs", "client.rs", "mod.rs"]
  | "server-mod" => ["types.rs", "server.rs", "mod.rs"]
  | "list" => []
  | _ => ["<file>"]

def outcome : Handler := fun req => do
  let inp ← field req "in"
  let impl ← field req "impl"
  let spec := fieldD inp "spec" Json.null
  let mode := (fieldD inp "mode" (Json.str "types")).getStr?.toOption.getD "types"
  let target := (fieldD inp "target" (Json.str "ok")).getStr?.toOption.getD "ok"
  let flags : List String := ((arr (fieldD inp "flags" (Json.arr #[]))).toOption.getD []).filterMap fun x => x.getStr?.toOption
  let rc := match (fieldD impl "rc" (Json.num 0)) with | .num n => n.mantissa | _ => 0
  let timedOut := fieldD impl "timeout" (Json.bool false) == Json.bool true
  let before := fieldD impl "before" (Json.arr #[])
  let after := fieldD impl "after" (Json.arr #[])
  let written : List String := ((arr (fieldD impl "written" (Json.arr #[]))).toOption.getD []).filterMap fun x => x.getStr?.toOption
  let stderr := (fieldD impl "stderr" (Json.str "")).getStr?.toOption.getD ""
  let has (s : String) : Bool := (stderr.splitOn s).length > 1
  -- spec-side predicates for the known classes
  let g := allOfGraph spec
  let ag := aliasGraph spec
  let pg := primAliasGraph spec
  let allOfCycle := (g.any fun p => Oas3.Graph.cyclic g p.1 == some true) || (ag.any fun p => Oas3.Graph.cyclic ag p.1 == some true) ||
    ((primComponents spec).any fun n => Oas3.Graph.cyclic pg n == some true)
  let hg := helperCtorGraph spec
  let helperCycle := !flags.contains "--no-helpers" && (hg.any fun p => Oas3.Graph.cyclic hg p.1 == some true)
  -- F08-4 seen from C12: the registry's common-affix trimming leaves ids that are no identifiers
  let idList (n : String) : Option (List Oas3.Registry.Id) := (flagValue flags n).map fun v => (v.splitOn ",").map String.toList
  let trimmedBad := match Oas3.Registry.build { only := idList "--only", excluded := idList "--exclude" } (opsOf spec) with
    | some es => es.any fun e => !identLike e.1
    | none => false
  let badRef := (refsIn spec).any fun r => !refShapeOk r
  let names := namesIn spec
  let fieldOf (n : String) : List Char := Oas3.Client.fieldName n.toList
  let badField := names.any fun n => n.toList.all (fun c => c.toNat < 128) &&
    (let f := fieldOf n; f == ['_'] || (Oas3.Naming.rawPassthrough n.toList && !Oas3.Naming.legal .field n.toList))
  let selfType := (names ++ enumStringsIn spec).any fun n => n.toList.all (fun c => c.toNat < 128) && Oas3.Naming.toRustTypeName Oas3.Gen.prelude Oas3.Client.idTr n.toList == "r#Self".toList
  let nonAscii := names.any fun n => n.toList.any (fun c => c.toNat ≥ 128)
  let methods := (methodsIn spec).map String.toLower
  let optTrace := methods.contains "options" || methods.contains "trace"
  let panicked := rc == 101 || has "panicked at"
  let signalled := rc < 0 || rc == 134 || rc == 139 || has "stack overflow"
  let judge :=
    if timedOut then verdict false [] "the command did not terminate within the time limit"
    else if signalled then verdict false ((if allOfCycle then ["KnownAllOfCycle"] else []) ++ (if helperCycle then ["KnownHelperCtorCycle"] else [])) s!"killed by a signal / abort (rc={rc})"
    else if panicked then
      let known :=
        (if optTrace && mode != "types" && has "reqwest::Method::" then ["KnownOptionsTrace"] else []) ++
        (if badField && (has "cannot be a raw identifier" || has "is not a valid Ident" || has "Ident is not allowed to be empty" || has "Ident cannot be a number") then ["KnownBadIdentPanic"] else []) ++
        (if has "is not a valid Ident" && (has "Vec<u8>" || has "EventStream<") then ["KnownVariantSuffixPanic"] else []) ++
        -- the same defect with any other generic type string as the suffix (`OkVec<String>`, `OkOption<String>`): one
        -- status offering several media types whose schemas are different non-named types
        (if mode != "client" && multiContent spec && (has "Vec<" || has "Option<" || has "HashMap<") && (has ">\" is not a valid Ident") then ["KnownVariantSuffixPanic"] else []) ++
        (if trimmedBad && (mode == "client" || mode == "client-mod") && (has "Ident cannot be a number" || has "is not a valid Ident" || has "Ident is not allowed to be empty") then ["KnownTrimmedIdPanic"] else []) ++
        (if selfType && has "r#Self" then ["KnownBadIdentPanic"] else []) ++
        (if badRef && has "oas3-" && has "src/spec/ref.rs" then ["KnownRefParsePanic"] else [])
      verdict false known s!"the generator panicked (rc={rc})"
    else if rc == 0 then
      if target != "ok" then verdict false [] "exit status 0 although the output target cannot be written"
      else if (promised mode).all (fun f => f == "<file>" && !written.isEmpty || written.contains f) then verdict true []
      else verdict false [] s!"exit 0 but not every promised file was written: {written}"
    else
      -- failure: must leave the output location untouched
      if before == after then verdict true []
      else verdict false (if target == "blocked-second-file" then ["KnownPartialModuleWrite"] else []) "generation failed but output files were created or modified"
  let branch := (if rc == 0 then "ok" else if panicked then "panic" else if signalled then "signal" else "error") ++ "-" ++ target
  let _ := nonAscii
  pure (Json.mkObj [("model", Json.null), ("match", true), ("judge", judge), ("branch", branch)])

def ops : List (String × Handler) := [("cli.outcome", outcome)]

end Oas3.Driver.Cli
