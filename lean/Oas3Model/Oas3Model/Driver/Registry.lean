import Oas3Model.Driver.Util
import Oas3Model.Model.Registry
open Lean Oas3.Driver Oas3.Registry

namespace Oas3.Driver.Registry

def opOf (j : Json) : Except String Op := do
  let m ← chars (← field j "method")
  let p ← chars (← field j "path")
  let oid := match j.getObjVal? "operationId" with | .ok (.str s) => some s.toList | _ => none
  pure { method := m.map Char.toUpper, path := p, operationId := oid }

def rowJson (e : Id × Op) : Json := Json.arr #[str e.1, str e.2.method, str e.2.path]

def sortRows (l : List Json) : List Json := (l.toArray.qsort (fun a b => a.compress < b.compress)).toList

def idsOf (j : Json) : Option (List Id) := match j with
  | .arr a => some (a.toList.filterMap fun x => x.getStr?.toOption.map String.toList)
  | _ => none

/-- K: OperationRegistry::with_filters -/
def buildOp : Handler := fun req => do
  let inp ← field req "in"
  let ops ← (← arr (← field inp "ops")).mapM opOf
  let impl ← field req "impl"
  let f : Filter := { only := idsOf (fieldD inp "only" Json.null), excluded := idsOf (fieldD inp "exclude" Json.null) }
  let some es := build f ops | throw "model-fuel-exhausted"
  let model := Json.arr (es.map rowJson).toArray
  pure (answer model impl (verdict true []) (if f.only.isSome then "only" else if f.excluded.isSome then "exclude" else "all"))

/-- E: J(ops, S) on what the CLI printed (`list`) and emitted (`--only S` / `--exclude S`) -/
def selectOp : Handler := fun req => do
  let inp ← field req "in"
  let ops ← (← arr (← field inp "ops")).mapM opOf
  let impl ← field req "impl"
  let sel := (idsOf (fieldD inp "S" (Json.arr #[]))).getD []
  let mode := (fieldD inp "mode" (Json.str "only")).getStr?.toOption.getD "only"
  -- model
  let some listed := listIds ops | throw "model-fuel-exhausted"
  let f : Filter := if mode == "only" then { only := some sel, excluded := none } else { only := none, excluded := some sel }
  let some got := build f ops | throw "model-fuel-exhausted"
  let model := Json.mkObj [("list", Json.arr (sortRows (listed.map rowJson)).toArray),
    ("emitted", Json.arr (sortRows (got.map fun e => Json.arr #[str e.2.method, str e.2.path])).toArray)]
  -- implementation: rows printed by `list`, (METHOD, path) of the methods emitted
  let ilist := (arr (fieldD impl "list" (Json.arr #[]))).toOption.getD []
  let iemit := (arr (fieldD impl "emitted" (Json.arr #[]))).toOption.getD []
  -- the server target emits a trait method for EVERY selected operation, webhooks and request-less ones included;
  -- the client target has no method for a webhook and silently drops an operation with nothing to build a request from
  let server := (fieldD inp "target" (Json.str "client-mod")) == Json.str "server-mod"
  let silent := if server then [] else (arr (fieldD inp "silent" (Json.arr #[]))).toOption.getD []     -- ops with nothing to build a request from
  let implJ := Json.mkObj [("list", Json.arr (sortRows ilist).toArray), ("emitted", Json.arr (sortRows iemit).toArray)]
  let modelJ := Json.mkObj [("list", Json.arr (sortRows (listed.map rowJson)).toArray),
    ("emitted", Json.arr (sortRows (((got.filter fun e => server || !isWebhook e.2).filter fun e => !silent.contains (Json.arr #[str e.2.method, str e.2.path])).map fun e => Json.arr #[str e.2.method, str e.2.path])).toArray)]
  let _ := model
  -- judge: S ⊆ listed ids (by construction of the case); expected = rows whose LISTED id ∈ S (only) / ∉ S (exclude)
  let rowId (r : Json) : String := match r with | .arr #[.str i, _, _] => i | _ => ""
  let rowMP (r : Json) : Json := match r with | .arr #[_, m, p] => Json.arr #[m, p] | _ => Json.null
  let selS := sel.map String.ofList
  -- webhooks are listed but are not client/server operations: they are outside "emitted"
  let isHook (r : Json) : Bool := match r with | .arr #[_, _, .str p] => p.startsWith "webhooks/" | _ => false
  let want := sortRows (((ilist.filter fun r => server || !isHook r).filter fun r => if mode == "only" then selS.contains (rowId r) else !selS.contains (rowId r)).map rowMP)
  let gotI := sortRows iemit
  let identOk (s : Id) : Bool := match s with
    | 'r' :: '#' :: c :: r => (c.isAlpha || c == '_') && r.all (fun c => c.isAlphanum || c == '_')
    | c :: r => (c.isAlpha || c == '_') && r.all (fun c => c.isAlphanum || c == '_')
    | [] => false
  let badId := got.any fun e => !identOk e.1
  let crashed := (fieldD impl "cli_rc" (Json.num 0)) != Json.num 0
  -- (the panic on a trimmed id that is not an identifier, F08-4, is in the client's method names; the server's trait
  -- methods are named from the untrimmed id)
  let modelJ := if badId && (!server || crashed) then Json.mkObj [("list", Json.arr (sortRows (listed.map rowJson)).toArray), ("emitted", Json.arr #[])] else modelJ
  let judge :=
    if crashed then verdict false (if badId then ["KnownTrimToNonIdent"] else []) "the generator exited with an error/panic for a selection of listed ids"
    else if !(selS.all fun s => ilist.any fun r => rowId r == s) then verdict true [] "S is not a subset of the listed ids (case ignored)"
    else if gotI == want && gotI.eraseDups.length == gotI.length then verdict true []
    else
      let bases := ops.map baseId
      let trimmed := (listed.map (·.1)) != ((ingest { only := none, excluded := none } (specOrder ops) []).getD []).map (·.1)
      let uniquified := bases.eraseDups.length != bases.length
      let dropped := !silent.isEmpty
      -- the listed classes are all reproduced by the model: a wrong selection that the model does NOT predict is none of them
      let known := if modelJ != implJ then [] else
        (if trimmed then ["KnownTrimmed"] else []) ++ (if uniquified then ["KnownUniquified"] else []) ++ (if dropped then ["KnownSilentDrop"] else [])
      verdict false known s!"--{mode} {selS}: emitted {Json.arr gotI.toArray |>.compress}, expected the listed rows {Json.arr want.toArray |>.compress}"
  let branch := mode ++ s!"{sel.length}/{ops.length}"
  pure (Json.mkObj [("model", modelJ), ("match", modelJ == implJ), ("judge", judge), ("branch", branch)])

/-- `registry.listwidth` (real binary): the identifiers read from `list operations` as a script sees it (stdout not a
terminal, 80 columns) must be the identifiers the same command prints on a wide terminal — every printed id has to be usable
with `--only` / `--exclude`.  F08-5: the table WRAPS a long id (or an id next to a long path) over several lines. -/
def listWidthOp : Handler := fun req => do
  let impl ← field req "impl"
  let strs (k : String) : List String := ((arr (fieldD impl k (Json.arr #[]))).toOption.getD []).filterMap fun x => x.getStr?.toOption
  let wide := strs "ids_wide"
  let narrow := strs "ids_narrow"
  let judge :=
    if wide.isEmpty then verdict false [] "`list operations` printed no row"
    else if narrow == wide then verdict true []
    else
      -- the class: nothing is lost or changed, the ids are only cut into pieces (the pieces, concatenated, are the ids)
      let pieces := String.join narrow == String.join wide
      verdict false (if pieces then ["KnownListWrapsIds"] else []) s!"at 80 columns `list operations` prints the identifiers {narrow.take 6}, on a wide terminal {wide.take 4}"
  pure (Json.mkObj [("model", Json.null), ("match", true), ("judge", judge), ("branch", Json.str (if narrow == wide then "same" else "wrapped"))])

def ops : List (String × Handler) := [("registry.build", buildOp), ("registry.select", selectOp), ("registry.listwidth", listWidthOp)]

end Oas3.Driver.Registry
