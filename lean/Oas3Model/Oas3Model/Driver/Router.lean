import Oas3Model.Driver.Util
import Oas3Model.Sem.Router
open Lean Oas3.Driver Oas3.ReqInterop Oas3.Router

/-! `route.dispatch`: the stated router semantics (Sem/Router.lean) against the real axum 0.8 router. -/
namespace Oas3.Driver.Router

def outcomeJson : Outcome → Json
  | .handler id => Json.mkObj [("handler", Json.num id)]
  | .notFound => Json.mkObj [("status", Json.num 404)]
  | .methodNotAllowed => Json.mkObj [("status", Json.num 405)]

def tableOf (j : Json) : Except String (Option (List Route)) := do
  let rows ← arr j
  let mut out : List Route := []
  for row in rows do
    let pat ← chars (← field row "pattern")
    match parsePattern pat with
    | none => return none            -- a pattern matchit refuses (`{id}.json`, two parameters in a segment)
    | some ps =>
      let ms ← arr (← field row "methods")
      let mut methods : List (Str × Nat) := []
      for m in ms do
        match m with
        | Json.arr #[Json.str name, n] => methods := methods ++ [(name.toList, (← natOf n))]
        | _ => throw "bad method entry"
      out := out ++ [{ pattern := ps, methods := methods }]
  return some out

def dispatchH : Handler := fun req => do
  let inp ← field req "in"
  let impl ← field req "impl"
  let table ← tableOf (← field inp "table")
  let reqs ← arr (fieldD inp "requests" (Json.arr #[]))
  match table with
  | none =>
    let refused := (impl.getObjVal? "panic").toOption.isSome
    pure (Json.mkObj [("model", Json.mkObj [("refused", Json.bool true)]), ("match", Json.bool refused), ("judge", verdict true []), ("branch", "refused")])
  | some t =>
    let mut outs : List Json := []
    for r in reqs do
      let m ← chars (← field r "method")
      let p ← chars (← field r "path")
      match segsOfPath p with
      | some segs => outs := outs ++ [outcomeJson (dispatch t m segs)]
      | none => outs := outs ++ [Json.null]
    let model := Json.mkObj [("outcomes", Json.arr outs.toArray)]
    let any (f : Json → Bool) : Bool := outs.any f
    let branch := (if any (fun o => (o.getObjVal? "handler").toOption.isSome) then "h" else "") ++
      (if any (· == outcomeJson .notFound) then "+404" else "") ++ (if any (· == outcomeJson .methodNotAllowed) then "+405" else "")
    pure (Json.mkObj [("model", model), ("match", Json.bool (model == impl)), ("judge", verdict true []), ("branch", Json.str branch)])

def ops : List (String × Handler) := [("route.dispatch", dispatchH)]

end Oas3.Driver.Router
