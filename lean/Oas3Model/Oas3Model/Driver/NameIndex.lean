import Oas3Model.Driver.Cache
import Oas3Model.Model.NameIndex
import Oas3Model.Gen.Naming
open Lean Oas3.Driver Oas3.Cache Oas3.NameIndex

/-! Driver ops of the pre-computed type names (`naming/name_index.rs`): `cache.best_name` (one key), `cache.name_scan`
(the whole walk on documents whose inline objects sit at `<Component>.<property>`). -/
namespace Oas3.Driver.NameIndex

def insPair (p : (List Char) × Bool) : List ((List Char) × Bool) → List ((List Char) × Bool)
  | [] => [p]
  | q :: r =>
    if p == q then q :: r
    else if (p.1 != q.1 && sLe p.1 q.1) || (p.1 == q.1 && !p.2) then p :: q :: r
    else q :: insPair p r

/-- a `BTreeSet<(String, bool)>`: by name (code points), then `false < true`, no duplicates -/
def setOf (l : List ((List Char) × Bool)) : List ((List Char) × Bool) := l.foldl (fun acc p => insPair p acc) []

def pairsOf (j : Json) : Except String (List ((List Char) × Bool)) := do
  let a ← arr j
  a.mapM fun p => do
    let q ← arr p
    match q with
    | [n, b] => pure ((← chars n), (← boolOf b))
    | _ => throw "bad candidate"

def bestName : Handler := fun req => do
  let inp ← field req "in"
  let impl ← field req "impl"
  let cands := setOf (← pairsOf (← field inp "cands"))
  let used ← charsList (← field inp "used")
  let upper := ((fieldD inp "upper" (Json.str "")).getStr?.toOption.getD "").toList
  let isUpper : Char → Bool := fun c => upper.contains c
  let lcs := longestCommonSuffix (cands.map (·.1))
  let best := computeBestName Oas3.Gen.forbidden isUpper cands used
  let model := Json.mkObj [("best", optStr best), ("lcs", str lcs), ("valid", Json.bool (isValidCommonName Oas3.Gen.forbidden isUpper lcs))]
  -- judge (C09) on the implementation: a key without component-schema candidate must get a name that is not in use
  let got := match impl.getObjVal? "best" with | .ok (Json.str s) => some s.toList | _ => none
  let judge :=
    match got with
    | none => verdict false [] "no name was computed"
    | some n =>
      if !fromSchema cands && !cands.isEmpty && used.contains n then verdict false [] s!"the pre-computed name {String.ofList n} of an inline type is already in use"
      else if fromSchema cands && !(cands.any fun c => c.2 && c.1 == n) then verdict false [] s!"a component-schema candidate exists but the name {String.ofList n} is none of them"
      else verdict true []
  let branch := if fromSchema cands then "from-schema" else match cands with
    | [] => "empty" | [_] => "single" | _ => if isValidCommonName Oas3.Gen.forbidden isUpper lcs then "common-suffix" else "first-candidate"
  pure (answer model impl judge (branch ++ (if (got.map used.contains).getD false then "" else "") ++ (match best, cands with | some b, c :: _ => if b != c.1 && !(fromSchema cands) && b != lcs then "+suffixed" else "" | _, _ => "")))

/-- `format!("{parent}{}", prop.to_pascal_case())` for property names over `[a-z_]` -/
def pascalOfSnake (s : List Char) : List Char :=
  let parts := (String.ofList s).splitOn "_"
  parts.foldl (fun acc p => match p.toList with | c :: r => acc ++ (c.toUpper :: r) | [] => acc) []

def insKey (k : List Char) (n : (List Char)) : List (List Char × List ((List Char) × Bool)) → List (List Char × List ((List Char) × Bool))
  | [] => [(k, [(n, false)])]
  | (k', cs) :: r =>
    if k == k' then (k', setOf ((n, false) :: cs)) :: r
    else if sLe k k' then (k, [(n, false)]) :: (k', cs) :: r
    else (k', cs) :: insKey k n r

def nameScan : Handler := fun req => do
  let inp ← field req "in"
  let impl ← field req "impl"
  let sites ← arr (← field inp "sites")
  -- `existing_rust_names` and the candidates go through `to_rust_type_name` (Naming model; ASCII input: no transliteration)
  let tyName (n : List Char) : List Char := Oas3.Naming.toRustTypeName Oas3.Gen.prelude (fun c => [c]) n
  let comps := (← charsList (← field inp "components")).map tyName
  let mut keyed : List (List Char × List ((List Char) × Bool)) := []
  for s in sites do
    let parent ← chars (← field s "parent")
    let prop ← chars (← field s "prop")
    let sch ← Oas3.Driver.Cache.toJ (← field s "schema")
    keyed := insKey (canonString sch) (tyName (parent ++ pascalOfSnake prop)) keyed
  let isUpper : Char → Bool := fun c => c.isUpper
  let res := resolveNames Oas3.Gen.forbidden isUpper keyed comps
  let model := match res with
    | some (out, _) => Json.arr (out.map fun p => Json.arr #[str p.1, str p.2]).toArray
    | none => Json.null
  let implNames := fieldD impl "names" Json.null
  -- judge (C09 / C13) on the implementation: distinct keys get distinct names, none of them a component's name
  let got : List (String × String) := ((arr implNames).toOption.getD []).filterMap fun p =>
    match p with | Json.arr #[Json.str k, Json.str n] => some (k, n) | _ => none
  let names := got.map (·.2)
  let judge :=
    if got.length != keyed.length then verdict false [] s!"{keyed.length} inline schemas need a type, {got.length} names were pre-computed"
    else if names.eraseDups.length != names.length then verdict false [] s!"two different inline schemas get one pre-computed name: {names}"
    else if names.any (fun n => comps.contains n.toList) then verdict false [] s!"an inline schema gets the name of a component schema: {names}"
    else verdict true []
  let branch := if keyed.any (fun p => p.2.length > 1) then "shared-shape" else if names.eraseDups.length != (keyed.map fun p => (p.2.head?.map (·.1)).getD []).eraseDups.length then "contested" else "plain"
  pure (Json.mkObj [("model", model), ("match", Json.bool (model == implNames)), ("judge", judge), ("branch", Json.str branch)])

def ops : List (String × Handler) := [("cache.best_name", bestName), ("cache.name_scan", nameScan)]

end Oas3.Driver.NameIndex
