import Oas3Model.Driver.Valid
import Oas3Model.Model.ValidSites
open Lean Oas3.Driver Oas3.Valid

/-! driver op `valid.sites` (C16): several inline-object sites of one generated document, judged site by site:
the validators of the struct a site resolved to must be those of the site's OWN schema -/
namespace Oas3.Driver.ValidSites
open Oas3.Driver.Valid

def usageOf (s : String) : Except String VUsage :=
  match s with
  | "req" => pure ⟨true, false⟩ | "resp" => pure ⟨false, true⟩ | "both" => pure ⟨true, true⟩
  | _ => throw s!"usage {s}"

def siteOfJson (j : Json) : Except String (DocVSite String) := do
  let fields ← (← arr (← field j "fields")).mapM (mfieldOfJson false)
  pure { site := { fields }, usage := (← usageOf (← (← field j "usage").getStr?)), key := (← field j "key").compress }

/-- the implementation's attribute with the regex constant resolved to its text (same shape as the K op) -/
def projAttr (j : Json) : Json :=
  match j.getObjVal? "k" with
  | .ok (.str "regex") =>
    let p := match j.getObjVal? "pat" with | .ok (.str p) => Json.str p | _ => fieldD j "path" Json.null
    Json.mkObj [("k", "regex"), ("path", p)]
  | _ => j

def siteJson (share : Nat) (nested : Bool) (members : List (String × Json)) : Json :=
  Json.mkObj [("share", share), ("nested", Json.bool nested), ("members", Json.mkObj members)]

def usageTag (u : VUsage) : String :=
  match u.inReq, u.inResp with | true, false => "req" | false, true => "resp" | _, _ => "both"

def sites : Handler := fun req => do
  let inp ← field req "in"
  let impl ← field req "impl"
  let rx := rxOfJson (fieldD inp "rx" (Json.mkObj []))
  let ds ← (← arr (← field inp "sites")).mapM siteOfJson
  let valsJ ← arr (fieldD inp "vals" (Json.arr #[]))
  let mattrs := convertVDoc rx.compiles ds
  let model := Json.mkObj [("sites", Json.arr ((ds.zip mattrs).zipIdx.map fun ((d, a), i) =>
    siteJson (shareClassV ds d i) (!d.usage.respOnly && a.any fun na => !na.2.isEmpty)
      (a.map fun na => (String.ofList na.1, Json.arr (na.2.map (attrJson fun _ => none)).toArray))).toArray)]
  let kinds := (mattrs.flatMap fun a => a.flatMap fun na => na.2.map attrKind).eraseDups
  let tag := String.intercalate "+" ((ds.map fun d => usageTag (effUsageV ds d)).eraseDups) ++ "/" ++
    (if kinds.isEmpty then "none" else String.intercalate "+" kinds)
  if let .ok e := impl.getObjVal? "err" then
    return answer model impl (verdict false [] s!"generator failed: {e.compress}") "gen-error"
  let isites ← arr (← field impl "sites")
  if isites.length != ds.length then throw "site count" else
  let structName (j : Json) : String := (fieldD j "struct" (Json.str "")).getStr?.toOption.getD ""
  let names := isites.map structName
  let mut proj : List Json := []
  let mut res : LeafRes := {}
  let mut extraFail : List String := []
  let mut idx := 0
  for ((d, ma), ij) in (ds.zip mattrs).zip isites do
    let i := idx
    idx := idx + 1
    -- the USE SITE is on the request side iff its holder is (the generated type may be shared with other holders)
    let requestSide := !d.usage.respOnly
    if let .ok e := ij.getObjVal? "err" then
      proj := proj ++ [Json.mkObj [("err", e)]]
      extraFail := extraFail ++ [s!"site {i}: {e.compress}"]
      continue
    let mj ← field ij "members"
    let share := (names.idxOf? (structName ij)).getD i
    let mut mems : List (String × Json) := []
    let mut anyAttr := false
    for (f, na) in d.site.fields.zip ma do
      let name := String.ofList f.name
      match mj.getObjVal? name with
      | .error _ =>
        extraFail := extraFail ++ [s!"site {i} ({structName ij}).{name}: member not emitted"]
      | .ok aj =>
        let ajs ← arr aj
        mems := mems ++ [(name, Json.arr (ajs.map projAttr).toArray)]
        anyAttr := anyAttr || !ajs.isEmpty
        match ajs.mapM (attrOfJson f.s.base), f.s.leaf with
        | .error e, _ => extraFail := extraFail ++ [s!"site {i} ({structName ij}).{name}: emitted attribute not understood: {e}"]
        | .ok _, none => pure ()
        | .ok ia, some l =>
          if requestSide then
            let vs : List LV := match (valsJ[i]?).bind (fun v => (v.getObjVal? name).toOption) with
              | some (.arr a) => a.toList.filterMap fun x => (lvOfJson x).toOption
              | _ => []
            let strip := fun (as : List VAttr) => as.filter (· != .nested)
            res := mergeRes res (judgeLeaf rx f.req l f.s.base (strip ia) (strip na.2) vs
              s!"site {i} ({structName ij}, own schema of {String.intercalate "." ((fieldD (fieldD inp "sites" Json.null |>.getArrVal? i |>.toOption.getD Json.null) "at" (Json.arr #[])).getArr?.toOption.getD #[] |>.toList.filterMap fun x => x.getStr?.toOption)}).{name}")
    let nested := bfieldD ij "holder_nested"
    if requestSide && anyAttr && !nested then
      extraFail := extraFail ++ [s!"site {i} ({structName ij}): the holder's member lacks #[validate(nested)], the site's validators are never run"]
    if requestSide && !(bfieldD ij "derive_ok") then
      extraFail := extraFail ++ [s!"site {i} ({structName ij}): a struct with #[validate] attributes does not derive validator::Validate"]
    proj := proj ++ [siteJson share nested mems]
  let judge := resVerdict res extraFail.isEmpty (String.intercalate "; " extraFail) []
  pure (answer model (Json.mkObj [("sites", Json.arr proj.toArray)]) judge tag)
where
  bfieldD (j : Json) (k : String) : Bool := (fieldD j k (Json.bool false)).getBool?.toOption.getD false

def ops : List (String × Handler) := [("valid.sites", sites)]

end Oas3.Driver.ValidSites
