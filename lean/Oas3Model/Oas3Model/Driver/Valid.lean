import Oas3Model.Driver.Util
import Oas3Model.Model.ValidStruct
open Lean Oas3.Driver Oas3.Valid

/-! driver ops of C16: `valid.extract` (K), `valid.gen` (E), `valid.run` (A) -/
namespace Oas3.Driver.Valid

/-! ### decoding -/

def digitsToNat (ds : List Char) : Nat := ds.foldl (fun a c => a * 10 + (c.toNat - '0'.toNat)) 0

/-- `-?digits(.digits)?([eE][+-]?digits)?` → normalised `Num` -/
def parseNum (s : List Char) : Option Num :=
  let (neg, r) := match s with | '-' :: t => (true, t) | t => (false, t)
  let ip := r.takeWhile Char.isDigit
  let r1 := r.dropWhile Char.isDigit
  if ip.isEmpty then none else
  let (fp, r2, hasDot) := match r1 with
    | '.' :: t => (t.takeWhile Char.isDigit, t.dropWhile Char.isDigit, true)
    | t => ([], t, false)
  if hasDot && fp.isEmpty then none else
  let (ex, hasExp, okTail) : (Int × Bool × Bool) := match r2 with
    | [] => (0, false, true)
    | c :: t =>
      if c == 'e' || c == 'E' then
        let (eneg, t2) := match t with | '-' :: u => (true, u) | '+' :: u => (false, u) | u => (false, u)
        if t2.isEmpty || !t2.all Char.isDigit then (0, true, false)
        else ((if eneg then -(digitsToNat t2 : Int) else (digitsToNat t2 : Int)), true, true)
      else (0, false, false)
  if !okTail then none else
  -- value = (ip ++ fp) * 10^(ex - |fp|)
  let mant : Nat := digitsToNat (ip ++ fp)
  let sc : Int := ex - (fp.length : Int)
  let (m, e) : (Nat × Nat) := if sc ≥ 0 then (mant * 10 ^ sc.toNat, 0) else (mant, (-sc).toNat)
  -- normalise: strip trailing zeros of the fraction
  let rec norm (fuel : Nat) (m e : Nat) : Nat × Nat :=
    match fuel with
    | 0 => (m, e)
    | k + 1 => if e > 0 && m % 10 == 0 then norm k (m / 10) (e - 1) else (m, e)
  let (m', e') := norm e m e
  some ⟨if neg then -(m' : Int) else (m' : Int), e', hasDot || hasExp⟩

def numOfJson (j : Json) : Except String Num := do
  let s ← chars j
  match parseNum s with
  | some n => pure n
  | none => throw s!"bad number {String.ofList s}"

def optNum (j : Json) (k : String) : Except String (Option Num) :=
  match j.getObjVal? k with
  | .ok Json.null => pure none
  | .ok v => do pure (some (← numOfJson v))
  | .error _ => pure none

def optNat (j : Json) (k : String) : Except String (Option Nat) :=
  match j.getObjVal? k with
  | .ok Json.null => pure none
  | .ok v => do pure (some (← natOf v))
  | .error _ => pure none

def optChars (j : Json) (k : String) : Except String (Option (List Char)) :=
  match j.getObjVal? k with
  | .ok Json.null => pure none
  | .ok v => do pure (some (← chars v))
  | .error _ => pure none

def jtOf (s : String) : Except String JT :=
  match s with
  | "string" => pure .string | "integer" => pure .integer | "number" => pure .number
  | "boolean" => pure .boolean | "array" => pure .array | "object" => pure .object
  | _ => throw s!"type {s}"

def tyOfJson (j : Json) : Except String TySet :=
  match j with
  | .str s => do pure (.single (← jtOf s))
  | .arr #[.str a, .str "null"] => do pure (.nullable (← jtOf a))
  | .arr #[.str "null", .str a] => do pure (.nullable (← jtOf a))
  | .obj _ => do
    match j.getObjVal? "wrap" with
    | .ok (.str a) => do pure (.wrapped (← jtOf a))
    | _ => pure .other
  | _ => pure .other

def consOfJson (j : Json) : Except String Cons := do
  pure { ty := (← tyOfJson (fieldD j "ty" Json.null)), format := (← optChars j "format"),
         hasEnum := (match j.getObjVal? "enum" with | .ok (.bool b) => b | _ => false),
         minimum := (← optNum j "minimum"), maximum := (← optNum j "maximum"),
         exMin := (← optNum j "exclusiveMinimum"), exMax := (← optNum j "exclusiveMaximum"),
         minLength := (← optNat j "minLength"), maxLength := (← optNat j "maxLength"),
         pattern := (← optChars j "pattern"), minItems := (← optNat j "minItems"), maxItems := (← optNat j "maxItems") }

def fsOfJson (j : Json) : Except String FS := do
  let k ← (← field j "k").getStr?
  match k with
  | "prim" => pure (.prim (← consOfJson (← field j "c")))
  | "arrP" => pure (.arrP (← consOfJson (← field j "c")) (← consOfJson (← field j "items")))
  | "arrR" => pure (.arrR (← consOfJson (← field j "c")) (← chars (← field j "to")))
  | "ref" => pure (.ref (← chars (← field j "to")))
  | _ => throw s!"fs kind {k}"

def primOfName (s : List Char) : Option Prim :=
  [Prim.i8, .i16, .i32, .i64, .u8, .u16, .u32, .u64, .f32, .f64, .string, .bytes, .date, .dateTime, .time, .duration, .uuid, .bool, .value].find? fun p => p.name == s

/-- lookup tables shipped by the harness: the parameters `compiles`, `is_match`, `email`, `url` of the model,
evaluated by the real `regex` / `validator` crates on the strings of this case -/
def tableLookup (j : Json) (k : String) (a : List Char) : Bool :=
  match j.getObjVal? k with
  | .ok t => (match t.getObjVal? (String.ofList a) with | .ok (.bool b) => b | _ => false)
  | .error _ => false

def rxOfJson (j : Json) : Rx :=
  { compiles := fun p => tableLookup j "compiles" p,
    isMatch := fun p s => match j.getObjVal? "matches" with
      | .ok t => tableLookup t (String.ofList p) s
      | .error _ => false,
    email := fun s => tableLookup j "email" s,
    url := fun s => tableLookup j "url" s }

def svOfJson (j : Json) : Except String SV := do
  let t ← (← field j "t").getStr?
  match t with
  | "num" => pure (.num (← numOfJson (← field j "v")))
  | "str" => pure (.str (← chars (← field j "v")))
  | _ => throw s!"sv {t}"

def lvOfJson (j : Json) : Except String LV := do
  let t ← (← field j "t").getStr?
  match t with
  | "absent" => pure .absent
  | "list" => do pure (.list (← (← arr (← field j "v")).mapM svOfJson))
  | _ => do pure (.sc (← svOfJson j))

/-! ### literals: text → `Lit` (for the IMPLEMENTATION's emitted attributes) -/

def stripSuffix (s : List Char) : List Char × Option Prim :=
  let cands := [Prim.i8, .i16, .i32, .i64, .u8, .u16, .u32, .u64, .f32, .f64]
  match cands.find? fun p => p.name.isSuffixOf s && s.length > p.name.length with
  | some p => (s.take (s.length - p.name.length), some p)
  | none => (s, none)

def parseLit (t : List Char) : Lit :=
  let mn := "::MIN".toList
  let mx := "::MAX".toList
  if mn.isSuffixOf t then
    match primOfName (t.take (t.length - 5)) with | some p => .tmin p | none => .bad t
  else if mx.isSuffixOf t then
    match primOfName (t.take (t.length - 5)) with | some p => .tmax p | none => .bad t
  else
    let (body, suf) := stripSuffix t
    let (neg, r) := match body with | '-' :: u => (true, u) | u => (false, u)
    let ds := r.filter (· != '_')
    if !ds.isEmpty && ds.all Char.isDigit && (r.head?.map Char.isDigit).getD false then
      let n : Int := digitsToNat ds
      match suf with
      | some p => if p.isFloat then .bad t else .int (if neg then -n else n) (some p)
      | none => .int (if neg then -n else n) none
    else
      match suf, parseNum t with
      | none, some n => if n.f then .flt n else .bad t
      | _, _ => .bad t

def optLit (j : Json) (k : String) : Except String (Option Lit) :=
  match j.getObjVal? k with
  | .ok Json.null => pure none
  | .ok v => do pure (some (parseLit (← chars v)))
  | .error _ => pure none

/-- emitted attribute (harness facts) → `VAttr`.  For `regex` the pattern is the text of the constant the
attribute names (`pat`), falling back to the literal `path` (K op: not yet hoisted). -/
def attrOfJson (fp : Prim) (j : Json) : Except String VAttr := do
  let k ← (← field j "k").getStr?
  match k with
  | "email" => pure .email
  | "url" => pure .url
  | "nested" => pure .nested
  | "length" => pure (.length (← optNat j "min") (← optNat j "max"))
  | "range" => pure (.range fp (← optLit j "min") (← optLit j "max") (← optLit j "exclusive_min") (← optLit j "exclusive_max"))
  | "regex" =>
    match j.getObjVal? "pat" with
    | .ok (.str p) => pure (.regex p.toList)
    | _ => do pure (.regex (← chars (← field j "path")))
  | _ => throw s!"unknown emitted attribute {j.compress}"

/-! ### encoding of MODEL attributes (same shape as the harness facts) -/

def optNatJson : Option Nat → Json
  | some n => n
  | none => Json.null
def optLitJson : Option Lit → Json
  | some l => str l.text
  | none => Json.null

def attrJson (pathOf : List Char → Option (List Char × List Char)) : VAttr → Json
  | .email => Json.mkObj [("k", "email")]
  | .url => Json.mkObj [("k", "url")]
  | .nested => Json.mkObj [("k", "nested")]
  | .length a b => Json.mkObj [("k", "length"), ("min", optNatJson a), ("max", optNatJson b)]
  | .range _ a b c d => Json.mkObj [("k", "range"), ("min", optLitJson a), ("max", optLitJson b), ("exclusive_min", optLitJson c), ("exclusive_max", optLitJson d)]
  | .regex p =>
    match pathOf p with
    | some (tok, pat) => Json.mkObj [("k", "regex"), ("path", str tok), ("pat", str pat)]
    | none => Json.mkObj [("k", "regex"), ("path", str p)]

/-! ### leaf judging -/

def classesOf (rx : Rx) (l : Leaf) : List String :=
  (if KnownWrapperConstraintsLost l.c then ["KnownWrapperConstraintsLost"] else []) ++
  (if KnownNullableNumeric l.c then ["KnownNullableNumeric"] else []) ++
  (if KnownNullableArray l.c then ["KnownNullableArray"] else []) ++
  (if KnownItemConstraintsLost l then ["KnownItemConstraintsLost"] else []) ++
  (if KnownSpecialFormatSkipsLength l.c then ["KnownSpecialFormatSkipsLength"] else []) ++
  (if KnownUncompilableRegex rx l.c then ["KnownUncompilableRegex"] else []) ++
  (if KnownFloatBoundOnInt l.c then ["KnownFloatBoundOnInt"] else []) ++
  (if KnownBoundOutsideType l.c then ["KnownBoundOutsideType"] else []) ++
  (if KnownFloatExponentLiteral l.c then ["KnownFloatExponentLiteral"] else []) ++
  (if KnownClampChangesMeaning l.c then ["KnownClampChangesMeaning"] else [])

structure LeafRes where
  fails : Nat := 0
  unknown : Nat := 0
  known : List String := []
  why : String := ""

/-- judge one leaf on the implementation's attributes `ia` over the values `vs`; a failure is attributed to the
leaf's known classes only when the MODEL's attributes `ma` fail on the same value too. -/
def judgeLeaf (rx : Rx) (req : Bool) (l : Leaf) (fp : Prim) (ia ma : List VAttr) (vs : List LV) (tag : String)
    (extraCls : List String := []) : LeafRes :=
  let cls := classesOf rx l ++ extraCls
  vs.foldl (fun r v =>
    if !lvTyped l v then r
    else if leafJ rx req l fp ia v then r
    else
      let modelFails := !leafJ rx req l fp ma v
      if modelFails && !cls.isEmpty then LeafRes.mk (r.fails + 1) r.unknown ((r.known ++ cls).eraseDups) r.why
      else
        let msg := s!"{tag}: value {repr v} accepted={acceptsAll rx fp ia v} satisfies={satisfies rx l.c l.items v} typed={ia.all (VAttr.typed fp)}"
        LeafRes.mk (r.fails + 1) (r.unknown + 1) r.known (if r.why.isEmpty then msg else r.why))
    {}

def mergeRes (a b : LeafRes) : LeafRes :=
  { fails := a.fails + b.fails, unknown := a.unknown + b.unknown, known := (a.known ++ b.known).eraseDups,
    why := if a.why.isEmpty then b.why else a.why }

def resVerdict (r : LeafRes) (extraOk : Bool := true) (extraWhy : String := "") (extraKnown : List String := []) : Json :=
  if r.unknown > 0 then verdict false [] r.why
  else if !extraOk && extraKnown.isEmpty then verdict false [] extraWhy
  else if r.fails > 0 || !extraOk then verdict false (r.known ++ extraKnown).eraseDups (if r.why.isEmpty then extraWhy else r.why)
  else verdict true []

def attrKind : VAttr → String
  | .email => "email" | .url => "url" | .nested => "nested" | .length .. => "length" | .range .. => "range" | .regex _ => "regex"

/-! ### op valid.extract (K): `FieldConverter::extract_all_validation` + `ToTokens` on one schema -/

def opExtract : Handler := fun req => do
  let inp ← field req "in"
  let impl ← field req "impl"
  let rxj := fieldD inp "rx" (Json.mkObj [])
  let rx := rxOfJson rxj
  let s ← fsOfJson (← field inp "s")
  let isReq ← boolOf (← field inp "req")
  let asParam := match inp.getObjVal? "param" with | .ok (.bool b) => b | _ => false
  let ma := if asParam then paramAttrs rx.compiles isReq s else memberAttrs rx.compiles isReq s
  let model := Json.mkObj [("attrs", Json.arr (ma.map (attrJson fun _ => none)).toArray)]
  let fp := s.base
  let vs ← (← arr (fieldD inp "vals" (Json.arr #[]))).mapM lvOfJson
  let implAttrs : Except String (List VAttr) := do (← arr (← field impl "attrs")).mapM (attrOfJson fp)
  let judge := match implAttrs, s.leaf with
    | .ok ia, some l => resVerdict (judgeLeaf rx isReq l fp ia ma vs "leaf")
    | .ok _, none => verdict true []
    | .error e, _ => verdict false [] s!"implementation output not understood: {e}"
  let branch := String.intercalate "+" (ma.map attrKind)
  pure (answer model impl judge (if branch.isEmpty then "trivial" else branch))

/-! ### op valid.gen (E): the whole generator on a spec of the fragment -/

def mfieldOfJson (isParam : Bool) (j : Json) : Except String MField := do
  pure { name := (← chars (← field j "name")), req := (← boolOf (← field j "req")), s := (← fsOfJson (← field j "s")), isParam }

def optName (j : Json) (k : String) : Except String (Option Valid.Name) := optChars j k

def descOfJson (j : Json) : Except String Desc := do
  let schemas ← (← arr (← field j "schemas")).mapM fun s => do
    pure ((← chars (← field s "name")), (← (← arr (← field s "fields")).mapM (mfieldOfJson false)))
  let aliases ← (← arr (fieldD j "aliases" (Json.arr #[]))).mapM fun a => do
    pure ((← chars (← field a "name")), (← chars (← field a "to")))
  let params ← (← arr (fieldD j "params" (Json.arr #[]))).mapM fun p => do
    let loc ← match (← (← field p "in").getStr?) with
      | "path" => pure Loc.path | "query" => pure Loc.query | "header" => pure Loc.header
      | o => throw s!"loc {o}"
    pure ({ name := (← chars (← field p "name")), loc, req := (← boolOf (← field p "req")), s := (← fsOfJson (← field p "s")) } : Param)
  pure { schemas, aliases, params, body := (← optName j "body"), resp := (← optName j "resp"), echo := (← optName j "echo") }

def structsJson (ss : List EStruct) : Json :=
  let h := hoist ss
  Json.mkObj (ss.map fun s =>
    (String.ofList s.name, Json.mkObj (s.fields.map fun f =>
      (String.ofList f.name, Json.arr (f.attrs.map (attrJson fun p => some (effectivePattern h s.name f.name p))).toArray))))

/-- declared request-side reachability: from `OpRequest` through members / array items / optional / boxed members
of struct type; `viaAlias = true` also follows array aliases (`type X = Vec<T>`). -/
def declaredSucc (ms : List MStruct) (aliases : List (Valid.Name × Valid.Name)) (viaAlias : Bool) (n : Valid.Name) : List Valid.Name :=
  ((ms.filter (·.name == n)).flatMap fun s => s.fields.filterMap (·.s.target)) ++
  (if viaAlias then (aliases.filter (·.1 == n)).map (·.2) else [])

def nestedSucc (ss : List EStruct) (n : Valid.Name) : List Valid.Name :=
  (ss.filter (·.name == n)).flatMap fun s => s.fields.filterMap fun f => if f.attrs.contains .nested then f.target else none

def opGen : Handler := fun req => do
  let inp ← field req "in"
  let impl ← field req "impl"
  let rxj := fieldD inp "rx" (Json.mkObj [])
  let rx := rxOfJson rxj
  let d ← descOfJson (← field inp "desc")
  let ms := assemble d
  let some pre := genPre rx.compiles d | throw "model: closure did not stabilise"
  let es := applyHoist pre
  let mstructs := structsJson pre
  let model := Json.mkObj [("structs", mstructs), ("validates_first", true), ("derive_ok", true)]
  -- implementation side
  if let .ok e := impl.getObjVal? "err" then
    return answer model impl (verdict false [] s!"generator failed: {e.compress}") "gen-error"
  let istructs ← field impl "structs"
  let valsJ := fieldD inp "vals" (Json.mkObj [])
  -- emitted structs as EStruct (typed against the DECLARED field primitive)
  let implE : Except String (List EStruct) := ms.mapM fun m => do
    let sj ← field istructs (String.ofList m.name)
    let fs ← m.fields.mapM fun f => do
      let aj ← field sj (String.ofList f.name)
      let as ← (← arr aj).mapM (attrOfJson f.s.base)
      pure ({ name := f.name, attrs := as, target := f.s.target } : EField)
    pure ({ name := m.name, kind := m.kind, fields := fs } : EStruct)
  match implE with
  | .error e =>
    pure (answer model (Json.mkObj [("structs", istructs), ("validates_first", fieldD impl "validates_first" Json.null), ("derive_ok", fieldD impl "derive_ok" Json.null)])
      (verdict false [] s!"emitted structs do not cover the declared ones: {e}") "shape")
  | .ok ie =>
    -- request side, declared
    let some dAll := reach (declaredSucc ms d.aliases true) (ms.length + d.aliases.length + 1) ["OpRequest".toList] | throw "declared closure"
    let some dStruct := reach (declaredSucc ms d.aliases false) (ms.length + 1) ["OpRequest".toList] | throw "declared closure"
    let some nReach := reach (nestedSucc ie) (ie.length + 1) ["OpRequest".toList] | throw "nested closure"
    -- leaves of request-side structs
    let leafRes := (ms.zip (ie.zip es)).foldl (fun acc (m, (i, e)) =>
      if !dAll.contains m.name then acc else
      (m.fields.zip (i.fields.zip e.fields)).foldl (fun acc2 (f, (fi, fe)) =>
        match f.s.leaf with
        | none => acc2
        | some l =>
          let vs : List LV := match (valsJ.getObjVal? (String.ofList m.name)) with
            | .ok sv => (match sv.getObjVal? (String.ofList f.name) with
                | .ok (.arr a) => a.toList.filterMap fun x => (lvOfJson x).toOption
                | _ => [])
            | .error _ => []
          let strip := fun (as : List VAttr) => as.filter (· != .nested)
          let collide := match l.c.pattern with
            | some p => fe.attrs.any fun a => match a with | .regex q => q != p | _ => false
            | none => false
          mergeRes acc2 (judgeLeaf rx f.req l f.s.base (strip fi.attrs) (strip fe.attrs) vs
            s!"{String.ofList m.name}.{String.ofList f.name}" (if collide then ["KnownRegexConstCollision"] else []))) acc) ({} : LeafRes)
    -- reachability: every declared-constrained struct on the request side is reached through `nested` members
    -- (a declared constraint for which nothing is emitted is the leaf judge's business; here: emitted
    -- attributes on the request side must not be dead)
    let constrained := ie.filter fun s => dAll.contains s.name && s.fields.any fun f => f.attrs.any (· != .nested)
    let unreached := constrained.filter fun m => !nReach.contains m.name
    let unreachedUnknown := unreached.filter fun m => dStruct.contains m.name
    let aliasKnown := !unreached.isEmpty && unreachedUnknown.isEmpty
    let vfirst := match impl.getObjVal? "validates_first" with | .ok (.bool b) => b | _ => false
    let dok := match impl.getObjVal? "derive_ok" with | .ok (.bool b) => b | _ => false
    let nj := nestedJ ie
    let extraOk := unreached.isEmpty && vfirst && dok && nj
    let extraWhy :=
      if !vfirst then "client method does not start with request.validate()"
      else if !dok then "a struct with #[validate] attributes does not derive validator::Validate"
      else if !nj then "a member whose type is a validated struct lacks #[validate(nested)]"
      else s!"request-side struct(s) with declared constraints not reached through nested validation: {unreached.map fun m => String.ofList m.name}"
    let extraKnown := if vfirst && dok && nj && aliasKnown then ["KnownBodyAliasUnvalidated"] else []
    let judge := resVerdict leafRes extraOk extraWhy extraKnown
    let implView := Json.mkObj [("structs", istructs), ("validates_first", fieldD impl "validates_first" Json.null), ("derive_ok", fieldD impl "derive_ok" Json.null)]
    let kinds := (es.flatMap fun s => s.fields.flatMap fun f => f.attrs.map attrKind).eraseDups
    pure (answer model implView judge (if kinds.isEmpty then "trivial" else String.intercalate "+" kinds))

/-! ### ops of the arena tie (A): Sem on whole values -/

def numOfJsonNumber (n : JsonNumber) : Num := ⟨n.mantissa, n.exponent, false⟩

def svOfRaw : Json → Option SV
  | .num n => some (.num (numOfJsonNumber n))
  | .str s => some (.str s.toList)
  | _ => none

/-- JSON member → leaf value (`null` / missing / booleans carry no constraint) -/
def lvOfRaw (s : FS) (j : Option Json) : LV :=
  match j with
  | none | some .null => .absent
  | some (.arr a) => .list (a.toList.filterMap svOfRaw)
  | some v => match s, svOfRaw v with
    | .prim _, some x => .sc x
    | _, _ => .absent

/-- `validate()` of a whole value of struct `ty` under the attributes `es` (Sem: leaf attributes on every member, `nested`
recurses into Option / Vec / Box members).  `fuel` bounds the depth of the value. -/
def acceptsTree (rx : Rx) (ms : List MStruct) (es : List EStruct) : Nat → Valid.Name → Json → Bool
  | 0, _, _ => true
  | fuel + 1, ty, v =>
    match ms.find? (·.name == ty), es.find? (·.name == ty) with
    | some m, some e =>
      (m.fields.zip e.fields).all fun (f, ef) =>
        let jv := (v.getObjVal? (String.ofList f.name)).toOption
        let leafAttrs := ef.attrs.filter (· != .nested)
        match f.s with
        | .prim _ | .arrP _ _ => acceptsAll rx f.s.base leafAttrs (lvOfRaw f.s jv)
        | .arrR _ t =>
          (match jv with
           | some (.arr a) =>
             acceptsAll rx f.s.base leafAttrs (.list (a.toList.map fun _ => SV.str [])) &&
             (!ef.attrs.contains .nested || a.toList.all fun x => acceptsTree rx ms es fuel t x)
           | _ => true)
        | .ref t =>
          (match jv with
           | some (.obj o) => !ef.attrs.contains .nested || acceptsTree rx ms es fuel t (.obj o)
           | _ => true)
    | _, _ => true

def allTyped (ms : List MStruct) (es : List EStruct) : Bool :=
  (ms.zip es).all fun (m, e) => (m.fields.zip e.fields).all fun (f, ef) => ef.attrs.all (VAttr.typed f.s.base)

def opTyped : Handler := fun req => do
  let inp ← field req "in"
  let rx := rxOfJson (fieldD inp "rx" (Json.mkObj []))
  let d ← descOfJson (← field inp "desc")
  let some es := genModel rx.compiles d | throw "model: closure did not stabilise"
  let model := Json.mkObj [("typed", allTyped (assemble d) es)]
  pure (Json.mkObj [("model", model), ("match", true), ("judge", verdict true []), ("branch", "typed")])

def opRun : Handler := fun req => do
  let inp ← field req "in"
  let impl ← field req "impl"
  let rx := rxOfJson (fieldD inp "rx" (Json.mkObj []))
  let d ← descOfJson (← field inp "desc")
  let ms := assemble d
  let some es := genModel rx.compiles d | throw "model: closure did not stabilise"
  let typed := allTyped ms es
  let probes ← arr (fieldD inp "probes" (Json.arr #[]))
  let vs ← probes.mapM fun p => do
    let ty ← chars (← field p "ty")
    pure (Json.bool (acceptsTree rx ms es 12 ty (← field p "v")))
  let model := Json.mkObj [("compiles", typed), ("verdicts", Json.arr (if typed then vs else []).toArray)]
  let ok := model == impl
  pure (answer model impl (verdict ok [] (if ok then "" else "compiled validate() / rustc disagree with Sem on the model's attributes"))
    (if typed then "run" else "rejected-by-rustc"))

def containsSub (s sub : String) : Bool := (s.splitOn sub).length > 1

def opClient : Handler := fun req => do
  let impl ← field req "impl"
  let g := fun k => match impl.getObjVal? k with | .ok (.str s) => s | _ => ""
  let pv := "parameter validation"
  let ok := containsSub (g "bad_param") pv && containsSub (g "bad_body") pv && !containsSub (g "good") pv && g "good" != ""
  pure (answer impl impl (verdict ok [] (if ok then "" else s!"client did not refuse exactly the invalid requests: {impl.compress}")) "client")

def ops : List (String × Handler) :=
  [("valid.extract", opExtract), ("valid.gen", opGen), ("valid.typed", opTyped), ("valid.run", opRun), ("valid.client", opClient)]

end Oas3.Driver.Valid
