import Lean.Data.Json
/-! JSON helpers shared by the driver's per-kernel op tables. -/
open Lean

namespace Oas3.Driver

abbrev Handler := Json → Except String Json

def chars (j : Json) : Except String (List Char) := do
  let s ← j.getStr?
  pure s.toList

def str (cs : List Char) : Json := Json.str (String.ofList cs)

def field (j : Json) (k : String) : Except String Json := j.getObjVal? k

def fieldD (j : Json) (k : String) (d : Json) : Json :=
  match j.getObjVal? k with | .ok v => v | .error _ => d

def arr (j : Json) : Except String (List Json) := do
  let a ← j.getArr?
  pure a.toList

def charsList (j : Json) : Except String (List (List Char)) := do
  let a ← arr j
  a.mapM chars

def strList (l : List (List Char)) : Json := Json.arr (l.map str).toArray

def natOf (j : Json) : Except String Nat := j.getNat?
def boolOf (j : Json) : Except String Bool := j.getBool?

def optStr : Option (List Char) → Json
  | some s => str s
  | none => Json.null

/-- judge verdict -/
def verdict (ok : Bool) (known : List String) (why : String := "") : Json :=
  Json.mkObj [("ok", Json.bool ok), ("known", Json.arr (known.map Json.str).toArray), ("why", Json.str why)]

/-- standard answer: model output, whether it equals the implementation's, and the judge's verdict
on the IMPLEMENTATION's output. -/
def answer (model impl : Json) (judge : Json) (branch : String := "") : Json :=
  Json.mkObj [("model", model), ("match", Json.bool (model == impl)), ("judge", judge), ("branch", Json.str branch)]

end Oas3.Driver
