import Oas3Model.Driver.Util
import Oas3Model.Model.Cache
import Oas3Model.Model.Responses
import Oas3Model.Gen.Naming
open Lean Oas3.Driver Oas3.Cache

/-! Driver ops of the Cache kernel (property C13).  `model` = F(in); `judge` = the property on the
IMPLEMENTATION's output; `known` only names classes that the model exhibits on the same input. -/
namespace Oas3.Driver.Cache

partial def toJ (j : Json) : Except String J :=
  match j with
  | .null => pure .null
  | .bool b => pure (.bool b)
  | .num n => if n.exponent == 0 then pure (.num n.mantissa) else throw "float"
  | .str s => pure (.str s.toList)
  | .arr a => do pure (.arr (← a.toList.mapM toJ))
  | .obj m => do pure (.obj (← m.toList.mapM fun (k, v) => do pure (k.toList, ← toJ v)))

def jvOf (j : Json) : Except String JV :=
  match j with
  | .str s => pure (.str s.toList)
  | .bool b => pure (.bool b)
  | .null => pure .null
  | .num n => if n.exponent == 0 then pure (.int n.mantissa) else throw "float"
  | _ => throw "enum value shape"

def strsJson (l : List (List Char)) : Json := Json.arr (l.map str).toArray

def pairs {α} : List α → List (α × α)
  | [] => []
  | x :: r => r.map (fun y => (x, y)) ++ pairs r

def idxPairs (n : Nat) : List (Nat × Nat) := pairs (List.range n)

/-! #### cache.canon -/

def canonH : Handler := fun req => do
  let inp ← field req "in"
  let impl ← field req "impl"
  let vals ← arr (← field inp "values")
  let implC ← arr (← field impl "canon")
  let js ← vals.mapM fun v => match v with | .null => pure none | v => do pure (some (← toJ v))
  let model := js.map fun j => match j with | some j => str (canonString j) | none => Json.null
  let implS := implC.map fun c => match c with | .str s => some s.toList | _ => none
  let ok := (model.zip implC).all fun (m, c) => m == Json.null || m == c
  -- judge: equal canonical forms => equal up to member order / order of the three string arrays
  let mut bad : List String := []
  let mut known : List String := []
  let mut anyEq := false
  for (i, k) in idxPairs js.length do
    match js[i]?, js[k]?, implS[i]?, implS[k]? with
    | some (some a), some (some b), some (some ca), some (some cb) =>
      if ca == cb then
        anyEq := true
        if ser (canonNoClamp a) != ser (canonNoClamp b) then
          bad := s!"schemas {i} and {k} have one canonical form but differ beyond ordering" :: bad
          if (hasBig a || hasBig b) && canonString a == canonString b then known := "KnownClamp" :: known
    | _, _, _, _ => pure ()
  let judge := verdict bad.isEmpty (if bad.length == known.length then known.eraseDups else []) (String.intercalate "; " bad)
  pure (Json.mkObj [("model", Json.mkObj [("canon", Json.arr model.toArray)]), ("match", ok), ("judge", judge),
    ("branch", Json.str (if !bad.isEmpty then "collision" else if anyEq then "equal-pair" else "distinct"))])

/-! #### cache.canon_perm (C11): the schemas of one case are RE-ORDERINGS of one document (object members shuffled at every
depth; the driver's JSON reader does not even see the order). The model's canonical form is one and the same for all of
them (`canon_permJ`); the judge demands the same of the implementation's. -/

def canonPermH : Handler := fun req => do
  let inp ← field req "in"
  let impl ← field req "impl"
  let vals ← arr (← field inp "values")
  let implC ← arr (← field impl "canon")
  -- a schema the model's J cannot hold (a non-integral number) has no model side; the judge still applies
  let js : List (Option J) := vals.map fun v => match v with | .null => none | v => (toJ v).toOption
  let model := js.map fun j => match j with | some j => str (canonString j) | none => Json.null
  let ok := (model.zip implC).all fun (m, c) => m == Json.null || m == c
  let distinct := implC.eraseDups
  let judge := if distinct.length ≤ 1 then verdict true []
    else verdict false [] s!"re-orderings of ONE schema get {distinct.length} different canonical forms (cache keys): {(distinct.map (·.compress)).map (·.take 160)}"
  pure (Json.mkObj [("model", Json.mkObj [("canon", Json.arr model.toArray)]), ("match", ok), ("judge", judge),
    ("branch", Json.str (if vals.any (fun v => (v.compress.splitOn "{").length > 3) then "nested-objects" else "flat"))])

/-! #### cache.enum_key -/

def typeIsString (j : Json) : Bool :=
  match j.getObjVal? "type" with
  | .ok (.str "string") => true
  | .ok (.arr a) => a.size == 2 && a.contains (.str "string") && a.contains (.str "null")
  | _ => false

def hasKey (j : Json) (k : String) : Bool := (j.getObjVal? k).toOption.isSome
def arrD (j : Json) (k : String) : List Json := match j.getObjVal? k with | .ok (.arr a) => a.toList | _ => []

/-- `const_value: Option<Value>`: a JSON `null` const deserialises to `None` -/
def constOf (j : Json) : Option Json := match j.getObjVal? "const" with | .ok .null => none | .ok c => some c | .error _ => none
def freeform (j : Json) : Bool := typeIsString j && (arrD j "enum").isEmpty && (constOf j).isNone
def constrained (j : Json) : Bool := !(arrD j "enum").isEmpty || (constOf j).isSome

def variantEntries (j : Json) : List Json :=
  if freeform j then [] else
  match constOf j with
  | some c => [c]
  | none => arrD j "enum"

def uniqJson : List Json → List Json → List Json
  | [], acc => acc.reverse
  | x :: r, acc => if acc.any (· == x) then uniqJson r acc else uniqJson r (x :: acc)

/-- `extract_enum_entries` on inline variants -/
def enumEntries (j : Json) : List Json :=
  if !(arrD j "enum").isEmpty then arrD j "enum" else
  match constOf j with
  | some c => [c]
  | none => uniqJson ((arrD j "anyOf" ++ arrD j "oneOf").flatMap variantEntries) []

def relaxedPattern (j : Json) : Bool :=
  let vs := (arrD j "anyOf" ++ arrD j "oneOf").filter fun v => !hasKey v "$ref"
  vs.any freeform && vs.any fun v => !freeform v && constrained v

def keyOfEntries (es : List Json) : List (List Char) :=
  sortStrs (es.filterMap fun e => match e with | .str s => some s.toList | _ => none)

def enumKeyH : Handler := fun req => do
  let inp ← field req "in"
  let impl ← field req "impl"
  let ss ← arr (← field inp "schemas")
  let model := Json.mkObj [("keys", Json.arr (ss.map fun s => strsJson (keyOfEntries (enumEntries s))).toArray),
                           ("relaxed", Json.arr (ss.map fun s => Json.bool (relaxedPattern s)).toArray)]
  let implK ← arr (← field impl "keys")
  let mut bad : List String := []
  let mut known : List String := []
  for (i, k) in idxPairs ss.length do
    match ss[i]?, ss[k]?, implK[i]?, implK[k]? with
    | some a, some b, some ka, some kb =>
      let ea := arrD a "enum"; let eb := arrD b "enum"
      if !ea.isEmpty && !eb.isEmpty && ka == kb then
        match ea.mapM jvOf, eb.mapM jvOf with
        | .ok va, .ok vb =>
          if !sameMembers (wireVals va) (wireVals vb) then
            bad := s!"enums {i} and {k} have one cache key but accept different values" :: bad
            if KnownNonStringEnum va vb && enumKey va == enumKey vb then known := "KnownNonStringEnum" :: known
        | _, _ => pure ()
    | _, _, _, _ => pure ()
  let judge := verdict bad.isEmpty (if bad.length == known.length then known.eraseDups else []) (String.intercalate "; " bad)
  pure (Json.mkObj [("model", model), ("match", model == impl), ("judge", judge), ("branch", Json.str (if bad.isEmpty then "sound" else "non-string"))])

/-! #### cache.union_fp -/

def refNameOf (v : Json) : Option (List Char) :=
  match v.getObjVal? "$ref" with
  | .ok (.str s) =>
    let p := "#/components/schemas/"
    if s.startsWith p then some (s.drop p.length).toString.toList else none
  | _ => none

def insKeyed (x : List Char × Json) : List (List Char × Json) → List (List Char × Json)
  | [] => [x]
  | y :: r => if sLe x.1 y.1 then x :: y :: r else y :: insKeyed x r

/-- insertion sort on the compressed text (set comparison of rows) -/
def sortJsonArr (l : List Json) : List Json :=
  ((l.map fun j => (j.compress.toList, j)).foldr insKeyed []).map (·.2)

def unionFpH : Handler := fun req => do
  let inp ← field req "in"
  let impl ← field req "impl"
  let m ← match (← field inp "schemas") with | .obj m => pure m.toList | _ => throw "schemas: not an object"
  let named := m.map fun (k, v) => (k.toList, v)
  let sorted := sortKV (named.map fun (k, _) => (k, J.null)) |>.map (·.1)
  let mut tbl : List (List (List Char) × List Char) := []
  for name in sorted.eraseDups do
    match named.lookup name with
    | none => pure ()
    | some sch =>
      for key in ["oneOf", "anyOf"] do
        let refs := sortDedup ((arrD sch key).filterMap refNameOf)
        if refs.length ≥ 2 then tbl := insertA refs name tbl
  let rows := tbl.map fun (refs, n) => Json.arr #[strsJson refs, str n]
  let implRows ← arr (← field impl "fp")
  let a := sortJsonArr rows; let b := sortJsonArr implRows
  pure (Json.mkObj [("model", Json.mkObj [("fp", Json.arr a.toArray)]), ("match", a == b), ("judge", verdict true []),
    ("branch", Json.str (if rows.isEmpty then "trivial" else "unions"))])

/-! #### cache.script -/

def asciiTr : Oas3.Naming.Tr := fun c => [c]

def nameFns : NameFns :=
  { mkName := Oas3.Naming.toRustTypeName Oas3.Gen.prelude asciiTr,
    uniq := fun b used => (Oas3.Naming.ensureUnique b used).getD b }

def optStrs (j : Json) : Except String (Option (List (List Char))) :=
  match j with
  | .null => pure none
  | j => do pure (some (← charsList j))

def optChars (j : Json) : Except String (Option (List Char)) :=
  match j with
  | .null => pure none
  | j => do pure (some (← chars j))

def canonOfStep (st : Json) : Except String (List Char) := do
  pure (canonString (← toJ (← field st "value")))

def outJson : Out → Json
  | .unit => Json.null
  | .name n => optStr n
  | .key k => match k with | some k => strsJson k | none => Json.null
  | .flag b => Json.bool b
  | .reg r => Json.mkObj [("name", str r.name), ("reg_enum", r.regEnum), ("values", match r.values with | some k => strsJson k | none => Json.null)]

def scriptH : Handler := fun req => do
  let inp ← field req "in"
  let impl ← field req "impl"
  let steps ← arr (← field inp "steps")
  let mut st : St := {}
  let mut outs : List Json := []
  let mut regs : List (List Char × List Char) := []      -- (canon, name) of the impl's reg results
  let implR ← arr (← field impl "results")
  let mut idx := 0
  for s in steps do
    let op ← (← field s "op").getStr?
    let stp : Option Step ← match op with
      | "pre" => do
        let rows ← arr (fieldD s "values" (Json.arr #[]))
        let mut pre := []; let mut metas := []
        for r in rows do
          match r with
          | .arr #[v, n, k] =>
            let c := canonString (← toJ v)
            pre := insertA c (← chars n) pre
            -- both tables are BTreeMaps filled row by row: a later row with the same canonical form replaces the
            -- earlier one, name AND enum key
            metas := insertA c (← optStrs k) metas
          | _ => throw "pre row"
        let mut epre := []
        for r in (← arr (fieldD s "enums" (Json.arr #[]))) do
          match r with
          | .arr #[k, n] => epre := insertA (← charsList k) (← chars n) epre
          | _ => throw "enum row"
        st := { st with pre := pre, metaK := metas, epre := epre }
        pure none
      | "top" => pure (some (.top (← canonOfStep s) (← chars (← field s "name"))))
      | "get_type_name" => pure (some (.getTypeName (← canonOfStep s)))
      | "get_enum_name" => pure (some (.getEnumName (← charsList (← field s "values_key"))))
      | "get_generated_enum_name" => pure (some (.getGeneratedEnumName (← charsList (← field s "values_key"))))
      | "precomputed_key" => pure (some (.precomputedKey (← canonOfStep s)))
      | "preferred" => pure (some (.preferred (← canonOfStep s) (← chars (← field s "base"))))
      | "reg" => pure (some (.reg (← canonOfStep s) (← boolOf (← field s "relaxed")) (← boolOf (← field s "relaxed_anyof")) (← chars (← field s "base")) (← optStrs (fieldD s "key" Json.null))))
      | "unique" => pure (some (.unique (← chars (← field s "base"))))
      | "mark" => pure (some (.mark (← chars (← field s "name"))))
      | "register_enum" => pure (some (.registerEnum (← charsList (← field s "values_key")) (← chars (← field s "name"))))
      | "get_union" => pure (some (.getUnion (← charsList (← field s "refs")) (← optChars (fieldD s "disc" Json.null))))
      | "register_union" => pure (some (.registerUnion (← charsList (← field s "refs")) (← optChars (fieldD s "disc" Json.null)) (← chars (← field s "name"))))
      | "conflicts" => pure (some (.conflicts (← chars (← field s "name")) (← canonOfStep s)))
      | other => throw s!"unknown step {other}"
    match stp with
    | none => outs := outs ++ [Json.null]
    | some stp =>
      let (st', o) := step nameFns st stp
      st := st'
      outs := outs ++ [outJson o]
      if op == "reg" then
        match implR[idx]? with
        | some r => match r.getObjVal? "name" with
          | .ok (.str n) => regs := regs ++ [(← canonOfStep s, n.toList)]
          | _ => pure ()
        | none => pure ()
    idx := idx + 1
  let model := Json.mkObj [("results", Json.arr outs.toArray)]
  pure (Json.mkObj [("model", model), ("match", model == impl), ("judge", verdict true []), ("branch", Json.str (if regs.isEmpty then "lookups" else "registrations"))])

/-! #### share.sites (tie E) -/

def kindOf (s : Json) : Kind :=
  if !(arrD s "enum").isEmpty then .enum
  else if !(arrD s "oneOf").isEmpty || !(arrD s "anyOf").isEmpty then .union
  else if hasKey s "properties" then .object
  else .other

def unionOf (s : Json) (tagged : List (List Char) := []) : UnionS :=
  let vs := if (arrD s "oneOf").isEmpty then arrD s "anyOf" else arrD s "oneOf"
  let vars := vs.map fun v =>
    match refNameOf v with
    | some n => Var.ref n
    | none => match v.getObjVal? "type" with
      | .ok (.str "null") => Var.null
      | .ok (.str t) => Var.prim t.toList
      | _ => Var.prim v.compress.toList
  let d := fieldD s "discriminator" Json.null
  let disc := match d.getObjVal? "propertyName" with | .ok (.str p) => some p.toList | _ => none
  let mapped := match d.getObjVal? "mapping" with | .ok (.obj m) => !m.toList.isEmpty | _ => false
  -- `tagged`: the pool's components that carry a `const` tag and are registered in the discriminator cache
  let implicit := disc.isSome && !mapped && !vars.isEmpty && vars.all fun v => match v with | Var.ref n => tagged.contains n | _ => false
  { vars, disc, mapped, implicit }

structure OccIn where
  occ : Occ
  schema : Json
  holder : List Char := []
  prop : List Char := []
  /-- `some w`: an array-item site; `w` = singular form of the member name (cruet::to_singular, given by the case) -/
  single : Option (List Char) := none

def occOf (o : Json) : Except String OccIn := do
  let site ← field o "site"
  let schema ← field o "schema"
  let value ← field o "value"
  let named ← match (← field site "kind").getStr? with
    | .ok "named" => do pure (some (← chars (← field site "name")))
    | _ => pure none
  let kind := kindOf schema
  let ekey := match (arrD schema "enum").mapM jvOf with | .ok vs => enumKey vs | .error _ => []
  let u := unionOf schema
  let ord := match site.getObjVal? "holder", site.getObjVal? "prop" with
    | .ok (.str h), .ok (.str p) => (h ++ "." ++ p).toList
    | _, _ => []
  let holder := match site.getObjVal? "holder" with | .ok (.str h) => h.toList | _ => []
  let prop := match site.getObjVal? "prop" with | .ok (.str h) => h.toList | _ => []
  let single := match site.getObjVal? "kind", site.getObjVal? "single" with
    | .ok (.str "items"), .ok (.str w) => some w.toList
    | .ok (.str "items"), _ => some prop
    | _, _ => none
  -- a type-less schema with only annotations: its `title`
  let titleOnly : Option (List Char) :=
    match schema with
    | .obj kvs =>
      if kvs.toList.all (fun (k, _) => k == "title" || k == "description") then
        (match schema.getObjVal? "title" with
         | .ok (.str t) => some t.toList          -- compared with the component KEY as written (`graph().get(title)`)
         | _ => none)
      else none
    | _ => none
  pure { occ := { named, kind, ord, canon := canonString (← toJ value), ekey, refs := if kind == .union then refsOf u else [], disc := u.disc, title := titleOnly }, schema, holder, prop, single }

/-- F13-6: the item type of an array member `H.ps` is named `H` + Pascal(singular `ps`) at run time; an inline
enum at the sibling member `H.p` with `p` = that singular has the same pre-computed name and is given it
unconditionally (`prepare_registration`, enum branch) - two different value sets, one type -/
def nameClash (a b : OccIn) : Bool :=
  -- `it`: the array-item site (any kind of run-time named type), `pr`: the sibling member holding an inline ENUM
  let dir (it pr : OccIn) : Bool :=
    it.single.isSome && pr.single.isNone && it.single == some pr.prop && pr.occ.kind == .enum &&
    (it.occ.kind != .enum || it.occ.ekey != pr.occ.ekey)
  a.occ.named.isNone && b.occ.named.isNone && a.holder == b.holder && (dir a b || dir b a)

/-- F-C13-7: the same two names, but the sibling member `H.p` holds an inline union with a MAPPED discriminator: the
tag-dispatching enum is emitted under the contested name `H` + Pascal(`p`) (the renaming of a registration that lost
the name, `apply_name_to_type`, does not reach it) while the member is typed with the fresh name `…2`, which nothing
defines; the array's item type of that name is dropped -/
def nameClashDisc (a b : OccIn) : Bool :=
  let dir (it pr : OccIn) : Bool :=
    it.single.isSome && pr.single.isNone && it.single == some pr.prop && pr.occ.kind == .union &&
    (unionOf pr.schema).mapped && pr.occ.refs.length ≥ 2 && it.occ.canon != pr.occ.canon
  a.occ.named.isNone && b.occ.named.isNone && a.holder == b.holder && (dir a b || dir b a)

/-- reflexive-transitive closure of a pair relation on `0..n`, as component labels -/
def components (n : Nat) (rel : Nat → Nat → Bool) : List Nat :=
  let step (lab : List Nat) : List Nat :=
    (List.range n).map fun i => ((List.range n).filter fun k => rel i k || rel k i || i == k).foldl (fun m k => min m (lab.getD k k)) (lab.getD i i)
  (List.range n).foldl (fun lab _ => step lab) (List.range n)

def tokJson : Tok → Json
  | .named n => Json.mkObj [("named", str n)]
  | .enumK k => Json.mkObj [("enum", strsJson k)]
  | .unionK r d => Json.mkObj [("union", strsJson r), ("disc", optStr d)]
  | .canonK c => Json.mkObj [("canon", str c)]

/-- equality pattern of a list, as the list of (i,k) pairs with equal entries -/
def eqPattern {α} [BEq α] (l : List α) : List (Nat × Nat) :=
  (idxPairs l.length).filter fun (i, k) => match l[i]?, l[k]? with | some a, some b => a == b | _, _ => false

def patJson (p : List (Nat × Nat)) : Json := Json.arr (p.map fun (i, k) => Json.arr #[(i : Json), (k : Json)]).toArray

def namedSorted (os : List OccIn) : List Occ :=
  let ns := os.filterMap fun o => o.occ.named.map fun n => (n, o.occ)
  (sortKV (ns.map fun (n, _) => (n, J.null))).filterMap fun (n, _) => ns.lookup n

def classesFor (a b : Json) (tagged : List (List Char) := []) : List String :=
  match kindOf a, kindOf b with
  | .enum, .enum =>
    match (arrD a "enum").mapM jvOf, (arrD b "enum").mapM jvOf with
    | .ok va, .ok vb => if enumKey va == enumKey vb && KnownNonStringEnum va vb && !sameMembers (wireVals va) (wireVals vb) then ["KnownNonStringEnum"] else []
    | _, _ => []
  | .union, .union =>
    let ua := unionOf a tagged; let ub := unionOf b tagged
    if !shareNamedU ua ub then [] else
    (if KnownUnionVariantOrder ua ub then ["KnownUnionVariantOrder"] else []) ++
    (if KnownUnionExtraInline ua ub then ["KnownUnionExtraInline"] else []) ++
    (if KnownUnionDiscriminator ua ub then ["KnownUnionDiscriminator"] else [])
  | _, _ => []

def siteField (run : Json) (i : Nat) (k : String) : Json :=
  match run.getObjVal? "sites" with
  | .ok (.arr a) => match a[i]? with | some s => fieldD s k Json.null | none => Json.null
  | _ => Json.null

def baseOf (run : Json) (i : Nat) : Json :=
  match siteField run i "base" with
  | .arr a => (a[0]?).getD Json.null
  | _ => Json.null

def shareSitesH : Handler := fun req => do
  let inp ← field req "in"
  let impl ← field req "impl"
  let occsJ ← arr (← field inp "occs")
  let occs ← occsJ.mapM occOf
  let taggedRefs : List (List Char) := ((arr (fieldD inp "tagged_refs" (Json.arr #[]))).toOption.getD []).filterMap fun x => x.getStr?.toOption.map String.toList
  let n := occs.length
  let extra ← match fieldD inp "extra" Json.null with
    | .null => pure none
    | x => do
      let o ← occOf (Json.mkObj [("site", Json.mkObj [("kind", "named"), ("name", ← field x "name")]), ("schema", ← field x "schema"), ("value", ← field x "value")])
      pure (some o)
  -- model: identity tokens in the combined spec and in the spec with the extra schema
  let named := namedSorted occs
  let toks := occs.map fun o => token named o.occ
  let occsP := match extra with | some x => occs ++ [x] | none => occs
  let namedP := namedSorted occsP
  let toksP := occs.map fun o => token namedP o.occ
  let combined ← field impl "combined"
  let plus := fieldD impl "plus" Json.null
  let alone ← arr (← field impl "alone")
  let implBases := (List.range n).map fun i => baseOf combined i
  let implBasesP := (List.range n).map fun i => baseOf plus i
  let mPat := eqPattern toks
  let iPat := eqPattern implBases
  let mPatP := if extra.isSome then eqPattern toksP else []
  let iPatP := if extra.isSome then eqPattern implBasesP else []
  -- extra: which sites the model says move onto the extra schema's type
  let mOnX := match extra with
    | some x => (List.range n).filter fun i => toksP[i]? == some (Tok.named (x.occ.named.getD []))
    | none => []
  let iOnX := match extra with
    | some x => (List.range n).filter fun i => baseOf plus i == str (x.occ.named.getD [])
    | none => []
  let model := Json.mkObj [("share", patJson mPat), ("share_plus", patJson mPatP), ("on_extra", Json.arr (mOnX.map fun (i : Nat) => (i : Json)).toArray)]
  let implView := Json.mkObj [("share", patJson iPat), ("share_plus", patJson iPatP), ("on_extra", Json.arr (iOnX.map fun (i : Nat) => (i : Json)).toArray)]
  -- F13-6 name clash: which of the clashing types wins depends on generation order and on the pre-scan's choice of
  -- name, which the token model does not carry: with a clash pair present the implementation's pattern has to lie
  -- between the token pattern and its closure under the clash pairs
  let clashDisc (i k : Nat) : Bool := match occs[i]?, occs[k]? with | some a, some b => nameClashDisc a b | _, _ => false
  let clash (i k : Nat) : Bool := clashDisc i k || match occs[i]?, occs[k]? with | some a, some b => nameClash a b | _, _ => false
  let hasClash := (idxPairs n).any fun (i, k) => clash i k
  let between (tk : List Tok) (ip : List (Nat × Nat)) : Bool :=
    let lab := components n fun i k => clash i k || (match tk[i]?, tk[k]? with | some a, some b => a == b | _, _ => false)
    let mp := eqPattern tk
    mp.all (fun p => ip.contains p) && ip.all fun (i, k) => lab[i]? == lab[k]?
  let matchView := model == implView || (hasClash && mOnX == iOnX && between toks iPat && (extra.isNone || between toksP iPatP))
  /- a site is touched by the clash when its token class contains a member of a clash pair -/
  let touched (tk : List Tok) (i : Nat) : Bool :=
    (List.range n).any fun j => (tk[j]? == tk[i]?) && (List.range n).any fun k => clash j k || clash k j
  let touchedDisc (tk : List Tok) (i : Nat) : Bool :=
    (List.range n).any fun j => (tk[j]? == tk[i]?) && (List.range n).any fun k => clashDisc j k || clashDisc k j
  let clashClass (tk : List Tok) (i : Nat) : String := if touchedDisc tk i then "KnownInlineDiscUnionNameClash" else "KnownInlineEnumNameClash"
  let siteErr (run : Json) (i : Nat) : Bool := match run.getObjVal? "sites" with
    | .ok (.arr a) => match a[i]? with | some s => (s.getObjVal? "err").toOption.isSome | none => true
    | _ => true
  let errs := (if (combined.getObjVal? "err").toOption.isSome then ["combined run failed"] else []) ++
    (alone.filter fun a => (a.getObjVal? "err").toOption.isSome).map (fun _ => "stand-alone run failed") ++
    ((List.range n).filter fun i => siteErr combined i).map (fun i => s!"site {i} not observed in the combined run")
  -- judge: de-duplication never changes the wire shape of a use site: in the combined spec, and in the
  -- spec with the extra (unrelated) component, every site expands as in its stand-alone spec
  let mut bad : List String := []
  let mut known : List String := []
  let mut attributed := 0
  let runs : List (String × Json × List OccIn × List Occ × List Tok) :=
    [("combined", combined, occs, named, toks)] ++ (if extra.isSome then [("with the extra schema", plus, occsP, namedP, toksP)] else [])
  for (label, run, occsR, namedR, toksR) in runs do
    for i in List.range n do
      let wr := siteField run i "w"
      let wa := match alone[i]? with | some a => fieldD a "w" Json.null | none => Json.null
      if wr.compress != wa.compress then
        bad := s!"site {i} ({label}): wire shape differs from the stand-alone one" :: bad
        -- attribute to a class only through the occurrence the MODEL says it shares with
        let rep := match toksR[i]? with | some t => representative namedR (occsR.map (·.occ)) t | none => none
        match rep, occs[i]? with
        | some r, some oi =>
          match occsR[r]? with
          | some orp =>
            let cs := if r != i then classesFor oi.schema orp.schema taggedRefs else []
            -- F-C13-8: the site is a titled type-less schema and the model's representative is the component of that name
            let cs := if r != i && oi.occ.title.isSome && oi.occ.title == orp.occ.named then ["KnownTitleCapture"] else cs
            let cs := if cs.isEmpty && touched toksR i then [clashClass toksR i] else cs
            if !cs.isEmpty then attributed := attributed + 1; known := cs ++ known
          | none => if touched toksR i then attributed := attributed + 1; known := clashClass toksR i :: known
        | _, _ => if touched toksR i then attributed := attributed + 1; known := clashClass toksR i :: known
  let ok := bad.isEmpty && errs.isEmpty
  let judge := verdict ok (if !errs.isEmpty then [] else if bad.length == attributed then known.eraseDups else []) (String.intercalate "; " (errs ++ bad))
  let branch := if !bad.isEmpty then "unsound-share" else if !mPat.isEmpty || !mOnX.isEmpty then "share" else "distinct"
  pure (Json.mkObj [("model", model), ("match", matchView), ("judge", judge), ("branch", Json.str branch), ("impl_view", implView),
    ("tokens", Json.arr (toks.map tokJson).toArray)])

/-! #### share.resp (response enums merged by signature) -/

open Oas3.Resp Oas3.Status in
def mediaDeclOf (j : Json) : Except String MediaDecl := do
  match j with
  | .arr #[ct, sch] =>
    let ct ← chars ct
    match sch with
    | .null => pure { ct, schema := none }
    | .str "string" => pure { ct, schema := some "String".toList, stringLike := true }
    | .str "integer" => pure { ct, schema := some "i64".toList }
    | .str "boolean" => pure { ct, schema := some "bool".toList }
    | .str s => if s.startsWith "ref:" then pure { ct, schema := some (s.drop 4).toString.toList, custom := true } else throw "media kind"
    | _ => throw "media kind"
  | _ => throw "media shape"

open Oas3.Resp Oas3.Status in
def respOf (j : Json) : Except String (List (List Char × List MediaDecl)) := do
  (← arr j).mapM fun r => match r with
    | .arr #[k, ms] => do pure ((← chars k), ← (← arr ms).mapM mediaDeclOf)
    | _ => throw "response shape"

open Oas3.Resp Oas3.Status in
/-- `compute_signature`: (status token, variant name, sorted (category, payload type)) per variant, sorted;
compared as multisets -/
def signatureOf (rs : List (List Char × List MediaDecl)) : List (List Char × List Char × List (List Char)) :=
  (variantsOf rs).map fun v =>
    (asStr v.tok, v.name, sortStrs (v.medias.map fun m => (reprStr m.cat).toList ++ ':' :: (m.schema.getD "None".toList)))

def sameSig (a b : List (List Char × List Char × List (List Char))) : Bool := a.isPerm b

def shareRespH : Handler := fun req => do
  let inp ← field req "in"
  let impl ← field req "impl"
  let rs ← (← arr (← field inp "ops")).mapM fun o => do respOf (← field o "responses")
  let sigs := rs.map signatureOf
  let n := rs.length
  let mShare := (idxPairs n).filter fun (i, k) => match sigs[i]?, sigs[k]? with | some a, some b => sameSig a b | _, _ => false
  let combined ← field impl "combined"
  let alone ← arr (← field impl "alone")
  let opsC := match combined.getObjVal? "ops" with | .ok (.arr a) => a.toList | _ => []
  let enums := opsC.map fun o => fieldD o "enum" Json.null
  let iShare := eqPattern enums
  let mut bad : List String := []
  for i in List.range n do
    match opsC[i]?, alone[i]? with
    | some c, some a =>
      if (fieldD c "chain" Json.null).compress != (fieldD a "chain" Json.null).compress then
        bad := s!"operation {i}: parse_response dispatch differs from the stand-alone one" :: bad
      if (fieldD c "w" Json.null).compress != (fieldD a "w" Json.null).compress then
        bad := s!"operation {i}: response enum payloads differ from the stand-alone ones" :: bad
    | _, _ => bad := s!"operation {i}: not observed" :: bad
  let model := Json.mkObj [("share", patJson mShare)]
  let implView := Json.mkObj [("share", patJson iShare)]
  pure (Json.mkObj [("model", model), ("match", model == implView), ("judge", verdict bad.isEmpty [] (String.intercalate "; " bad)),
    ("branch", Json.str (if mShare.isEmpty then "distinct" else "share")), ("impl_view", implView)])

def ops : List (String × Handler) := [
  ("cache.canon", canonH), ("cache.canon_perm", canonPermH), ("cache.enum_key", enumKeyH), ("cache.union_fp", unionFpH), ("cache.script", scriptH),
  ("share.sites", shareSitesH), ("share.resp", shareRespH)
]

end Oas3.Driver.Cache
