import Oas3Model.Driver.Util
import Oas3Model.Sem.Discr
open Lean Oas3.Driver Oas3.Discr

/-! Driver op `disc.run` (property C14): reads the SAME OpenAPI document the implementation was
given, abstracts it to `Oas3.Discr.Spec`, runs the model `F`, projects the implementation's facts to
the same `Facts` structure, compares, and evaluates the judge on the IMPLEMENTATION's facts. -/
namespace Oas3.Driver.Discr

def objList (j : Json) : List (String × Json) :=
  match j with | .obj m => m.toList | _ => []

def refName (j : Json) : Option Str :=
  match j.getObjVal? "$ref" with
  | .ok (.str r) =>
    let pre := "#/components/schemas/"
    if r.startsWith pre then some (r.drop pre.length).toString.toList else none
  | _ => none

def strArr (j : Json) : List Str :=
  match j with | .arr a => a.toList.filterMap (fun x => match x with | .str s => some s.toList | _ => none) | _ => []

partial def pinfoOf (schemas : Json) (j : Json) (depth : Nat := 3) : PInfo :=
  match refName j with
  | some n =>
    let tgt := fieldD schemas (String.ofList n) Json.null
    let inner := if depth = 0 then ({} : PInfo) else pinfoOf schemas tgt (depth - 1)
    { inner with ref := some n }
  | none =>
    { ref := none,
      const := (match j.getObjVal? "const" with | .ok (.str s) => some s.toList | _ => none),
      enumVals := strArr (fieldD j "enum" (Json.arr #[])) }

def propsOf (schemas : Json) (j : Json) : List (Str × PInfo) :=
  mkMap ((objList (fieldD j "properties" Json.null)).map (fun (k, v) => (k.toList, pinfoOf schemas v)))

def denyOf (j : Json) : Bool := match j.getObjVal? "additionalProperties" with | .ok (.bool false) => true | _ => false

def refsOf (j : Json) : List Str :=
  match j with | .arr a => a.toList.filterMap refName | _ => []

def discOf (j : Json) : Option Disc :=
  match j.getObjVal? "discriminator" with
  | .ok d =>
    match d.getObjVal? "propertyName" with
    | .ok (.str p) =>
      let mapping := match d.getObjVal? "mapping" with
        | .ok (.obj m) => some (mkMap (m.toList.filterMap (fun (k, v) => (refName (Json.mkObj [("$ref", v)])).map (fun n => (k.toList, n)))))
        | _ => none
      some { prop := p.toList, mapping }
    | _ => none
  | _ => none

def schOf (schemas : Json) (j : Json) : Sch :=
  { props := propsOf schemas j,
    oneOf := refsOf (fieldD j "oneOf" Json.null),
    anyOf := refsOf (fieldD j "anyOf" Json.null),
    allOf := (match fieldD j "allOf" Json.null with
      | .arr a => a.toList.map (fun p => match refName p with | some n => Part.ref n | none => Part.inl (propsOf schemas p) (denyOf p))
      | _ => []),
    disc := discOf j,
    deny := denyOf j }

/-- every `$ref` to a component below `j` -/
partial def allRefs (j : Json) : List Str :=
  match j with
  | .obj m => (match refName j with | some n => [n] | none => []) ++ m.toList.flatMap (fun (_, v) => allRefs v)
  | .arr a => a.toList.flatMap allRefs
  | _ => []

def httpMethods : List String := ["get", "put", "post", "delete", "options", "head", "patch", "trace"]

def rootsOf (spec : Json) (only : Option (List String)) : List Str :=
  (objList (fieldD spec "paths" Json.null)).flatMap (fun (_, item) =>
    (objList item).flatMap (fun (m, op) =>
      if !httpMethods.contains m then [] else
      let id := match op.getObjVal? "operationId" with | .ok (.str s) => s | _ => ""
      match only with
      | some l => if l.contains id then allRefs op else []
      | none => allRefs op))

def specOf (inp : Json) : Except String Spec := do
  let spec ← field inp "spec"
  let schemasJ := fieldD (fieldD spec "components" Json.null) "schemas" Json.null
  let only : Option (List String) := match inp.getObjVal? "only" with
    | .ok (.arr a) => some (a.toList.filterMap (fun x => match x with | .str s => some s | _ => none))
    | _ => none
  let all := match (fieldD inp "cfg" Json.null).getObjVal? "all_schemas" with | .ok (.bool b) => b | _ => false
  pure { schemas := mkMap ((objList schemasJ).map (fun (k, v) => (k.toList, schOf schemasJ v))),
         roots := rootsOf spec only, all }

-- ------------------------------------------------------------------------------------------
-- Facts <-> JSON

def modeJson : FMode → Json
  | .fixed v => Json.mkObj [("fixed", str v)]
  | .skip => Json.str "skip"
  | .plain => Json.str "plain"

def pairJson (p : Str × Str) : Json := Json.arr #[str p.1, str p.2]

def enumJson (e : EnumF) : Json :=
  Json.mkObj [("name", str e.name), ("untagged", e.untagged), ("tag", str e.tag), ("arms", Json.arr (e.arms.map pairJson).toArray),
    ("fallback", optStr e.fallback), ("types", strList e.types)]

def sortBy {α : Type} (key : α → Str) (l : List α) : List α :=
  l.foldl (fun acc x =>
    let rec insert : List α → List α
      | [] => [x]
      | a :: r => if ltS (key x) (key a) then x :: a :: r else a :: insert r
    insert acc) []

/-- a `#[serde(skip)]` field loses its `rename` (`serde_attrs.clear()`), so only the Rust identifier is
visible in the emitted code; such fields are compared by their lower-cased alphanumeric characters -/
def normSkip (k : Str) : Str := (k.filter Char.isAlphanum).map Char.toLower

def structJson (s : StructF) : Json :=
  Json.mkObj [("name", str s.name), ("deny", s.deny), ("fields", Json.arr ((sortBy (·.1) (s.fields.map (fun f =>
    match f.2 with | .skip => (normSkip f.1, f.2) | _ => f))).map (fun f => Json.arr #[str f.1, modeJson f.2])).toArray)]

def factsJson (fx : Facts) : Json :=
  Json.mkObj [
    ("cache", Json.arr (fx.cache.map (fun e => Json.arr #[str e.1, str e.2.field, str e.2.value])).toArray),
    ("effective", Json.mkObj (fx.effective.map (fun e => (String.ofList e.1, match e.2 with | some m => Json.arr (m.map pairJson).toArray | none => Json.null)))),
    ("parents", Json.mkObj (fx.parents.map (fun e => (String.ofList e.1, str e.2)))),
    ("reach", match fx.reach with | some r => strList r | none => Json.null),
    ("enums", Json.arr ((sortBy (·.name) fx.enums).map enumJson).toArray),
    ("structs", Json.arr ((sortBy (·.name) fx.structs).map structJson).toArray)]

def unbox (t : String) : Str :=
  if t.startsWith "Box<" && t.endsWith ">" then ((t.drop 4).dropEnd 1).toString.toList else t.toList

def pairOf (j : Json) : Except String (Str × Str) :=
  match j with
  | .arr #[.str a, .str b] => pure (a.toList, b.toList)
  | _ => throw "pair"

/-- projection of the implementation's emitted facts; anything the projection cannot read faithfully
is turned into a value the model never produces (so that it shows up as a mismatch) -/
def implFacts (impl : Json) : Except String Facts := do
  let reg ← field impl "registry"
  let em ← field impl "emitted"
  let cache ← (← arr (← field reg "cache")).mapM (fun j => match j with
    | .arr #[.str a, .str b, .str c] => pure (a.toList, (⟨b.toList, c.toList⟩ : DM))
    | _ => throw "cache entry")
  let effective ← (objList (← field reg "effective")).mapM (fun (k, v) => do
    match v with
    | .null => pure (k.toList, none)
    | _ => pure (k.toList, some (← (← arr v).mapM pairOf)))
  let parents := (objList (← field reg "parents")).filterMap (fun (k, v) => match v with | .str s => some (k.toList, s.toList) | _ => none)
  let reach ← match ← field reg "reach" with
    | .null => pure none
    | r => pure (some (← charsList r))
  let enums ← (objList (← field em "enums")).mapM (fun (name, e) => do
    let variants ← (← arr (← field e "variants")).mapM (fun v => match v with
      | .arr #[.str vn, .str ty] => pure (vn.toList, unbox ty)
      | _ => throw "variant")
    let untagged ← boolOf (← field e "untagged")
    if untagged then
      pure ({ name := name.toList, untagged := true, tag := [], arms := [], fallback := none, types := variants.map (·.2) } : EnumF)
    else
      let de ← field e "de"
      let odd := (← arr (fieldD de "odd" (Json.arr #[]))).length
      let shapeOk := odd == 0 && fieldD de "other" Json.null == Json.str "err"
        && fieldD de "scrutinee" Json.null == Json.str "value.get(Self::DISCRIMINATOR_FIELD).and_then(|v|v.as_str())"
        && (match fieldD e "ser" Json.null with | .arr a => a.toList == variants.map (fun v => str v.1) | _ => false)
      let tyOf (vn : Str) : Str := (look vn variants).getD ("?unknown-variant".toList ++ vn)
      let arms ← (← arr (← field de "arms")).mapM (fun a => do let (t, vn) ← pairOf a; pure (t, tyOf vn))
      let fallback ← match ← field de "none" with
        | .str s => if s == "missing" then pure none
                    else if s.startsWith "fallback:" then pure (some (tyOf (s.drop 9).toString.toList))
                    else pure (some ("?odd-none-arm".toList))
        | _ => throw "none arm"
      let tag0 ← chars (← field e "tag")
      let dupNames := (variants.map (·.1)).any (fun n => ((variants.map (·.1)).filter (· == n)).length > 1)
      let tag := if !shapeOk then "?odd-shape".toList else if dupNames then "?duplicate-variant-names".toList else tag0
      pure { name := name.toList, untagged := false, tag, arms, fallback, types := variants.map (·.2) })
  let structs ← (objList (← field em "structs")).mapM (fun (name, s) => do
    let flags ← charsList (← field s "serde")
    let structDefault := flags.contains "default".toList
    let fields ← (← arr (← field s "fields")).mapM (fun f => do
      let wire ← chars (← field f "wire")
      let fl ← charsList (← field f "serde")
      let has (x : String) := fl.contains x.toList
      let mode : FMode :=
        if has "skip" then .skip
        else if has "skip_deserializing" then
          (match fieldD f "default" Json.null with
           | .str v => if has "default" && structDefault then .fixed v.toList else .fixed ("?no-default-attr".toList)
           | _ => .fixed ("?no-default-literal".toList))
        else if has "skip_serializing" then .fixed ("?skip_serializing".toList)
        else .plain
      pure (wire, mode))
    pure ({ name := name.toList, deny := flags.contains "deny_unknown_fields".toList, fields := mkMap fields } : StructF))
  pure { cache := mkMap cache, effective := mkMap effective, parents := mkMap parents, reach := reach.map mkSet, enums, structs }

def clauseStr : Clause → String
  | .emitted => "emitted" | .tagDispatch => "tag-dispatch" | .dispatch => "dispatch" | .accept => "accept"
  | .roundtrip => "roundtrip" | .member => "member" | .unmapped => "unmapped"

def knownStr : Known → String
  | .memberNotInMapping => "KnownMemberNotInMapping" | .tagLostOnDecode => "KnownTagLostOnDecode" | .sharedChild => "KnownSharedChildTag"
  | .unreachableChild => "KnownUnreachableChildDropped" | .denyUnknownTag => "KnownDenyUnknownTag"

def failureStr (f : Failure) : String :=
  s!"{clauseStr f.clause}[{String.ofList f.schema}: tag '{String.ofList f.tag}' -> {String.ofList f.target}]" ++
    (match f.known with | some k => "{" ++ knownStr k ++ "}" | none => "{UNCLASSIFIED}")

def run : Handler := fun req => do
  let inp ← field req "in"
  let impl ← field req "impl"
  let sp ← specOf inp
  let mf := F sp
  let modelJ := factsJson mf
  match impl.getObjVal? "registry" with
  | .error _ =>
    -- the generator refused the spec (or the emitted file does not parse): never predicted by the model
    pure (Json.mkObj [("model", modelJ), ("match", false), ("judge", verdict false [] s!"implementation produced no output: {impl.compress}"), ("branch", "impl-error")])
  | .ok _ =>
    let fx ← implFacts impl
    -- structs of operations (`…Request`) are not schema types
    let fx := { fx with structs := fx.structs.filter (fun s => !(String.ofList s.name).endsWith "Request"),
                        effective := fx.effective, parents := fx.parents }
    let implJ := factsJson fx
    let fails := judge sp fx
    let mfails := judge sp mf
    -- a failure is attributed to a known class only when the model exhibits exactly the same failures
    let known := if fails == mfails then (knownOf fails).map knownStr else []
    let why := String.intercalate "; " ((fails.take 6).map failureStr) ++ (if fails == mfails then "" else " [model predicts different failures]")
    let nd := (sp.schemas.filter (fun x => x.2.disc.isSome)).length
    let kinds := (sp.schemas.filter (fun x => x.2.disc.isSome)).map (fun x =>
      (if !(x.2.oneOf.isEmpty && x.2.anyOf.isEmpty) then (if x.2.oneOf.isEmpty then "a" else "o") else "b") ++
      (match x.2.disc with | some d => (if d.mapping.isSome then "E" else "I") | none => ""))
    let branch := if nd == 0 then "trivial" else
      String.intercalate "," kinds ++ (if sp.all then "+all" else "") ++ s!"|e{mf.enums.length}u{(mf.enums.filter (·.untagged)).length}f{fails.length}"
    -- Sem predictions on the implementation's facts, for the arena tie (thorough tier)
    let wantProbes := match inp.getObjVal? "want_probes" with | .ok (.bool true) => true | _ => false
    let probes : List Json := if !wantProbes then [] else
      let e := envOf sp
      (sp.schemas.filter (fun x => x.2.disc.isSome && isReach e.reach x.1)).flatMap (fun x =>
        match x.2.disc, intended sp.schemas x.2, findEnum fx x.1 with
        | some d, some m, some en =>
          if en.untagged then [] else
          let fuel := sp.schemas.length + 2
          let members := membersOf sp.schemas x.1 x.2
          let extra := ((allTags sp.schemas ++ [unmappedProbe]).filter (fun t => (look t m).isNone)).take 3
          let entries := m.map (fun y => (y.1, leafOf sp.schemas d.prop y.1 fuel y.2, permits e d.prop y.1 (leafOf sp.schemas d.prop y.1 fuel y.2)))
            ++ extra.map (fun t => (t, members.headD x.1, false))
          entries.filterMap (fun (t, leaf, valid) =>
            if (look leaf sp.schemas).isNone || isUnionSch sp.schemas leaf then none else
            let doc := validDoc e d.prop t leaf
            let r := decT fx fuel x.1 doc
            some (Json.mkObj [("ty", str x.1), ("prop", str d.prop), ("tag", str t), ("leaf", str leaf), ("valid", valid),
              ("accept", r.isSome), ("first", optStr (dispatch en t)),
              ("retag", match r with | some st => optStr (encodeTag st d.prop (some t)) | none => Json.null)]))
        | _, _, _ => [])
    pure (Json.mkObj [("model", modelJ), ("match", modelJ == implJ), ("impl_facts", implJ),
      ("judge", verdict fails.isEmpty known why), ("branch", branch), ("probes", Json.arr probes.toArray)])

def ops : List (String × Handler) := [("disc.run", run), ("disc.code", run)]

end Oas3.Driver.Discr
